#!/bin/bash
# seed_tests.sh <seed dir>...: for each seeded change, run the repository's own test suite on a scratch worktree with the change applied
# and print the failing test ids (to compare with the unchanged tree's).  The worktree is removed afterwards.
wt=/tmp/seedwt.$$
git -C /repo worktree add --detach -f $wt HEAD >/dev/null 2>&1 || exit 2
run() { (cd $wt && PYTHONPATH=$wt /venv/bin/python -m pytest -q -p no:cacheprovider --timeout=900 --continue-on-collection-errors 2>&1 | grep "^FAILED\|^ERROR\|passed\|failed" | sed 's/ - .*//' | sort | tr '\n' ' '); }
echo "BASE $(run)"
for d in "$@"; do d=$(readlink -f "$d")
  git -C $wt apply "$d/patch.diff" || { echo "$d: patch does not apply"; continue; }
  echo "$(basename $d) $(run)"
  git -C $wt checkout -- . ; git -C $wt clean -fdq
done
git -C /repo worktree remove --force $wt
