"""C02 -- Clifford rotation by a Pauli generator is conjugation by exp(i*pi/4*G)."""
import numpy as np
from vlib import gen, dense as D
from vlib.run import corr, do, impl, opt
from vlib import impl_np as NP

RULE = ('(generator, operand list, optional mask): exhaustive over all Hermitian generators x all operands x all masks for N<=2, random '
        'N<=6 with masks of every size; sequences of rotations; rotation maps; states; both backends. Non-trivial = the generator '
        'anticommutes with at least one operand that carries phase i/-i or the rotation is masked; distinct by (backend,check,input).')
ASSUMES = ['generators are Hermitian (phase 0 or 2) as the docstring of clifford_rotate requires', 'bits 0/1, phases 0..3']


def lift(genp, mask, N):
    if mask is None:
        return genp
    g = [0] * (2 * N)
    k = 0
    for i, b in enumerate(mask):
        if b:
            g[2 * i], g[2 * i + 1] = genp[0][2 * k], genp[0][2 * k + 1]
            k += 1
    return [g, genp[1]]


def c_rot_corr(ctx, args):
    be, g, mask, l = args[:4]
    NP.set_layout(args[4] if len(args) > 4 else 'c')
    try:
        return corr(ctx, be, 'rotate', [g, opt(mask), l], [g, mask, l])
    finally:
        NP.set_layout('c')


def c_rot_dense(ctx, args):
    be, g, mask, l = args[:4]
    N = len(l[0][0]) // 2
    NP.set_layout(args[4] if len(args) > 4 else 'c')
    try:
        return _rot_dense(ctx, be, g, mask, l, N)
    finally:
        NP.set_layout('c')


def _rot_dense(ctx, be, g, mask, l, N):
    got = impl(be).OPS['rotate'](g, mask, l)
    G = lift(g, mask, N)
    U = D.rot_unitary(*G)
    for a, r in zip(l, got if isinstance(got, list) else []):
        if not np.allclose(D.op(*r), U.conj().T @ D.op(*a) @ U):
            return {'kind': 'oracle', 'where': be + ':rotate_by', 'observed': r, 'expected': 'U^dagger P U', 'operand': a}
    if not isinstance(got, list):
        return {'kind': 'oracle', 'where': be + ':rotate_by', 'observed': repr(got), 'expected': 'a result'}
    # rotating back by -G restores, four rotations restore
    neg = [g[0], (g[1] + 2) % 4]
    back = impl(be).OPS['rotate'](neg, mask, got)
    if back != [[a[0], a[1] % 4] for a in l]:
        return {'kind': 'oracle', 'where': be + ':rotate_by(-G) after rotate_by(G)', 'observed': back, 'expected': l}
    cur = l
    for _ in range(4):
        cur = impl(be).OPS['rotate'](g, mask, cur)
    if cur != [[a[0], a[1] % 4] for a in l]:
        return {'kind': 'oracle', 'where': be + ':four rotations', 'observed': cur, 'expected': l}
    return None


def c_seq_corr(ctx, args):
    be, gms, l = args
    return corr(ctx, be, 'rotate_seq', [[[g, opt(m)] for g, m in gms], l], [gms, l])


def c_map_corr(ctx, args):
    be, g = args
    return corr(ctx, be, 'rotation_map', [g])


def c_map_acts(ctx, args):
    """the map built from a generator acts identically to the rotation itself (through the implementation)"""
    be, g, l = args
    m = impl(be).OPS['rotation_map'](g)
    a = impl(be).OPS['transform'](m, None, l)
    b = impl(be).OPS['rotate'](g, None, l)
    if a != b:
        return {'kind': 'oracle', 'where': be + ':clifford_rotation_map vs rotate_by', 'observed': a, 'expected': b}
    return None


def c_state_corr(ctx, args):
    be, g, mask, t = args
    return corr(ctx, be, 'state_rotate', [g, opt(mask), t], [g, mask, t])


def c_single(ctx, args):
    """rotate_by on a single Pauli / PauliMonomial object (their own wrappers) agrees with the one-row list, masked or not, for both generator signs"""
    be, g, mask, a, form = args
    if be == 'np':
        import vlib.impl_np as M, pyclifford as lib
    else:
        import vlib.impl_torch as M, torchclifford as lib
    ref = impl(be).OPS['rotate'](g, mask, [a])
    if not isinstance(ref, list):
        return None
    try:
        o = M.P(a)
        if form == 'mono':
            if not hasattr(o, 'as_monomial'):
                return None
            o = o.as_monomial().set_c(2.5 - 1.5j)          # a monomial carries a coefficient: an in-place update of the operator must leave it alone
        r = o.rotate_by(M.P(g), mask=M.optmask(mask))
        r = r if r is not None else o
        got = M.oP(r)
    except Exception as e:
        return {'kind': 'oracle', 'where': '%s:%s.rotate_by raised %s' % (be, form, type(e).__name__), 'observed': str(e)[:100], 'expected': ref[0]}
    if [got[0], got[1] % 4] != [ref[0][0], ref[0][1] % 4]:
        return {'kind': 'oracle', 'where': '%s:rotate_by on a single %s differs from the one-row list' % (be, form), 'observed': got, 'expected': ref[0], 'tags': ['single_object', be]}
    if form == 'mono' and (complex(r.c) != 2.5 - 1.5j or complex(o.c) != 2.5 - 1.5j):
        return {'kind': 'oracle', 'where': '%s:rotate_by on a monomial changed its coefficient' % be, 'observed': [complex(r.c).real, complex(r.c).imag], 'expected': [2.5, -1.5], 'tags': ['single_object', 'coefficient', be]}
    return None


def c_poly_small(ctx, args):
    """every term of a polynomial is rotated, whatever its coefficient: strings and phases as for the list of its terms, coefficients untouched -- in tiny units and with exact zeros too"""
    be, g, mask, terms = args          # terms [[str, phase, [re, im]], ...]
    N = len(terms[0][0]) // 2
    if be == 'np':
        import vlib.impl_np as M, pyclifford as lib
        poly = lib.PauliPolynomial(M.GS([t[0] for t in terms], 2 * N), np.array([t[1] for t in terms], dtype=np.int_)).set_cs(np.array([complex(*t[2]) for t in terms]))
    else:
        import torch, vlib.impl_torch as M, torchclifford as lib
        poly = lib.paulialg.PauliPolynomial(M.GS([t[0] for t in terms], 2 * N), M.PS([t[1] for t in terms])).set_cs(torch.tensor([complex(*t[2]) for t in terms], dtype=torch.complex128))
    ref = impl(be).OPS['rotate'](g, mask, [[t[0], t[1]] for t in terms])
    r = poly.rotate_by(M.P(g), mask=M.optmask(mask))
    r = r if r is not None else poly
    got = [[[int(v) for v in gg], int(round(float(p))) % 4] for gg, p in zip(r.gs, r.ps)]
    cs = [complex(c) for c in r.cs]
    if got != [[x[0], x[1] % 4] for x in ref] or cs != [complex(*t[2]) for t in terms]:
        return {'kind': 'oracle', 'where': '%s:rotate_by on a polynomial with small coefficients differs from the rotation of its terms' % be, 'observed': [got, [[c.real, c.imag] for c in cs]], 'expected': [ref, [t[2] for t in terms]], 'tags': ['poly_small', be]}
    return None


CHECKS = {'poly_small': c_poly_small, 'single': c_single, 'rot_corr': c_rot_corr, 'rot_dense': c_rot_dense, 'seq_corr': c_seq_corr, 'map_corr': c_map_corr,
          'map_acts': c_map_acts, 'state_corr': c_state_corr, 'ctor_fresh': __import__('props.C17', fromlist=['c_ctor_fresh']).c_ctor_fresh}


def run(ctx):
    ctx.checks = CHECKS
    rng, B = ctx.rng, ctx.budget
    backends = ['np', 'torch']
    # exhaustive N<=2 (np); torch sampled
    for N in (1, 2):
        ops = gen.all_paulis(N)
        for n in range(1, N + 1):
            gens = [[g, p] for g in gen.all_strings(n) for p in (0, 2)]
            masks = [None] if n == N else [m for m in ([1, 0], [0, 1])]
            for g in gens:
                for mask in masks:
                    nt = ('x', N, str(g), str(mask))
                    do(ctx, 'rot_corr', ['np', g, mask, ops], nontrivial=nt, sample=(N == 2 and mask is not None))
                    if rng.random() < 0.5 or ctx.search:
                        do(ctx, 'rot_dense', ['np', g, mask, ops])
                    if rng.random() < 0.15:
                        do(ctx, 'rot_corr', ['torch', g, mask, ops], nontrivial=('t',) + nt)
                        do(ctx, 'rot_dense', ['torch', g, mask, ops])
    ctx.res.exhaustive = True
    for _ in range(int(700 * B)):
        N = rng.randint(1, 6)
        n = rng.randint(1, N)
        mask = None if (n == N and rng.random() < 0.7) else gen.rmask(rng, N, n)[0]
        g = gen.rpauli(rng, n, herm=True)
        l = gen.rplist(rng, N, rng.randint(1, 5))
        be = rng.choice(backends)
        lay = rng.choice(['c', 'c', 'strided', 'fortran', 'colslice']) if be == 'np' else 'c'
        do(ctx, 'rot_corr', [be, g, mask, l, lay], nontrivial=(be, str(g), str(mask), str(l)), sample=True)
        if N <= 4:
            do(ctx, 'rot_dense', [be, g, mask, l, lay])
        ctx.res.count('layout_' + lay)
        ctx.res.count('N%d_masked%d' % (N, mask is not None))
    # LONG lists: more rows / terms / pairs than any block, chunk or vector width (255, 256, 257, 300, 1025 rows; 65 x 65 and 40 x 130 term pairs)
    for L in gen.LONG:
        for be in backends:
            N = rng.randint(1, 4)
            n = rng.randint(1, N)
            mask = None if n == N else gen.rmask(rng, N, n)[0]
            do(ctx, 'rot_corr', [be, gen.rpauli(rng, n, herm=True, nonzero=True), mask, gen.rplist(rng, N, L)], nontrivial=('long', be, L))
    for L in gen.LONG2:
        for be in backends:
            N = rng.randint(1, 3)
            do(ctx, 'rot_corr', [be, gen.rpauli(rng, N, herm=True, nonzero=True), None, gen.rplist(rng, N, L)], nontrivial=('long2', be, L))
    for it in range(int(40 * B)):
        N = rng.randint(1, 4)
        n = rng.randint(1, N)
        mask = None if n == N else gen.rmask(rng, N, n)[0]
        unit = rng.choice([2.0 ** -40, 2.0 ** -50, 2.0 ** -24, 1.0])
        terms = [[gen.rstr(rng, N), rng.randint(0, 3), [rng.choice([1, -1, 2, 0, 0.5]) * unit, rng.choice([0, 0, 1]) * unit]] for _ in range(rng.randint(1, 5))]
        do(ctx, 'poly_small', [backends[it % 2], gen.rpauli(rng, n, herm=True, nonzero=True), mask, terms], nontrivial=('ps', it))
    # SPARSE generators on wide registers, unmasked, either sign
    for N in gen.BIG:
        for be in backends:
            g = gen.rsparse(rng, N, rng.randint(1, 2))
            sup = [q for q in range(N) if g[0][2 * q] or g[0][2 * q + 1]]
            l = [gen.rsparse(rng, N, rng.randint(1, 3), herm=False, pool=sup + [0, N - 1]) for _ in range(4)] + gen.rplist(rng, N, 2)
            do(ctx, 'rot_corr', [be, g, None, l], nontrivial=('sparse', be, N))
            do(ctx, 'single', [be, g, None, l[0], 'pauli'], nontrivial=('sparse1', be, N))
            do(ctx, 'map_corr', [be, g], nontrivial=('sparsem', be, N))
    # LARGE registers: byte, word and cache-line boundaries of every packed or vectorised representation (8, 9, 16, 17, 33, 64, 65 qubits); model correspondence only
    for N in gen.BIG:
        for be in backends:
            n = rng.choice([N, rng.randint(1, N)])
            mask = None if n == N else gen.rmask(rng, N, n)[0]
            do(ctx, 'rot_corr', [be, gen.rpauli(rng, n, herm=True, nonzero=True), mask, gen.rplist(rng, N, 4)], nontrivial=('big', be, N))
            g = gen.rpauli(rng, N, herm=True, nonzero=True)
            do(ctx, 'map_corr', [be, g], nontrivial=('bigm', be, N))
            do(ctx, 'map_acts', [be, g, gen.rplist(rng, N, 3)], nontrivial=('bigma', be, N))
    for _ in range(int(120 * B)):
        N = rng.randint(1, 5)
        gms = []
        for _ in range(rng.randint(2, 30 if ctx.tier == 'quick' else 200)):
            n = rng.randint(1, N)
            mask = None if n == N else gen.rmask(rng, N, n)[0]
            gms.append([gen.rpauli(rng, n, herm=True), mask])
        be = rng.choice(backends)
        do(ctx, 'seq_corr', [be, gms, gen.rplist(rng, N, 3)], nontrivial=(be, str(gms)))
    for _ in range(int(150 * B)):
        N = rng.randint(1, 5)
        g = gen.rpauli(rng, N, herm=True)
        be = rng.choice(backends)
        do(ctx, 'map_corr', [be, g], nontrivial=(be, 'm', str(g)))
        do(ctx, 'map_acts', [be, g, gen.rplist(rng, N, 4)])
    for _ in range(int(150 * B)):
        N = rng.randint(1, 5)
        n = rng.randint(1, N)
        mask = None if n == N else gen.rmask(rng, N, n)[0]
        t = gen.rtableau(rng, ctx.model, N)
        be = rng.choice(backends)
        do(ctx, 'state_corr', [be, gen.rpauli(rng, n, herm=True), mask, t], nontrivial=(be, 's', str(t)))
    # clifford_rotation_map must hand out a fresh table every time (its users rotate / transform maps in place)
    for be in ('np', 'torch'):
        for _ in range(max(6, int(6 * B))):
            do(ctx, 'ctor_fresh', [be, 'rotation_map', rng.randint(1, 4), rng.randrange(10 ** 6)], nontrivial=('cf', be, ctx.res.evaluations))
    for _ in range(int(200 * B)):
        N = rng.randint(1, 5)
        k = rng.randint(1, N)
        mask = None if k == N else gen.rmask(rng, N, k)[0]
        do(ctx, 'single', [rng.choice(['np', 'np', 'torch']), gen.rpauli(rng, k, herm=True, nonzero=True), mask, gen.rpauli(rng, N), rng.choice(['pauli', 'mono'])],
           nontrivial=('sg', ctx.res.evaluations))
