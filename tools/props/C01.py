"""C01 -- Pauli multiplication is exact (strings, phases, commutation)."""
import numpy as np
from vlib import gen, dense as D
from vlib.run import corr, do, impl
from vlib import impl_np as NP

RULE = ('pairs (a,b) of Pauli operators with all four phases: exhaustive for N=1,2 (and N=3 in thorough), random N<=8; '
        'chains of successive products; batch products; both backends. A case is non-trivial when both operands are '
        'non-identity strings and at least one carries phase i or -i; distinct = distinct (backend,check,input).')
ASSUMES = ['entries of g are 0/1 and phases are integers 0..3 (the domain of the property)',
           'numba/torch execute the kernels as written']


def _nt(a, b):
    return any(a[0]) and any(b[0]) and (a[1] % 2 == 1 or b[1] % 2 == 1)


def c_pmul_corr(ctx, args):
    backend, a, b = args
    return corr(ctx, backend, 'pmul', [a, b]) or corr(ctx, backend, 'acq', [a[0], b[0]]) or corr(ctx, backend, 'ipow', [a[0], b[0]])


def c_pmul_dense(ctx, args):
    """independent oracle: the returned product is the matrix product; acq is 1 iff the matrices anticommute"""
    backend, a, b = args
    got = impl(backend).OPS['pmul'](a, b)
    A, B = D.op(*a), D.op(*b)
    if not (isinstance(got, list) and np.allclose(D.op(*got), A @ B) and 0 <= got[1] < 4):
        return {'kind': 'oracle', 'where': backend + ':Pauli.__matmul__', 'observed': got, 'expected': 'matrix product of the operands'}
    q = impl(backend).OPS['acq'](a[0], b[0])
    anti = np.allclose(A @ B, -B @ A)
    comm = np.allclose(A @ B, B @ A)
    if not ((q == 1 and anti) or (q == 0 and comm)):
        return {'kind': 'oracle', 'where': backend + ':acq', 'observed': q, 'expected': 1 if anti else 0}
    return None


def c_chain_corr(ctx, args):
    backend, l = args
    return corr(ctx, backend, 'pmul_chain', [l])


def c_chain_dense(ctx, args):
    backend, l = args
    got = impl(backend).OPS['pmul_chain'](l)
    m = D.op(*l[0])
    for x in l[1:]:
        m = m @ D.op(*x)
    if not (isinstance(got, list) and np.allclose(D.op(*got), m) and 0 <= got[1] < 4):
        return {'kind': 'oracle', 'where': backend + ':chain of products', 'observed': got, 'expected': 'matrix product of the chain'}
    # associativity: right-nested product through the implementation
    acc = l[-1]
    for x in reversed(l[:-1]):
        acc = impl(backend).OPS['pmul'](x, acc)
    if acc != got:
        return {'kind': 'oracle', 'where': backend + ':associativity', 'observed': [got, acc], 'expected': 'equal'}
    return None


def c_batch_corr(ctx, args):
    backend, l1, l2 = args
    return corr(ctx, backend, 'batch_mul', [l1, l2]) or corr(ctx, backend, 'acq_mat', [[a[0] for a in l1 + l2]])


def c_batch_dense(ctx, args):
    backend, l1, l2 = args
    got = impl(backend).OPS['batch_mul'](l1, l2)
    want = [D.op(*a) @ D.op(*b) for a in l1 for b in l2]
    if not (isinstance(got, list) and len(got) == len(want) and all(np.allclose(D.op(*g), w) for g, w in zip(got, want))):
        return {'kind': 'oracle', 'where': backend + ':batch_dot', 'observed': got, 'expected': 'row-major list of matrix products'}
    return None


def c_square(ctx, args):
    backend, a = args
    got = impl(backend).OPS['pmul'](a, a)
    if not (isinstance(got, list) and not any(got[0]) and got[1] in (0, 2)):
        return {'kind': 'oracle', 'where': backend + ':square', 'observed': got, 'expected': '+-identity'}
    return None


def c_forms(ctx, args):
    """the product a @ b with each operand held as Pauli / PauliMonomial / PauliPolynomial (np): all nine combinations denote the same matrix product (dense oracle,
    and, without matrices, the product of the plain Paulis)"""
    a, b, fa, fb = args
    import pyclifford as pc, vlib.impl_np as NP
    def mk(x, f):
        # 'mono' / 'poly': phase in the phase indicator; 'monoc' / 'polyc': the same operator with the phase moved into the coefficient (c = i^p, p = 0);
        # 'mono2': coefficient 2 times the operator with coefficient 1/2 folded back below
        p = NP.P(x)
        if f == 'pauli':
            return p
        if f in ('mono', 'poly'):
            return p.as_monomial() if f == 'mono' else p.as_polynomial()
        q = pc.PauliMonomial(NP.G(x[0]), 0).set_c([1, 1j, -1, -1j][x[1] % 4])
        return q if f == 'monoc' else q.as_polynomial()
    try:
        r = mk(a, fa) @ mk(b, fb)
    except NotImplementedError:
        return None
    ref = NP.oP(NP.P(a) @ NP.P(b))
    if hasattr(r, 'cs'):
        terms = [([int(v) for v in g], complex(c) * (1j ** (int(ph) % 4))) for g, ph, c in zip(r.gs, r.ps, r.cs)]
    elif hasattr(r, 'c'):
        terms = [([int(v) for v in r.g], complex(r.c) * (1j ** (int(r.p) % 4)))]
    else:
        terms = [([int(v) for v in r.g], 1j ** (int(r.p) % 4))]
    want = (ref[0], 1j ** (ref[1] % 4))
    if len(terms) != 1 or terms[0][0] != want[0] or abs(terms[0][1] - want[1]) > 1e-12:
        return {'kind': 'oracle', 'where': 'np:%s @ %s differs from the product of the plain operators' % (fa, fb), 'observed': [[t[0], [t[1].real, t[1].imag]] for t in terms],
                'expected': [want[0], [want[1].real, want[1].imag]], 'tags': ['operand_forms', fa, fb]}
    n = len(a[0]) // 2
    if n <= 3:
        if not np.allclose(terms[0][1] * D.op(terms[0][0], 0), D.op(*a) @ D.op(*b)):
            return {'kind': 'oracle', 'where': 'np:%s @ %s vs dense product' % (fa, fb), 'observed': terms[0][0], 'expected': 'matrix product', 'tags': ['operand_forms']}
    return None


def c_op_history(ctx, args):
    """ONE operator object used (products, sums, casts, printing), updated in place, used again: see vlib.history.operator_history"""
    from vlib import history
    kind, n, seed, steps, be = args
    if be == 'torch' and kind == 'mono':
        return None
    return history.operator_history(ctx, kind, n, seed, steps, be)


def c_augassign(ctx, args):
    """the augmented forms  x @= b, x += b, x -= b, x *= c, x /= c  give what  x @ b, x + b, x - b, c * x, x / c  give (whether or not the class defines the in-place
    method), for every pairing of Pauli / monomial / polynomial operands, and leave the right operand alone"""
    import operator
    a, b, fa, fb, opn = args
    n = len(a[0]) // 2

    def mk(x, form):
        o = NP.P(x)
        if form == 'mono':
            return o.as_monomial().set_c(1.5 - 0.5j)
        if form == 'poly':
            return (o.as_polynomial() + NP.P([[0] * (2 * n), 2])) if n else o.as_polynomial()
        return o

    def canon(r):
        r = r.as_polynomial() if hasattr(r, 'as_polynomial') else r
        r = r.reduce() if hasattr(r, 'reduce') else r
        return sorted(([int(v) for v in g], round((complex(c) * 1j ** int(p)).real, 9), round((complex(c) * 1j ** int(p)).imag, 9)) for g, p, c in zip(r.gs, r.ps, r.cs))
    c = 2 - 1j
    try:
        if opn in ('matmul', 'add', 'sub'):
            f = {'matmul': operator.matmul, 'add': operator.add, 'sub': operator.sub}[opn]
            fi = {'matmul': operator.imatmul, 'add': operator.iadd, 'sub': operator.isub}[opn]
            want = canon(f(mk(a, fa), mk(b, fb)))
            x, y = mk(a, fa), mk(b, fb)
            y0 = canon(y)
            x = fi(x, y)
            got = canon(x)
            if canon(y) != y0:
                return {'kind': 'oracle', 'where': 'np:%s= changed its right operand' % opn, 'observed': canon(y), 'expected': y0, 'tags': ['augassign', opn]}
        else:
            want = canon(c * mk(a, fa)) if opn == 'mul' else canon(mk(a, fa) / c)
            x = mk(a, fa)
            x = operator.imul(x, c) if opn == 'mul' else operator.itruediv(x, c)
            got = canon(x)
    except (TypeError, NotImplementedError):
        return None                  # the binary form itself is not offered for this pairing
    if got != want:
        return {'kind': 'oracle', 'where': 'np:the augmented form of %s on %s, %s differs from the binary form' % (opn, fa, fb), 'observed': got, 'expected': want, 'tags': ['augassign', opn]}
    return None


def c_mono_inverse(ctx, args):
    """the inverse of a monomial c i^p sigma is the operator that multiplies it to the identity, on both sides -- every string, all four phases (i sigma squares to MINUS one), any coefficient"""
    a, c = args
    n = len(a[0]) // 2
    M = NP.P(a).as_monomial().set_c(complex(*c))
    try:
        inv = M.inverse()
        left, right = (inv @ M), (M @ inv)
    except Exception as e:
        return {'kind': 'oracle', 'where': 'np:PauliMonomial.inverse raised %s' % type(e).__name__, 'observed': str(e)[:100], 'expected': 'the inverse', 'tags': ['mono_inverse']}
    for nm, r in (('inverse @ M', left), ('M @ inverse', right)):
        r = r.as_polynomial() if hasattr(r, 'as_polynomial') else r
        tot = {}
        for g, p, cc in zip(r.gs, r.ps, r.cs):
            k = tuple(int(v) for v in g)
            tot[k] = tot.get(k, 0) + complex(cc) * 1j ** int(p)
        ident = tuple([0] * (2 * n))
        if abs(tot.get(ident, 0) - 1) > 1e-12 or any(abs(v) > 1e-12 for k, v in tot.items() if k != ident):
            return {'kind': 'oracle', 'where': 'np:%s is not the identity' % nm, 'observed': sorted((list(k), [v.real, v.imag]) for k, v in tot.items()), 'expected': 'identity', 'tags': ['mono_inverse']}
    return None


CHECKS = {'mono_inverse': c_mono_inverse, 'augassign': c_augassign, 'op_history': c_op_history, 'forms': c_forms, 'pmul_corr': c_pmul_corr, 'pmul_dense': c_pmul_dense, 'chain_corr': c_chain_corr, 'chain_dense': c_chain_dense,
          'batch_corr': c_batch_corr, 'batch_dense': c_batch_dense, 'square': c_square}


def run(ctx):
    ctx.checks = CHECKS
    rng, B = ctx.rng, ctx.budget
    backends = ['np', 'torch']
    # corpus of earlier findings / witnesses first
    corpus = [[[1, 1, 0, 1], 1], [[0, 1, 1, 1], 3]]
    for be in backends:
        do(ctx, 'pmul_corr', [be, corpus[0], corpus[1]], sample=True)
        do(ctx, 'pmul_dense', [be, corpus[0], corpus[1]])
    exh = [1, 2] if ctx.tier == 'quick' else [1, 2, 3]
    for n in exh:
        ps = gen.all_paulis(n)
        for be in backends:
            if be == 'torch' and n >= 2 and not ctx.search:
                pairs = [(rng.choice(ps), rng.choice(ps)) for _ in range(int(1500 * B))]
            elif n == 3:
                pairs = [(rng.choice(ps), rng.choice(ps)) for _ in range(int(20000 * B))] if be == 'torch' else [(a, b) for a in ps for b in ps]
            else:
                pairs = [(a, b) for a in ps for b in ps]
            for a, b in pairs:
                if not ctx.search:
                    do(ctx, 'pmul_corr', [be, a, b], nontrivial=('c', be, str(a), str(b)) if _nt(a, b) else None)
                if n <= 2 and (n == 1 or ctx.search or rng.random() < 0.25):
                    do(ctx, 'pmul_dense', [be, a, b], nontrivial=('d', be, str(a), str(b)) if _nt(a, b) else None)
            ctx.res.count('exhaustive_pairs_N%d_%s' % (n, be), len(pairs))
        for a in ps:
            for be in backends:
                do(ctx, 'square', [be, a])
    ctx.res.exhaustive = True
    for _ in range(int(1200 * B)):
        n = rng.randint(3, 8)
        a, b = gen.rpauli(rng, n), gen.rpauli(rng, n)
        be = rng.choice(backends)
        do(ctx, 'pmul_corr', [be, a, b], nontrivial=('c', be, str(a), str(b)) if _nt(a, b) else None, sample=True)
        if n <= 4:
            do(ctx, 'pmul_dense', [be, a, b])
        ctx.res.count('random_N%d' % n)
    # LONG lists: more rows / terms / pairs than any block, chunk or vector width (255, 256, 257, 300, 1025 rows; 65 x 65 and 40 x 130 term pairs)
    for (L1, L2) in ((65, 65), (40, 130), (257, 3), (2, 300)):
        for be in backends:
            n = rng.randint(2, 4)
            do(ctx, 'batch_corr', [be, gen.rplist(rng, n, L1), gen.rplist(rng, n, L2)], nontrivial=('long', be, L1, L2))
    for L in gen.LONG[:4]:
        for be in backends:
            do(ctx, 'chain_corr', [be, gen.rplist(rng, rng.randint(1, 4), L)], nontrivial=('longch', be, L))
    # LARGE registers: byte, word and cache-line boundaries of every packed or vectorised representation (8, 9, 16, 17, 33, 64, 65 qubits); model correspondence only
    for n in gen.BIG:
        for be in backends:
            a, b = gen.rpauli(rng, n), gen.rpauli(rng, n)
            do(ctx, 'pmul_corr', [be, a, b], nontrivial=('big', be, n))
            do(ctx, 'chain_corr', [be, gen.rplist(rng, n, rng.randint(3, 12))], nontrivial=('bigch', be, n))
            do(ctx, 'batch_corr', [be, gen.rplist(rng, n, 3), gen.rplist(rng, n, 2)], nontrivial=('bigb', be, n))
    for _ in range(int(150 * B)):
        n = rng.randint(1, 6)
        L = rng.randint(2, 40 if ctx.tier == 'quick' else 400)
        l = gen.rplist(rng, n, L)
        be = rng.choice(backends)
        do(ctx, 'chain_corr', [be, l], nontrivial=('ch', be, str(l)))
        if n <= 3:
            do(ctx, 'chain_dense', [be, l])
        ctx.res.count('chain_len_%d' % (10 * (L // 10)))
    for _ in range(int(120 * B)):
        n = rng.randint(1, 4)
        l1, l2 = gen.rplist(rng, n, rng.randint(1, 4)), gen.rplist(rng, n, rng.randint(1, 4))
        be = rng.choice(backends)
        do(ctx, 'batch_corr', [be, l1, l2], nontrivial=('b', be, str(l1), str(l2)))
        if n <= 3:
            do(ctx, 'batch_dense', [be, l1, l2])
    # operand forms: every combination of Pauli / monomial / polynomial on either side (all phases; anticommuting pairs are where an operand swap would show)
    forms = ['pauli', 'mono', 'poly', 'monoc', 'polyc']
    for a in gen.all_paulis(1):
        for b in gen.all_paulis(1):
            for fa in forms:
                for fb in forms:
                    do(ctx, 'forms', [a, b, fa, fb], nontrivial=('f', str(a), str(b), fa, fb))
    for _ in range(int(300 * B)):
        n = rng.randint(2, 5)
        do(ctx, 'forms', [gen.rpauli(rng, n), gen.rpauli(rng, n), rng.choice(forms), rng.choice(forms)], nontrivial=('f', ctx.res.evaluations))
    # one long-lived operator object: uses interleaved with in-place updates
    for it in range(int(60 * B)):
        kinds, bes = ['pauli', 'mono', 'poly'], ['np', 'np', 'torch']
        do(ctx, 'op_history', [kinds[it % len(kinds)], rng.randint(1, 3), rng.randrange(10 ** 6), rng.randint(4, 12), bes[(it // len(kinds)) % len(bes)]], nontrivial=('oph', it))
    # augmented assignment: x @= b etc. (all one-qubit pairs with phases for Pauli @= Pauli; sampled pairings otherwise)
    for a in gen.all_paulis(1):
        for b in gen.all_paulis(1):
            do(ctx, 'augassign', [a, b, 'pauli', 'pauli', 'matmul'], nontrivial=('ia', str(a), str(b)))
    for it in range(int(120 * B)):
        n = rng.randint(1, 4)
        do(ctx, 'augassign', [gen.rpauli(rng, n), gen.rpauli(rng, n), rng.choice(['pauli', 'mono', 'poly']), rng.choice(['pauli', 'mono', 'poly']), rng.choice(['matmul', 'matmul', 'add', 'sub', 'mul', 'div'])], nontrivial=('iar', it))
    for a in gen.all_paulis(1) + gen.all_paulis(2):
        do(ctx, 'mono_inverse', [a, rng.choice([[1, 0], [-1, 0], [2, 0], [0.5, -0.5], [0, 1], [3, -4]])], nontrivial=('mi', str(a)))
