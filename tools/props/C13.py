"""C13 -- torchclifford computes the same results as pyclifford (port equivalence)."""
import inspect
import numpy as np
from vlib import gen, states as S
from vlib.run import do, impl, opt, norm
from vlib.core import Err

RULE = ('every operation for which both adapters exist (the shared public and kernel-level surface, enumerated from the two packages; names without a counterpart are listed as unmatched) x '
        'random well-formed inputs N<=5 (and exhaustive N=1 operands): numpy result == torch result == Coq model result. Non-trivial = input with a phase i/-i, a minus sign or a mask; '
        'distinct by (operation, input).')
ASSUMES = ['only deterministic operations are compared; torch float32 tensors hold exact small integers']

# op name -> generator of argument lists (JSON) ; ops use the same names in impl_np.OPS, impl_torch.OPS and the model dispatcher


def arggen(ctx, rng, op, n):
    M = ctx.model
    rp = lambda herm=False: gen.rpauli(rng, n, herm=herm)
    if op in ('acq', 'ipow'):
        return [gen.rstr(rng, n), gen.rstr(rng, n)]
    if op in ('p0', 'front', 'weight'):
        return [gen.rstr(rng, n, nonzero=(op == 'front'))]
    if op == 'condense':
        return [gen.rstr(rng, n, nonzero=True)]
    if op == 'is_onsite':
        return [gen.rstr(rng, n), rng.randrange(n)]
    if op == 'acq_mat':
        return [[gen.rstr(rng, n) for _ in range(rng.randint(1, 4))]]
    if op == 'pmul':
        return [rp(), rp()]
    if op == 'pmul_chain':
        return [gen.rplist(rng, n, rng.randint(2, 6))]
    if op == 'batch_mul':
        return [gen.rplist(rng, n, rng.randint(1, 3)), gen.rplist(rng, n, rng.randint(1, 3))]
    if op == 'prmul':
        return [rng.randint(0, 3), rp()]
    if op == 'pneg':
        return [rp()]
    if op == 'combine':
        L = rng.randint(1, 4)
        return [n, [[rng.randint(0, 1) for _ in range(L)] for _ in range(rng.randint(1, 3))], gen.rplist(rng, n, L)]
    if op in ('transform', 'state_transform'):
        k = rng.randint(1, n)
        mask = None if k == n else gen.rmask(rng, n, k)[0]
        return [gen.rmap(rng, M, k), mask, gen.rplist(rng, n, 3) if op == 'transform' else gen.rtableau(rng, M, n)]
    if op in ('rotate', 'state_rotate'):
        k = rng.randint(1, n)
        mask = None if k == n else gen.rmask(rng, n, k)[0]
        return [gen.rpauli(rng, k, herm=True), mask, gen.rplist(rng, n, 3) if op == 'rotate' else gen.rtableau(rng, M, n)]
    if op == 'mask':
        return [sorted(rng.sample(range(n), rng.randint(1, n))), n]
    if op == 'z2rank':
        return [[[rng.randint(0, 1) for _ in range(rng.randint(1, 5))] for _ in range(1)] * 1 if False else [[rng.randint(0, 1) for _ in range(4)] for _ in range(rng.randint(1, 5))]]
    if op == 'identity_map':
        return [n]
    if op == 'compose':
        return [gen.rmap(rng, M, n), gen.rmap(rng, M, n)]
    if op in ('inverse', 'map_to_state', 'state_to_map'):
        return [gen.rmap(rng, M, n)]
    if op == 'embed':
        k = rng.randint(1, n)
        return [gen.identity_rows(n), gen.rmap(rng, M, k), gen.rmask(rng, n, k)[0] if k < n else [1] * n]
    if op == 'rotation_map':
        return [gen.rpauli(rng, n, herm=True)]
    if op == 'expect':
        return [gen.rtableau(rng, M, n), gen.rplist(rng, n, 3, herm=True)]
    if op == 'project':
        t = gen.rtableau(rng, M, n)
        return [t, [o[0] for o in gen.commuting_obs(rng, M, n, 2)]]
    if op == 'stabilizer_state':
        m = gen.rmap(rng, M, n)
        return [n, [[m[2 * i + 1][0], rng.choice([0, 2])] for i in rng.sample(range(n), rng.randint(1, n))]]
    if op in ('zero_state', 'mixed_state'):
        return [n]
    if op == 'stabilizers':
        return [gen.rtableau(rng, M, n)]
    if op == 'entropy':
        return [gen.rtableau(rng, M, n), [rng.randint(0, 1) for _ in range(n)]]
    if op == 'diag1':
        return [gen.rstr(rng, n, nonzero=True), rng.randrange(n)]
    if op == 'diag2':
        while True:
            a, b = gen.rstr(rng, n, nonzero=True), gen.rstr(rng, n)
            if sum(a[2 * i + 1] * b[2 * i] - a[2 * i] * b[2 * i + 1] for i in range(n)) % 2 == 1:
                return [a, b, rng.randrange(n)]
    if op in ('repr', 'tokenize'):
        return [rp()]
    if op == 'parse':
        pool = [0, 1, 2, 3, 4, 5, 6, 7, 1000 + ord('I'), 1000 + ord('X'), 1000 + ord('Y'), 1000 + ord('Z'), 1043, 1045, 1105]
        return [[rng.choice(pool) for _ in range(rng.randint(1, 8))]]
    if op == 'parse_dict':
        return [n, [[i, rng.randint(1, 3)] for i in range(n) if rng.random() < 0.6]]
    if op == 'get_int':
        L = rng.randint(1, 4)
        return [gen.rplist(rng, n, L), rng.randint(-L, L - 1)]
    if op == 'get_slice':
        L = rng.randint(1, 4)
        return [gen.rplist(rng, n, L), rng.choice([None, 0, 1, -1]), rng.choice([None, 1, 2, -1])]
    if op == 'get_mask':
        L = rng.randint(1, 4)
        return [gen.rplist(rng, n, L), [rng.randint(0, 1) for _ in range(L)]]
    if op == 'get_idx':
        L = rng.randint(1, 4)
        return [gen.rplist(rng, n, L), [rng.randint(-L, L - 1) for _ in range(rng.randint(1, 3))]]
    if op in ('list_neg', 'list_weight'):
        return [gen.rplist(rng, n, rng.randint(1, 4))]
    if op == 'list_rmul':
        return [rng.randint(0, 3), gen.rplist(rng, n, rng.randint(1, 4))]
    if op == 'rotate_seq':
        return [[[gen.rpauli(rng, n, herm=True), None] for _ in range(rng.randint(1, 4))], gen.rplist(rng, n, 2)]
    return None


def margs(op, args):
    """JSON args -> model args (wrap options)"""
    if op in ('transform', 'rotate', 'state_transform', 'state_rotate'):
        return [args[0], opt(args[1]), args[2]]
    if op == 'get_slice':
        return [args[0], opt(args[1]), opt(args[2])]
    if op == 'rotate_seq':
        return [[[g, opt(m)] for g, m in args[0]], args[1]]
    return args


def special_tags(op, args):
    tags = ['torch']
    if op == 'front' and not any(args[0]):
        tags.append('front_identity')
    if op in ('z2rank',):
        m = np.array(args[0], dtype=float)
        from props.C08 import gf2_rank
        if int(np.linalg.matrix_rank(m)) != gf2_rank(args[0]):
            tags.append('real_rank_differs_from_gf2_rank')
    if op == 'entropy':
        from props.C08 import rank_tags
        tags = rank_tags('torch', args[0], args[1])
    return tags


def c_three_way(ctx, args):
    op, a = args
    rn = norm(impl('np').OPS[op](*a))
    rt = norm(impl('torch').OPS[op](*a))
    if rn != rt:
        return {'kind': 'oracle', 'where': 'torch vs numpy: ' + op, 'observed': rt, 'expected': rn, 'tags': special_tags(op, a) + [op]}
    if ctx.model is not None and not ctx.search:
        rm = norm(ctx.model.call(op, *margs(op, a)))
        if rm != rn:
            return {'kind': 'corr', 'where': 'model vs both backends: ' + op, 'observed': rn, 'expected': rm}
    return None


CHECKS = {'three_way': c_three_way}


def _borrow():
    """the torch-side checks written for the individual properties are part of what 'a faithful port' means: they run here too (same functions, torch backend)"""
    import importlib
    out = {}
    for mod, names in (('C07', ['overlap', 'get_prob', 'expect_poly']), ('C08', ['ent_dense', 'ent_forms']), ('C09', ['torch_prog']), ('C10', ['torch_history']), ('C12', ['duality_corr']),
                       ('C15', ['torch_expr', 'reduce_large']), ('C16', ['chi2_product', 'chi2_rows', 'maps_states']), ('C17', ['torch_copy', 'ctor_fresh']), ('C18', ['diag_pauli']),
                       ('C20', ['index', 'poly_index', 'roundtrip', 'formats'])):
        m = importlib.import_module('props.' + mod)
        for nme in names:
            if nme in m.CHECKS:
                out['%s.%s' % (mod, nme)] = m.CHECKS[nme]
    return out


CHECKS.update(_borrow())


def shared_surface():
    import pyclifford, torchclifford
    from pyclifford import utils as U1
    from torchclifford import utils as U2
    pub1 = {k for k in dir(pyclifford) if not k.startswith('_')}
    pub2 = {k for k in dir(torchclifford) if not k.startswith('_')}
    u1 = {k for k, v in vars(U1).items() if callable(v) and not k.startswith('_') and getattr(v, '__module__', '') != 'numba.core.decorators'}
    u2 = {k for k, v in vars(U2).items() if callable(v) and not k.startswith('_')}
    return sorted(pub1 & pub2), sorted(pub1 - pub2), sorted(u1 & u2), sorted(u1 - u2), sorted(u2 - u1)


def run(ctx):
    ctx.checks = CHECKS
    rng, B = ctx.rng, ctx.budget
    both = sorted(set(impl('np').OPS) & set(impl('torch').OPS))
    pub, pub_only_np, uts, uts_only_np, uts_only_t = shared_surface()
    ctx.res.notes['adapters_compared'] = both
    ctx.res.notes['shared_public_names'] = pub
    ctx.res.notes['public_only_in_pyclifford'] = pub_only_np
    ctx.res.notes['shared_utils_names'] = uts
    ctx.res.notes['utils_only_in_pyclifford'] = uts_only_np
    ctx.res.notes['utils_only_in_torchclifford'] = uts_only_t
    per = max(8, int(40 * B))
    skipped = []
    for op in both:
        n_ok = 0
        for it in range(per * 8 if op in ('entropy', 'entropy_of', 'z2rank') else per):      # rank-dependent kernels fail on few inputs only: many more cases
            n = rng.randint(1, 5)
            a = arggen(ctx, rng, op, n)
            if a is None:
                skipped.append(op)
                break
            nt = ('t', op, ctx.res.evaluations)
            do(ctx, 'three_way', [op, a], nontrivial=nt, sample=(it == 0 and op in ('transform', 'expect')))
            n_ok += 1
        ctx.res.count('op_' + op, n_ok)
    ctx.res.notes['adapters_without_generator'] = sorted(set(skipped))
    # ---- the torch-side checks of the individual properties (see _borrow)
    from props.C09 import rprog
    for it in range(int(12 * B)):
        n = rng.randint(1, 3)
        t = gen.rtableau(rng, ctx.model, n, r=0)
        u = gen.rtableau(rng, ctx.model, n)
        do(ctx, 'C07.overlap', ['torch', t, u], nontrivial=('b07o', it))
        do(ctx, 'C07.get_prob', ['torch', t], nontrivial=('b07g', it))
        terms = [[gen.rstr(rng, n), rng.randint(0, 3), [rng.randint(-3, 3), rng.randint(-3, 3)]] for _ in range(rng.randint(1, 4))]
        do(ctx, 'C07.expect_poly', [u, terms, rng.choice(['pauli', 'poly', 'poly']), 'torch'], nontrivial=('b07p', it))
        m = gen.rmap(rng, ctx.model, rng.randint(1, 4))
        do(ctx, 'C12.duality_corr', ['torch', m, rng.randint(0, len(m) // 2)], nontrivial=('b12', it))
        N = rng.randint(1, 4)
        prog = rprog(rng, ctx.model, N, rng.randint(1, 5))
        do(ctx, 'C09.torch_prog', [N, prog, gen.rplist(rng, N, 3), rng.choice([0, 1, 2]), rng.choice(['orig', 'copy', 'halves', 'stale_halves', 'copy_extend', 'recompile', 'recompile']), rng.choice(['forward', 'backward'])], nontrivial=('b09', it))
        prog = [[0, gen.rgate(rng, ctx.model, N, kinds=('gen', 'fwd', 'fwd', 'bwd', 'both', 'named'))] for _ in range(rng.randint(1, 4))]
        do(ctx, 'C10.torch_history', [N, prog, gen.rplist(rng, N, 3), rng.choice([0, 0, 1, 2]), rng.choice(['B', 'BF', 'BBF', 'FBBF', 'BFFB']), rng.choice(['never', 'first', 'compiled', 'used'])], nontrivial=('b10', it))
        for kind in ['Pauli', 'PauliList', 'CliffordMap', 'StabilizerState', 'PauliPolynomial']:
            do(ctx, 'C17.torch_copy', [kind, rng.randint(1, 3), rng.randrange(10 ** 6)])
        for what in ['rotation_map', 'identity_map', 'zero_state', 'mixed_state', 'stabilizer_state', 'rotation_gate', 'pauli']:
            do(ctx, 'C17.ctor_fresh', ['torch', what, rng.randint(1, 3), rng.randrange(10 ** 6)])
    from props.C15 import rexpr, has, cfrac, COEFS
    for it in range(int(40 * B)):
        n = rng.randint(1, 3)
        e = rexpr(rng, n, rng.randint(1, 3), ['pauli', 'poly', 'poly'])
        do(ctx, 'C15.torch_expr', [n, e], nontrivial=('b15', it) if has(e, (4, 5, 6)) else None)
        e2 = [4, e, [2, cfrac(rng.choice(COEFS)), [0, [0, [[0] * (2 * n), rng.randint(0, 3)]]]]]
        do(ctx, 'C15.torch_expr', [n, e2], nontrivial=('b15i', it))
        # ... and next to a term six orders of magnitude larger (phase-free, so exact in single precision): the small terms are still there afterwards
        e3 = [4, e, [2, cfrac(2 ** 22), [0, [0, [gen.rstr(rng, n, nonzero=True), 0]]]]]
        do(ctx, 'C15.torch_expr', [n, e3], nontrivial=('b15r', it))
    for it in range(int(20 * B)):
        n = rng.choice([6, 13, 14, 16, 20])
        site = lambda q, k: [(k >> 1) & 1 if j == 2 * q else (k & 1 if j == 2 * q + 1 else 0) for j in range(2 * n)]
        terms = []
        for _ in range(rng.randint(2, 6)):
            g = site(rng.choice([0, 0, 1]), rng.choice([1, 2, 3]))
            if rng.random() < 0.6:
                g = [a | b for a, b in zip(g, site(rng.choice([n - 1, n - 2]), rng.choice([1, 2, 3])))]
            terms.append([g, rng.choice([0, 0, 2, 1]), rng.choice([1.0, -1.0, 0.5, 2.0])])
        do(ctx, 'C15.reduce_large', ['torch', n, terms, rng.choice(['reduce', 'add'])], nontrivial=('b15r', it))
    for it in range(int(40 * B)):
        n = rng.randint(1, 3)
        L = rng.randint(1, 5)
        terms = [[gen.rstr(rng, n), rng.randint(0, 3), [rng.choice([1, -1, 0.5, 2]), rng.choice([0, 0, 1, -0.5])]] for _ in range(L)]
        kind = rng.choice(['slice', 'mask', 'idx'])
        ix = {'slice': [rng.choice([None, 0, 1, -1, -2]), rng.choice([None, 1, 2, L, -1]), rng.choice([None, 1, 2])], 'mask': [rng.randint(0, 1) for _ in range(L)],
              'idx': [rng.randrange(L) for _ in range(rng.randint(1, 3))]}[kind]
        do(ctx, 'C20.poly_index', ['torch', terms, kind, ix], nontrivial=('b20', it))
    for it in range(int(40 * B)):
        n = rng.randint(2, 5)
        do(ctx, 'C18.diag_pauli', ['torch', [gen.rstr(rng, n, nonzero=True), rng.choice([0, 2])], rng.randrange(n), rng.random() < 0.5, rng.choice(['orig', 'compiled', 'copy', 'compiled_copy'])],
           nontrivial=('b18', it))
    for it in range(int(78 * B)):
        what = ['pauli_trace', 'tokenize', 'to_qutip', 'len_div_radd', 'identity_zero', 'ghz', 'sample', 'reject', 'random_states', 'rcc', 'expect_pauli', 'batched_expect', 'povm'][it % 13]
        do(ctx, 'api_surface', [what, rng.randint(1, 4), rng.randrange(10 ** 6)], nontrivial=('api', what, it))
    if not getattr(ctx, 'is_worker', False):
        do(ctx, 'C16.chi2_product', ['torch', 14400 if ctx.tier == 'quick' else 144000, 15], nontrivial='b16')
    if not getattr(ctx, 'is_worker', False):
        do(ctx, 'C16.chi2_rows', ['torch', 8000 if ctx.tier == 'quick' else 80000, 18], nontrivial='b16r')
    # torch entropy on mixed and pure states with regions of every size, against the dense von Neumann entropy (the real-rank defect of torch z2rank is a known finding)
    for it in range(int(250 * B)):
        n = rng.randint(2, 5)
        t = gen.rtableau(rng, ctx.model, n, r=rng.randint(1, n - 1) if rng.random() < 0.7 else None)
        region = [q for q in range(n) if rng.random() < 0.5] or [0]
        if 'C08.ent_dense' in CHECKS:
            do(ctx, 'C08.ent_dense', ['torch', t, [1 if q in region else 0 for q in range(n)]], nontrivial=('b08', it))


def c_api_surface(ctx, args):
    """the rest of the shared public surface, one call at a time on both packages (same inputs), held to the dense / textbook meaning where pyclifford itself carries an open
    finding (trace), to pyclifford otherwise: traces, token arrays, dense exports, lengths, division, reflected addition, identity / zero polynomials, GHZ states, stabilizer
    sampling, rejection of anticommuting stabilizers, random states and random-circuit constructors (validity; fresh gates at every run), expectation of a single Pauli,
    batched expectations"""
    what, n, seed = args
    import torch, torchclifford as tc, pyclifford as pcl, numpy as np_
    import vlib.impl_torch as TT, vlib.impl_np as NPm
    from vlib import dense as D, states as S
    rng = __import__('random').Random(seed)
    a = gen.rpauli(rng, n)
    l = gen.rplist(rng, n, rng.randint(1, 4))
    t = gen.rtableau(rng, ctx.model, n)

    def bad(where, got, want):
        return {'kind': 'oracle', 'where': 'torch:' + where, 'observed': got if len(str(got)) < 500 else str(got)[:500], 'expected': want if len(str(want)) < 500 else str(want)[:500], 'tags': ['torch', 'api', what]}

    def cplx(x):
        z = complex(x.item() if hasattr(x, 'item') else x)
        return [round(z.real, 9), round(z.imag, 9)]
    torch.manual_seed(seed)
    if what == 'pauli_trace':
        close = lambda u, v: abs(complex(*u) - complex(*v)) < 1e-5          # (1j)**tensor is evaluated in single precision
        got = cplx(TT.P(a).trace())
        tr = np_.trace(D.op(*a))
        if not close(got, [tr.real, tr.imag]):
            return bad('Pauli.trace', got, [tr.real, tr.imag])
        got = [cplx(v) for v in TT.PL(l).trace()]
        want = [[np_.trace(D.op(*x)).real, np_.trace(D.op(*x)).imag] for x in l]
        if len(got) != len(want) or not all(close(u, v) for u, v in zip(got, want)):
            return bad('PauliList.trace', got, want)
    elif what == 'tokenize':
        got = [[int(v) for v in row] for row in TT.PL(l).tokenize()]
        want = [[int(v) for v in row] for row in NPm.PL(l).tokenize()]
        if got != want:
            return bad('PauliList.tokenize', got, want)
        st = [[int(v) for v in row] for row in TT.STATE(t).tokenize()]
        sw = [[int(v) for v in row] for row in NPm.STATE(t).tokenize()]
        if st != sw:
            return bad('StabilizerState.tokenize', st, sw)
    elif what == 'to_qutip':
        if n > 3:
            return None
        m = np_.array(TT.P(a).to_qutip().full())
        if not np_.allclose(m, D.op(*a), atol=1e-5):
            return bad('Pauli.to_qutip', 'dense export', 'i^p sigma[g]')
        poly = TT.PL(l).as_polynomial()
        m = np_.array(poly.to_qutip().full())
        if not np_.allclose(m, sum(D.op(*x) for x in l), atol=1e-5):
            return bad('PauliPolynomial.to_qutip', 'dense export', 'sum of the terms')
        rho = np_.array(TT.STATE(t).to_qutip().full())
        if not np_.allclose(rho, S.rho(t), atol=1e-5):       # (1j)**tensor is evaluated in single precision
            return bad('StabilizerState.to_qutip', 'dense export', 'rho')
    elif what == 'len_div_radd':
        if len(TT.PL(l)) != len(l):
            return bad('len(PauliList)', len(TT.PL(l)), len(l))
        poly = TT.PL(l).as_polynomial()
        q = poly / 2
        want = sum(D.op(*x) for x in l) / 2
        got = sum(complex(c) * D.op([int(v) for v in g], int(round(float(p))) % 4) for g, p, c in zip(q.gs, q.ps, q.cs)) if n <= 3 else None
        if n <= 3 and not np_.allclose(got, want, atol=1e-5):
            return bad('PauliPolynomial / 2', 'terms', 'half of every coefficient')
        if n <= 3:
            s2 = TT.P(a) + poly
            got = sum(complex(c) * D.op([int(v) for v in g], int(round(float(p))) % 4) for g, p, c in zip(s2.gs, s2.ps, s2.cs))
            if not np_.allclose(got, D.op(*a) + sum(D.op(*x) for x in l), atol=1e-5):
                return bad('Pauli + PauliPolynomial', 'terms', 'sum of the operators')
    elif what == 'identity_zero':
        i_ = tc.pauli_identity(n)
        z_ = tc.pauli_zero(n)
        if [[int(v) for v in g] for g in i_.gs] != [[0] * (2 * n)] or [cplx(c) for c in i_.cs] != [[1.0, 0.0]] or [int(round(float(p))) % 4 for p in i_.ps] != [0]:
            return bad('pauli_identity', [[int(v) for v in g] for g in i_.gs], 'one identity term with coefficient 1')
        if any(abs(complex(c)) > 0 for c in z_.cs):
            return bad('pauli_zero', [cplx(c) for c in z_.cs], 'no non-zero term')
    elif what == 'ghz':
        if n < 2:
            return None
        got, want = TT.oST(tc.ghz_state(n)), NPm.oST(pcl.ghz_state(n))
        if got[1] != want[1] or not S.same_state(got, want):
            return bad('ghz_state', got, want)
    elif what == 'sample':
        st = TT.STATE(t)
        rows = TT.oPL(st.sample(5))
        if len(rows) != 5:
            return bad('sample length', len(rows), 5)
        ex = ctx.model.call('expect', t, rows)
        if any(v != 1 for v in ex):
            return bad('sample: drawn operators are not stabilizers of the state (expectation +1)', [rows, ex], 'all +1')
        if TT.oST(st) != [[[list(x[0]), x[1] % 4] for x in t[0]], t[1]]:
            return bad('sample modified the state', TT.oST(st), t)
    elif what == 'reject':
        if n < 1:
            return None
        X0 = [[1, 0] + [0] * (2 * n - 2), 0]
        Z0 = [[0, 1] + [0] * (2 * n - 2), 0]
        try:
            tc.stabilizer_state(TT.PL([X0, Z0]))
            return bad('stabilizer_state accepted anticommuting stabilizers', 'a state', 'ValueError')
        except ValueError:
            pass
    elif what == 'random_states':
        for f in (tc.random_pauli_state, tc.random_clifford_state):
            r = rng.randint(0, n)
            got = TT.oST(f(n, r))
            inv = S.tableau_invariant_py(got)
            if got[1] != r or inv:
                return bad(f.__name__, got, 'a valid tableau of rank %d (%s)' % (r, inv))
    elif what == 'rcc':
        N = 2 * max(1, n // 2)
        for mk in (lambda: tc.brickwall_rcc(N, 2), lambda: tc.onsite_rcc(N), lambda: tc.global_rcc(N)):
            c = mk()
            outs = []
            for _ in range(4):
                s = tc.zero_state(N)
                c.forward(s)
                got = TT.oST(s)
                inv = S.tableau_invariant_py(got)
                if inv or got[1] != 0:
                    return bad('random-gate circuit produced an invalid state', got, inv)
                outs.append(str(got))
            if len(set(outs)) == 1 and N >= 2:
                return bad('random-gate circuit: the unspecified gates are not resampled (4 runs, one state)', outs[0], 'fresh gates at every run')
            for s in c.povm(2):
                got = TT.oST(s)
                if S.tableau_invariant_py(got):
                    return bad('povm state invalid', got, 'valid')
    elif what == 'povm':
        # the back-evolved basis states of a circuit of FIXED gates: every sample of one povm() call is the same state as pyclifford's, and a separate object
        N = max(2, n)
        prog = [[0, gen.rgate(rng, ctx.model, N, kinds=('gen', 'fwd'))] for _ in range(rng.randint(2, 5))] + [[0, [[N - 1], [0, [[1, 1], 0]]]]]
        ct = TT.build_circuit(N, prog)
        cn = NPm.build_circuit(N, prog)
        st = list(ct.povm(3))
        sn = list(cn.povm(3))
        if len({id(x) for x in st}) != 3:
            return bad('povm yields the same object more than once', len({id(x) for x in st}), 3)
        for k, (a_, b_) in enumerate(zip(st, sn)):
            if TT.oST(a_) != NPm.oST(b_):
                return bad('povm sample %d differs from pyclifford' % k, TT.oST(a_), NPm.oST(b_))
    elif what == 'expect_pauli':
        o = gen.rpauli(rng, n, herm=True)
        got = cplx(TT.STATE(t).expect(TT.P(o)))
        want = cplx(NPm.STATE(t).expect(NPm.P(o)))
        if abs(complex(*got) - complex(*want)) > 1e-5:
            return bad('StabilizerState.expect(Pauli)', got, want)
    elif what == 'batched_expect':
        from torchclifford import stabilizer as TST
        if not hasattr(TST, 'vectorizable_expct'):
            return None
        r = rng.randint(0, n)
        ts = [gen.rtableau(rng, ctx.model, n, r=r) for _ in range(3)]
        obs = [gen.rpauli(rng, n, herm=True) for _ in range(3)] + [ts[0][0][n - 1]]
        got = [[TT.iv(v) for v in row] for row in TST.vectorizable_expct([TT.STATE(x) for x in ts], TT.PL(obs))]
        want = [ctx.model.call('expect', x, obs) for x in ts]
        if got != want:
            return bad('vectorizable_expct (batched)', got, want)
        # ... of a polynomial and of a single Pauli: the coefficient-weighted sum of Tr(rho sigma_k), phases i / -i of the terms included
        import torch as _t
        terms = [[gen.rstr(rng, n) if rng.random() < 0.5 else ts[0][0][rng.randrange(n)][0], rng.randint(0, 3), complex(rng.choice([1, -1, 2, 0.5]), rng.choice([0, 0, 1, -0.5]))] for _ in range(rng.randint(1, 4))]
        poly = tc.paulialg.PauliPolynomial(TT.GS([x[0] for x in terms], 2 * n), TT.PS([x[1] for x in terms])).set_cs(_t.tensor([x[2] for x in terms], dtype=_t.complex64))
        gotp = [complex(v) for v in TST.vectorizable_expct([TT.STATE(x) for x in ts], poly)]
        wantp = []
        for x in ts:
            ex = ctx.model.call('expect', x, [[y[0], 0] for y in terms])
            wantp.append(sum(y[2] * (1j ** y[1]) * e for y, e in zip(terms, ex)))
        if any(abs(a_ - b_) > 1e-5 for a_, b_ in zip(gotp, wantp)):
            return bad('vectorizable_expct (batched) of a polynomial: not the coefficient- and phase-weighted sum of the term expectations', [[v.real, v.imag] for v in gotp], [[v.real, v.imag] for v in wantp])
        o1 = gen.rpauli(rng, n)
        got1 = [complex(v) for v in TST.vectorizable_expct([TT.STATE(x) for x in ts], TT.P(o1))]
        want1 = [(1j ** o1[1]) * ctx.model.call('expect', x, [[o1[0], 0]])[0] for x in ts]
        if any(abs(a_ - b_) > 1e-5 for a_, b_ in zip(got1, want1)):
            return bad('vectorizable_expct (batched) of a single Pauli with a phase', [[v.real, v.imag] for v in got1], [[complex(v).real, complex(v).imag] for v in want1])
    return None


CHECKS['api_surface'] = c_api_surface
