"""C20 -- operator descriptions, printing, tokens and indexing round-trip."""
import numpy as np
from vlib import gen
from vlib import impl_np as NP_
from vlib.run import corr, do, impl, opt, norm

RULE = ('all strings x 4 phases for N<=3 (exhaustive) and random N<=12 through: repr -> parse, tokenize -> parse, letters / codes / dict / prefix '
        'variants, mixed prefix positions; indexing by int (negative too), slice, mask, index array; neg / rmul; both backends. '
        'Non-trivial = phase i or -i or a prefix in the middle; distinct by (backend,check,input).')
ASSUMES = ['bits 0/1, phases 0..3', 'string inputs are passed as lists of characters exactly as pauli(str) does internally']

LET = {(0, 0): 'I', (1, 0): 'X', (1, 1): 'Y', (0, 1): 'Z'}
CODE = {(0, 0): 0, (1, 0): 1, (1, 1): 2, (0, 1): 3}


def letters(g):
    return [1000 + ord(LET[(g[2 * i], g[2 * i + 1])]) for i in range(len(g) // 2)]


def codes(g):
    return [CODE[(g[2 * i], g[2 * i + 1])] for i in range(len(g) // 2)]


def c_roundtrip(ctx, args):
    """through the implementation: parse(repr(P)) == P and parse(tokenize(P)) == P; and the model agrees on repr/tokenize"""
    be, a = args
    I = impl(be).OPS
    r = corr(ctx, be, 'repr', [a]) or corr(ctx, be, 'tokenize', [a])
    if r:
        return r
    rp = I['repr'](a)
    back = I['parse']([1000 + c for c in rp])
    if back != a:
        return {'kind': 'oracle', 'where': be + ':pauli(repr(P))', 'observed': back, 'expected': a, 'repr': ''.join(chr(c) for c in rp)}
    tk = I['tokenize'](a)
    back = I['parse'](tk)
    if back != a:
        return {'kind': 'oracle', 'where': be + ':pauli(tokenize(P))', 'observed': back, 'expected': a, 'tokens': tk}
    return None


def c_parse_corr(ctx, args):
    be, toks = args
    return corr(ctx, be, 'parse', [toks])


def c_formats(ctx, args):
    """letters, codes, dict(+N) and prefix variants of the same operator parse equal (implementation vs the stated meaning)"""
    be, g = args
    I = impl(be).OPS
    n = len(g) // 2
    want = {0: [g, 0]}
    L = letters(g)
    forms = [(L, 0), (codes(g), 0), ([1043] + L, 0), ([1045] + L, 2), ([1105] + L, 1), ([1045, 1105] + L, 3), ([1043, 1105] + L, 1),
             ([4] + codes(g), 0), ([5] + codes(g), 2), ([6] + codes(g), 1), ([7] + codes(g), 3), (codes(g) + [7], 3), ([1032, 1043] + L, 0)]
    for toks, p in forms:
        r = I['parse'](toks)
        if r != [g, p]:
            return {'kind': 'oracle', 'where': be + ':pauli(list)', 'observed': r, 'expected': [g, p], 'tokens': toks}
    # the qubit number may be SAID as well (it is needed for dictionaries, and harmless -- if right -- for every other description)
    lib = __import__('pyclifford' if be == 'np' else 'torchclifford')
    M_ = impl(be)
    for toks, p in forms[:8]:
        seq = [chr(t - 1000) if t >= 1000 else int(t) for t in toks]
        for descr in (list(seq), tuple(seq)) + ((__import__('numpy').array(seq),) if all(isinstance(x, int) for x in seq) else ()):
            try:
                r2 = M_.oP(lib.pauli(descr, N=n))
            except Exception as e:
                return {'kind': 'oracle', 'where': '%s:pauli(sequence, N=%d) raised %s' % (be, n, type(e).__name__), 'observed': str(e)[:100], 'expected': [g, p], 'tokens': toks, 'tags': ['explicit_N']}
            if r2 != [g, p]:
                return {'kind': 'oracle', 'where': '%s:pauli(sequence, N=%d) differs from pauli(sequence)' % (be, n), 'observed': r2, 'expected': [g, p], 'tokens': toks, 'tags': ['explicit_N']}
    items = [[i, c] for i, c in enumerate(codes(g)) if c != 0]
    r = I['parse_dict'](n, items)
    if r != [g, 0]:
        return {'kind': 'oracle', 'where': be + ':pauli(dict,N)', 'observed': r, 'expected': [g, 0], 'items': items}
    return corr(ctx, be, 'parse_dict', [n, items])


def _index_oracle(l, kind, ix):
    """what plain list and phase arithmetic dictate (no model, no numpy): rows are [g, p]"""
    L = len(l)
    if kind == 'int':
        return l[ix]
    if kind == 'slice':
        return l[slice(ix[0], ix[1], ix[2] if len(ix) > 2 else None)]
    if kind == 'mask':
        return [r for r, m in zip(l, ix) if m]
    if kind == 'idx':
        return [l[i] for i in ix]
    if kind == 'neg':
        return [[g, (p + 2) % 4] for g, p in l]
    if kind == 'rmul':
        return [[g, (p + ix) % 4] for g, p in l]
    if kind == 'weight':
        return [sum(1 for j in range(0, len(g), 2) if g[j] or g[j + 1]) for g, p in l]


def c_list_forms(ctx, args):
    """paulis(...) from every shape of description -- list / tuple / generator / several arguments; strings, code arrays, dictionaries (+N), ready-made Pauli objects, mixed --
    builds the list whose rows are the individually described operators (what the strings say: rows [g, p])"""
    be, rows, form, seed = args
    rng = __import__('random').Random(seed)
    I = impl(be)
    lib = I.lib if hasattr(I, 'lib') else __import__('pyclifford' if be == 'np' else 'torchclifford')
    n = len(rows[0][0]) // 2
    pref = {0: '', 1: 'i', 2: '-', 3: '-i'}

    def as_str(r):
        return pref[r[1]] + ''.join('IXYZ'[c] for c in codes(r[0]))

    def as_dict(r):
        return {i: rng.choice(['IXYZ'[c], int(c)]) for i, c in enumerate(codes(r[0])) if c != 0}

    def as_codes(r):
        return __import__('numpy').array(codes(r[0]))

    def as_obj(r):
        return lib.pauli(as_str(r))
    want = [[list(r[0]), r[1]] for r in rows]
    kw = {}
    if form == 'strings':
        descr = [as_str(r) for r in rows]
    elif form == 'dicts':
        descr, kw = [as_dict(r) for r in rows], {'N': n}
        want = [[list(r[0]), 0] for r in rows]
    elif form == 'codes':
        descr = [as_codes(r) for r in rows]
        want = [[list(r[0]), 0] for r in rows]
    elif form == 'objects':
        descr = [as_obj(r) for r in rows]
    else:                                   # mixed: each row in a form of its own; dictionaries and code arrays carry no phase
        descr, want, kw = [], [], {'N': n}
        for r in rows:
            k = rng.choice(['s', 'd', 'c', 'o'])
            descr.append({'s': as_str, 'd': as_dict, 'c': as_codes, 'o': as_obj}[k](r))
            want.append([list(r[0]), r[1] if k in 'so' else 0])
    shape = rng.choice(['list', 'tuple', 'args', 'generator'] + (['one'] if len(rows) == 1 else []))
    if len(rows) == 1 and shape in ('args', 'one') and not isinstance(descr[0], (str, dict)) and not hasattr(descr[0], 'g'):
        shape = 'list'        # a single code array given alone IS a sequence of descriptions (one per entry): nothing to decide there
    try:
        if shape == 'list':
            l = lib.paulis(list(descr), **kw)
        elif shape == 'tuple':
            l = lib.paulis(tuple(descr), **kw)
        elif shape == 'args' or shape == 'one':
            l = lib.paulis(*descr, **kw)
        else:
            l = lib.paulis((d for d in descr), **kw)
        got = I.oPL(l)
    except Exception as e:
        return {'kind': 'oracle', 'where': '%s:paulis(%s of %s) raised %s' % (be, shape, form, type(e).__name__), 'observed': str(e)[:150], 'expected': want, 'tags': ['list_forms', form, shape]}
    if got != want:
        return {'kind': 'oracle', 'where': '%s:paulis(%s of %s)' % (be, shape, form), 'observed': got, 'expected': want, 'tags': ['list_forms', form, shape]}
    # a PauliList handed to paulis() is that list
    if I.oPL(lib.paulis(l)) != want:
        return {'kind': 'oracle', 'where': '%s:paulis(PauliList)' % be, 'observed': I.oPL(lib.paulis(l)), 'expected': want, 'tags': ['list_forms']}
    return None


def c_state_tokens(ctx, args):
    """a stabilizer state tokenizes as the list of its ACTIVE stabilizers (rows r..N-1, each with its own phase): same token array as state.stabilizers.tokenize(), as the
    tokens of the rows written out, and parsing the tokens gives the stabilizers back -- every rank, every sign pattern, both backends"""
    be, t = args
    M = impl(be)
    n = len(t[0]) // 2
    st = M.STATE(t)
    rows = [[list(a[0]), a[1] % 4] for a in t[0][t[1]:n]]
    tok = [[int(v) for v in r] for r in st.tokenize()]
    via = [[int(v) for v in r] for r in st.stabilizers.tokenize()]
    lst = [[int(v) for v in r] for r in M.PL(rows, 2 * n).tokenize()] if rows else []
    if tok != via or tok != lst:
        return {'kind': 'oracle', 'where': be + ':StabilizerState.tokenize differs from the tokens of its active stabilizers', 'observed': tok, 'expected': lst, 'tags': ['state_tokens', be]}
    lib = __import__('pyclifford' if be == 'np' else 'torchclifford')
    if rows:
        back = M.oPL(lib.paulis(st.tokenize()))
        if back != rows:
            return {'kind': 'oracle', 'where': be + ':parsing the tokens of a state does not give its stabilizers', 'observed': back, 'expected': rows, 'tags': ['state_tokens', be]}
    return None


def c_index(ctx, args):
    be, l, kind, ix = args[:4]
    form = args[4] if len(args) > 4 else 'array'
    op = {'int': 'get_int', 'slice': 'get_slice', 'mask': 'get_mask', 'idx': 'get_idx', 'neg': 'list_neg', 'rmul': 'list_rmul', 'weight': 'list_weight'}[kind]
    ia = {'int': [l, ix], 'slice': [l] + list(ix) if kind == 'slice' else None, 'mask': [l, ix, form] if be == 'np' else [l, ix],
          'idx': [l, ix, form] if be == 'np' else [l, ix], 'neg': [l], 'rmul': [ix, l], 'weight': [l]}[kind]
    want = _index_oracle(l, kind, ix)
    try:
        got = norm(impl(be).OPS[op](*ia))
    except Exception as e:
        got = 'RAISED ' + type(e).__name__
    if got != norm(want):
        return {'kind': 'oracle', 'where': '%s:%s vs list arithmetic' % (be, op), 'observed': got, 'expected': norm(want), 'tags': ['index_' + kind, form]}
    be, l, kind, ix = args[:4]
    if kind == 'int':
        return corr(ctx, be, 'get_int', [l, ix])
    if kind == 'slice':
        if len(ix) > 2 and ix[2] not in (None, 1):
            return None           # strided / reversed slices: decided by the list-arithmetic oracle above (the model has start/stop slices)
        return corr(ctx, be, 'get_slice', [l, opt(ix[0]), opt(ix[1])], [l, ix[0], ix[1]])
    if kind == 'mask':
        form = args[4] if len(args) > 4 else 'array'
        return corr(ctx, be, 'get_mask', [l, ix], [l, ix, form] if be == 'np' else [l, ix])
    if kind == 'idx':
        form = args[4] if len(args) > 4 else 'array'
        return corr(ctx, be, 'get_idx', [l, ix], [l, ix, form] if be == 'np' else [l, ix])
    if kind == 'neg':
        return corr(ctx, be, 'list_neg', [l])
    if kind == 'rmul':
        return corr(ctx, be, 'list_rmul', [ix, l]) or corr(ctx, be, 'prmul', [ix, l[0]])
    if kind == 'weight':
        return corr(ctx, be, 'list_weight', [l])


def c_poly_index(ctx, args):
    """PauliPolynomial.__getitem__ (slice / mask / index array / int): the selected terms keep their strings, PHASES and coefficients (list arithmetic on the term list)"""
    be, terms, kind, ix = args              # terms [[g, p, [re, im]], ...]
    if be == 'torch' and kind == 'int':
        return None                           # the port's polynomial has no single-term type: an integer index yields 0-d tensors, nothing documented to compare
    if be == 'np':
        import pyclifford as pcl
        P = pcl.PauliPolynomial(NP_.GS([t[0] for t in terms]), np.array([t[1] for t in terms], dtype=np.int_)).set_cs(np.array([complex(*t[2]) for t in terms]))
        sel = {'slice': lambda: slice(*ix), 'mask': lambda: np.array(ix, dtype=bool), 'idx': lambda: np.array(ix, dtype=int), 'int': lambda: int(ix)}[kind]()
    else:
        import torch, torchclifford as tcl, vlib.impl_torch as TT
        P = tcl.paulialg.PauliPolynomial(TT.GS([t[0] for t in terms]), TT.PS([t[1] for t in terms])).set_cs(torch.tensor([complex(*t[2]) for t in terms], dtype=torch.complex128))
        sel = {'slice': lambda: slice(*ix), 'mask': lambda: torch.tensor([bool(b) for b in ix]), 'idx': lambda: torch.tensor([int(i) for i in ix], dtype=torch.long), 'int': lambda: int(ix)}[kind]()
    want = {'slice': lambda: terms[slice(*ix)], 'mask': lambda: [t for t, m in zip(terms, ix) if m], 'idx': lambda: [terms[i] for i in ix], 'int': lambda: [terms[ix]]}[kind]()
    try:
        r = P[sel]
    except Exception as e:
        return None if be == 'torch' and kind == 'int' else {'kind': 'oracle', 'where': '%s:PauliPolynomial[%s] raised %s' % (be, kind, type(e).__name__), 'observed': str(e)[:100], 'expected': want}
    if hasattr(r, 'cs'):
        got = [[[int(round(float(v))) for v in g], int(round(float(p))) % 4, [complex(c).real, complex(c).imag]] for g, p, c in zip(r.gs, r.ps, r.cs)]
    else:       # a single term: PauliMonomial (g, p, c)
        got = [[[int(round(float(v))) for v in r.g], int(round(float(r.p))) % 4, [complex(r.c).real, complex(r.c).imag]]]
    want = [[t[0], t[1] % 4, [float(t[2][0]), float(t[2][1])]] for t in want]
    if got != want:
        return {'kind': 'oracle', 'where': '%s:PauliPolynomial[%s] vs the term list' % (be, kind), 'observed': got, 'expected': want, 'tags': ['poly_index', be]}
    return None


def c_repr_objects(ctx, args):
    """printing lists, maps and states shows every row as its operator: parsing the printed rows back gives the rows (list order for lists, X_j / Z_j images for maps,
    the active stabilizers for states); the printed coefficients of a polynomial are its coefficients with the phases folded in"""
    be, kind, n, seed = args
    rng = __import__('random').Random(seed)
    if be == 'np':
        import pyclifford as lib, vlib.impl_np as M
    else:
        import torchclifford as lib, vlib.impl_torch as M
    import re as _re
    parse = lambda txt: M.oP(lib.pauli(txt.strip()))
    if kind == 'list':
        l = gen.rplist(rng, n, rng.randint(1, 6))
        lines = repr(M.PL(l)).split('\n')
        got = [parse(x) for x in lines]
        want = l
    elif kind == 'map':
        m = gen.rmap(rng, ctx.model, n)
        lines = repr(M.CM(m)).split('\n')[1:]
        labels = [c + str(j) for j in range(n) for c in 'XZ']
        want = m
        if n > 10:                      # long maps print their first ten and last ten rows around an ellipsis
            if len(lines) != 21 or lines[10].strip() != '...':
                return {'kind': 'oracle', 'where': be + ':repr(CliffordMap) of a long map', 'observed': [len(lines), lines[10:11]], 'expected': '10 rows, an ellipsis, 10 rows'}
            lines = lines[:10] + lines[11:]
            labels = labels[:10] + labels[-10:]
            want = m[:10] + m[-10:]
        got = [parse(x.split('->')[1].rstrip(')')) for x in lines]
        heads = [x.split('->')[0].strip() for x in lines]
        if heads != labels:
            return {'kind': 'oracle', 'where': be + ':repr(CliffordMap) row labels', 'observed': heads, 'expected': labels}
    else:
        t = gen.rtableau(rng, ctx.model, n)
        txt = repr(M.STATE(t))
        lines = [x for x in txt.split('\n')[1:]]
        got = [parse(x.rstrip(')')) for x in lines if x.strip(' )')]
        want = t[0][t[1]:n]
    want = [[g, p % 4] for g, p in want]
    if got != want:
        return {'kind': 'oracle', 'where': '%s:parsing the rows printed by repr(%s) does not give the rows' % (be, kind), 'observed': got, 'expected': want, 'tags': ['repr_objects', be, kind]}
    return None


def c_op_history(ctx, args):
    """ONE operator object used (products, sums, casts, printing), updated in place, used again: see vlib.history.operator_history"""
    from vlib import history
    kind, n, seed, steps, be = args
    if be == 'torch' and kind == 'mono':
        return None
    return history.operator_history(ctx, kind, n, seed, steps, be)


CHECKS = {'state_tokens': c_state_tokens, 'op_history': c_op_history, 'ctor_fresh': __import__('props.C17', fromlist=['c_ctor_fresh']).c_ctor_fresh, 'list_forms': c_list_forms, 'repr_objects': c_repr_objects, 'poly_index': c_poly_index, 'roundtrip': c_roundtrip, 'parse_corr': c_parse_corr, 'formats': c_formats, 'index': c_index}


def run(ctx):
    ctx.checks = CHECKS
    rng, B = ctx.rng, ctx.budget
    backends = ['np', 'torch']
    for n in (1, 2, 3):
        for a in gen.all_paulis(n):
            for be in backends:
                if be == 'torch' and n == 3 and rng.random() > 0.2:
                    continue
                do(ctx, 'roundtrip', [be, a], nontrivial=(be, str(a)) if a[1] % 2 else None, sample=(n == 2 and a[1] == 3))
        for g in gen.all_strings(n):
            for be in backends:
                do(ctx, 'formats', [be, g], nontrivial=(be, 'f', str(g)))
    ctx.res.exhaustive = True
    for _ in range(int(400 * B)):
        n = rng.randint(4, 12)
        be = rng.choice(backends)
        a = gen.rpauli(rng, n)
        do(ctx, 'roundtrip', [be, a], nontrivial=(be, str(a)) if a[1] % 2 else None)
        do(ctx, 'formats', [be, a[0]])
    # arbitrary token soups (prefixes in the middle, unknown characters, mixed codes and letters)
    pool = [0, 1, 2, 3, 4, 5, 6, 7, 1000 + ord('I'), 1000 + ord('X'), 1000 + ord('Y'), 1000 + ord('Z'), 1043, 1045, 1105, 1032, 1000 + ord('q'), 8, 9]
    for _ in range(int(600 * B)):
        toks = [rng.choice(pool) for _ in range(rng.randint(1, 9))]
        be = rng.choice(backends)
        do(ctx, 'parse_corr', [be, toks], nontrivial=(be, 't', str(toks)), sample=True)
    for _ in range(int(400 * B)):
        n = rng.randint(1, 4)
        L = rng.randint(1, 5)
        l = gen.rplist(rng, n, L)
        be = rng.choice(backends)
        kind = rng.choice(['int', 'slice', 'mask', 'idx', 'neg', 'rmul', 'weight'])
        if kind == 'int':
            ix = rng.randint(-L, L - 1)
        elif kind == 'slice':
            ix = [rng.choice([None] + list(range(-L - 1, L + 2))), rng.choice([None] + list(range(-L - 1, L + 2))), rng.choice([None, None, 1, 2, 3, -1, -1, -2, -3] if be == 'np' else [None, 1, 2, 3])]   # torch tensors reject negative steps themselves (ValueError), nothing to decide there
        elif kind == 'mask':
            ix = [rng.randint(0, 1) for _ in range(L)]
        elif kind == 'idx':
            ix = [rng.randint(-L, L - 1) for _ in range(rng.randint(1, 4))]
        elif kind == 'rmul':
            ix = rng.randint(0, 3)
        else:
            ix = None
        form = rng.choice(['array', 'pylist', 'npbool_list']) if kind == 'mask' else (rng.choice(['array', 'pylist', 'int32']) if kind == 'idx' else 'array')
        do(ctx, 'index', [be, l, kind, ix, form], nontrivial=(be, kind, str(l), str(ix), form))
        if kind in ('mask', 'idx'):
            ctx.res.count('index_form_' + form)
        ctx.res.count('index_' + kind)
    # polynomials: selected terms keep phases and coefficients
    for _ in range(int(120 * B)):
        n = rng.randint(1, 3)
        L = rng.randint(1, 5)
        terms = [[gen.rstr(rng, n), rng.randint(0, 3), [rng.choice([1, -1, 0.5, 2, 0]), rng.choice([0, 0, 1, -0.5])]] for _ in range(L)]
        be = rng.choice(['np', 'torch'])
        kind = rng.choice(['slice', 'mask', 'idx', 'int'])
        ix = {'slice': [rng.choice([None, 0, 1, -1, -2]), rng.choice([None, 1, 2, L, -1]), rng.choice([None, 1, 2])], 'mask': [rng.randint(0, 1) for _ in range(L)],
              'idx': [rng.randrange(L) for _ in range(rng.randint(1, 3))], 'int': rng.randrange(L)}[kind]
        do(ctx, 'poly_index', [be, terms, kind, ix], nontrivial=(be, 'pi', kind, str(terms), str(ix)))
    for it in range(int(150 * B)):
        n = rng.randint(1, 5)
        rows = gen.rplist(rng, n, rng.randint(1, 4))
        do(ctx, 'list_forms', [rng.choice(['np', 'np', 'torch']), rows, ['strings', 'dicts', 'codes', 'objects', 'mixed'][it % 5], rng.randrange(10 ** 6)], nontrivial=('lf', it))
    for it in range(int(60 * B)):
        n_ = rng.randint(1, 5)
        do(ctx, 'state_tokens', [['np', 'torch'][it % 2], gen.rtableau(rng, ctx.model, n_)], nontrivial=('stk', it))
    # the same description parsed twice gives two independent operators (the first one may have been updated in place in between)
    for it in range(int(48 * B)):
        do(ctx, 'ctor_fresh', [['np', 'torch'][it % 2], ['pauli_str', 'paulis_str', 'pauli'][(it // 2) % 3], rng.randint(2, 5), rng.randrange(10 ** 6), ['flip', 'library'][(it // 6) % 2]], nontrivial=('cf', it))
    for n_ in (11, 12, 17):
        for be_ in ('np', 'torch'):
            do(ctx, 'repr_objects', [be_, 'map', n_, rng.randrange(10 ** 6)], nontrivial=('rol', be_, n_))
    for _ in range(int(90 * B)):
        do(ctx, 'repr_objects', [rng.choice(['np', 'np', 'torch']), rng.choice(['list', 'map', 'state']), rng.randint(1, 4), rng.randrange(10 ** 6)], nontrivial=('ro', ctx.res.evaluations))
    # one long-lived operator object: uses interleaved with in-place updates
    for it in range(int(60 * B)):
        kinds, bes = ['pauli', 'list'], ['np', 'torch']
        do(ctx, 'op_history', [kinds[it % len(kinds)], rng.randint(1, 3), rng.randrange(10 ** 6), rng.randint(4, 12), bes[(it // len(kinds)) % len(bes)]], nontrivial=('oph', it))
