"""C19 -- stabilizer-group sampling and classical-shadow snapshots agree with the state."""
import numpy as np
from vlib import gen, dense as D, states as S
from vlib import impl_np as NP
from vlib.run import do
import pyclifford as pc
from pyclifford import circuit as CI

RULE = ('random valid tableaux N<=6 of every rank and sign pattern x sample sizes (selection matrix re-drawn from the same numpy seed and fed to the model); every sampled operator has expectation +1; '
        'density_matrix term lists against the model and the dense rho (N<=4), each group element exactly once with weight 2^-N, corner N-r=0; classical-shadow snapshots over on-site / global / '
        'brick-wall random circuits and fixed circuits: valid state, non-zero overlap with the base state, stabilized up to sign by the back-evolved basis, base state untouched. '
        'Non-trivial = mixed or signed state with at least two active stabilizers; distinct by (state, seed).')
ASSUMES = ['uniformity of numpy.random.randint is assumed (chi-square in the thorough tier is support only)']


def c_sample(ctx, args):
    t, L, seed = args
    n = len(t[0]) // 2
    s = NP.STATE(t)
    before = S.st_list(s)
    np.random.seed(seed)
    smp = s.sample(L)
    got = NP.oPL(smp)
    np.random.seed(seed)
    C = np.random.randint(2, size=(L, n - t[1])).tolist()
    if ctx.model is not None and not ctx.search:
        want = ctx.model.call('sample_rows', t, C)
        if got != want:
            return {'kind': 'corr', 'where': 'np:sample vs model', 'observed': got, 'expected': want}
    if S.st_list(s) != before:
        return {'kind': 'oracle', 'where': 'np:sample modified the state', 'observed': S.st_list(s), 'expected': before}
    xs = [int(v) for v in s.expect(NP.PL(got, 2 * n))] if got else []
    if any(x != 1 for x in xs):
        return {'kind': 'oracle', 'where': 'np:sampled operator is not a stabilizer with the right sign', 'observed': [got, xs], 'expected': 'expectation +1 for every sample'}
    if n <= 4:
        rho = S.rho(t)
        for a in got:
            if abs(np.trace(rho @ D.op(*a)) - 1) > 1e-9:
                return {'kind': 'oracle', 'where': 'np:sampled operator (dense)', 'observed': a, 'expected': 'Tr(rho P) = 1'}
    return None


def c_density(ctx, args):
    t = args[0]
    be = args[1] if len(args) > 1 else 'np'
    n = len(t[0]) // 2
    if be == 'np':
        s = NP.STATE(t)
    else:
        import vlib.impl_torch as TT
        s = TT.STATE(t)
    dm = s.density_matrix
    terms = [[[int(v) for v in g], int(round(float(p))) % 4] for g, p in zip(dm.gs, dm.ps)]
    cs = [complex(c) for c in dm.cs]
    if any(abs(c - 2.0 ** (-n)) > (1e-15 if be == 'np' else 1e-9) for c in cs):
        return {'kind': 'oracle', 'where': be + ':density_matrix weights', 'observed': cs[:4], 'expected': 2.0 ** (-n)}
    if ctx.model is not None and not ctx.search and n - t[1] <= 10:
        want = ctx.model.call('density_terms', t)
        if terms != want:
            return {'kind': 'corr', 'where': be + ':density_matrix terms vs model', 'observed': terms if len(terms) < 40 else len(terms), 'expected': want if len(want) < 40 else len(want)}
    if len(terms) != 2 ** (n - t[1]) or len({tuple(g) for g, p in terms}) != len(terms):
        return {'kind': 'oracle', 'where': be + ':density_matrix does not list every group element exactly once', 'observed': [len(terms), len({tuple(g) for g, p in terms})], 'expected': 2 ** (n - t[1])}
    if n <= 4:
        m = sum(c * D.op(*a) for c, a in zip(cs, terms))
        if not np.allclose(m, S.rho(t)):
            return {'kind': 'oracle', 'where': be + ':density_matrix (dense)', 'observed': 'sum of terms', 'expected': 'rho'}
    return None


def strings_rref(rows):
    m = [list(r) for r in rows]
    piv = 0
    for c in range(len(m[0]) if m else 0):
        k = next((i for i in range(piv, len(m)) if m[i][c]), None)
        if k is None:
            continue
        m[piv], m[k] = m[k], m[piv]
        for i in range(len(m)):
            if i != piv and m[i][c]:
                m[i] = [a ^ b for a, b in zip(m[i], m[piv])]
        piv += 1
    return [r for r in m if any(r)]


def c_shadow(ctx, args):
    t, kind, seed, nsample = args
    n = len(t[0]) // 2
    base = NP.STATE(t)
    before = S.st_list(base)
    NP.seed_numba(seed)
    np.random.seed(seed)
    if kind == 'onsite':
        circ = pc.onsite_rcc(n)
    elif kind == 'global':
        circ = pc.global_rcc(n)
    elif kind == 'brickwall':
        if n % 2:
            return None
        circ = pc.brickwall_rcc(n, 2)
    else:
        # 'fixed' | 'fixed_compiled' | 'fixed_mcircuit' | 'fixed_mcircuit_compiled': a deterministic circuit of either class, as built or compiled
        rng2 = __import__('random').Random(seed)
        if kind.startswith('diag'):
            # 'diag' | 'diag_copy' | 'diag_used_copy': the circuit that diagonalizes a stabilizer state (one gate given by its BACKWARD map only), as returned or copied
            u = gen.rtableau(rng2, ctx.model, n, r=0)
            circ0 = pc.diagonalize(NP.STATE(u))
            if kind == 'diag_used_copy':
                circ0.forward(NP.STATE(u))
            circ = circ0.copy() if 'copy' in kind else circ0
            ref = [[[list(a[0]), a[1] % 4] for a in u[0]], 0]          # the computational basis state taken backward through it is the diagonalized state itself
            z = pc.zero_state(n)
            circ.backward(z)
            if not S.same_state(S.st_list(z), ref):
                return {'kind': 'oracle', 'where': 'np:%s: the basis state taken backward through the circuit of diagonalize(state) is not that state' % kind, 'observed': S.st_list(z), 'expected': ref, 'tags': ['povm', kind]}
            ref = S.st_list(z)
        else:
            circ = pc.identity_circuit(n) if 'mcircuit' not in kind else CI.Circuit(n)
            for _ in range(3):
                circ.take(NP.mk_gate(gen.rgate(rng2, ctx.model, n, kinds=('gen', 'named'))))
            if kind.endswith('compiled'):
                circ.compile()
            # povm(k): k independent copies of the back-evolved computational basis state
            z = pc.zero_state(n)
            circ.backward(z)
            ref = S.st_list(z)
        ys = list(circ.povm(max(2, nsample)))
        for j, y in enumerate(ys):
            if S.st_list(y) != ref:
                return {'kind': 'oracle', 'where': 'np:povm sample %d of a %s circuit is not the back-evolved basis state' % (j, kind), 'observed': S.st_list(y), 'expected': ref, 'tags': ['povm']}
        if len({id(y) for y in ys}) != len(ys):
            return {'kind': 'oracle', 'where': 'np:povm yields the same object several times', 'observed': len({id(y) for y in ys}), 'expected': len(ys), 'tags': ['povm']}
    shadow = pc.ClassicalShadow(base, circ)
    # reproduce the povm states to know the measured basis: same seeds, same call order is not guaranteed for random circuits,
    # so the basis is taken from the snapshot itself: its stabilizer strings must span the same space as some back-evolved basis.
    snaps = list(shadow.snapshots(nsample))
    if len(snaps) != nsample or len({id(x) for x in snaps}) != nsample or any(x is base for x in snaps):
        return {'kind': 'oracle', 'where': 'np:snapshots(%d) must yield that many distinct fresh states' % nsample, 'observed': len(snaps), 'expected': nsample}
    if S.st_list(base) != before:
        return {'kind': 'oracle', 'where': 'np:snapshots modified the base state', 'observed': S.st_list(base), 'expected': before}
    for sn in snaps:
        st = S.st_list(sn)
        if ctx.model.call('tableau_ok', st) != 1:
            return {'kind': 'oracle', 'where': 'np:snapshot is not a valid state', 'observed': st, 'expected': 'tableau_ok'}
        if n <= 3:
            ov = np.trace(S.rho(t) @ S.rho(st)).real
            if ov < 1e-12:
                return {'kind': 'oracle', 'where': 'np:snapshot has zero overlap with the measured state', 'observed': ov, 'expected': '> 0'}
    if kind.startswith('fixed'):
        # deterministic circuit: the back-evolved basis is known; every snapshot is pure and stabilized up to sign by it
        z = pc.zero_state(n)
        circ.backward(z)
        basis = strings_rref([r[0] for r in S.st_list(z)[0][:n]])
        for sn in snaps:
            st = S.st_list(sn)
            if st[1] != 0 or strings_rref([r[0] for r in st[0][:n]]) != basis:
                return {'kind': 'oracle', 'where': 'np:snapshot is not stabilized (up to sign) by the back-evolved basis', 'observed': st, 'expected': basis}
            if not ctx.search:
                pass
        if 'mcircuit' not in kind:
            # the measurement circuit goes on being built after the shadow was used: later snapshots follow the circuit as it is THEN
            rng3 = __import__('random').Random(seed + 5)
            extra = [NP.mk_gate(gen.rgate(rng3, ctx.model, n, kinds=('gen', 'named'))) for _ in range(2)]
            for g_ in extra:
                circ.take(g_)
            if kind.endswith('compiled'):
                circ.compile()          # (the documented duty of whoever compiled it)
            z = pc.zero_state(n)
            for ly in list(circ.layers_backward()):
                for g_ in reversed(getattr(ly, 'gates', [])):
                    g_.backward(z)
            basis2 = strings_rref([r[0] for r in S.st_list(z)[0][:n]])
            for sn in shadow.snapshots(2):
                st = S.st_list(sn)
                if st[1] != 0 or strings_rref([r[0] for r in st[0][:n]]) != basis2:
                    return {'kind': 'oracle', 'where': 'np:after the circuit was extended, a snapshot is not stabilized by the back-evolved basis of the circuit as it is now', 'observed': st, 'expected': basis2, 'tags': ['shadow_extend']}
    return None


def c_snapshot_corr(ctx, args):
    """one snapshot against the model: measure (copy of base) with the stabilizers of a given povm state; coins recovered"""
    t, povm, seed = args
    n = len(t[0]) // 2
    s = NP.STATE(t).copy()
    NP.seed_numba(seed)
    out, lp = s.measure(NP.STATE(povm))
    outs = [int(v) for v in out]
    obs = povm[0][povm[1]:n]
    flags = ctx.model.call('measure_flags', t, obs)
    coins = S.recover_coins(flags, outs, obs)
    mt, mouts, mlp = ctx.model.call('snapshot', t, povm, coins)
    got = S.st_list(s)
    if mouts != outs or mlp != int(lp) or not S.same_state(got, mt):
        return {'kind': 'corr', 'where': 'np:snapshot (measure of a state) vs model', 'observed': [got, outs, lp], 'expected': [mt, mouts, mlp]}
    return None


def c_history(ctx, args):
    """a query on ONE reused object, after in-place (often sign-only) updates, equals the same query on a fresh equal object"""
    from vlib import history
    kind, n, seed, steps, which = args
    return history.reused_object_history(ctx, kind, n, seed, steps, which)


CHECKS = {'sample': c_sample, 'density': c_density, 'shadow': c_shadow, 'snapshot_corr': c_snapshot_corr, 'history': c_history}


def run(ctx):
    ctx.checks = CHECKS
    rng, B = ctx.rng, ctx.budget
    # corpus: signed state (phases were dropped by copy() before the fix), and the N-r = 0 corner of density_matrix
    do(ctx, 'density', [[[[[0, 1], 2], [[1, 0], 0]], 1]], nontrivial='corner', sample=True)
    do(ctx, 'shadow', [[[[[0, 1], 2], [[1, 0], 0]], 0], 'fixed', 3, 2], nontrivial='w_sign')
    for it in range(int(300 * B)):
        n = rng.randint(1, 6)
        t = gen.rtableau(rng, ctx.model, n)
        nt = (n - t[1] >= 2) and (t[1] > 0 or any(p for _, p in t[0][:n]))
        do(ctx, 'sample', [t, rng.randint(1, 8), rng.randrange(10 ** 6)], nontrivial=('s', it) if nt else None, sample=(it < 1))
        if n - t[1] <= 5:
            do(ctx, 'density', [t], nontrivial=('d', it) if nt else None)
        ctx.res.count('rank%d_N%d' % (t[1], n))
    # LARGE groups: the expansion enumerates 2^(N-r) selections through their binary representations -- more generators than fit one byte, two bytes
    for k, n in ([(8, 8), (9, 9), (9, 10), (10, 11), (12, 12), (1, 63), (2, 64), (3, 65)] + ([(15, 15), (16, 16), (17, 17)] if ctx.tier == 'thorough' and not ctx.is_worker else [])):
        t = gen.rtableau(rng, ctx.model, n, r=n - k)
        do(ctx, 'density', [t], nontrivial=('dl', k, n))
        ctx.res.count('density_generators_%d' % k)
    for it in range(int(70 * B)):
        n = rng.randint(1, 4)
        t = gen.rtableau(rng, ctx.model, n)
        kind = rng.choice(['onsite', 'global', 'brickwall', 'fixed', 'fixed', 'fixed_compiled', 'fixed_compiled', 'fixed_mcircuit', 'fixed_mcircuit_compiled', 'diag', 'diag_copy', 'diag_copy', 'diag_used_copy'])
        do(ctx, 'shadow', [t, kind, rng.randrange(10 ** 6), 3], nontrivial=('sh', kind, it))
        do(ctx, 'snapshot_corr', [t, gen.rtableau(rng, ctx.model, n, r=0), rng.randrange(10 ** 6)], nontrivial=('sc', it))
        ctx.res.count('shadow_' + kind)
    # histories on one reused object: lazily kept results must follow every in-place update
    for _ in range(int(40 * B)):
        do(ctx, 'history', ['state', rng.randint(1, 4), rng.randrange(10 ** 6), rng.randint(4, 12), ['density_matrix', 'stabilizers']], nontrivial=('h', 'state', ctx.res.evaluations))
