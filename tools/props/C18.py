"""C18 -- diagonalize and SBRG return circuits that really diagonalize."""
import numpy as np
from vlib import gen, dense as D, states as S
from vlib import impl_np as NP
from vlib.run import corr, do, impl
from vlib.core import Err
import pyclifford as pc

RULE = ('all non-identity strings x both signs x all target qubits x causal on/off for N<=3 (exhaustive), random N<=8; kernels pauli_diagonalize1/2 against the model; pure states with signs '
        '(forward to |0..0>, backward re-encodes); SBRG on commuting Hamiltonians (exactness incl. spectrum for N<=3) and arbitrary ones (diagonal form), dyadic coefficients; torch on the '
        'shared parts. Non-trivial = string of weight>=2 not already diagonal; distinct by input.')
ASSUMES = ['SBRG: float coefficients and argmax ties are not modelled (coefficients chosen with distinct magnitudes)']


def c_diag_kernels(ctx, args):
    be, g1, g2, i0 = args
    r = corr(ctx, be, 'diag1', [g1, i0])
    if r is None and g2 is not None:
        r = corr(ctx, be, 'diag2', [g1, g2, i0])
    return r


def c_diag_pauli(ctx, args):
    be, a, i0, causal = args[:4]
    n = len(a[0]) // 2
    if be != 'np':
        import torchclifford as tc, vlib.impl_torch as TT
    if be == 'np':
        P = NP.P(a)
        circ = pc.diagonalize(P, i0, causal=causal)
        Q = P.copy()
        circ.forward(Q)
        got = NP.oP(Q)
        gates = [[int(q) for q in g.qubits] for layer in circ.layers_forward() for g in layer.gates]
    else:
        import torchclifford as tc, vlib.impl_torch as TT
        P = TT.P(a)
        try:
            circ = tc.diagonalize(P, i0, causal=causal)
            Q = P.copy()
            circ.forward(Q)
            got = TT.oP(Q)
        except Exception as e:
            return {'kind': 'oracle', 'where': 'torch:diagonalize raised %s' % type(e).__name__, 'observed': str(e)[:120], 'expected': 'a circuit', 'tags': ['torch', 'causal' if causal else 'plain']}
        gates = [[int(q) for q in g.qubits] for layer in circ.layers_forward() for g in layer.gates]
    if causal:
        want_g = a[0][:2 * i0] + [0, 1] + [0] * (2 * (n - i0 - 1))
        if not any(a[0][2 * i0:]):
            want_g = list(a[0])
        if got[0] != want_g or got[1] not in (a[1] % 4, (a[1] + 2) % 4):
            return {'kind': 'oracle', 'where': be + ':diagonalize(causal)', 'observed': got, 'expected': [want_g, 'same or opposite sign'], 'tags': [be]}
        if any(q < i0 for qs in gates for q in qs):
            return {'kind': 'oracle', 'where': be + ':causal diagonalize acts on an earlier qubit', 'observed': gates, 'expected': 'qubits >= %d' % i0, 'tags': [be]}
    else:
        want_g = [0] * (2 * n)
        want_g[2 * i0 + 1] = 1
        if got[0] != want_g or got[1] not in (a[1] % 4, (a[1] + 2) % 4):
            return {'kind': 'oracle', 'where': be + ':diagonalize', 'observed': got, 'expected': [want_g, 'same or opposite sign'], 'tags': [be]}
    M = NP if be == 'np' else TT
    circ.backward(Q)
    if M.oP(Q) != [a[0], a[1] % 4]:
        return {'kind': 'oracle', 'where': be + ':diagonalize backward does not restore', 'observed': M.oP(Q), 'expected': a, 'tags': [be]}
    # the returned circuit is a circuit like any other: compiled, copied, or both, it acts as it did gate by gate (on every generator), both ways
    variant = args[4] if len(args) > 4 else 'orig'
    if variant != 'orig':
        gens = [[r[0], 0] for r in gen.identity_rows(n)] + [[list(a[0]), a[1] % 4]]
        ref = M.oPL(circ.forward(M.PL(gens)))
        lib = pc if be == 'np' else tc
        c2 = lib.diagonalize(M.P(a), i0, causal=causal)
        try:
            if variant in ('compiled', 'compiled_copy'):
                c2.compile()
            if variant in ('copy', 'compiled_copy'):
                c2 = c2.copy()
            got2 = M.oPL(c2.forward(M.PL(gens)))
            back2 = M.oPL(c2.backward(M.PL(ref)))
        except Exception as e:
            return {'kind': 'oracle', 'where': '%s:diagonalize(...) %s raised %s' % (be, variant, type(e).__name__), 'observed': str(e)[:120], 'expected': 'the same action', 'tags': [be, variant]}
        if got2 != ref:
            return {'kind': 'oracle', 'where': '%s:diagonalize(...) acts differently once %s' % (be, variant), 'observed': got2, 'expected': ref, 'tags': [be, variant]}
        if back2 != gens:
            return {'kind': 'oracle', 'where': '%s:diagonalize(...) %s: backward does not undo forward' % (be, variant), 'observed': back2, 'expected': gens, 'tags': [be, variant]}
    return None


def c_diag_state(ctx, args):
    t = args[0]
    variant = args[1] if len(args) > 1 else 'orig'      # orig | copy (before any run) | used_copy (copied after one forward) | compiled | compiled_copy
    be = args[2] if len(args) > 2 else 'np'
    n = len(t[0]) // 2
    if be == 'np':
        M, lib = NP, pc
    else:
        import torchclifford as tc, vlib.impl_torch as TT
        M, lib = TT, tc
    s = M.STATE(t)
    try:
        circ = lib.diagonalize(s)
        if variant == 'copy':
            circ = circ.copy()
        elif variant == 'used_copy':
            circ.forward(s.copy())
            circ = circ.copy()
        elif variant in ('compiled', 'compiled_copy'):
            circ.compile()
            if variant == 'compiled_copy':
                circ = circ.copy()
        s2 = s.copy()
        circ.forward(s2)
        after = M.oST(s2)
        circ.backward(s2)
        back = M.oST(s2)
    except Exception as e:
        return {'kind': 'oracle', 'where': '%s:diagonalize(state) %s raised %s' % (be, variant, type(e).__name__), 'observed': str(e)[:120], 'expected': 'a circuit that runs', 'tags': [be, variant]}
    zero = S.st_list(pc.zero_state(n))
    if not S.same_state(after, zero):
        return {'kind': 'oracle', 'where': be + ':diagonalize(state).forward', 'observed': after, 'expected': '|0...0>', 'tags': [be, variant]}
    if not S.same_state(back, t):
        return {'kind': 'oracle', 'where': be + ':diagonalize(state).backward', 'observed': back, 'expected': t, 'tags': [be, variant]}
    return None


def c_sbrg(ctx, args):
    n, terms, commuting = args[:3]        # terms [[g, coef(float dyadic)], ...]
    max_rate = args[3] if len(args) > 3 else None         # None: the default (2.); otherwise the optional truncation rate (0 keeps no second-order term at all)
    H = pc.PauliPolynomial(NP.GS([t[0] for t in terms], 2 * n)).set_cs(np.array([t[1] for t in terms], dtype=np.complex128))
    try:
        heff, circ = pc.SBRG(H) if max_rate is None else pc.SBRG(H, max_rate=max_rate)
    except Exception as e:
        return {'kind': 'oracle', 'where': 'np:SBRG raised %s' % type(e).__name__, 'observed': str(e)[:150], 'expected': 'heff, circ',
                'tags': ['identity_leading'] if not any(max(terms, key=lambda t: abs(t[1]))[0]) else []}
    for g in heff.gs:
        if any(int(g[2 * i]) for i in range(n)):
            return {'kind': 'oracle', 'where': 'np:SBRG effective Hamiltonian has a non-diagonal term', 'observed': [int(v) for v in g], 'expected': 'I/Z strings only'}
    if ctx.model is not None and not ctx.search and max_rate is None:
        # the Gallina model of the whole SBRG loop (Model/Sbrg.v, exact Gaussian rationals): same strings in the same order, same circuit; coefficients agree up to
        # floating-point rounding (1/leading is not dyadic in general).  A decision of the loop that hinges on a near-tie cannot be compared: then the case is skipped.
        from fractions import Fraction as Fr
        obj = [2, n, [[[[Fr(t[1]).numerator, Fr(t[1]).denominator], [0, 1]], [t[0], 0]] for t in terms]]
        mr = ctx.model.call('sbrg', [1, 10 ** 8], [1, 10 ** 10], obj)
        if isinstance(mr, Err):
            ctx.res.count('sbrg_model_error')
        else:
            ctx.res.count('sbrg_model_compared')
            mheff, mgates = mr
            mterms = [(t[1][0], complex(Fr(t[0][0][0], t[0][0][1]), Fr(t[0][1][0], t[0][1][1])) * (1j ** (t[1][1] % 4))) for t in mheff[2]]
            iterms = [([int(v) for v in g], complex(c) * (1j ** (int(p) % 4))) for g, p, c in zip(heff.gs, heff.ps, heff.cs)]
            same = len(mterms) == len(iterms) and all(a[0] == b[0] and abs(a[1] - b[1]) <= 1e-9 * max(1.0, abs(a[1])) for a, b in zip(mterms, iterms))
            l = [[r[0], 0] for r in gen.identity_rows(n)]
            o, ref = NP.PL(l), NP.PL(l)
            circ.forward(o)
            for qs, ge in mgates:
                NP.mk_gate([qs, [0, ge]]).forward(ref)
            same_circ = NP.oPL(o) == NP.oPL(ref)
            if not (same and same_circ):
                mags_ = sorted(abs(t[1]) for t in terms)
                near_tie = any(b - a <= 1e-9 * b for a, b in zip(mags_, mags_[1:]))
                if near_tie:
                    ctx.res.count('sbrg_near_tie_skipped')
                else:
                    return {'kind': 'corr', 'where': 'np:SBRG vs the model of the loop (%s)' % ('heff' if not same else 'circuit'), 'observed': [[g, [c.real, c.imag]] for g, c in iterms][:8],
                            'expected': [[g, [c.real, c.imag]] for g, c in mterms][:8]}
    if commuting:
        Hc = H.copy()
        circ.forward(Hc)
        a = Hc.reduce()
        b = heff.reduce()
        da = {tuple(int(v) for v in g): complex(c) for g, c in zip(a.gs, a.cs)}
        db = {tuple(int(v) for v in g): complex(c) for g, c in zip(b.gs, b.cs)}
        keys = set(da) | set(db)
        if any(abs(da.get(k, 0) - db.get(k, 0)) > 1e-9 for k in keys):
            lead_ident = not any(max(terms, key=lambda t: abs(t[1]))[0])
            return {'kind': 'oracle', 'where': 'np:SBRG circuit does not map a commuting Hamiltonian onto heff', 'observed': sorted((k, db[k].real) for k in db)[:6], 'expected': sorted((k, da[k].real) for k in da)[:6],
                    'tags': ['identity_leading'] if lead_ident else []}
        if n <= 3:
            def dense(p):
                m = np.zeros((2 ** n, 2 ** n), dtype=complex)
                for g, c in zip(p.gs, p.cs):
                    m = m + c * D.sigma(g)
                return m
            w1 = np.sort(np.linalg.eigvalsh(dense(H)))
            w2 = np.sort(np.linalg.eigvalsh(dense(heff)))
            if not np.allclose(w1, w2, atol=1e-8):
                return {'kind': 'oracle', 'where': 'np:SBRG does not preserve the spectrum of a commuting Hamiltonian', 'observed': w2.tolist(), 'expected': w1.tolist()}
    return None


def c_diag_fresh(ctx, args):
    """the circuit returned by diagonalize is the caller's: extending it (circuits are builders) does not show in the circuit a LATER call returns for the same operator"""
    be, a, i0, causal = args
    if be == 'np':
        M, lib = NP, pc
    else:
        import torchclifford as tc, vlib.impl_torch as TT
        M, lib = TT, tc
    n = len(a[0]) // 2
    probe = [[r[0], 0] for r in gen.identity_rows(n)] + [[list(a[0]), a[1] % 4]]
    c1 = lib.diagonalize(M.P(a), i0, causal=causal)
    ref = M.oPL(c1.forward(M.PL(probe)))
    rr = __import__('random').Random(i0 + n)
    for _ in range(2):
        c1.take(M.mk_gate(gen.rgate(rr, ctx.model, n, kinds=('gen',))))
    c2 = lib.diagonalize(M.P([a[0], (a[1] + 2) % 4]), i0, causal=causal)          # the same string (either sign) again
    got = M.oPL(c2.forward(M.PL(probe)))
    if got != ref:
        return {'kind': 'oracle', 'where': be + ':diagonalize handed out a circuit that an earlier caller had extended', 'observed': got, 'expected': ref, 'tags': ['diag_fresh', be]}
    return None


CHECKS = {'diag_fresh': c_diag_fresh, 'diag_kernels': c_diag_kernels, 'diag_pauli': c_diag_pauli, 'diag_state': c_diag_state, 'sbrg': c_sbrg}


def run(ctx):
    ctx.checks = CHECKS
    rng, B = ctx.rng, ctx.budget
    for n in (1, 2, 3):
        for g in gen.all_strings(n):
            if not any(g):
                continue
            for i0 in range(n):
                for be in ('np', 'torch'):
                    if be == 'torch' and rng.random() > 0.25:
                        continue
                    do(ctx, 'diag_kernels', [be, g, None, i0], nontrivial=(be, 'k', str(g), i0))
                for p in (0, 2):
                    for causal in (False, True):
                        do(ctx, 'diag_pauli', ['np', [g, p], i0, causal], nontrivial=('d', str(g), p, i0, causal) if sum(1 for i in range(n) if g[2 * i] or g[2 * i + 1]) >= 2 else None,
                           sample=(n == 3 and i0 == 1 and causal and p == 2 and g == [1, 1, 0, 1, 1, 0]))
                        if rng.random() < 0.08:
                            do(ctx, 'diag_pauli', ['torch', [g, p], i0, causal])
    ctx.res.exhaustive = True
    for it in range(int(250 * B)):
        n = rng.randint(2, 8)
        g1 = gen.rstr(rng, n, nonzero=True)
        i0 = rng.randrange(n)
        # anticommuting partner for diag2
        g2 = gen.rstr(rng, n)
        acq = sum(g1[2 * i + 1] * g2[2 * i] - g1[2 * i] * g2[2 * i + 1] for i in range(n)) % 2
        be = 'np' if rng.random() < 0.8 else 'torch'
        do(ctx, 'diag_kernels', [be, g1, g2 if acq == 1 else None, i0], nontrivial=(be, 'k', it))
        do(ctx, 'diag_pauli', ['np', [g1, rng.choice([0, 2])], i0, rng.random() < 0.5], nontrivial=('d', it))
        n3 = rng.randint(2, 4)
        if it % 4 == 0:
            do(ctx, 'diag_fresh', [['np', 'torch'][(it // 4) % 2], [gen.rstr(rng, n3, nonzero=True), rng.choice([0, 2])], rng.randrange(n3), rng.random() < 0.5], nontrivial=('df', it))
        n2 = rng.randint(2, 5)
        do(ctx, 'diag_pauli', [rng.choice(['np', 'torch']), [gen.rstr(rng, n2, nonzero=True), rng.choice([0, 2])], rng.randrange(n2), rng.random() < 0.5, rng.choice(['compiled', 'copy', 'compiled_copy'])],
           nontrivial=('dv', it))
    for it in range(int(60 * B)):
        n = rng.randint(1, 5)
        do(ctx, 'diag_state', [gen.rtableau(rng, ctx.model, n, r=0)], nontrivial=('s', it))
    # basis and product-like states (0-2 rotations away from |b>) with every kind of sign pattern
    for it in range(int(60 * B)):
        n = rng.randint(1, 4)
        do(ctx, 'diag_state', [gen.rtableau(rng, ctx.model, n, r=0, depth=rng.randint(0, 2))], nontrivial=('sb', it))
        do(ctx, 'diag_state', [gen.rtableau(rng, ctx.model, n, r=0), rng.choice(['copy', 'used_copy', 'compiled_copy'])], nontrivial=('sc', it))
        do(ctx, 'diag_state', [gen.rtableau(rng, ctx.model, n, r=0), rng.choice(['orig', 'copy', 'used_copy', 'compiled', 'compiled_copy']), 'torch'], nontrivial=('st', it))
    # corpus: witnesses of the fixed identity-leading-term defect
    do(ctx, 'sbrg', [2, [[[0, 0, 0, 0], 3.0], [[0, 1, 0, 1], 1.0], [[1, 0, 1, 0], 0.5]], True], nontrivial='w_id1', sample=True)
    do(ctx, 'sbrg', [2, [[[0, 0, 0, 0], 3.0], [[1, 1, 0, 1], 1.0], [[0, 1, 1, 1], 0.5]], True], nontrivial='w_id2')
    do(ctx, 'sbrg', [1, [[[0, 0], 2.0]], True], nontrivial='w_id3')
    # corpus: witnesses of the fixed empty-second-order defect (off-diagonal terms survived into heff)
    do(ctx, 'sbrg', [1, [[[0, 1], 1.0], [[1, 0], 2.0 ** -20]], False], nontrivial='w_weak1', sample=True)
    do(ctx, 'sbrg', [2, [[[0, 1, 0, 0], 1.0], [[1, 0, 0, 1], 0.3]], False, 0.5], nontrivial='w_rate')
    do(ctx, 'sbrg', [3, [[[0, 1, 0, 1, 0, 0], 1.0], [[0, 0, 0, 1, 0, 1], 0.9], [[1, 0, 0, 0, 0, 0], 0.5], [[0, 0, 1, 0, 0, 0], 0.4], [[0, 0, 0, 0, 1, 0], 0.3]], False, 0], nontrivial='w_rate0')
    do(ctx, 'sbrg', [2, [[[0, 1, 0, 0], 1.0], [[1, 0, 1, 0], 2.0 ** -20], [[0, 0, 0, 1], 0.5]], False], nontrivial='w_weak2')
    # magnitudes: comparable ones, and a widely spread family (weak couplings whose second-order terms fall below the tolerance)
    mags = [2.0 ** (-k) * (1 + j / 8.0) for k in range(0, 6) for j in range(8)] + [2.0 ** (-k) for k in (12, 16, 20, 24, 30)]
    for it in range(int(80 * B)):
        n = rng.randint(2, 4)
        commuting = rng.random() < 0.6
        L = rng.randint(1, 5)
        if commuting:
            m = gen.rmap(rng, ctx.model, n)
            zs = [m[2 * i + 1][0] for i in range(n)]
            strs = []
            for _ in range(L):
                sel = [rng.randint(0, 1) for _ in range(n)]
                g = [0] * (2 * n)
                for s_, z in zip(sel, zs):
                    if s_:
                        g = [a ^ b for a, b in zip(g, z)]
                strs.append(g)
        else:
            strs = [gen.rstr(rng, n) for _ in range(L)]
        uniq = []
        for g in strs:
            if g not in uniq:
                uniq.append(g)
        if rng.random() < 0.4 and [0] * (2 * n) not in uniq:
            uniq.insert(0, [0] * (2 * n))       # an identity term, often the largest one
        cs = sorted(rng.sample(mags, len(uniq)), reverse=(rng.random() < 0.5))
        terms = [[g, c * rng.choice([1, -1])] for g, c in zip(uniq, cs)]
        do(ctx, 'sbrg', [n, terms, commuting], nontrivial=('h', it))
        if it % 2 == 0:          # the optional truncation rate, from "keep nothing" upwards (round() of a half goes to the even neighbour: 0.5 of one term keeps none)
            do(ctx, 'sbrg', [n, terms, commuting, rng.choice([0, 0, 0.25, 0.5, 0.5, 1, 1.5, 4])], nontrivial=('hr', it))
        ctx.res.count('sbrg_commuting' if commuting else 'sbrg_generic')
