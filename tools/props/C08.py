"""C08 -- entropy equals the von Neumann entropy of the reduced density matrix."""
import numpy as np
from vlib import gen, dense as D, states as S
from vlib import impl_np as NP
from vlib.run import corr, do, impl

RULE = ('(state of any rank, region): all one- and two-qubit canonical tableaux built by the model x all regions; random valid tableaux N<=6 of every rank x random regions '
        '(index lists, tuples, boolean masks, empty, full); regenerated generating sets; Cliffords inside/outside the region. Oracle = dense von Neumann entropy (N<=4). '
        'Non-trivial = mixed state or entangled pure state with a proper non-empty region; distinct by (state, region).')
ASSUMES = ['entropy value of a stabilizer state = qubits minus generators supported inside (cited); dense eigenvalues used as numerical support']


def gf2_rank(m):
    m = [list(r) for r in m]
    r = 0
    for c in range(len(m[0]) if m else 0):
        k = next((i for i in range(r, len(m)) if m[i][c]), None)
        if k is None:
            continue
        m[r], m[k] = m[k], m[r]
        for i in range(len(m)):
            if i != r and m[i][c]:
                m[i] = [a ^ b for a, b in zip(m[i], m[r])]
        r += 1
    return r


def rank_tags(be, t, mask):
    """tags identifying the inputs on which a real-number rank differs from the GF(2) rank (torch z2rank = matrix_rank)"""
    n = len(t[0]) // 2
    r = t[1]
    tags = [be, 'mixed' if r else 'pure']
    gs = [x[0] for x in t[0][r:n]]
    if not gs:
        return tags
    if r:
        sub = [[row[2 * i + d] for i, b in enumerate(mask) if not b for d in (0, 1)] for row in gs]
        mats = [sub] if sub and sub[0] else []
    else:
        ins = [any(row[2 * i + d] for i, b in enumerate(mask) if b for d in (0, 1)) for row in gs]
        out = [any(row[2 * i + d] for i, b in enumerate(mask) if not b for d in (0, 1)) for row in gs]
        acr = [[row[2 * i + d] for i, b in enumerate(mask) if b for d in (0, 1)] for row, a, o in zip(gs, ins, out) if a and o]
        acq = [[sum(a[2 * i + 1] * b[2 * i] - a[2 * i] * b[2 * i + 1] for i in range(len(a) // 2)) % 2 for b in acr] for a in acr]
        mats = [acq] if acq else []
    for m in mats:
        if int(np.linalg.matrix_rank(np.array(m, dtype=float))) != gf2_rank(m):
            tags.append('real_rank_differs_from_gf2_rank')
    return tags


def c_ent_corr(ctx, args):
    be, t, mask = args
    r = corr(ctx, be, 'entropy', [t, mask])
    if r is not None:
        r['tags'] = rank_tags(be, t, mask)
    return r


def c_ent_dense(ctx, args):
    be, t, mask = args
    n = len(t[0]) // 2
    got = impl(be).OPS['entropy'](t, mask)
    A = [i for i, b in enumerate(mask) if b]
    want = D.vn_entropy_bits(D.partial_trace(S.rho(t), n, A)) if A else 0.0
    if not isinstance(got, int) or abs(got - want) > 1e-8:
        return {'kind': 'oracle', 'where': be + ':entropy', 'observed': repr(got), 'expected': want, 'tags': rank_tags(be, t, mask)}
    return None


def c_ent_forms(ctx, args):
    """index list / tuple / boolean mask / empty describe the same region; 0 for empty, r for the whole system; pure: region == complement"""
    t, mask = args
    n = len(t[0]) // 2
    s = NP.STATE(t)
    A = [i for i, b in enumerate(mask) if b]
    vals = []
    if A:
        import random as _r
        rr = _r.Random(len(A) * 1009 + sum(A) + n)
        perms = [rr.sample(A, len(A)) for _ in range(3)]          # an index list names a SET of qubits: any order, as list / tuple / integer array
        vals = [int(s.entropy(A)), int(s.entropy(tuple(A))), int(s.entropy(np.array(mask, dtype=np.bool_))), int(s.entropy(list(reversed(A))))] + \
               [int(s.entropy(list(perms[0]))), int(s.entropy(tuple(perms[1]))), int(s.entropy(np.array(perms[2])))] + \
               [int(s.entropy([q - n if (q + len(A)) % 2 else q for q in A])), int(s.entropy(np.array([q - n for q in A])))]        # negative indices count from the end (numpy semantics)
        if len(set(vals)) != 1:
            return {'kind': 'oracle', 'where': 'np:entropy input forms disagree', 'observed': vals, 'expected': 'equal'}
    # the caller's own boolean mask, handed to a pure state first and to states of other ranks afterwards: never written to, and still naming the same region
    marr = np.array(mask, dtype=np.bool_)
    pure = NP.STATE([t[0], 0])
    v0 = int(pure.entropy(marr))
    vs = [int(NP.STATE([t[0], r_]).entropy(marr)) for r_ in range(0, n + 1)]
    if [bool(b) for b in marr] != [bool(b) for b in mask]:
        return {'kind': 'oracle', 'where': 'np:entropy wrote into the boolean mask it was given', 'observed': [bool(b) for b in marr], 'expected': [bool(b) for b in mask], 'tags': ['plain_args']}
    ref = [int(NP.STATE([t[0], r_]).entropy(np.array(mask, dtype=np.bool_))) for r_ in range(0, n + 1)]
    if vs != ref or v0 != ref[0]:
        return {'kind': 'oracle', 'where': 'np:entropy of a reused mask object differs from a fresh mask', 'observed': vs, 'expected': ref, 'tags': ['plain_args']}
    if s.entropy([]) != 0:
        return {'kind': 'oracle', 'where': 'np:entropy(empty)', 'observed': s.entropy([]), 'expected': 0}
    if int(s.entropy(list(range(n)))) != t[1]:
        return {'kind': 'oracle', 'where': 'np:entropy(whole system)', 'observed': int(s.entropy(list(range(n)))), 'expected': t[1]}
    if t[1] == 0 and A and len(A) < n:
        comp = [i for i in range(n) if i not in A]
        if int(s.entropy(A)) != int(s.entropy(comp)):
            return {'kind': 'oracle', 'where': 'np:pure state region vs complement', 'observed': [int(s.entropy(A)), int(s.entropy(comp))], 'expected': 'equal'}
    return None


def c_ent_invariance(ctx, args):
    """same group, other generators; Clifford inside or outside the region"""
    t, mask, sel, m_in, m_out = args
    n = len(t[0]) // 2
    r = t[1]
    base = impl('np').OPS['entropy'](t, mask)
    # regenerate: multiply active generator i by active generator j (i != j) according to sel
    rows = [list(x) for x in t[0]]
    for (i, j) in sel:
        if i != j:
            rows[r + i] = S.pmul_py(rows[r + i], rows[r + j])
    got = int(NP.U.stabilizer_entropy(NP.GS([x[0] for x in rows[r:n]], 2 * n), np.array(mask, dtype=np.bool_))) if n > r else base
    if got != base:
        return {'kind': 'oracle', 'where': 'np:entropy depends on the generating set', 'observed': got, 'expected': base}
    kin = sum(mask)
    if m_in is not None and kin:
        t2 = impl('np').OPS['state_transform'](m_in, mask, t)
        if impl('np').OPS['entropy'](t2, mask) != base:
            return {'kind': 'oracle', 'where': 'np:entropy changed by a Clifford inside the region', 'observed': impl('np').OPS['entropy'](t2, mask), 'expected': base}
    if m_out is not None and kin < n:
        comp = [1 - b for b in mask]
        t3 = impl('np').OPS['state_transform'](m_out, comp, t)
        if impl('np').OPS['entropy'](t3, mask) != base:
            return {'kind': 'oracle', 'where': 'np:entropy changed by a Clifford outside the region', 'observed': impl('np').OPS['entropy'](t3, mask), 'expected': base}
    return None


def c_z2rank(ctx, args):
    be, m = args
    r = corr(ctx, be, 'z2rank', [m])
    if r is None and be == 'np' and len(m) <= 6:
        # independent oracle: size of the GF(2) row span
        span = {tuple([0] * len(m[0]))}
        for row in m:
            span |= {tuple(a ^ b for a, b in zip(v, row)) for v in span}
        got = impl('np').OPS['z2rank'](m)
        if 2 ** got != len(span):
            return {'kind': 'oracle', 'where': 'np:z2rank', 'observed': got, 'expected': 'log2 |row span| = %d' % int(np.log2(len(span)))}
    return r


def c_history(ctx, args):
    """a query on ONE reused object, after in-place (often sign-only) updates, equals the same query on a fresh equal object"""
    from vlib import history
    kind, n, seed, steps, which = args
    return history.reused_object_history(ctx, kind, n, seed, steps, which)


CHECKS = {'ent_corr': c_ent_corr, 'ent_dense': c_ent_dense, 'ent_forms': c_ent_forms, 'ent_invariance': c_ent_invariance, 'z2rank': c_z2rank, 'history': c_history}


def run(ctx):
    import itertools
    ctx.checks = CHECKS
    rng, B = ctx.rng, ctx.budget
    # corpus: the witness of the fixed mixed-branch defect (stabilizer XX alone, region {0})
    wit = ctx.model.call('stabilizer_state', 2, [[[1, 0, 1, 0], 0]])
    do(ctx, 'ent_dense', ['np', wit, [1, 0]], nontrivial='w', sample=True)
    do(ctx, 'ent_corr', ['np', wit, [1, 0]])
    # LARGE registers: byte, word and cache-line boundaries of every packed or vectorised representation (8, 9, 16, 17, 33, 64, 65 qubits); model correspondence only
    for n in gen.BIG:
        t = gen.rtableau(rng, ctx.model, n)
        for mask in ([1 if q < n // 2 else 0 for q in range(n)], [rng.randint(0, 1) for _ in range(n)]):
            do(ctx, 'ent_corr', ['np', t, mask], nontrivial=('big', n, str(mask)))
    for it in range(int(600 * B)):
        n = rng.randint(1, 6)
        t = gen.rtableau(rng, ctx.model, n)
        mask = [rng.randint(0, 1) for _ in range(n)]
        be = 'np' if rng.random() < 0.8 else 'torch'
        proper = 0 < sum(mask) < n
        do(ctx, 'ent_corr', [be, t, mask], nontrivial=('c', be, it) if proper else None, sample=(it < 2))
        if n <= 4:
            do(ctx, 'ent_dense', [be, t, mask], nontrivial=('d', be, it) if proper and t[1] else None)
        if be == 'np':
            do(ctx, 'ent_forms', [t, mask])
            r = t[1]
            L = n - r
            sel = [(rng.randrange(L), rng.randrange(L)) for _ in range(rng.randint(0, 4))] if L else []
            kin = sum(mask)
            do(ctx, 'ent_invariance', [t, mask, sel, gen.rmap(rng, ctx.model, kin) if kin else None, gen.rmap(rng, ctx.model, n - kin) if kin < n else None])
        ctx.res.count('rank%d_N%d' % (t[1], n))
    for nr in (1, 2, 3):
        for nc in (1, 2, 3):
            for bits in itertools.product((0, 1), repeat=nr * nc):
                m = [list(bits[i * nc:(i + 1) * nc]) for i in range(nr)]
                do(ctx, 'z2rank', ['np', m], nontrivial=('z', str(m)))
    ctx.res.exhaustive = True
    for _ in range(int(200 * B)):
        nr, nc = rng.randint(1, 8), rng.randint(1, 8)
        m = [[rng.randint(0, 1) for _ in range(nc)] for _ in range(nr)]
        do(ctx, 'z2rank', ['np', m], nontrivial=('z', str(m)))
    # histories on one reused object: lazily kept results must follow every in-place update
    for _ in range(int(120 * B)):
        do(ctx, 'history', ['state', rng.randint(1, 4), rng.randrange(10 ** 6), rng.randint(4, 12), ['entropy']], nontrivial=('h', 'state', ctx.res.evaluations))
