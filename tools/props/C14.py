"""C14 -- mid-circuit measurement and post-selection follow the quantum trajectory."""
import numpy as np
from vlib import gen, dense as D, states as S
from vlib import impl_np as NP
from vlib.run import do, mgate, mprog
from vlib.core import Err
import pyclifford as pc
from pyclifford import circuit as CI

RULE = ('circuits interleaving gate blocks and measurement layers (N<=4, <=10 instructions), pure and mixed signed input states; forward: outcomes (+1/-1 in order), accumulated '
        'log2prob, state and rank against the model (coins recovered) and against the dense trajectory; post-selection of signed Paulis on pure states (all N=1 cases exhaustive, random '
        'N<=4) against the dense Born rule; backward with the recorded and with supplied (possible and impossible) records, and with the implicit record after the same Circuit object was run forward several times. Non-trivial = at least one measurement layer after an '
        'entangling gate and an undetermined outcome; distinct by (program, state, seed).')
ASSUMES = ['post-selection requires a pure state (the code raises otherwise, reproduced)']


def zobs(N, q):
    return [[1 if j == 2 * q + 1 else 0 for j in range(2 * N)], 0]


def c_mcirc(ctx, args):
    N, prog, t, seed = args[:4]
    life = args[4] if len(args) > 4 else 'never'       # when compile() is called: never | end | early (before the first measure is added) | both | after_first
    M = ctx.model
    if life == 'never':
        c = NP.build_circuit(N, prog, 'Circuit')
    else:
        import pyclifford.circuit as CI_
        c = CI_.Circuit(N)
        seen_m = 0
        for ins in prog:
            if ins[0] == 1 and seen_m == 0 and life in ('early', 'both'):
                c.compile()
            if ins[0] == 0:
                c.take(NP.mk_gate(ins[1]))
            else:
                c.measure(*[int(q) for q in ins[1]])
                seen_m += 1
                if seen_m == 1 and life == 'after_first':
                    c.compile()
            if life == 'each':           # compile, extend, compile again, ... (a gate taken later may slide into a layer that was compiled before)
                c.compile()
        if life in ('end', 'both'):
            c.compile()
    s = NP.STATE(t)
    NP.seed_numba(seed)
    try:
        c.forward(s)
    except Exception as e:
        return {'kind': 'oracle', 'where': 'np:Circuit.forward raised', 'observed': type(e).__name__ + ': ' + str(e)[:100], 'expected': 'no exception'}
    got = S.st_list(s)
    results = [int(v) for v in c.measure_result]
    lp = c.log2prob
    if not ctx.search:
        # sequential reference through the model primitives (also yields the coins)
        mt = t
        coins = []
        pos = 0
        dense = S.rho(t) if N <= 3 else None
        prob = 1.0
        for ins in prog:
            if ins[0] == 0:
                before = mt
                mt = [M.call('gate_forward', N, mgate(ins[1]), mt[0]), mt[1]]
                if dense is not None:
                    # dense image of rho under the gate through the (C09-checked) action on stabilizers is implicit: recompute from the model state
                    dense = None if isinstance(mt[0], Err) else dense
            else:
                obs = [zobs(N, q) for q in ins[1]]
                outs = [(1 - r) // 2 for r in results[pos:pos + len(obs)]]
                pos += len(obs)
                flags = M.call('measure_flags', mt, obs)
                cs = S.recover_coins(flags, outs, obs)
                coins += cs
                mt, mouts, mlp, _ = M.call('measure', mt, obs, cs)
        want = M.call('mcirc_forward', mprog(prog), t, coins)
        if isinstance(want, Err):
            return {'kind': 'corr', 'where': 'np:Circuit.forward vs model', 'observed': got, 'expected': 'model error'}
        wt, wres, wlp = want
        if results != wres or int(lp) != wlp or float(lp) != int(lp) or got[1] != wt[1] or not S.same_state(got, wt):
            return {'kind': 'corr', 'where': 'np:Circuit.forward (measurement trajectory)', 'observed': [got, results, lp], 'expected': [wt, wres, wlp]}
        if wt != mt and not S.same_state(wt, mt):
            return {'kind': 'corr', 'where': 'model: layered circuit differs from sequential semantics', 'observed': wt, 'expected': mt}
        if M.call('tableau_ok', got) != 1:
            return {'kind': 'oracle', 'where': 'np:Circuit.forward breaks the tableau invariant', 'observed': got, 'expected': 'tableau_ok'}
    # dense trajectory (N<=3): gates through their own forward on a fresh copy, measurements by projection onto the recorded outcomes
    if N <= 3:
        s2 = NP.STATE(t)
        pos = 0
        p_tot = 1.0
        rho = S.rho(t)
        for ins in prog:
            if ins[0] == 0:
                s3 = NP.STATE(S_tab_from_rho_state(s2))
                NP.mk_gate(ins[1]).forward(s2)
                rho = conj_by_gate(rho, ins[1], N)
            else:
                for q in ins[1]:
                    r = results[pos]
                    pos += 1
                    P = (np.eye(2 ** N) + r * D.op(*zobs(N, q))) / 2
                    rho = P @ rho @ P
                    pr = np.trace(rho).real
                    if pr < 1e-12:
                        return {'kind': 'oracle', 'where': 'np:Circuit.forward recorded an impossible outcome', 'observed': results, 'expected': 'possible outcomes'}
                    p_tot *= pr
                    rho = rho / pr
        if abs(np.log2(p_tot) - lp) > 1e-9:
            return {'kind': 'oracle', 'where': 'np:Circuit.forward log2prob', 'observed': lp, 'expected': float(np.log2(p_tot))}
        if not np.allclose(rho, S.rho(got)):
            return {'kind': 'oracle', 'where': 'np:Circuit.forward final state', 'observed': got, 'expected': 'dense trajectory'}
    return None


def S_tab_from_rho_state(s):
    return S.st_list(s)


def conj_by_gate(rho, gspec, N):
    """dense action of a gate on rho, obtained from its action on the 4^N Pauli basis through gate.forward (Heisenberg picture inverted)"""
    # rho = sum_P c_P P ; gate maps P -> image(P); rho' = sum_P c_P image(P)
    strs = gen.all_strings(N)
    l = [[g, 0] for g in strs]
    o = NP.PL(l)
    NP.mk_gate(gspec).forward(o)
    imgs = NP.oPL(o)
    out = np.zeros_like(rho)
    d = 2 ** N
    for g, im in zip(strs, imgs):
        c = np.trace(D.sigma(g) @ rho) / d
        if abs(c) > 1e-12:
            out = out + c * D.op(*im)
    return out


def c_postselect(ctx, args):
    t, P, res = args
    n = len(t[0]) // 2
    s = NP.STATE(t)
    try:
        prob = s.postselect(NP.P(P), res)
    except ValueError:
        return None if t[1] != 0 else {'kind': 'oracle', 'where': 'np:postselect raised on a pure state', 'observed': 'ValueError', 'expected': 'a probability'}
    if t[1] != 0:
        return {'kind': 'oracle', 'where': 'np:postselect accepted a mixed state', 'observed': prob, 'expected': 'ValueError'}
    got = S.st_list(s)
    if ctx.model is not None and not ctx.search:
        w = ctx.model.call('postselect_m', t, P, res)
        if isinstance(w, Err) or int(round(2 * prob)) != w[1] or not S.same_state(got, w[0]):
            return {'kind': 'corr', 'where': 'np:postselect vs model', 'observed': [got, prob], 'expected': repr(w)}
    inv = S.tableau_invariant_py(got)
    if inv:
        return {'kind': 'oracle', 'where': 'np:postselect breaks the tableau invariant: ' + inv, 'observed': got, 'expected': 'valid tableau'}
    # history: post-selecting the same outcome again is certain and changes nothing; the opposite outcome is impossible
    if prob > 0:
        before = S.st_list(s)
        try:
            p2 = s.postselect(NP.P(P), res)
            p3 = s.postselect(NP.P(P), 1 - res)
        except Exception as e:
            return {'kind': 'oracle', 'where': 'np:repeated postselect raised %s' % type(e).__name__, 'observed': str(e)[:80], 'expected': 'probabilities 1 and 0'}
        if p2 != 1.0 or p3 != 0.0 or not S.same_state(S.st_list(s), before):
            return {'kind': 'oracle', 'where': 'np:repeated postselect', 'observed': [p2, p3, S.st_list(s)], 'expected': [1.0, 0.0, before]}
    if n <= 4:
        rho = S.rho(t)
        Pm = (np.eye(2 ** n) + (-1) ** res * D.op(*P)) / 2
        pr = np.trace(Pm @ rho).real
        if abs(pr - prob) > 1e-9:
            return {'kind': 'oracle', 'where': 'np:postselect probability', 'observed': prob, 'expected': pr, 'tags': ['signed'] if P[1] == 2 else []}
        want = rho if pr < 1e-12 else Pm @ rho @ Pm / pr
        if not np.allclose(S.rho(got), want):
            return {'kind': 'oracle', 'where': 'np:postselect post-state', 'observed': got, 'expected': 'projected state (unchanged when impossible)'}
    return None


def c_backward(ctx, args):
    N, prog, t, seed, mode = args          # mode: 'recorded' | 'supplied' | 'flipped' | 'wrong_length' | 'rerun'
    M = ctx.model
    c = NP.build_circuit(N, prog, 'Circuit')
    s = NP.STATE(t)
    NP.seed_numba(seed)
    if mode == 'rerun':
        # the same Circuit object is run more than once: the record accumulates and backward() follows the LATEST trajectory
        nmeas = sum(len(ins[1]) for ins in prog if ins[0] == 1)
        for k in range(1 + seed % 2):
            NP.seed_numba(seed + 7919 * (k + 1))
            c.forward(NP.STATE(t))
        NP.seed_numba(seed)
        before = len(c.measure_result)
        c.forward(s)
        mid = S.st_list(s)
        if len(c.measure_result) != before + nmeas:
            return {'kind': 'oracle', 'where': 'np:Circuit.forward record length after reruns', 'observed': len(c.measure_result), 'expected': before + nmeas}
        rec = [int(v) for v in c.measure_result[len(c.measure_result) - nmeas:]] if nmeas else []
        use, arg = rec, None
        if not nmeas:
            return None
    else:
        c.forward(s)
        mid = S.st_list(s)
        rec = [int(v) for v in c.measure_result]
    if mode == 'rerun':
        pass
    elif mode == 'recorded':
        use, arg = rec, None
    elif mode == 'supplied':
        use, arg = rec, list(rec)
    elif mode == 'flipped':
        use = [-r if i == (seed % max(1, len(rec))) else r for i, r in enumerate(rec)]
        arg = list(use)
    else:
        use, arg = rec + [1], rec + [1]
    try:
        c.backward(s, measure_result=arg) if arg is not None else c.backward(s)
        got = S.st_list(s)
    except ValueError:
        got = 'ValueError'
    except Exception as e:
        got = 'other:' + type(e).__name__
        return {'kind': 'oracle', 'where': 'np:Circuit.backward raised %s' % type(e).__name__, 'observed': str(e)[:100], 'expected': 'a state or ValueError'}
    if not ctx.search:
        want = M.call('mcirc_backward', mprog(prog), mid, use)
        if isinstance(want, Err):
            if got != 'ValueError':
                return {'kind': 'corr', 'where': 'np:Circuit.backward should reject the record', 'observed': got, 'expected': 'ValueError'}
            return None
        if got == 'ValueError' or isinstance(got, str) or not S.same_state(got, want):
            return {'kind': 'corr', 'where': 'np:Circuit.backward (%s record)' % mode, 'observed': got, 'expected': want}
    if not isinstance(got, str):
        inv = S.tableau_invariant_py(got)
        if inv:
            return {'kind': 'oracle', 'where': 'np:Circuit.backward breaks the tableau invariant: ' + inv, 'observed': got, 'expected': 'valid tableau'}
    if N <= 3 and not isinstance(got, str):
        # adjoint of the recorded trajectory, densely: reverse order, project on the record, undo gates
        rho = S.rho(mid)
        pos = len(use)
        for ins in reversed(prog):
            if ins[0] == 1:
                for q in reversed(ins[1]):
                    pos -= 1
                    P = (np.eye(2 ** N) + use[pos] * D.op(*zobs(N, q))) / 2
                    rho = P @ rho @ P
                    pr = np.trace(rho).real
                    if pr < 1e-12:
                        return {'kind': 'oracle', 'where': 'np:Circuit.backward accepted an impossible record', 'observed': got, 'expected': 'ValueError'}
                    rho = rho / pr
            else:
                rho = conj_by_gate_inv(rho, ins[1], N)
        if not np.allclose(rho, S.rho(got)):
            return {'kind': 'oracle', 'where': 'np:Circuit.backward', 'observed': got, 'expected': 'adjoint of the recorded trajectory'}
    return None


def conj_by_gate_inv(rho, gspec, N):
    strs = gen.all_strings(N)
    o = NP.PL([[g, 0] for g in strs])
    NP.mk_gate(gspec).backward(o)
    imgs = NP.oPL(o)
    out = np.zeros_like(rho)
    d = 2 ** N
    for g, im in zip(strs, imgs):
        cc = np.trace(D.sigma(g) @ rho) / d
        if abs(cc) > 1e-12:
            out = out + cc * D.op(*im)
    return out


def c_order(ctx, args):
    """gates added after a measurement never move in front of it (structure of the implementation's layer chain)"""
    N, prog = args
    c = NP.build_circuit(N, prog, 'Circuit')
    shape = NP.layers_shape(c)
    # replay the program: the k-th measurement instruction must be the k-th ML layer, and the multiset of gates between consecutive MLs must match
    segs_prog, cur = [], []
    for ins in prog:
        if ins[0] == 1:
            segs_prog.append(sorted(map(str, cur)))
            segs_prog.append('M' + str(ins[1]))
            cur = []
        else:
            cur.append(sorted(ins[1][0]))
    segs_prog.append(sorted(map(str, cur)))
    segs_impl, cur = [], []
    for ly in shape:
        if ly[0] == 1:
            segs_impl.append(sorted(map(str, cur)))
            segs_impl.append('M' + str(ly[1]))
            cur = []
        else:
            cur += [sorted(g) for g in ly[1]]
    segs_impl.append(sorted(map(str, cur)))
    if segs_prog != segs_impl:
        return {'kind': 'oracle', 'where': 'np:Circuit.take moved a gate across a measurement layer', 'observed': segs_impl, 'expected': segs_prog}
    if not ctx.search:
        mshape = ctx.model.call('circ_layers', mprog(prog))
        if mshape != shape:
            ctx.res.count('layer_packing_differs_from_model')
    return None


def c_layer(ctx, args):
    """a measurement layer on its own: forward is the direct measurement of Z on its qubits in the order given (same outcomes, log2prob, state and rank as state.measure on a
    copy with the same random stream); backward without a record replays the layer's OWN record and leaves the (pure) state as it is; a record of the wrong length or a
    missing record is an error"""
    N, qs, t, seed = args[:4]
    form = args[4] if len(args) > 4 else 'c'          # how the state's tableau is stored: C order | fortran | strided | int32 | int8
    from pyclifford import circuit as CI
    ly = CI.MeasureLayer(*qs, N=N)
    if form in ('int32', 'int8'):
        from pyclifford.stabilizer import StabilizerState
        d_ = {'int32': np.int32, 'int8': np.int8}[form]
        mk_ = lambda: StabilizerState(np.array([r_[0] for r_ in t[0]], dtype=d_), ps=np.array([r_[1] for r_ in t[0]], dtype=d_)).set_r(t[1])
        s1, s2 = mk_(), mk_()
    else:
        NP.ROUTES[0] = False
        NP.set_layout(form)
        try:
            s1, s2 = NP.STATE(t), NP.STATE(t)
        finally:
            NP.set_layout('c')
            NP.ROUTES[0] = True
    NP.seed_numba(seed)
    ly.forward(s1)
    NP.seed_numba(seed)
    zs = [[[1 if j == 2 * q + 1 else 0 for j in range(2 * N)], 0] for q in qs]
    outs, lp = s2.measure(NP.PL(zs))
    got = [[int(v) for v in ly.result], float(ly.log2prob), NP.oST(s1)]
    want = [[int((-1) ** int(o)) for o in outs], float(lp), NP.oST(s2)]
    if got != want:
        return {'kind': 'oracle', 'where': 'np:MeasureLayer.forward vs state.measure of Z on the same qubits', 'observed': got, 'expected': want, 'tags': ['layer']}
    if t[1] == 0:
        before = NP.oST(s1)
        try:
            ly.backward(s1)
        except Exception as e:
            return {'kind': 'oracle', 'where': 'np:MeasureLayer.backward rejected its own record (%s)' % type(e).__name__, 'observed': str(e)[:100], 'expected': 'accepted', 'tags': ['layer']}
        if not S.same_state(NP.oST(s1), before):
            return {'kind': 'oracle', 'where': 'np:MeasureLayer.backward with its own record changed the state', 'observed': NP.oST(s1), 'expected': before, 'tags': ['layer']}
        try:
            ly.backward(NP.STATE(before), measure_result=[1] * (len(qs) + 1))
            return {'kind': 'oracle', 'where': 'np:MeasureLayer.backward accepted a record of the wrong length', 'observed': 'no error', 'expected': 'ValueError', 'tags': ['layer']}
        except ValueError:
            pass
        fresh = CI.MeasureLayer(*qs, N=N)
        if getattr(fresh, 'result', None) is None:
            try:
                fresh.backward(NP.STATE(before))
                return {'kind': 'oracle', 'where': 'np:MeasureLayer.backward without any record', 'observed': 'no error', 'expected': 'ValueError', 'tags': ['layer']}
            except ValueError:
                pass
    return None


CHECKS = {'layer': c_layer, 'mcirc': c_mcirc, 'postselect': c_postselect, 'backward': c_backward, 'order': c_order}


def rmprog(rng, model, N, L):
    prog = []
    for _ in range(L):
        if rng.random() < 0.3:
            qs = rng.sample(range(N), rng.randint(1, N))        # the order the qubits are GIVEN in is the order of the record: ascending half of the time only
            prog.append([1, sorted(qs) if rng.random() < 0.5 else qs])
        else:
            prog.append([0, gen.rgate(rng, model, N)])
    if not any(i[0] == 1 for i in prog):
        prog.append([1, [rng.randrange(N)]])
    return prog


def run(ctx):
    from props.C06 import all_tableaux_1q
    ctx.checks = CHECKS
    rng, B = ctx.rng, ctx.budget
    # corpus: witnesses of the two fixed defects
    do(ctx, 'mcirc', [1, [[1, [0]]], [[[[0, 1], 0], [[1, 0], 0]], 1], 5], nontrivial='w_rank', sample=True)
    do(ctx, 'postselect', [[[[[0, 1], 0], [[1, 0], 0]], 0], [[0, 1], 2], 0], nontrivial='w_sign')
    for t in all_tableaux_1q():
        for g in gen.all_strings(1):
            if any(g):
                for p in (0, 2):
                    for res in (0, 1):
                        do(ctx, 'postselect', [t, [g, p], res], nontrivial=('p1', str(t), str(g), p, res) if t[1] == 0 else None)
    ctx.res.exhaustive = True
    for it in range(int(220 * B)):
        N = rng.randint(1, 4)
        prog = rmprog(rng, ctx.model, N, rng.randint(1, 9))
        t = gen.rtableau(rng, ctx.model, N, r=None if rng.random() < 0.5 else 0)
        seed = rng.randrange(10 ** 6)
        do(ctx, 'mcirc', [N, prog, t, seed], nontrivial=('m', it), sample=(it < 1))
        if it % 2 == 0:
            do(ctx, 'mcirc', [N, prog, t, seed, rng.choice(['end', 'early', 'both', 'after_first', 'each', 'each'])], nontrivial=('ml', it))
        do(ctx, 'order', [N, prog])
        do(ctx, 'layer', [N, rng.sample(range(N), rng.randint(1, N)), gen.rtableau(rng, ctx.model, N, r=0 if rng.random() < 0.6 else None), rng.randrange(10 ** 6), rng.choice(['c', 'c', 'fortran', 'strided', 'int32', 'int8'])], nontrivial=('ly', it))
        tp = gen.rtableau(rng, ctx.model, N, r=0)
        do(ctx, 'backward', [N, prog, tp, seed, rng.choice(['recorded', 'supplied', 'flipped', 'flipped', 'wrong_length', 'rerun', 'rerun'])], nontrivial=('b', it))
        do(ctx, 'postselect', [gen.rtableau(rng, ctx.model, N, r=0 if rng.random() < 0.85 else None), gen.rpauli(rng, N, herm=True, nonzero=True), rng.randint(0, 1)], nontrivial=('p', it))
