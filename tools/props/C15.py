"""C15 -- Pauli polynomial arithmetic is a faithful operator algebra."""
from fractions import Fraction
import numpy as np
from vlib import gen, dense as D
from vlib import impl_np as NP
from vlib.run import corr, do, impl, opt
from vlib.core import Err
import pyclifford as pc

RULE = ('random expression trees (depth<=4) over {Pauli, PauliMonomial, PauliPolynomial, PauliList, number} with +, -, unary -, scalar *, / scalar, @, reduce; '
        'all four phases, repeated strings, Gaussian-dyadic coefficients (exact in complex128); N<=3 with the dense oracle; traces; to_qutip exports; rotations and '
        'maps on polynomials; torch on the operations it shares. Non-trivial = a tree with at least one @ or + whose operands carry phase i/-i or complex '
        'coefficients; distinct by (expression).')
ASSUMES = ['IEEE rounding is not modelled: inputs are dyadic so that complex128 arithmetic is exact', 'tolerance 1e-10 (default of reduce)']
TOL2 = [1, 10 ** 10]     # the tolerance 1e-10 itself; the model squares it


def cfrac(c):
    c = complex(c)
    fr, fi = Fraction(c.real), Fraction(c.imag)
    return [[fr.numerator, fr.denominator], [fi.numerator, fi.denominator]]


def to_py(o):
    """JSON object -> pyclifford object / number"""
    k = o[0]
    if k == 0:
        return pc.Pauli(NP.G(o[1][0]), int(o[1][1]))
    if k == 1:
        return pc.PauliMonomial(NP.G(o[2][0]), int(o[2][1])).set_c(ccomplex(o[1]))
    if k == 2:
        n, ts = o[1], o[2]
        return pc.PauliPolynomial(NP.GS([t[1][0] for t in ts], 2 * n), np.array([t[1][1] for t in ts], dtype=np.int_)).set_cs(np.array([ccomplex(t[0]) for t in ts], dtype=np.complex128))
    if k == 3:
        return NP.PL(o[1])
    if k == 4:
        return ccomplex(o[1])
    raise ValueError


def ccomplex(c):
    (a, b), (x, y) = c
    z = complex(Fraction(a, b), Fraction(x, y))
    return z


def from_py(x, n):
    if isinstance(x, pc.PauliPolynomial):
        return [2, int(x.gs.shape[1] // 2), [[cfrac(c), [[int(v) for v in g], int(p)]] for c, g, p in zip(x.cs, x.gs, x.ps)]]
    if isinstance(x, pc.PauliMonomial):
        return [1, cfrac(x.c), [[int(v) for v in x.g], int(x.p)]]
    if isinstance(x, pc.Pauli):
        return [0, [[int(v) for v in x.g], int(x.p)]]
    if isinstance(x, pc.PauliList):
        return [3, NP.oPL(x)]
    if isinstance(x, (int, float, complex, np.number)):
        return [4, cfrac(x)]
    raise ValueError('unexpected result type %r' % type(x))


def ev_py(e):
    k = e[0]
    if k == 0:
        return to_py(e[1])
    if k == 1:
        return -ev_py(e[1])
    if k == 2:
        return ccomplex(e[1]) * ev_py(e[2])
    if k == 3:
        return ev_py(e[1]) / ccomplex(e[2])
    if k == 4:
        return ev_py(e[1]) + ev_py(e[2])
    if k == 5:
        return ev_py(e[1]) - ev_py(e[2])
    if k == 6:
        return ev_py(e[1]) @ ev_py(e[2])
    if k == 7:
        return ev_py(e[1]).reduce()
    raise ValueError


def dense_obj(o, n):
    k = o[0]
    if k == 0:
        return D.op(*o[1])
    if k == 1:
        return ccomplex(o[1]) * D.op(*o[2])
    if k == 2:
        m = np.zeros((2 ** o[1], 2 ** o[1]), dtype=complex)
        for c, a in o[2]:
            m = m + ccomplex(c) * D.op(*a)
        return m
    if k == 4:
        return ccomplex(o[1])
    return None


def ev_dense(e, n):
    """dense evaluation of the expression (numbers act as multiples of the identity in sums); None when the expression involves a PauliList"""
    k = e[0]
    I = np.eye(2 ** n, dtype=complex)

    def lift(x):
        return x * I if not isinstance(x, np.ndarray) else x
    if k == 0:
        return dense_obj(e[1], n)
    if k == 1:
        x = ev_dense(e[1], n)
        return None if x is None else -x
    if k == 2:
        x = ev_dense(e[2], n)
        return None if x is None else ccomplex(e[1]) * x
    if k == 3:
        x = ev_dense(e[1], n)
        return None if x is None else x / ccomplex(e[2])
    if k in (4, 5, 6):
        a, b = ev_dense(e[1], n), ev_dense(e[2], n)
        if a is None or b is None:
            return None
        if k == 6:
            return lift(a) @ lift(b)
        if not isinstance(a, np.ndarray) and not isinstance(b, np.ndarray):
            return a + b if k == 4 else a - b
        return lift(a) + lift(b) if k == 4 else lift(a) - lift(b)
    if k == 7:
        return ev_dense(e[1], n)
    return None


def canon_terms(o):
    """polynomial as canonical map string -> coefficient (phases folded in), exact"""
    d = {}
    for c, (g, p) in o[2]:
        z = ccomplex(c) * (1j ** (p % 4))
        key = tuple(g)
        d[key] = d.get(key, 0) + z
    return {k: v for k, v in d.items() if v != 0}


def c_expr(ctx, args):
    n, e = args
    try:
        got = from_py(ev_py(e), n)
    except (NotImplementedError, TypeError, AttributeError, ValueError, ZeroDivisionError) as ex:
        got = 'ERR'
    want = ctx.model.call('poly_eval', TOL2, e) if (ctx.model and not ctx.search) else None
    if isinstance(want, Err):
        want = 'ERR'
    if want is not None and got != want:
        same = (got != 'ERR' and want != 'ERR' and got[0] == 2 and want[0] == 2 and canon_terms(got) == canon_terms(want))
        if not same:
            return {'kind': 'corr', 'where': 'np:polynomial expression', 'observed': got, 'expected': want}
        ctx.res.count('term_order_differs_same_polynomial')
    if got != 'ERR' and n <= 3:
        want_d = ev_dense(e, n)
        got_d = dense_obj(got, n)
        if want_d is not None and got_d is not None:
            I = np.eye(2 ** n)
            a = got_d if isinstance(got_d, np.ndarray) else got_d * I
            b = want_d if isinstance(want_d, np.ndarray) else want_d * I
            if not np.allclose(a, b, atol=2e-9, rtol=0):
                return {'kind': 'oracle', 'where': 'np:polynomial expression vs dense matrices', 'observed': got, 'expected': 'dense evaluation of the same expression'}
    return None


def c_trace(ctx, args):
    n, o = args
    x = to_py(o)
    got = complex(x.trace())
    want = ctx.model.call('poly_trace_impl', o) if not ctx.search else cfrac(got)
    if cfrac(got) != want:
        return {'kind': 'corr', 'where': 'np:trace', 'observed': cfrac(got), 'expected': want}
    true = np.trace(dense_obj(o, n) if o[0] != 4 else None)
    if abs(true - got) > 1e-9:
        ident_phase = any(not any(t[1][0]) and t[1][1] % 4 != 0 for t in (o[2] if o[0] == 2 else [[None, o[1] if o[0] == 0 else o[2]]]))
        return {'kind': 'oracle', 'where': 'np:trace', 'observed': [got.real, got.imag], 'expected': [true.real, true.imag],
                'tags': ['identity_term_with_phase'] if ident_phase else []}
    return None


def c_qutip(ctx, args):
    n, o = args
    x = to_py(o)
    q = x.to_qutip()
    if o[0] == 3:
        mats = [np.array(m.full()) for m in q]
        for m, a in zip(mats, o[1]):
            if not np.allclose(m, D.op(*a)):
                return {'kind': 'oracle', 'where': 'np:PauliList.to_qutip', 'observed': 'matrix', 'expected': 'i^p sigma[g]', 'operand': a}
        return None
    if o[0] == 2 and len(o[2]) == 0:
        return None if q == 0 else {'kind': 'oracle', 'where': 'np:to_qutip of the zero polynomial', 'observed': repr(q), 'expected': 0}
    if not np.allclose(np.array(q.full()), dense_obj(o, n)):
        return {'kind': 'oracle', 'where': 'np:to_qutip', 'observed': 'matrix', 'expected': 'the denoted operator', 'operand': o}
    if o[0] == 2 and len(o[2]) > 0:
        # export -> in-place update of the same object -> export again: the second export denotes the updated polynomial
        rng = __import__('random').Random(len(str(o)))
        g = gen.rpauli(rng, n, herm=True, nonzero=True)
        x.rotate_by(NP.P(g))
        if n >= 2:
            x.rotate_by(NP.P(gen.rpauli(rng, 1, herm=True, nonzero=True)), mask=np.array([True] + [False] * (n - 1)))
        now = from_py(x, n)
        if not np.allclose(np.array(x.to_qutip().full()), dense_obj(now, n)):
            return {'kind': 'oracle', 'where': 'np:to_qutip after an in-place rotation of the exported polynomial', 'observed': 'stale matrix', 'expected': 'the updated operator', 'operand': o, 'tags': ['history']}
    return None


def c_linear(ctx, args):
    """rotations and maps act linearly on polynomials: term by term, coefficients untouched"""
    n, o, gen_, m, mask = args
    x = to_py(o)
    if ctx.search:
        return None
    x.rotate_by(pc.Pauli(NP.G(gen_[0]), gen_[1]), mask=NP.optmask(mask))
    got = from_py(x, n)
    want = ctx.model.call('poly_rotate', gen_, opt(mask), o)
    if got != want:
        return {'kind': 'corr', 'where': 'np:PauliPolynomial.rotate_by', 'observed': got, 'expected': want}
    y = to_py(o)
    y.transform_by(NP.CM(m), mask=NP.optmask(mask))
    got = from_py(y, n)
    want = ctx.model.call('poly_transform', m, opt(mask), o)
    if got != want:
        return {'kind': 'corr', 'where': 'np:PauliPolynomial.transform_by', 'observed': got, 'expected': want}
    return None


def c_torch_expr(ctx, args):
    """torchclifford polynomials: the subset of the arithmetic the port implements (polynomial / Pauli leaves; -, scalar *, /, +, -, @, reduce) against dense matrices.
    The port drops terms below 1e-5 in reduce (its own default), so the comparison allows 1e-4."""
    n, e = args
    import torch, torchclifford as tc, vlib.impl_torch as TT

    def leaf(o):
        if o[0] == 0:
            return TT.P(o[1])
        if o[0] == 2:
            ts = o[2]
            return tc.paulialg.PauliPolynomial(TT.GS([t[1][0] for t in ts], 2 * n), TT.PS([t[1][1] for t in ts])).set_cs(torch.tensor([ccomplex(t[0]) for t in ts], dtype=torch.complex128))
        raise NotImplementedError

    def ev(x):
        k = x[0]
        if k == 0:
            return leaf(x[1])
        if k == 1:
            return -ev(x[1])
        if k == 2:
            return ccomplex(x[1]) * ev(x[2])
        if k == 3:
            return ev(x[1]) / ccomplex(x[2])
        if k == 4:
            return ev(x[1]) + ev(x[2])
        if k == 5:
            return ev(x[1]) - ev(x[2])
        if k == 6:
            return ev(x[1]) @ ev(x[2])
        if k == 7:
            return ev(x[1]).reduce()
        raise NotImplementedError
    want = ev_dense(e, n)
    if want is None or not isinstance(want, np.ndarray):
        return None
    try:
        r = ev(e)
    except (NotImplementedError, TypeError, AttributeError, RuntimeError, IndexError, ValueError):
        ctx.res.count('torch_expr_unsupported')
        return None                       # the port does not implement this combination (no number promotion, no monomials)
    r = r.as_polynomial() if hasattr(r, 'as_polynomial') else r
    if not hasattr(r, 'cs'):
        return None
    got = np.zeros((2 ** n, 2 ** n), dtype=complex)
    for g, ph, c in zip(r.gs, r.ps, r.cs):
        got = got + complex(c) * D.op([int(v) for v in g], int(round(float(ph))) % 4)
    if not np.allclose(got, want, atol=1e-4, rtol=0):
        return {'kind': 'oracle', 'where': 'torch:polynomial expression vs dense matrices', 'observed': [[[int(v) for v in g], float(ph), [complex(c).real, complex(c).imag]] for g, ph, c in zip(r.gs, r.ps, r.cs)][:8],
                'expected': 'dense evaluation of the same expression', 'tags': ['torch']}
    # the trace of the result (the port multiplies by i^p, so it is held to the TRUE trace: identity terms with complex coefficients and phases count)
    try:
        tr = complex(r.trace())
    except (NotImplementedError, TypeError, AttributeError, RuntimeError):
        return None
    if abs(tr - np.trace(want)) > 1e-4 * max(1.0, abs(np.trace(want))):
        return {'kind': 'oracle', 'where': 'torch:trace of a polynomial', 'observed': [tr.real, tr.imag], 'expected': [np.trace(want).real, np.trace(want).imag], 'tags': ['torch', 'trace']}
    return None


def c_reduce_large(ctx, args):
    """reduce() / + on LOCAL-Hamiltonian-like polynomials of many qubits (strings that differ only far to the right, periodic bonds): exact term dictionary
    computed in Python from the term list vs the library's result (no dense matrices, N up to 24)"""
    be, n, terms, how = args               # terms [[g, p, c(real dyadic)], ...]; how: 'reduce' | 'add'
    want = {}
    for g, p, c in terms:
        z = c * (1j ** (p % 4))
        want[tuple(g)] = want.get(tuple(g), 0) + z
    want = {k: v for k, v in want.items() if abs(v) > 1e-4}
    h = len(terms) // 2
    if be == 'np':
        mk = lambda ts: pc.PauliPolynomial(NP.GS([t[0] for t in ts], 2 * n), np.array([t[1] for t in ts], dtype=np.int_)).set_cs(np.array([complex(t[2]) for t in ts]))
    else:
        import torch, torchclifford as tc, vlib.impl_torch as TT
        mk = lambda ts: tc.paulialg.PauliPolynomial(TT.GS([t[0] for t in ts], 2 * n), TT.PS([t[1] for t in ts])).set_cs(torch.tensor([complex(t[2]) for t in ts], dtype=torch.complex128))
    try:
        r = mk(terms).reduce() if (how == 'reduce' or h == 0) else (mk(terms[:h]) + mk(terms[h:]))
    except Exception as e:
        return {'kind': 'oracle', 'where': '%s:reduce on %d qubits raised %s' % (be, n, type(e).__name__), 'observed': str(e)[:100], 'expected': 'a polynomial'}
    got = {}
    for g, ph, c in zip(r.gs, r.ps, r.cs):
        k = tuple(int(round(float(v))) for v in g)
        got[k] = got.get(k, 0) + complex(c) * (1j ** (int(round(float(ph))) % 4))
    got = {k: v for k, v in got.items() if abs(v) > 1e-4}
    if set(got) != set(want) or any(abs(got[k] - want[k]) > 1e-6 for k in want):
        bad = [k for k in set(got) | set(want) if abs(got.get(k, 0) - want.get(k, 0)) > 1e-6][:3]
        return {'kind': 'oracle', 'where': '%s:%s of a %d-qubit polynomial merges or loses terms' % (be, how, n), 'observed': [[list(k), str(got.get(k, 0))] for k in bad],
                'expected': [[list(k), str(want.get(k, 0))] for k in bad], 'tags': ['reduce_large', be]}
    return None


def c_state_arith(ctx, args):
    """a stabilizer state used in arithmetic stands for its density matrix: -rho, c * rho, rho / c, rho + A, A + rho, rho - A, rho @ A are the dense matrix operations (N <= 3)"""
    be, t, a, k = args
    n = len(t[0]) // 2
    if be == 'np':
        M = NP
    else:
        import vlib.impl_torch as M
    from vlib import states as S_
    rho = S_.rho(t)
    A = D.op(*a)
    st = M.STATE(t)
    P = M.P(a)
    c = [2, -1, 0.5, 1j, 1 - 1j][k % 5]
    cases = [('neg', lambda: -st, -rho), ('rmul', lambda: c * st, c * rho), ('div', lambda: st / c, rho / c), ('add', lambda: st + P, rho + A),
             ('radd', lambda: c + st, c * np.eye(2 ** n) + rho),        # (Pauli + state is decided by Pauli.__add__, which reads the state as the LIST of its tableau rows: outside the property)
 ('sub', lambda: st - P, rho - A), ('matmul', lambda: st @ P, rho @ A)]
    snap0 = M.oST(st)
    for name, f, want in cases:
        try:
            r = f()
        except (NotImplementedError, TypeError, AttributeError, RuntimeError) as e:
            if be == 'torch':
                ctx.res.count('torch_state_arith_unsupported_' + name)
                continue                      # the port does not implement every combination
            return {'kind': 'oracle', 'where': 'np:state %s raised %s' % (name, type(e).__name__), 'observed': str(e)[:120], 'expected': 'the matrix operation', 'tags': ['state_arith', name]}
        r = r.as_polynomial() if hasattr(r, 'as_polynomial') and not hasattr(r, 'cs') else r
        if not hasattr(r, 'cs'):
            if be == 'torch':
                continue
            return {'kind': 'oracle', 'where': 'np:state %s does not return a polynomial' % name, 'observed': type(r).__name__, 'expected': 'PauliPolynomial'}
        got = np.zeros((2 ** n, 2 ** n), dtype=complex)
        for g, ph, cc in zip(r.gs, r.ps, r.cs):
            got = got + complex(cc) * D.op([int(v) for v in g], int(round(float(ph))) % 4)
        if not np.allclose(got, want, atol=1e-5 if be == 'torch' else 1e-9):
            return {'kind': 'oracle', 'where': '%s:state %s is not the matrix operation on its density matrix' % (be, name), 'observed': 'terms of the result', 'expected': 'dense', 'tags': ['state_arith', name, be]}
        if M.oST(st) != snap0:
            return {'kind': 'oracle', 'where': '%s:state %s modified the state' % (be, name), 'observed': M.oST(st), 'expected': snap0, 'tags': ['state_arith', name, be]}
    return None


def c_op_history(ctx, args):
    """ONE operator object used (products, sums, casts, printing), updated in place, used again: see vlib.history.operator_history"""
    from vlib import history
    kind, n, seed, steps, be = args
    if be == 'torch' and kind == 'mono':
        return None
    return history.operator_history(ctx, kind, n, seed, steps, be)


def c_reduce_tol(ctx, args):
    """reduce(tol) merges equal strings, folds the phases in and drops exactly the merged terms with |c| <= tol: tol = 0 drops nothing that is not exactly zero,
    whatever the units of the coefficients; a large tol drops what is below it and nothing else"""
    be, n, terms, tol = args          # terms [[g, p, [re, im]], ...]
    if be == 'np':
        mk = lambda ts: pc.PauliPolynomial(NP.GS([t[0] for t in ts], 2 * n), np.array([t[1] for t in ts], dtype=np.int_)).set_cs(np.array([complex(*t[2]) for t in ts]))
        eps = 1e-18
    else:
        import torch, torchclifford as tc, vlib.impl_torch as TT
        mk = lambda ts: tc.paulialg.PauliPolynomial(TT.GS([t[0] for t in ts], 2 * n), TT.PS([t[1] for t in ts])).set_cs(torch.tensor([complex(*t[2]) for t in ts], dtype=torch.complex128))
        eps = 1e-18
    exact = {}
    for g, p, c in terms:
        exact[tuple(g)] = exact.get(tuple(g), 0) + complex(*c) * 1j ** (p % 4)
    size = max([abs(complex(*t[2])) for t in terms] + [eps])
    acc = 1e-9 if be == 'np' else 1e-5          # (the port evaluates 1j ** ps in single precision: a sum that cancels exactly leaves a residue of that relative size)
    noise = acc * size
    required = {k: v for k, v in exact.items() if abs(v) > tol + noise}            # clearly above the tolerance: must be there, with this value
    forbidden = {k for k, v in exact.items() if tol > 0 and abs(v) < tol - noise}   # clearly below a positive tolerance: must be gone; anything within the noise of the threshold is not decided
    try:
        r = mk(terms).reduce(tol) if tol != 'kw0' else mk(terms).reduce(tol=0)
    except Exception as e:
        return {'kind': 'oracle', 'where': '%s:reduce(%r) raised %s' % (be, tol, type(e).__name__), 'observed': str(e)[:100], 'expected': 'a polynomial', 'tags': ['reduce_tol']}
    got = {}
    for g, p, c in zip(r.gs, r.ps, r.cs):
        k = tuple(int(v) for v in g)
        got[k] = got.get(k, 0) + complex(c) * 1j ** (int(round(float(p))) % 4)
    missing = [k for k in required if k not in got or abs(got[k] - required[k]) > noise]
    present = [k for k in forbidden if k in got]
    stray = [k for k in got if k not in exact]
    if missing or present or stray:
        return {'kind': 'oracle', 'where': '%s:reduce(tol=%r): %d term(s) above the tolerance lost or changed, %d below it kept, %d foreign' % (be, tol, len(missing), len(present), len(stray)),
                'observed': sorted((list(k), [v.real, v.imag]) for k, v in got.items())[:6], 'expected': sorted((list(k), [v.real, v.imag]) for k, v in required.items())[:6], 'tags': ['reduce_tol', be]}
    return None


CHECKS = {'reduce_tol': c_reduce_tol, 'ctor_fresh': __import__('props.C17', fromlist=['c_ctor_fresh']).c_ctor_fresh, 'op_history': c_op_history, 'state_arith': c_state_arith, 'reduce_large': c_reduce_large, 'torch_expr': c_torch_expr, 'expr': c_expr, 'trace': c_trace, 'qutip': c_qutip, 'linear': c_linear}

COEFS = [1, -1, 2, -2, 3, 0.5, -0.5, 0.25, 1j, -1j, 2j, 1 + 1j, 1 - 1j, -1 + 2j, 0.5 + 0.5j, 3 - 1j, -0.75j]
DIVS = [1, -1, 2, -2, 4, 1j, -1j, 2j, 1 + 1j, 1 - 1j, 0.5]


def rleaf(rng, n, kinds):
    k = rng.choice(kinds)
    if k == 'pauli':
        return [0, gen.rpauli(rng, n)]
    if k == 'mono':
        return [1, cfrac(rng.choice(COEFS)), gen.rpauli(rng, n)]
    if k == 'poly':
        L = rng.randint(0, 4)
        pool = [gen.rstr(rng, n) for _ in range(2)] + [[0] * (2 * n)]
        return [2, n, [[cfrac(rng.choice(COEFS)), [rng.choice(pool) if rng.random() < 0.6 else gen.rstr(rng, n), rng.randint(0, 3)]] for _ in range(L)]]
    if k == 'list':
        return [3, gen.rplist(rng, n, rng.randint(1, 3))]
    return [4, cfrac(rng.choice(COEFS))]


# magnitudes from 2^-44 to 1: exact in complex128 as long as sums stay within ~42 bits of each other (no products of small numbers are formed)
SMALL = [2.0 ** (-k) for k in (12, 16, 20, 24, 28, 31, 33, 34, 36, 40, 44)]


def rsmallpoly(rng, n, L):
    pool = [gen.rstr(rng, n) for _ in range(2)] + [[0] * (2 * n)]
    ts = []
    for _ in range(L):
        mag = rng.choice(SMALL) if rng.random() < 0.6 else abs(rng.choice([1, 2, 0.5, 0.25]))
        c = mag * rng.choice([1, -1, 1j, -1j])
        ts.append([cfrac(c), [rng.choice(pool) if rng.random() < 0.5 else gen.rstr(rng, n), rng.randint(0, 3)]])
    return [2, n, ts]


def rsmallexpr(rng, n):
    """shapes whose exact value stays exact in floating point: widely spread magnitudes meet the tolerance of reduce()"""
    k = rng.randint(0, 4)
    P = [0, rsmallpoly(rng, n, rng.randint(1, 6))]
    if k == 0:
        return [7, P]                                                         # reduce()
    if k == 1:
        return [rng.choice([4, 5]), P, [0, rsmallpoly(rng, n, rng.randint(1, 4))]]       # sum / difference of two polynomials
    if k == 2:
        return [4, P, [0, [4, cfrac(rng.choice(SMALL) * rng.choice([1, -1, 1j]))]]]      # polynomial + small number
    if k == 3:
        a = gen.rpauli(rng, n)
        eps = rng.choice(SMALL[:8])
        return [5, [2, cfrac(1 + eps), [0, [0, a]]], [0, [0, a]]]             # (1 + eps) P - P : a near-cancellation
    return [4, [0, [1, cfrac(rng.choice(SMALL)), gen.rpauli(rng, n)]], P]     # small monomial + polynomial

def rexpr(rng, n, depth, kinds):
    if depth == 0 or rng.random() < 0.25:
        return [0, rleaf(rng, n, kinds)]
    op = rng.choice([1, 2, 3, 4, 4, 5, 6, 6, 7])
    if op == 1:
        return [1, rexpr(rng, n, depth - 1, kinds)]
    if op == 2:
        return [2, cfrac(rng.choice(COEFS)), rexpr(rng, n, depth - 1, kinds)]
    if op == 3:
        return [3, rexpr(rng, n, depth - 1, kinds), cfrac(rng.choice(DIVS))]
    if op == 7:
        return [7, rexpr(rng, n, depth - 1, kinds)]
    return [op, rexpr(rng, n, depth - 1, kinds), rexpr(rng, n, depth - 1, kinds)]


def has(e, ops):
    return isinstance(e, list) and len(e) > 0 and ((e[0] in ops and len(e) > 2 and isinstance(e[1], list)) or any(has(x, ops) for x in e[1:] if isinstance(x, list) and x and isinstance(x[0], int) and e[0] != 0))


def run(ctx):
    ctx.checks = CHECKS
    rng, B = ctx.rng, ctx.budget
    # corpus: witnesses of fixed defects (Pauli @ monomial dropped the coefficient; numpy-2 aliases) and of the open trace finding
    X, Zs = [[1, 0], 0], [[0, 1], 0]
    do(ctx, 'expr', [1, [6, [0, [0, X]], [0, [1, cfrac(2), Zs]]]], nontrivial='w1', sample=True)
    do(ctx, 'expr', [1, [4, [0, [0, X]], [0, [0, Zs]]]], nontrivial='w2')
    do(ctx, 'trace', [2, [0, [[0, 0, 0, 0], 2]]], nontrivial='w3')
    do(ctx, 'expr', [1, [6, [5, [0, [0, X]], [0, [0, X]]], [0, [0, Zs]]]], nontrivial='w4')      # (X - X) @ Z : empty polynomial in a product
    kinds_all = ['pauli', 'pauli', 'mono', 'poly', 'poly', 'list', 'num']
    for it in range(int(700 * B)):
        n = rng.randint(1, 3) if rng.random() < 0.8 else rng.randint(4, 7)
        e = rexpr(rng, n, rng.randint(1, 4), kinds_all if rng.random() < 0.5 else ['pauli', 'mono', 'poly', 'num'])
        do(ctx, 'expr', [n, e], nontrivial=('e', str(e)) if (has(e, (4, 5, 6))) else None, sample=(it < 2))
        ctx.res.count('top_op_%d' % e[0])
    # coefficients spread over many orders of magnitude around the tolerance of reduce() (1e-10): only terms below it may be dropped
    for it in range(int(150 * B)):
        n = rng.randint(1, 3)
        e = rsmallexpr(rng, n)
        do(ctx, 'expr', [n, e], nontrivial=('sm', str(e)))
        ctx.res.count('small_coefficient_expr')
    for it in range(int(200 * B)):
        n = rng.randint(1, 3)
        o = rleaf(rng, n, ['pauli', 'mono', 'poly', 'poly'])
        do(ctx, 'trace', [n, o], nontrivial=('t', str(o)))
        do(ctx, 'qutip', [n, rleaf(rng, n, ['pauli', 'mono', 'poly', 'list'])])
    for it in range(int(120 * B)):
        N = rng.randint(1, 4)
        k = rng.randint(1, N)
        mask = None if k == N else gen.rmask(rng, N, k)[0]
        o = rleaf(rng, N, ['poly'])
        do(ctx, 'linear', [N, o, gen.rpauli(rng, k, herm=True), gen.rmap(rng, ctx.model, k), mask], nontrivial=('l', it))
    for it in range(int(40 * B)):
        n = rng.randint(1, 3)
        do(ctx, 'state_arith', [rng.choice(['np', 'np', 'torch']), gen.rtableau(rng, ctx.model, n), gen.rpauli(rng, n), it], nontrivial=('sa', it))
    # the torch port's polynomial arithmetic (what it implements of it)
    for it in range(int(150 * B)):
        n = rng.randint(1, 3)
        e = rexpr(rng, n, rng.randint(1, 3), ['pauli', 'poly', 'poly'])
        do(ctx, 'torch_expr', [n, e], nontrivial=('te', str(e)) if has(e, (4, 5, 6)) else None)
        if it % 3 == 0:       # ... plus a complex multiple of a (phased) identity: the term that alone decides the trace
            e2 = [4, e, [2, cfrac(rng.choice(COEFS)), [0, [0, [[0] * (2 * n), rng.randint(0, 3)]]]]]
            do(ctx, 'torch_expr', [n, e2], nontrivial=('tei', str(e2)))
            e3 = [4, e, [2, cfrac(2 ** 22), [0, [0, [gen.rstr(rng, n, nonzero=True), 0]]]]]
            do(ctx, 'torch_expr', [n, e3], nontrivial=('ter', str(e3)))
    # many qubits, local terms (fields, nearest-neighbour and periodic bonds, far-apart pairs): terms that differ only at the far end must stay apart
    for it in range(int(60 * B)):
        n = rng.choice([6, 12, 13, 14, 16, 20, 24])
        site = lambda q, k: [(k >> 1) & 1 if j == 2 * q else (k & 1 if j == 2 * q + 1 else 0) for j in range(2 * n)]
        terms = []
        for _ in range(rng.randint(2, 8)):
            q = rng.choice([0, 0, 1, rng.randrange(n)])
            k = rng.choice([1, 2, 3])
            g = site(q, k)
            if rng.random() < 0.6:      # a second factor far away (periodic bond / long-range pair)
                q2 = rng.choice([n - 1, n - 1, n - 2, rng.randrange(n)])
                if q2 != q:
                    g = [a | b for a, b in zip(g, site(q2, rng.choice([1, 2, 3])))]
            terms.append([g, rng.choice([0, 0, 2, 1]), rng.choice([1.0, -1.0, 0.5, 2.0, -0.25])])
        do(ctx, 'reduce_large', [rng.choice(['np', 'torch']), n, terms, rng.choice(['reduce', 'add'])], nontrivial=('rl', it))
    # the identity / zero polynomials are fresh objects at every call (they sit behind every 'polynomial + number'): build, update in place, build again, then add a number
    for it in range(int(16 * B)):
        be = ['np', 'torch'][it % 2]
        do(ctx, 'ctor_fresh', [be, ['pauli_identity', 'pauli_zero'][(it // 2) % 2], rng.randint(1, 3), rng.randrange(10 ** 6), ['library', 'flip'][(it // 4) % 2]], nontrivial=('cfi', it))
        n_ = rng.randint(1, 3)
        do(ctx, 'expr', [n_, [4, [0, rleaf(rng, n_, ['poly'])], [0, [4, cfrac(rng.choice(COEFS))]]]], nontrivial=('cfn', it))
    # one long-lived operator object: uses interleaved with in-place updates
    for it in range(int(60 * B)):
        kinds, bes = ['pauli', 'mono', 'list', 'poly'], ['np', 'np', 'torch']
        do(ctx, 'op_history', [kinds[it % len(kinds)], rng.randint(1, 3), rng.randrange(10 ** 6), rng.randint(4, 12), bes[(it // len(kinds)) % len(bes)]], nontrivial=('oph', it))
    # reduce with an explicit tolerance: 0 (positional and by keyword) on coefficients in tiny units, and tolerances that cut through the coefficients
    for it in range(int(40 * B)):
        n = rng.randint(1, 3)
        unit = rng.choice([2.0 ** -40, 2.0 ** -50, 2.0 ** -24, 1.0])
        terms = [[gen.rstr(rng, n) if rng.random() < 0.7 else [0] * (2 * n), rng.randint(0, 3), [rng.choice([1, -1, 2, 0.5, 3]) * unit, rng.choice([0, 0, 1, -0.5]) * unit]] for _ in range(rng.randint(1, 5))]
        be = ['np', 'torch'][it % 2]
        tol = [0, 0, 1.5 * unit, 0.75 * unit][it % 4]
        do(ctx, 'reduce_tol', [be, n, terms, tol], nontrivial=('rt', it))
