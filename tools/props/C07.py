"""C07 -- expectations, overlaps and bit-string probabilities equal the trace formulas."""
import itertools
import numpy as np
from vlib import gen, dense as D, states as S
from vlib import impl_np as NP
from vlib.run import corr, do, impl
import pyclifford as pc

RULE = ('(state of any rank/signs, observable): all one-qubit tableaux x all signed strings (exhaustive); random valid tableaux N<=6; Pauli lists, single Paulis, '
        'monomials, polynomials with phases i/-i and complex (Gaussian-integer) coefficients; overlaps of pure states with states of any rank; all 2^N readouts '
        'with their sum. Oracle = dense Tr(rho O) (N<=4). Non-trivial = signed state and (non-zero expectation or phase i/-i term); distinct by input.')
ASSUMES = ['observable lists are Hermitian (phases 0/2); overlap/get_prob require a pure receiver (the code raises otherwise, reproduced)']


def c_expect_corr(ctx, args):
    be, t, obs = args
    r = corr(ctx, be, 'expect', [t, obs])
    if r is None and be == 'torch':
        got = impl('torch').OPS['vexpect'](t, obs)
        want = ctx.model.call('expect', t, obs)
        if got != want:
            return {'kind': 'corr', 'where': 'torch:vectorizable_stabilizer_expect', 'observed': got, 'expected': want}
    return r


def c_expect_dense(ctx, args):
    be, t, obs = args
    got = impl(be).OPS['expect'](t, obs)
    rho = S.rho(t)
    for o, x in zip(obs, got if isinstance(got, list) else [None] * len(obs)):
        want = np.trace(rho @ D.op(*o))
        if x is None or abs(want - x) > 1e-9:
            return {'kind': 'oracle', 'where': be + ':expect(PauliList)', 'observed': x, 'expected': [want.real, want.imag], 'observable': o}
    return None


def c_expect_poly(ctx, args):
    """np: expectation of Pauli / monomial / polynomial, including imaginary phases and complex coefficients"""
    t, terms, how = args[:3]          # terms: [[g, p, [re, im]], ...]
    be = args[3] if len(args) > 3 else 'np'
    n = len(t[0]) // 2
    if be == 'torch':
        import torch, torchclifford as tc, vlib.impl_torch as TT
        s = TT.STATE(t)
        before = TT.oST(s)
        if how == 'pauli':
            g, p, _ = terms[0]
            obj = TT.P([g, p])
            want = np.trace(S.rho(t) @ D.op(g, p))
        else:
            obj = tc.paulialg.PauliPolynomial(TT.GS([x[0] for x in terms], 2 * n), TT.PS([x[1] for x in terms])).set_cs(torch.tensor([complex(*x[2]) for x in terms], dtype=torch.complex64))
            want = sum(complex(*x[2]) * np.trace(S.rho(t) @ D.op(x[0], x[1])) for x in terms)

        def osnap(o):
            return {k: (v.tolist() if hasattr(v, 'tolist') else v) for k, v in vars(o).items()}
        o_before = osnap(obj)
        try:
            got = complex(s.expect(obj))
            got2 = complex(s.expect(obj))
        except Exception as e:
            return {'kind': 'oracle', 'where': 'torch:expect(%s)' % how, 'observed': 'raised ' + type(e).__name__, 'expected': [want.real, want.imag]}
        if osnap(obj) != o_before:
            return {'kind': 'oracle', 'where': 'torch:expect(%s) modified the observable it was given' % how, 'observed': str(osnap(obj))[:300], 'expected': str(o_before)[:300], 'tags': ['argument_modified', 'torch']}
        if abs(got2 - got) > 1e-6 or abs(got - want) > 1e-5:
            return {'kind': 'oracle', 'where': 'torch:expect(%s)' % how, 'observed': [[got.real, got.imag], [got2.real, got2.imag]], 'expected': [want.real, want.imag], 'tags': ['torch']}
        if TT.oST(s) != before:
            return {'kind': 'oracle', 'where': 'torch:expect modified its receiver', 'observed': TT.oST(s), 'expected': before}
        return None
    s = NP.STATE(t)
    before = S.st_list(s)
    if how == 'pauli':
        g, p, _ = terms[0]
        obj = pc.Pauli(NP.G(g), p)
        want = np.trace(S.rho(t) @ D.op(g, p))
    elif how == 'monomial':
        g, p, c = terms[0]
        obj = pc.PauliMonomial(NP.G(g), p).set_c(complex(*c))
        want = complex(*c) * np.trace(S.rho(t) @ D.op(g, p))
    else:
        obj = pc.PauliPolynomial(NP.GS([x[0] for x in terms], 2 * n), np.array([x[1] for x in terms], dtype=np.int_)).set_cs(np.array([complex(*x[2]) for x in terms]))
        want = sum(complex(*x[2]) * np.trace(S.rho(t) @ D.op(x[0], x[1])) for x in terms)
    def osnap(o):
        return {k: (v.tolist() if hasattr(v, 'tolist') else v) for k, v in vars(o).items()}
    o_before = osnap(obj)
    try:
        got = s.expect(obj)
        got2 = s.expect(obj)          # the same observable object asked again
    except Exception as e:
        return {'kind': 'oracle', 'where': 'np:expect(%s)' % how, 'observed': 'raised ' + type(e).__name__, 'expected': [want.real, want.imag]}
    if osnap(obj) != o_before:
        return {'kind': 'oracle', 'where': 'np:expect(%s) modified the observable it was given' % how, 'observed': str(osnap(obj))[:300], 'expected': str(o_before)[:300], 'tags': ['argument_modified']}
    if abs(complex(got2) - complex(got)) > 1e-12:
        return {'kind': 'oracle', 'where': 'np:expect(%s) returns another value when asked again' % how, 'observed': [complex(got2).real, complex(got2).imag], 'expected': [complex(got).real, complex(got).imag]}
    scale = max([abs(complex(*x[2])) for x in terms] + [0.0]) if how != 'pauli' else 1.0
    if abs(complex(got) - want) > 1e-9 * (scale if scale > 0 else 1.0):          # relative to the size of the coefficients: tiny observables have tiny, not zero, expectations
        return {'kind': 'oracle', 'where': 'np:expect(%s)' % how, 'observed': [complex(got).real, complex(got).imag], 'expected': [want.real, want.imag],
                'tags': ['imag_phase'] if any(x[1] % 2 for x in terms) else []}
    if S.st_list(s) != before:
        return {'kind': 'oracle', 'where': 'np:expect modified its receiver', 'observed': S.st_list(s), 'expected': before}
    return None


def c_overlap(ctx, args):
    be, t, u = args       # t pure receiver, u any rank
    n = len(t[0]) // 2
    if be == 'np':
        s, v = NP.STATE(t), NP.STATE(u)
        b1, b2 = S.st_list(s), S.st_list(v)
        try:
            got = float(s.expect(v))
        except NotImplementedError:
            got = 'NotImplementedError'
        if (S.st_list(s), S.st_list(v)) != (b1, b2):
            return {'kind': 'oracle', 'where': 'np:expect(state) modified an operand', 'observed': [S.st_list(s), S.st_list(v)], 'expected': [b1, b2]}
    else:
        import vlib.impl_torch as TT
        s, v = TT.STATE(t), TT.STATE(u)
        b1, b2 = TT.oST(s), TT.oST(v)
        try:
            got = float(s.expect(v))
        except NotImplementedError:
            got = 'NotImplementedError'
        except Exception as e:
            got = 'raised ' + type(e).__name__
        try:
            a1, a2 = TT.oST(s), TT.oST(v)
        except Exception as e:
            a1, a2 = 'unreadable', 'unreadable'
        if (a1, a2) != (b1, b2):
            return {'kind': 'oracle', 'where': 'torch:expect(state) modified an operand', 'observed': [a1, a2], 'expected': [b1, b2]}
    if t[1] != 0:
        return None if got == 'NotImplementedError' else {'kind': 'oracle', 'where': be + ':expect(state) on mixed receiver', 'observed': got, 'expected': 'NotImplementedError'}
    if ctx.model is not None and not ctx.search:
        mt, zero, h = ctx.model.call('projection_trace', [t[0], 0], u[0][u[1]:n])
        mwant = 0.0 if zero else 2.0 ** (-h - u[1])
        if got != mwant:
            return {'kind': 'corr', 'where': be + ':expect(state) vs model projection_trace', 'observed': got, 'expected': mwant}
    if n <= 4:
        want = np.trace(S.rho(t) @ S.rho(u)).real
        if not isinstance(got, float) or abs(got - want) > 1e-9:
            return {'kind': 'oracle', 'where': be + ':expect(state)', 'observed': got, 'expected': want}
    return None


def c_get_prob(ctx, args):
    be, t = args
    n = len(t[0]) // 2
    rho = S.rho(t)
    tot = 0.0
    # ONE state object answers all 2^n readouts (a query must not disturb the state it is asked about)
    if be == 'np':
        obj = NP.STATE(t)
    else:
        import torch, vlib.impl_torch as TT
        obj = TT.STATE(t)
    for bits in itertools.product((0, 1), repeat=n):
        k_ = sum(bits) + len(bits) + int(t[1])
        if be == 'np':      # the bit string as an int64 / bool / uint8 / int8 / int32 array (a mask such as samples > 0 is a bool array)
            got = float(obj.get_prob(np.array(bits, dtype=[np.int64, np.bool_, np.uint8, np.int8, np.int32][k_ % 5])))
        else:
            got = float(obj.get_prob(torch.tensor([float(b) for b in bits]) if k_ % 3 else torch.tensor([bool(b) for b in bits])))
        idx = int(''.join(str(b) for b in bits), 2)
        want = rho[idx, idx].real
        if abs(got - want) > 1e-9:
            return {'kind': 'oracle', 'where': be + ':get_prob', 'observed': got, 'expected': want, 'readout': list(bits)}
        tot += got
    if abs(tot - 1) > 1e-9:
        return {'kind': 'oracle', 'where': be + ':get_prob sum', 'observed': tot, 'expected': 1.0}
    return None


def c_history(ctx, args):
    """a query on ONE reused object, after in-place (often sign-only) updates, equals the same query on a fresh equal object"""
    from vlib import history
    kind, n, seed, steps, which = args
    return history.reused_object_history(ctx, kind, n, seed, steps, which)


CHECKS = {'expect_corr': c_expect_corr, 'expect_dense': c_expect_dense, 'expect_poly': c_expect_poly, 'overlap': c_overlap, 'get_prob': c_get_prob, 'history': c_history}


def run(ctx):
    from props.C06 import all_tableaux_1q
    ctx.checks = CHECKS
    rng, B = ctx.rng, ctx.budget
    obs1 = [[g, p] for g in gen.all_strings(1) for p in (0, 2)]
    tabs1 = all_tableaux_1q()
    for t in tabs1:
        for be in ('np', 'torch'):
            do(ctx, 'expect_corr', [be, t, obs1], nontrivial=(be, str(t)))
            do(ctx, 'expect_dense', [be, t, obs1])
        for u in tabs1:
            if t[1] == 0:
                do(ctx, 'overlap', ['np', t, u], nontrivial=('o', str(t), str(u)))
        if t[1] == 0:
            do(ctx, 'get_prob', ['np', t], nontrivial=('g', str(t)))
            do(ctx, 'get_prob', ['torch', t])
    ctx.res.exhaustive = True
    # corpus: witnesses of the fixed defects (phase i term; readout with a 1)
    do(ctx, 'expect_poly', [[[[[0, 1], 0], [[1, 0], 0]], 0], [[[0, 1], 1, [1, 0]]], 'pauli'], nontrivial='w1', sample=True)
    do(ctx, 'get_prob', ['np', [[[[0, 1], 2], [[1, 0], 0]], 0]], nontrivial='w2')
    # LONG lists: more rows / terms / pairs than any block, chunk or vector width (255, 256, 257, 300, 1025 rows; 65 x 65 and 40 x 130 term pairs)
    for L in gen.LONG[:4]:
        for be in ('np', 'torch'):
            n = rng.randint(1, 4)
            t = gen.rtableau(rng, ctx.model, n)
            obs = [gen.rpauli(rng, n, herm=True) if rng.random() < 0.5 else [t[0][rng.randrange(n)][0], rng.choice([0, 2])] for _ in range(L)]
            do(ctx, 'expect_corr', [be, t, obs], nontrivial=('long', be, L))
    for N, r in ((62, 62), (63, 63), (64, 63), (64, 64), (65, 64), (65, 65), (70, 66)):
        t = gen.rtableau(rng, ctx.model, N, r=0, depth=3)
        u = [t[0], r] if rng.random() < 0.5 else gen.rtableau(rng, ctx.model, N, r=r, depth=2)      # (the same rows with most of them inactive: non-zero overlap 2^-r)
        do(ctx, 'overlap', ['np', t, u], nontrivial=('bigov', N, r))
    # LARGE registers: byte, word and cache-line boundaries of every packed or vectorised representation (8, 9, 16, 17, 33, 64, 65 qubits); model correspondence only
    for n in gen.BIG:
        for be in ('np', 'torch'):
            t = gen.rtableau(rng, ctx.model, n)
            obs = [gen.rpauli(rng, n, herm=True) for _ in range(2)] + [[t[0][j][0], (t[0][j][1] + rng.choice([0, 2])) % 4] for j in rng.sample(range(n), 3)]
            do(ctx, 'expect_corr', [be, t, obs], nontrivial=('big', be, n))
    for it in range(int(500 * B)):
        n = rng.randint(1, 6)
        t = gen.rtableau(rng, ctx.model, n)
        rows = t[0]
        obs = []
        for _ in range(rng.randint(1, 5)):
            k = rng.random()
            if k < 0.4:
                obs.append(gen.rpauli(rng, n, herm=True))
            else:       # products of active stabilizers (expectation +-1) or logical operators
                acc = None
                for j in range(t[1] if k < 0.85 else 0, n):
                    if rng.random() < 0.5:
                        acc = rows[j] if acc is None else S.pmul_py(acc, rows[j])
                acc = acc or rows[n - 1]
                obs.append([acc[0], (acc[1] + rng.choice([0, 2])) % 4 if acc[1] % 2 == 0 else 0])
        be = rng.choice(['np', 'torch'])
        do(ctx, 'expect_corr', [be, t, obs], nontrivial=(be, it), sample=(it < 2))
        if n <= 4:
            do(ctx, 'expect_dense', [be, t, obs])
            terms = [[o[0], rng.randint(0, 3), [rng.randint(-3, 3), rng.randint(-3, 3)]] for o in obs]
            how = rng.choice(['pauli', 'monomial', 'poly', 'poly'])
            do(ctx, 'expect_poly', [t, terms, how], nontrivial=('p', it) if any(x[1] % 2 for x in terms) else None)
            if it % 4 == 0:        # the same observable in tiny and in huge units (2^-40, 2^-50, 2^40: exact scalings)
                sc = rng.choice([2.0 ** -40, 2.0 ** -50, 2.0 ** -34, 2.0 ** 40])
                do(ctx, 'expect_poly', [t, [[x[0], x[1], [x[2][0] * sc, x[2][1] * sc]] for x in terms], rng.choice(['monomial', 'poly', 'poly'])], nontrivial=('psc', it))
            if it % 3 == 0:
                do(ctx, 'expect_poly', [t, terms, rng.choice(['pauli', 'poly', 'poly']), 'torch'], nontrivial=('pt', it))
        ctx.res.count('rank%d' % t[1])
    for it in range(int(200 * B)):
        n = rng.randint(1, 5)
        t = gen.rtableau(rng, ctx.model, n, r=0 if rng.random() < 0.9 else None)
        if rng.random() < 0.4:      # related state: same stabilizers, some signs flipped / lower rank => non-zero overlap likely
            u = [[[g, (p + (2 if rng.random() < 0.2 else 0)) % 4] for g, p in t[0]], rng.randint(0, n)]
        else:
            u = gen.rtableau(rng, ctx.model, n)
        be = 'np' if rng.random() < 0.8 else 'torch'
        do(ctx, 'overlap', [be, t, u], nontrivial=('o', it))
        if t[1] == 0 and n <= 4:
            do(ctx, 'get_prob', [be, t], nontrivial=('g', it))
    # histories on one reused object: lazily kept results must follow every in-place update
    for _ in range(int(40 * B)):
        do(ctx, 'history', ['state', rng.randint(1, 4), rng.randrange(10 ** 6), rng.randint(4, 12), ['expect', 'get_prob']], nontrivial=('h', 'state', ctx.res.evaluations))
