"""C09 -- a circuit acts as the ordered product of its gates."""
import numpy as np
from vlib import gen, states as S
from vlib import impl_np as NP
from vlib.run import corr, do, impl, mgate, mprog
from vlib.core import Err
import pyclifford as pc
from pyclifford import circuit as CI

RULE = ('random gate programs (generator / forward-map / backward-map / both-map / named gates on ascending qubit tuples, N<=5, length<=12; all programs of '
        'length<=2 over a small alphabet on N=2) x configurations {uncompiled, layer-compiled, circuit-compiled} x {CliffordCircuit, Circuit} x {original, copy, '
        'composed halves}, on Pauli lists with all phases and on signed mixed states. Oracle = applying the gates one at a time through gate.forward. '
        'Non-trivial = at least two layers and an operand with phase i/-i or a mixed signed state; distinct by (config, program, input).')
ASSUMES = ['gates are deterministic (random gates are C16); qubit tuples ascending (masks are order-blind, see C11 for CNOT)']


def rprog(rng, model, N, L):
    return [[0, gen.rgate(rng, model, N)] for _ in range(L)]


def run_impl(cls, N, prog, l, mode, variant='orig', obj='list', direction='forward'):
    """build, optionally copy/compose/compile, run; returns rows (or state)"""
    if variant == 'stale_halves' and cls == 'CliffordCircuit':
        h = len(prog) // 2
        c = NP.build_circuit(N, prog[:h], cls)
        c2 = NP.build_circuit(N, prog[h:h + 1], cls)
        c2.compile()
        for ins in prog[h + 1:]:
            c2.take(NP.mk_gate(ins[1]))
        c.compose(c2)
    elif variant in ('halves', 'stale_halves'):
        h = len(prog) // 2
        c = NP.build_circuit(N, prog[:h], cls)
        c2 = NP.build_circuit(N, prog[h:], cls)
        if cls == 'CliffordCircuit':
            c.compose(c2)
        else:
            for layer in c2.layers_forward():
                for g in layer.gates:
                    c.take(g)
    else:
        c = NP.build_circuit(N, prog, cls)
    if mode == 1:
        for layer in c.layers_forward():
            layer.compile(N)
    elif mode == 2:
        c.compile()
    if variant in ('copy', 'copy2') and cls == 'CliffordCircuit':
        c = c.copy()
        if variant == 'copy2':
            c = c.copy()
    o = NP.PL(l) if obj == 'list' else NP.STATE(l)
    if direction == 'forward':
        c.forward(o)
    elif direction == 'backward':
        c.backward(o)
    elif direction == 'fb':
        c.forward(o)
        c.backward(o)
    else:
        c.backward(o)
        c.forward(o)
    return (NP.oPL(o) if obj == 'list' else NP.oST(o)), c


def c_prog_corr(ctx, args):
    cls, N, prog, l, mode, variant = args
    try:
        got, c = run_impl(cls, N, prog, l, mode, variant)
    except Exception as e:
        got, c = Err(1), None
    want = ctx.model.call('circ_forward', N, mprog(prog), l, mode)
    if isinstance(got, Err) or isinstance(want, Err):
        if isinstance(got, Err) != isinstance(want, Err):
            return {'kind': 'corr', 'where': 'np:%s.forward mode %d' % (cls, mode), 'observed': repr(got), 'expected': repr(want)}
        return None
    if got != want:
        return {'kind': 'corr', 'where': 'np:%s.forward mode %d %s' % (cls, mode, variant), 'observed': got, 'expected': want}
    if c is not None and variant == 'orig':
        shape = NP.layers_shape(c)
        mshape = ctx.model.call('circ_layers', mprog(prog))
        if shape != mshape:
            ctx.res.count('layer_packing_differs_from_model')
    return None


def c_prog_seq(ctx, args):
    """oracle through the implementation: the circuit equals its gates applied one at a time in order"""
    cls, N, prog, l, mode, variant, obj = args
    got, c = run_impl(cls, N, prog, l, mode, variant, obj)
    o = NP.PL(l) if obj == 'list' else NP.STATE(l)
    for ins in prog:
        NP.mk_gate(ins[1]).forward(o)
    want = NP.oPL(o) if obj == 'list' else NP.oST(o)
    if got != want:
        return {'kind': 'oracle', 'where': 'np:%s.forward (mode %d, %s, %s) vs gates one at a time' % (cls, mode, variant, obj), 'observed': got, 'expected': want}
    return None


def c_reuse(ctx, args):
    """history: the SAME gate / circuit objects are used repeatedly (lazy inverse caches, compiled maps): second and third uses must act like the first"""
    cls, N, prog, l1, l2, mode = args
    c = NP.build_circuit(N, prog, cls)
    if mode == 1:
        for layer in c.layers_forward():
            layer.compile(N)
    elif mode == 2:
        c.compile()
    outs = []
    for l, d in ((l1, 'f'), (l2, 'b'), (l1, 'f'), (l2, 'f'), (l1, 'b')):
        o = NP.PL(l)
        (c.forward if d == 'f' else c.backward)(o)
        ref = NP.PL(l)
        for ins in (prog if d == 'f' else list(reversed(prog))):
            g = NP.mk_gate(ins[1])
            (g.forward if d == 'f' else g.backward)(ref)
        if NP.oPL(o) != NP.oPL(ref):
            return {'kind': 'oracle', 'where': 'np:%s reused (%s), mode %d' % (cls, d, mode), 'observed': NP.oPL(o), 'expected': NP.oPL(ref)}
    return None


def c_gate_corr(ctx, args):
    N, g, l = args
    return corr(ctx, 'np', 'gate_forward', [N, mgate(g), l], [N, g, l]) or corr(ctx, 'np', 'gate_backward', [N, mgate(g), l], [N, g, l])


def c_local(ctx, args):
    """a gate leaves all qubits outside its declared qubits untouched, and its action on them does not depend on the others"""
    N, g, l = args
    got = impl('np').OPS['gate_forward'](N, g, l)
    qs = set(g[0])
    for a, b in zip(l, got):
        for i in range(N):
            if i not in qs and (a[0][2 * i], a[0][2 * i + 1]) != (b[0][2 * i], b[0][2 * i + 1]):
                return {'kind': 'oracle', 'where': 'np:gate touched qubit %d outside %s' % (i, sorted(qs)), 'observed': b, 'expected': a}
    return None


def c_recompile(ctx, args):
    """history: build, compile, extend (take / compose), compile again (the documented way to refresh the maps), run; must equal the gates one at a time"""
    cls, N, prog1, prog2, l, mode, how, direction = args
    c = NP.build_circuit(N, prog1, cls)

    def comp(c):
        if mode == 1:
            for layer in c.layers_forward():
                layer.compile(N)
        else:
            c.compile()
    comp(c)
    if how == 'copy':
        c = c.copy() if cls == 'CliffordCircuit' else c
    if how == 'compose' and cls == 'CliffordCircuit':
        c.compose(NP.build_circuit(N, prog2, cls))
    else:
        for ins in prog2:
            c.take(NP.mk_gate(ins[1]))
    comp(c)
    o = NP.PL(l)
    ref = NP.PL(l)
    if direction == 'forward':
        c.forward(o)
        for ins in prog1 + prog2:
            NP.mk_gate(ins[1]).forward(ref)
    else:
        c.backward(o)
        for ins in reversed(prog1 + prog2):
            NP.mk_gate(ins[1]).backward(ref)
    got, want = NP.oPL(o), NP.oPL(ref)
    if got != want:
        return {'kind': 'oracle', 'where': 'np:%s compile -> extend(%s) -> compile -> %s (mode %d)' % (cls, how, direction, mode), 'observed': got, 'expected': want}
    if ctx.model is not None and not ctx.search:
        mw = ctx.model.call('circ_forward' if direction == 'forward' else 'circ_backward', N, mprog(prog1 + prog2), l, mode)
        if not isinstance(mw, Err) and mw != got:
            return {'kind': 'corr', 'where': 'np:recompiled circuit vs model', 'observed': got, 'expected': mw}
    return None


def c_respecify(ctx, args):
    """a gate whose data is given AGAIN after it was used or compiled -- set_generator after compile(), set_generator after set_forward_map, set_forward_map twice -- acts by what it
    was told LAST: run gate by gate it equals a fresh gate with the last specification, and compiling again agrees with that (both directions)"""
    N, qs, g_old, g_new, l, how, be = args
    if be == 'np':
        from pyclifford import circuit as CIn
        M, CI_ = NP, CIn
    else:
        import vlib.impl_torch as TT, torchclifford.circuit as CIt
        M, CI_ = TT, CIt
    k = len(qs)
    gate = CI_.CliffordGate(*qs)
    try:
        if how == 'compile_then_generator':
            gate.set_generator(M.P(g_old))
            gate.compile()
            gate.set_generator(M.P(g_new))
        elif how == 'use_then_generator':
            gate.set_generator(M.P(g_old))
            gate.forward(M.PL(l))
            gate.backward(M.PL(l))
            gate.set_generator(M.P(g_new))
        elif how == 'generator_inplace':
            gobj = M.P(g_old)
            gate.set_generator(gobj)
            gate.forward(M.PL(l))
            gate.backward(M.PL(l))
            # the caller conjugates the generator it still holds (commuting the gate through another one): the gate's generator IS that object
            rot = [[b for i in range(k) for b in ((g_new[0][2 * i], g_new[0][2 * i + 1]))], 0]
            gobj.rotate_by(M.P(rot))
            gobj.p = (int(gobj.p) + 2) % 4
            g_new = M.oP(gobj)
        else:                     # 'generator_twice'
            gate.set_generator(M.P(g_old))
            gate.set_generator(M.P(g_new))
        fresh = CI_.CliffordGate(*qs)
        fresh.set_generator(M.P(g_new))
        for direction in ('forward', 'backward'):
            a, b = M.PL(l), M.PL(l)
            getattr(gate, direction)(a)
            getattr(fresh, direction)(b)
            if M.oPL(a) != M.oPL(b):
                return {'kind': 'oracle', 'where': '%s:a gate re-specified (%s) does not act by its last specification (%s)' % (be, how, direction), 'observed': M.oPL(a), 'expected': M.oPL(b), 'tags': ['respecify', how]}
        gate.compile()
        fresh.compile()
        for nm in ('forward_map', 'backward_map'):
            if M.oPL(getattr(gate, nm)) != M.oPL(getattr(fresh, nm)):
                return {'kind': 'oracle', 'where': '%s:a gate re-specified (%s) and compiled again has a stale %s' % (be, how, nm), 'observed': M.oPL(getattr(gate, nm)), 'expected': M.oPL(getattr(fresh, nm)), 'tags': ['respecify', how]}
    except Exception as e:
        return {'kind': 'oracle', 'where': '%s:re-specified gate (%s) raised %s' % (be, how, type(e).__name__), 'observed': str(e)[:120], 'expected': 'the action of the last specification', 'tags': ['respecify', how]}
    return None


def c_compose_independent(ctx, args):
    """after A.compose(B) the two circuits are two circuits: gates taken by one of them afterwards (or a compile of one of them) do not show in the other --
    also when A was empty, when B is empty, and for a circuit composed with itself later"""
    N, prog_a, prog_b, extra, l, which, do_compile, be = args
    if be == 'np':
        M = NP
        mk = lambda prog: NP.build_circuit(N, prog, 'CliffordCircuit')
    else:
        import vlib.impl_torch as TT
        M = TT
        def mk(prog):
            c = TT.build_circuit(N, prog)
            c.N = N
            return c
    A, B = mk(prog_a), mk(prog_b)
    try:
        A.compose(B)
        if do_compile:
            A.compile()
        tgt, other, other_prog = (A, B, prog_b) if which == 'A' else (B, A, prog_a + prog_b)
        for ins in extra:
            tgt.take(M.mk_gate(ins[1]))
        o = M.PL(l)
        other.forward(o)
        got = M.oPL(o)
    except Exception as e:
        return {'kind': 'oracle', 'where': '%s:compose then extend raised %s' % (be, type(e).__name__), 'observed': str(e)[:120], 'expected': 'rows', 'tags': ['compose_independent', be]}
    ref = NP.PL(l)
    for ins in other_prog:
        NP.mk_gate(ins[1]).forward(ref)
    if got != NP.oPL(ref):
        return {'kind': 'oracle', 'where': '%s:after A.compose(B), gates taken by %s afterwards changed the OTHER circuit' % (be, which), 'observed': got, 'expected': NP.oPL(ref), 'tags': ['compose_independent', be]}
    return None


def c_copy_extend(ctx, args):
    """copy a circuit, extend the COPY by further gates (some far from the last layers, so that they slide down the layer chain), then run both:
    the copy acts as base+extra, the original still as base (oracle: the gates one at a time)"""
    N, base, extra, l, compiled = args
    c = NP.build_circuit(N, base, 'CliffordCircuit')
    c2 = c.copy()
    for ins in extra:
        c2.take(NP.mk_gate(ins[1]))
    if compiled:
        c.compile()
        c2.compile()
    for circ, prog, who in ((c2, base + extra, 'extended copy'), (c, base, 'original after its copy was extended')):
        o, ref = NP.PL(l), NP.PL(l)
        circ.forward(o)
        for ins in prog:
            NP.mk_gate(ins[1]).forward(ref)
        if NP.oPL(o) != NP.oPL(ref):
            return {'kind': 'oracle', 'where': 'np:CliffordCircuit %s (forward%s)' % (who, ', compiled' if compiled else ''), 'observed': NP.oPL(o), 'expected': NP.oPL(ref), 'tags': ['copy_extend']}
        o, ref = NP.PL(l), NP.PL(l)
        circ.backward(o)
        for ins in reversed(prog):
            NP.mk_gate(ins[1]).backward(ref)
        if NP.oPL(o) != NP.oPL(ref):
            return {'kind': 'oracle', 'where': 'np:CliffordCircuit %s (backward%s)' % (who, ', compiled' if compiled else ''), 'observed': NP.oPL(o), 'expected': NP.oPL(ref), 'tags': ['copy_extend']}
    return None


def c_torch_prog(ctx, args):
    """torchclifford: the layered circuit built by take (variants: as built, copied, composed from two halves, copied-then-extended), uncompiled or compiled,
    acts as its gates one at a time; oracle = pyclifford gate by gate on the same operand"""
    N, prog, l, mode, variant, direction = args
    import vlib.impl_torch as TT
    N = 1 + max(max(ins[1][0]) for ins in prog)
    l = [[g[:2 * N], p] for g, p in l]
    try:
        if variant == 'halves':
            h = len(prog) // 2
            c = TT.build_circuit(N, prog[:h])
            c.compose(TT.build_circuit(N, prog[h:]))
        elif variant == 'stale_halves':
            # the second half is compiled EARLY (after its first gate), extended afterwards, and only then composed in: its compiled maps are out of date by then
            h = len(prog) // 2
            c = TT.build_circuit(N, prog[:h])
            tail = TT.build_circuit(N, prog[h:h + 1]) if len(prog) > h else TT.build_circuit(N, [])
            if len(prog) > h:
                tail.N = N
                tail.compile()
            for ins in prog[h + 1:]:
                tail.take(TT.mk_gate(ins[1]))
            c.N = N
            c.compose(tail)
        elif variant == 'recompile':
            # compile, extend (later gates may slide into layers that are compiled already), compile again
            h = max(1, len(prog) // 2)
            c = TT.build_circuit(N, prog[:h])
            c.N = N
            c.compile()
            for ins in prog[h:]:
                c.take(TT.mk_gate(ins[1]))
                if mode == 1:
                    c.compile()
            c.compile()
        elif variant == 'copy_extend':
            h = max(1, len(prog) // 2)
            base = TT.build_circuit(N, prog[:h])
            c = base.copy()
            for ins in prog[h:]:
                c.take(TT.mk_gate(ins[1]))
        else:
            c = TT.build_circuit(N, prog)
            if variant == 'copy':
                c = c.copy()
        if mode == 1:
            for layer in c.layers_forward():
                layer.compile(c.N)
        elif mode == 2:
            c.compile()
        o = TT.PL(l)
        (c.forward if direction == 'forward' else c.backward)(o)
        got = TT.oPL(o)
    except Exception as e:
        return {'kind': 'oracle', 'where': 'torch:circuit (%s, mode %d, %s) raised %s' % (variant, mode, direction, type(e).__name__), 'observed': str(e)[:120], 'expected': 'rows', 'tags': ['torch']}
    ref = NP.PL(l)
    gates = [NP.mk_gate(ins[1]) for ins in prog]
    for g in (gates if direction == 'forward' else reversed(gates)):
        (g.forward if direction == 'forward' else g.backward)(ref)
    if got != NP.oPL(ref):
        return {'kind': 'oracle', 'where': 'torch:circuit (%s, mode %d, %s) differs from the gates one at a time' % (variant, mode, direction), 'observed': got, 'expected': NP.oPL(ref), 'tags': ['torch']}
    if variant == 'copy_extend':
        o = TT.PL(l)
        base.forward(o)
        ref = NP.PL(l)
        for ins in prog[:h]:
            NP.mk_gate(ins[1]).forward(ref)
        if base.N == N and TT.oPL(o) != NP.oPL(ref):
            return {'kind': 'oracle', 'where': 'torch:the original circuit changed when its copy was extended', 'observed': TT.oPL(o), 'expected': NP.oPL(ref), 'tags': ['torch', 'copy_extend']}
    return None


CHECKS = {'ctor_arg': __import__('props.C17', fromlist=['c_ctor_arg']).c_ctor_arg, 'compose_independent': c_compose_independent, 'respecify': c_respecify, 'torch_prog': c_torch_prog, 'copy_extend': c_copy_extend, 'reuse': c_reuse, 'recompile': c_recompile, 'prog_corr': c_prog_corr, 'prog_seq': c_prog_seq, 'gate_corr': c_gate_corr, 'local': c_local}


def run(ctx):
    ctx.checks = CHECKS
    rng, B = ctx.rng, ctx.budget
    # small exhaustive family: all programs of length <= 2 over an alphabet of gates on N=2
    N = 2
    alpha = [[[0], [2, 0]], [[1], [2, 1]], [[0, 1], [2, 5]], [[1, 0], [2, 5]], [[0], [0, [[1, 1], 2]]], [[0, 1], [0, [[1, 0, 0, 1], 0]]], [[1], [2, 111]]]
    ops = [[[1, 1, 0, 1], 1], [[0, 1, 1, 0], 3], [[1, 0, 0, 0], 0]]
    for a in alpha:
        for b in alpha:
            prog = [[0, a], [0, b]]
            for mode in (0, 1, 2):
                do(ctx, 'prog_corr', ['CliffordCircuit', N, prog, ops, mode, 'orig'], nontrivial=('e', str(prog), mode))
            do(ctx, 'prog_seq', ['Circuit', N, prog, ops, 2, 'orig', 'list'])
    # history corpus: compile, add a gate that slides into an already compiled layer, compile again
    do(ctx, 'recompile', ['CliffordCircuit', 3, [[0, [[0], [0, [[1, 0], 0]]]]], [[0, [[2], [0, [[1, 1], 0]]]]], [[[0, 0, 0, 0, 1, 0], 2], [[0, 1, 0, 0, 0, 1], 1]], 2, 'take', 'forward'], nontrivial='rc0', sample=True)
    ctx.res.exhaustive = True
    # a rotation gate does not keep hold of the Pauli object it was built from (the caller goes on evolving that object)
    for it in range(int(24 * B)):
        do(ctx, 'ctor_arg', [['np', 'torch'][it % 2], 'rotation_gate', rng.randint(1, 4), rng.randrange(10 ** 6)], nontrivial=('ca', it))
    for it in range(int(60 * B)):
        N = rng.randint(1, 4)
        pa = [] if it % 3 == 0 else rprog(rng, ctx.model, N, rng.randint(1, 3))          # a third of the receivers are EMPTY circuits
        pb = rprog(rng, ctx.model, N, rng.randint(1, 3)) if it % 5 else []
        do(ctx, 'compose_independent', [N, pa, pb, rprog(rng, ctx.model, N, rng.randint(1, 2)), gen.rplist(rng, N, 3), 'AB'[it % 2], it % 4 == 0 and bool(pa or pb), ['np', 'np', 'torch'][it % 3 if it % 2 else 0]],
           nontrivial=('ci', it))
    for it in range(int(45 * B)):
        N = rng.randint(1, 4)
        k = rng.randint(1, N)
        qs = sorted(rng.sample(range(N), k))
        full = lambda: [[b for i in range(k) for b in rng.choice([(1, 0), (0, 1), (1, 1)])], rng.choice([0, 2])]
        do(ctx, 'respecify', [N, qs, full(), full(), gen.rplist(rng, N, 4), ['compile_then_generator', 'use_then_generator', 'generator_twice', 'generator_inplace'][it % 4], ['np', 'np', 'torch'][it % 3 if it % 2 else 0]],
           nontrivial=('rs', it))
    # registers beyond one machine word, gates on the qubits next to the word boundaries (overlaps that a packed support would not see)
    for N in (65, 66, 130):
        pool = gen.edge_pool(N)
        for rep in range(2):
            prog = [[0, gen.rgate(rng, ctx.model, N, kinds=('gen', 'named', 'fwd'), pool=pool)] for _ in range(rng.randint(4, 9))]
            l = gen.rplist_on(rng, N, 3, pool)
            for mode in (0, 1, 2):
                do(ctx, 'prog_corr', ['CliffordCircuit', N, prog, l, mode, 'orig'], nontrivial=('edge', N, rep, mode))
            do(ctx, 'prog_seq', [rng.choice(['CliffordCircuit', 'Circuit']), N, prog, gen.rtableau(rng, ctx.model, N, depth=3), 2, 'orig', 'state'], nontrivial=('edges', N, rep))
    # LARGE registers: byte, word and cache-line boundaries of every packed or vectorised representation (8, 9, 16, 17, 33, 64, 65 qubits); model correspondence only
    for N in gen.BIG[:5]:
        prog = rprog(rng, ctx.model, N, rng.randint(3, 8))
        l = gen.rplist(rng, N, 3)
        for mode in (0, 2):
            do(ctx, 'prog_corr', ['CliffordCircuit', N, prog, l, mode, 'orig'], nontrivial=('big', N, mode))
        do(ctx, 'prog_seq', ['CliffordCircuit', N, prog, gen.rtableau(rng, ctx.model, N), 2, 'orig', 'state'], nontrivial=('bigs', N))
    for it in range(int(260 * B)):
        N = rng.randint(1, 5)
        L = rng.randint(1, 12 if ctx.tier == 'quick' else 40)
        prog = rprog(rng, ctx.model, N, L)
        l = gen.rplist(rng, N, 3)
        cls = rng.choice(['CliffordCircuit', 'Circuit'])
        mode = rng.choice([0, 1, 2])
        variant = rng.choice(['orig', 'orig', 'copy', 'halves', 'stale_halves'])
        nlayers = len(ctx.model.call('circ_layers', mprog(prog)))
        nt = ('p', it) if nlayers >= 2 and any(a[1] % 2 for a in l) else None
        do(ctx, 'prog_corr', [cls, N, prog, l, mode, variant], nontrivial=nt, sample=(it < 2))
        do(ctx, 'prog_seq', [cls, N, prog, l, mode, variant, 'list'])
        t = gen.rtableau(rng, ctx.model, N)
        do(ctx, 'prog_seq', [cls, N, prog, t, mode, variant, 'state'], nontrivial=('s', it) if nlayers >= 2 and t[1] > 0 else None)
        g = prog[rng.randrange(L)][1]
        do(ctx, 'gate_corr', [N, g, l])
        do(ctx, 'local', [N, g, l])
        if it % 3 == 0:
            do(ctx, 'reuse', [cls, N, prog, l, gen.rplist(rng, N, 2), mode], nontrivial=('ru', it))
        if it % 2 == 0:
            h = rng.randint(1, max(1, L - 1))
            do(ctx, 'recompile', [cls, N, prog[:h], prog[h:] or rprog(rng, ctx.model, N, 2), l, rng.choice([1, 2]), rng.choice(['take', 'compose', 'copy']), rng.choice(['forward', 'backward'])],
               nontrivial=('rc', it))
        ctx.res.count('layers_%d' % min(nlayers, 6))
        ctx.res.count('mode%d_%s_%s' % (mode, cls, variant))
    # copy, then extend the copy with gates of which some are far from the last layers (they slide down the chain of layer links)
    for it in range(int(60 * B)):
        N = rng.randint(3, 6)
        base = rprog(rng, ctx.model, N, rng.randint(2, 5))
        extra = rprog(rng, ctx.model, N, rng.randint(1, 3))
        do(ctx, 'copy_extend', [N, base, extra, gen.rplist(rng, N, 3), rng.random() < 0.4], nontrivial=('ce', it))
    # the torch port's circuit classes
    for it in range(int(80 * B)):
        N = rng.randint(1, 5)
        prog = rprog(rng, ctx.model, N, rng.randint(1, 7))
        do(ctx, 'torch_prog', [N, prog, gen.rplist(rng, N, 3), rng.choice([0, 0, 1, 2]), rng.choice(['orig', 'copy', 'halves', 'stale_halves', 'copy_extend', 'recompile', 'recompile']), rng.choice(['forward', 'backward'])], nontrivial=('tp', it))
