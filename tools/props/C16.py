"""C16 -- random Cliffords are valid and uniformly distributed."""
import numpy as np
import numba
from vlib import gen, states as S
from vlib import impl_np as NP
from vlib.run import do, impl
from vlib.core import Err
import pyclifford as pc
from pyclifford import utils as U, stabilizer as ST, circuit as CI

RULE = ('samples of random_clifford_map / random_pauli_map / random states / brick-wall, on-site and global random circuits (N<=6, both backends) checked for validity with the model predicates; '
        'random_pair compared with the model fix_pair on the RAW draws (re-drawn from the same seeded numba stream); random_clifford replayed through the model from the recorded pairs; random '
        'gates counted for re-sampling at every call; in the thorough tier chi-square tests of the N=1 (24) and N=2 (720 symplectic classes) distributions. Non-trivial = N>=2 sample with a non-product map; '
        'distinct by (function, seed).')
ASSUMES = ['the generators deliver fair independent bits (assumption; chi-square tests are support only)', 'rejection sampling of g1 preserves uniformity (cited)']


@numba.njit
def _raw_draws(N):
    g1 = np.random.randint(0, 2, 2 * N)
    g2 = np.random.randint(0, 2, 2 * N)
    return g1, g2


def c_pair(ctx, args):
    """random_pair output equals the model's fix_pair of the raw draws (same numba stream re-seeded)"""
    N, seed = args
    NP.seed_numba(seed)
    a, b = U.random_pair(N)
    NP.seed_numba(seed)
    r1, r2 = _raw_draws(N)
    if not r1.any():
        return None      # g1 was re-drawn: stream positions differ, case skipped (counted)
    got = [[int(v) for v in a], [int(v) for v in b]]
    if (U.acq(a, b) != 1) or not a.any():
        return {'kind': 'oracle', 'where': 'np:random_pair', 'observed': got, 'expected': 'anticommuting pair with non-zero first string'}
    if ctx.model is not None and not ctx.search:
        want = ctx.model.call('fix_pair', [int(v) for v in r1], [int(v) for v in r2])
        if got != want:
            return {'kind': 'corr', 'where': 'np:random_pair vs model fix_pair on the raw draws', 'observed': got, 'expected': want}
    return None


def c_clifford(ctx, args):
    """random_clifford: valid symplectic matrix; equals the model's reconstruction from the recorded pairs"""
    N, seed = args
    rec = []
    orig = U.random_pair

    def wrapped(n):
        p = orig(n)
        rec.append([[int(v) for v in p[0]], [int(v) for v in p[1]]])
        return p
    NP.seed_numba(seed)
    U.random_pair = wrapped
    try:
        gs = U.random_clifford(N)
    finally:
        U.random_pair = orig
    got = [[int(v) for v in r] for r in gs]
    M = ctx.model
    if M.call('symplectic', got) != 1:
        return {'kind': 'oracle', 'where': 'np:random_clifford is not symplectic', 'observed': got, 'expected': 'canonical commutation relations'}
    if not ctx.search:
        want = M.call('random_clifford_from', N, rec)
        if got != want:
            return {'kind': 'corr', 'where': 'np:random_clifford vs model replay of the recorded pairs', 'observed': got, 'expected': want}
    return None


def c_maps_states(ctx, args):
    be, N, seed, what = args
    M = ctx.model
    if be == 'np':
        NP.seed_numba(seed)
        if what == 'clifford_map':
            m = NP.oPL(pc.random_clifford_map(N))
        elif what == 'pauli_map':
            m = NP.oPL(pc.random_pauli_map(N))
        elif what in ('clifford_state', 'pauli_state'):
            r = seed % (N + 1)
            st = pc.random_clifford_state(N, r) if what == 'clifford_state' else pc.random_pauli_state(N, r)
            t = S.st_list(st)
            return None if M.call('tableau_ok', t) == 1 else {'kind': 'oracle', 'where': 'np:random state invalid', 'observed': t, 'expected': 'tableau_ok'}
        else:
            circ = {'brickwall': lambda: pc.brickwall_rcc(N if N % 2 == 0 else N + 1, 2), 'onsite': lambda: pc.onsite_rcc(N), 'global': lambda: pc.global_rcc(N)}[what]()
            st = pc.zero_state(circ.N)
            circ.forward(st)
            t = S.st_list(st)
            if M.call('tableau_ok', t) != 1:
                return {'kind': 'oracle', 'where': 'np:random circuit produced an invalid state', 'observed': t, 'expected': 'tableau_ok'}
            st2 = pc.zero_state(circ.N)
            circ.forward(st2)
            return None
    else:
        import torch, torchclifford as tc, vlib.impl_torch as TT
        torch.manual_seed(seed)
        m = TT.oPL(tc.random_clifford_map(N) if what == 'clifford_map' else tc.random_pauli_map(N))
    if M.call('valid_map', m) != 1:
        return {'kind': 'oracle', 'where': '%s:random %s is not a valid map' % (be, what), 'observed': m, 'expected': 'canonical commutation relations, Hermitian phases'}
    if what == 'pauli_map':
        for i, (g, p) in enumerate(m):
            q = i // 2
            if any(v for j, v in enumerate(g) if j // 2 != q):
                return {'kind': 'oracle', 'where': be + ':random_pauli_map is not a product of single-qubit maps', 'observed': m, 'expected': 'block diagonal'}
    return None


def c_resample(ctx, args):
    """a gate without maps draws a fresh random Clifford at every call"""
    N, seed = args
    calls = []
    orig = CI.random_clifford_map

    def wrapped(n):
        calls.append(n)
        return orig(n)
    CI.random_clifford_map = wrapped
    try:
        NP.seed_numba(seed)
        g = CI.CliffordGate(*range(N))
        l = NP.PL([[[1, 0] * N, 0]])
        outs = set()
        for _ in range(6):
            o = l.copy()
            g.forward(o)
            outs.add(str(NP.oPL(o)))
        g.backward(l.copy())
    finally:
        CI.random_clifford_map = orig
    if len(calls) != 7:
        return {'kind': 'oracle', 'where': 'np:random gate not resampled at every call', 'observed': len(calls), 'expected': 7}
    if g.forward_map is not None or g.backward_map is not None:
        return {'kind': 'oracle', 'where': 'np:random gate cached a map', 'observed': 'map stored', 'expected': 'no map stored'}
    if N >= 2 and len(outs) < 2:
        return {'kind': 'oracle', 'where': 'np:random gate returned the same image 6 times', 'observed': list(outs), 'expected': 'varying images'}
    return None


def c_resample_circuit(ctx, args):
    """circuits of unspecified gates -- built with .gate() on either circuit class, or by the brick-wall / on-site / global constructors -- draw a fresh Clifford for EVERY gate
    at EVERY forward, backward or povm call, in any order of calls, store nothing, and always leave a valid state"""
    kind, N, seed, hist = args
    calls = []
    orig = CI.random_clifford_map

    def wrapped(n):
        calls.append(n)
        return orig(n)
    CI.random_clifford_map = wrapped
    try:
        NP.seed_numba(seed)
        if kind == 'brickwall':
            c = pc.brickwall_rcc(N, 2)
        elif kind == 'onsite':
            c = pc.onsite_rcc(N)
        elif kind == 'global':
            c = pc.global_rcc(N)
        else:
            c = CI.CliffordCircuit(N) if kind == 'CliffordCircuit' else CI.Circuit(N)
            rr = __import__('random').Random(seed)
            for _ in range(rr.randint(1, 4)):
                c.gate(*rr.sample(range(N), rr.randint(1, min(N, 2))))
        gates = [g for layer in c.layers_forward() for g in getattr(layer, 'gates', [])]
        expected = 0
        outs = []
        for h in hist:
            s = pc.zero_state(N)
            if h == 'C':
                # somebody tries to compile the random circuit: that is refused (a random gate has no map to compile) -- and must leave the circuit as it was
                try:
                    c.compile()
                    return {'kind': 'oracle', 'where': 'np:%s: compile() of a circuit with unspecified gates did not refuse' % kind, 'observed': 'no exception', 'expected': 'an exception', 'tags': ['resample_circuit']}
                except Exception:
                    pass
                continue
            if h == 'F':
                c.forward(s)
            elif h == 'B':
                c.backward(s)
            else:
                s = list(c.povm(1))[0]
            expected += len(gates)
            got = NP.oST(s)
            inv = S.tableau_invariant_py(got)
            if inv:
                return {'kind': 'oracle', 'where': 'np:%s random circuit left an invalid state (%s)' % (kind, inv), 'observed': got, 'expected': 'a valid state', 'tags': ['resample_circuit']}
            outs.append(str(got))
    finally:
        CI.random_clifford_map = orig
    if len(calls) != expected:
        return {'kind': 'oracle', 'where': 'np:%s: unspecified gates are not resampled at every call (history %s)' % (kind, hist), 'observed': len(calls), 'expected': expected, 'tags': ['resample_circuit']}
    if any(g.forward_map is not None or g.backward_map is not None or g.generator is not None for g in gates):
        return {'kind': 'oracle', 'where': 'np:%s: an unspecified gate stored a map after history %s' % (kind, hist), 'observed': 'map stored', 'expected': 'nothing stored', 'tags': ['resample_circuit']}
    if len(outs) >= 5 and N >= 2 and len(set(outs)) < 2:
        return {'kind': 'oracle', 'where': 'np:%s: %d runs gave one and the same state' % (kind, len(hist)), 'observed': outs[0], 'expected': 'varying states', 'tags': ['resample_circuit']}
    return None


def c_povm_samples(ctx, args):
    """every sample of one povm() call is a NEW state: the computational basis state taken backward through the circuit ONCE.  With fixed gates every sample is the same state
    (= the gates applied backward one at a time to |0..0>), the samples are distinct objects, and changing one leaves the others alone -- kept in a list or consumed one by one"""
    cls, N, prog, k, lazy = args
    c = NP.build_circuit(N, prog, cls)
    ref = pc.zero_state(N)
    for ins in reversed(prog):
        NP.mk_gate(ins[1]).backward(ref)
    want = NP.oST(ref)
    got = []
    objs = []
    for s_ in c.povm(k):
        if lazy:
            got.append(NP.oST(s_))            # read at once, then spoil it: a later sample must not be built on it
            s_.rotate_by(NP.P(gen.rpauli(__import__('random').Random(N + len(got)), N, herm=True, nonzero=True)))
        objs.append(s_)
    if not lazy:
        got = [NP.oST(s_) for s_ in objs]
    if len({id(s_) for s_ in objs}) != k:
        return {'kind': 'oracle', 'where': 'np:%s.povm yields the same object more than once' % cls, 'observed': len({id(s_) for s_ in objs}), 'expected': k, 'tags': ['povm']}
    for j, g_ in enumerate(got):
        if g_ != want:
            return {'kind': 'oracle', 'where': 'np:%s.povm sample %d of %d is not the basis state taken backward through the circuit once' % (cls, j, k), 'observed': g_, 'expected': want, 'tags': ['povm']}
    return None


def c_state_signs(ctx, args):
    """sign bits are fair for random STATES of every rank: over 64 draws of random_clifford_state / random_pauli_state (N, r) every tableau row shows both signs
    (a fair bit misses with probability 2^-63 per row), and every draw is a valid tableau of the requested rank"""
    kind, N, r, seed = args
    NP.seed_numba(seed)
    np.random.seed(seed)
    f = pc.random_clifford_state if kind == 'clifford' else pc.random_pauli_state
    seen = [set() for _ in range(2 * N)]
    for _ in range(64):
        t = NP.oST(f(N, r) if r is not None else f(N))
        inv = S.tableau_invariant_py(t)
        if inv or t[1] != (r or 0):
            return {'kind': 'oracle', 'where': 'np:random_%s_state(%d, %r) is not a valid tableau of that rank (%s)' % (kind, N, r, inv), 'observed': t, 'expected': 'valid, rank %r' % r, 'tags': ['state_signs']}
        for j, row in enumerate(t[0]):
            seen[j].add(row[1] % 4)
    stuck = [j for j in range(2 * N) if len(seen[j]) < 2]
    if stuck or any(not v <= {0, 2} for v in seen):
        return {'kind': 'oracle', 'where': 'np:random_%s_state(%d, %r): tableau rows whose sign never varied in 64 draws' % (kind, N, r), 'observed': stuck, 'expected': 'both signs on every row', 'tags': ['state_signs']}
    return None


def c_chi2(ctx, args):
    """support only: distribution of random_clifford over the symplectic group for N=1 (6 classes) / N=2 (720 classes)"""
    N, nsamp, seed = args
    NP.seed_numba(seed)
    cnt = {}
    for _ in range(nsamp):
        k = U.random_clifford(N).tobytes()
        cnt[k] = cnt.get(k, 0) + 1
    ncls = 6 if N == 1 else 720
    if len(cnt) > ncls:
        return {'kind': 'oracle', 'where': 'np:random_clifford left the symplectic group', 'observed': len(cnt), 'expected': ncls}
    e = nsamp / ncls
    chi2 = sum((c - e) ** 2 / e for c in cnt.values()) + (ncls - len(cnt)) * e
    # thresholds at ~1e-6 false-alarm rate: chi2(df=5) < 37 ; chi2(df=719) < 915
    lim = 37.0 if N == 1 else 915.0
    ctx.res.notes['chi2_N%d' % N] = {'chi2': chi2, 'df': ncls - 1, 'limit': lim, 'samples': nsamp, 'classes_seen': len(cnt)}
    if chi2 > lim:
        return {'kind': 'oracle', 'where': 'np:random_clifford is not uniform over the symplectic group (N=%d)' % N, 'observed': chi2, 'expected': '< %g' % lim}
    return None


def c_chi2_product(ctx, args):
    """support only: random_pauli_map(2) is a product of two INDEPENDENT uniform one-qubit Cliffords: 36 string classes (df 35), the 3x3 table of the two X-images (df 8)
    and the 16 sign patterns (df 15); thresholds at a false-alarm rate of 1e-6 each"""
    be, nsamp, seed = args
    if be == 'np':
        NP.seed_numba(seed)
        np.random.seed(seed)
        draw = lambda: NP.oPL(pc.random_pauli_map(2))
    else:
        import torch, torchclifford as tc, vlib.impl_torch as TT
        torch.manual_seed(seed)
        draw = lambda: TT.oPL(tc.random_pauli_map(2))
    cls, tab, sgn = {}, {}, {}
    for _ in range(nsamp):
        m = draw()
        k = tuple(tuple(g) for g, _ in m)
        cls[k] = cls.get(k, 0) + 1
        x = (tuple(m[0][0][0:2]), tuple(m[2][0][2:4]))
        tab[x] = tab.get(x, 0) + 1
        sg = tuple(p for _, p in m)
        sgn[sg] = sgn.get(sg, 0) + 1

    def chi(cnt, ncls):
        e = nsamp / ncls
        return sum((c - e) ** 2 / e for c in cnt.values()) + (ncls - len(cnt)) * e
    res = {'classes': (chi(cls, 36), 89.95, len(cls), 36), 'x_images': (chi(tab, 9), 42.71, len(tab), 9), 'signs': (chi(sgn, 16), 56.5, len(sgn), 16)}
    ctx.res.notes['chi2_product_' + be] = {k: {'chi2': v[0], 'limit': v[1], 'seen': v[2], 'of': v[3]} for k, v in res.items()}
    for k, (c, lim, seen, ncls) in res.items():
        if seen > ncls:
            return {'kind': 'oracle', 'where': '%s:random_pauli_map(2) produced more than %d %s' % (be, ncls, k), 'observed': seen, 'expected': ncls}
        if c > lim:
            return {'kind': 'oracle', 'where': '%s:random_pauli_map(2) is not a product of independent uniform one-qubit maps (%s)' % (be, k), 'observed': c, 'expected': '< %g' % lim,
                    'tags': ['statistical', be]}
    return None


def c_chi2_rows(ctx, args):
    """support only: for N = 3 every row of the sampled table (image of X_j / Z_j) is uniform over the 63 non-identity strings -- the inner recursion levels included
    (rows 2..5 are produced below the top level); df 62 each, threshold at 1e-6; plus: no string may stay unreached"""
    be, nsamp, seed = args
    if be == 'np':
        NP.seed_numba(seed)
        draw = lambda: [tuple(int(v) for v in r) for r in U.random_clifford(3)]
    else:
        import torch, torchclifford as tc
        torch.manual_seed(seed)
        draw = lambda: [tuple(int(round(float(v))) for v in r) for r in tc.utils.random_clifford(3)]
    cnt = [dict() for _ in range(6)]
    for _ in range(nsamp):
        rows = draw()
        for j in range(6):
            cnt[j][rows[j]] = cnt[j].get(rows[j], 0) + 1
    e = nsamp / 63.0
    res = {}
    for j in range(6):
        chi = sum((c - e) ** 2 / e for c in cnt[j].values()) + (63 - len(cnt[j])) * e
        res['row%d' % j] = {'chi2': chi, 'limit': 129.95, 'seen': len(cnt[j]), 'of': 63}
    ctx.res.notes['chi2_rows_' + be] = res
    for k, v in res.items():
        if v['seen'] > 63 or (tuple([0] * 6) in cnt[int(k[3:])]):
            return {'kind': 'oracle', 'where': '%s:random_clifford(3) %s takes a value outside the non-identity strings' % (be, k), 'observed': v['seen'], 'expected': 63}
        if v['chi2'] > v['limit'] or v['seen'] < 63:
            return {'kind': 'oracle', 'where': '%s:random_clifford(3): %s is not uniform over the 63 non-identity strings' % (be, k), 'observed': [v['chi2'], v['seen']], 'expected': '< 129.95, all 63 reached',
                    'tags': ['statistical', be]}
    return None


CHECKS = {'state_signs': c_state_signs, 'povm_samples': c_povm_samples, 'resample_circuit': c_resample_circuit, 'chi2_rows': c_chi2_rows, 'chi2_product': c_chi2_product, 'pair': c_pair, 'clifford': c_clifford, 'maps_states': c_maps_states, 'resample': c_resample, 'chi2': c_chi2, 'coin_fair': __import__('props.C06', fromlist=['c_coin_fair']).c_coin_fair}


def run(ctx):
    ctx.checks = CHECKS
    rng, B = ctx.rng, ctx.budget
    for it in range(int(400 * B)):
        N = rng.randint(1, 6)
        do(ctx, 'pair', [N, rng.randrange(10 ** 6)], nontrivial=('p', it), sample=(it < 1))
    for it in range(int(300 * B)):
        N = rng.randint(1, 6)
        do(ctx, 'clifford', [N, rng.randrange(10 ** 6)], nontrivial=('c', it) if N >= 2 else None, sample=(it < 1))
    for it in range(int(250 * B)):
        N = rng.randint(1, 5)
        be = 'np' if rng.random() < 0.7 else 'torch'
        what = rng.choice(['clifford_map', 'pauli_map'] if be == 'torch' else ['clifford_map', 'pauli_map', 'clifford_state', 'pauli_state', 'brickwall', 'onsite', 'global'])
        do(ctx, 'maps_states', [be, N, rng.randrange(10 ** 6), what], nontrivial=(be, what, it))
        ctx.res.count('%s_%s' % (be, what))
    for it in range(int(20 * B)):
        do(ctx, 'resample', [rng.randint(1, 3), rng.randrange(10 ** 6)], nontrivial=('r', it))
        Ns = rng.randint(1, 4)
        do(ctx, 'state_signs', [['clifford', 'pauli'][it % 2], Ns, rng.choice([None, 0] + list(range(1, Ns + 1))), rng.randrange(10 ** 6)], nontrivial=('ss', it))
        Np = rng.randint(1, 4)
        do(ctx, 'povm_samples', [['CliffordCircuit', 'Circuit'][it % 2], Np, [[0, gen.rgate(rng, ctx.model, Np, kinds=('gen', 'fwd', 'named'))] for _ in range(rng.randint(1, 5))], rng.randint(2, 4), it % 3 == 0], nontrivial=('pv', it))
        kind = ['CliffordCircuit', 'Circuit', 'brickwall', 'onsite', 'global'][it % 5]
        do(ctx, 'resample_circuit', [kind, 2 * rng.randint(1, 2), rng.randrange(10 ** 6), ''.join(rng.choice('FBPC' if it % 2 else 'FBP') for _ in range(rng.randint(3, 7)))], nontrivial=('rc', it))
    if not getattr(ctx, 'is_worker', False):
        do(ctx, 'chi2', [1, 3000 if ctx.tier == 'quick' else 60000, 11], nontrivial='chi1')
    if not getattr(ctx, 'is_worker', False):
        do(ctx, 'chi2', [2, 14400 if ctx.tier == 'quick' else 144000, 12], nontrivial='chi2')
    if not getattr(ctx, 'is_worker', False):
        do(ctx, 'chi2_product', ['torch', 14400 if ctx.tier == 'quick' else 144000, 13], nontrivial='chi_prod_torch')
    if not getattr(ctx, 'is_worker', False):
        do(ctx, 'chi2_product', ['np', 3600 if ctx.tier == 'quick' else 72000, 14], nontrivial='chi_prod_np')
    if not getattr(ctx, 'is_worker', False):
        do(ctx, 'chi2_rows', ['np', 20000 if ctx.tier == 'quick' else 400000, 16], nontrivial='chi_rows_np')
    if not getattr(ctx, 'is_worker', False):
        do(ctx, 'chi2_rows', ['torch', 8000 if ctx.tier == 'quick' else 80000, 17], nontrivial='chi_rows_torch')
    # the measurement coin is one of the library's random sources: fresh and fair at every undetermined measurement (same check as in C06)
    for it in range(int(40 * B)):
        n = rng.randint(1, 4)
        t = gen.rtableau(rng, ctx.model, n, depth=rng.choice([0, 0, 1, None]))
        q = rng.randrange(n)
        o = rng.choice([[[1 if j == 2 * q + 1 else 0 for j in range(2 * n)], 0], [[1 if j == 2 * q else 0 for j in range(2 * n)], 0]])
        do(ctx, 'coin_fair', [t, o, rng.randrange(10 ** 6)], nontrivial=('coin', it) if t[1] > 0 else None)
