"""C06 -- measurement follows the Born rule and the projection postulate."""
import numpy as np
import pyclifford as pc
from vlib import gen, dense as D, states as S
from vlib import impl_np as NP
from vlib.run import do

RULE = ('(tableau of any rank and signs, commuting list of signed observables, RNG seed): every tableau reachable for N=1 x every signed observable; '
        'random valid tableaux N<=6 of every rank with random signs, lists of 1-4 commuting observables (members, non-members, logical operators), '
        'repeated measurement. The coin of each undetermined outcome is recovered from the implementation output and fed to the model; state, outcomes, '
        'log2prob and rank must then agree, and (N<=4) equal the dense P rho P / Tr. Non-trivial = mixed state AND a minus sign AND an undetermined outcome.')
ASSUMES = ['observables are Hermitian and mutually commuting (the domain of the property)', 'coins are fair: assumed, see C16']


def c_measure(ctx, args):
    NP.set_layout(args[3] if len(args) > 3 else 'c')
    try:
        return _measure(ctx, args[:3])
    finally:
        NP.set_layout('c')


def _measure(ctx, args):
    t, obs, seed = args
    n = len(t[0]) // 2
    NP.seed_numba(seed)
    try:
        s, outs, lp = NP.measure_raw(t, obs)
    except Exception as e:
        return {'kind': 'oracle', 'where': 'np:StabilizerState.measure', 'observed': 'raised %s' % type(e).__name__, 'expected': 'outcomes'}
    got = S.st_list(s)
    tags = []
    if t[1] > 0:
        tags.append('mixed')
    if ctx.model is not None and not ctx.search:
        flags = ctx.model.call('measure_flags', t, obs)
        coins = S.recover_coins(flags, outs, obs)
        mt, mouts, mlp, left = ctx.model.call('measure', t, obs, coins)
        if any(flags):
            tags.append('undetermined')
        if mouts != outs or mlp != int(lp) or float(lp) != int(lp) or mt[1] != got[1] or not S.same_state(mt, got):
            return {'kind': 'corr', 'where': 'np:measure vs model', 'observed': [got, outs, lp], 'expected': [mt, mouts, mlp], 'tags': tags}
        if mt != got:
            ctx.res.count('raw_tableau_differs_same_state')
        ok = ctx.model.call('tableau_ok', got)
        if ok != 1:
            return {'kind': 'oracle', 'where': 'np:measure breaks the tableau invariant', 'observed': got, 'expected': 'valid tableau', 'tags': tags}
    inv = S.tableau_invariant_py(got)
    if inv:
        return {'kind': 'oracle', 'where': 'np:measure breaks the tableau invariant: ' + inv, 'observed': got, 'expected': 'valid tableau', 'tags': tags}
    if n <= 4:
        rho0 = S.rho(t)
        want = rho0
        for o, k in zip(obs, outs):
            P = (np.eye(2 ** n) + (-1) ** k * D.op(*o)) / 2
            want = P @ want @ P
        pr = np.trace(want).real
        if pr < 1e-12:
            return {'kind': 'oracle', 'where': 'np:measure returned an impossible outcome', 'observed': outs, 'expected': 'an outcome of non-zero probability', 'tags': tags}
        if abs(np.log2(pr) - lp) > 1e-9:
            return {'kind': 'oracle', 'where': 'np:measure log2prob', 'observed': lp, 'expected': float(np.log2(pr)), 'tags': tags}
        if not np.allclose(want / pr, S.rho(got)):
            return {'kind': 'oracle', 'where': 'np:measure post-state', 'observed': got, 'expected': 'P rho P / Tr', 'tags': tags}
        # repeating the measurement returns the same outcomes with log2prob 0
        NP.seed_numba(seed + 1)
        s2, outs2, lp2 = NP.measure_raw(got, obs)
        if outs2 != outs or lp2 != 0:
            return {'kind': 'oracle', 'where': 'np:repeated measurement', 'observed': [outs2, lp2], 'expected': [outs, 0.0], 'tags': tags}
    return None


def acq_py(a, b):
    return sum(a[2 * i + 1] * b[2 * i] - a[2 * i] * b[2 * i + 1] for i in range(len(a) // 2)) % 2


def c_measure_forms(ctx, args):
    """argument forms of StabilizerState.measure: a single Pauli, a PauliList, a StabilizerState (= its active stabilizers, rows [r_arg, N) of ITS tableau).
    Oracle without the model: under the same seed of the outcome generator every form gives the outcomes, log-probability and post-state of the list form."""
    t, u, seed = args                      # measured state, argument state
    n = len(t[0]) // 2
    obs = u[0][u[1]:n]                      # the documented observables of a state argument
    if not obs:
        return None
    s0 = NP.STATE(t)
    NP.seed_numba(seed)
    out0, lp0 = s0.measure(NP.PL(obs))
    ref = (S.st_list(s0), [int(v) for v in out0], float(lp0))
    s1 = NP.STATE(t)
    arg = NP.STATE(u)
    before = S.st_list(arg)
    NP.seed_numba(seed)
    try:
        out1, lp1 = s1.measure(arg)
    except Exception as e:
        return {'kind': 'oracle', 'where': 'np:measure(StabilizerState) raised %s' % type(e).__name__, 'observed': str(e)[:100], 'expected': 'outcomes of its active stabilizers'}
    got = (S.st_list(s1), [int(v) for v in out1], float(lp1))
    if got != ref:
        return {'kind': 'oracle', 'where': 'np:measure(StabilizerState argument) differs from measuring its active stabilizers as a list', 'observed': got, 'expected': ref,
                'tags': ['state_argument', 'rank_arg_%s_rank_self' % ('eq' if u[1] == t[1] else 'ne')]}
    if S.st_list(arg) != before:
        return {'kind': 'oracle', 'where': 'np:measure modified its StabilizerState argument', 'observed': S.st_list(arg), 'expected': before}
    # a single Pauli = the one-element list
    s2, s3 = NP.STATE(t), NP.STATE(t)
    NP.seed_numba(seed)
    o2 = s2.measure(NP.PL(obs[:1]))
    NP.seed_numba(seed)
    try:
        o3 = s3.measure(NP.P(obs[0]))
    except Exception as e:
        return None                        # a bare Pauli is not an accepted form everywhere; nothing to compare
    a = (S.st_list(s2), [int(v) for v in np.atleast_1d(o2[0])], float(o2[1]))
    b = (S.st_list(s3), [int(v) for v in np.atleast_1d(o3[0])], float(o3[1]))
    if a != b:
        return {'kind': 'oracle', 'where': 'np:measure(Pauli) differs from measure([Pauli])', 'observed': b, 'expected': a}
    return None


def c_coin_fair(ctx, args):
    """an undetermined outcome is a fresh fair coin at every measurement: 64 measurements of the same observable on fresh copies of the same state must show BOTH
    outcomes (a fair coin fails this with probability 2^-63); every rank, pivots among active and standby rows alike"""
    t, o, seed = args
    NP.seed_numba(seed)
    seen = set()
    for _ in range(64):
        s = NP.STATE(t)
        out, lp = s.measure(NP.PL([o]))
        if float(lp) != -1.0:
            return None               # determined for this state: nothing to flip
        seen.add(int(np.atleast_1d(out)[0]))
        if len(seen) == 2:
            return None
    return {'kind': 'oracle', 'where': 'np:an undetermined outcome came out the same 64 times in a row', 'observed': sorted(seen), 'expected': 'both outcomes (probability 1/2 each)', 'tags': ['coin']}


def c_coin_joint(ctx, args):
    """the coins of ONE measure() call are independent: a list with k undetermined outcomes (log2prob = -k, k <= 4) has 2^k equally likely outcome
    vectors; over 64 * 2^k measurements of fresh copies every one of them must occur (a given vector is missed with probability (1 - 2^-k)^(64 * 2^k) < 2^-90)"""
    t, obs, seed = args
    NP.seed_numba(seed)
    seen = set()
    k = None
    for _ in range(64 * 16):
        s = NP.STATE(t)
        out, lp = s.measure(NP.PL(obs))
        kk = int(round(-float(lp)))
        if k is None:
            k = kk
        if kk != k:
            return {'kind': 'oracle', 'where': 'np:log2prob of the same measurement changes from run to run', 'observed': [k, kk], 'expected': 'one value', 'tags': ['coin']}
        if k < 2 or k > 4:
            return None
        seen.add(tuple(int(v) for v in np.atleast_1d(out)))
        if len(seen) == 2 ** k:
            return None
        if _ >= 64 * 2 ** k:
            break
    return {'kind': 'oracle', 'where': 'np:the undetermined outcomes of one measure() call are not independent fair coins', 'observed': sorted(seen),
            'expected': '%d distinct outcome vectors (log2prob = -%d)' % (2 ** k, k), 'tags': ['coin', 'joint']}


def c_coin_positions(ctx, args):
    """EVERY undetermined outcome of a long list is a fresh coin, however many came before it in the same call: N single-site X (random signs) on a computational-basis state
    of N > 64 qubits are N independent fair coins -- over 48 calls every position must show both outcomes (a fair coin misses with probability N * 2^-47), log2prob = -N"""
    N, seed = args
    rng = __import__('random').Random(seed)
    NP.seed_numba(seed)
    t = [[[[1 if j == 2 * q + 1 else 0 for j in range(2 * N)], rng.choice([0, 2])] for q in range(N)] + [[[1 if j == 2 * q else 0 for j in range(2 * N)], 0] for q in range(N)], 0]
    obs = [[[1 if j == 2 * q else 0 for j in range(2 * N)], rng.choice([0, 2])] for q in range(N)]
    seen = [set() for _ in range(N)]
    for _ in range(48):
        s = NP.STATE(t)
        out, lp = s.measure(NP.PL(obs))
        if float(lp) != -float(N):
            return {'kind': 'oracle', 'where': 'np:log2prob of %d undetermined outcomes' % N, 'observed': float(lp), 'expected': -N, 'tags': ['coin', 'positions']}
        for k, v in enumerate(np.atleast_1d(out)):
            seen[k].add(int(v))
    stuck = [k for k in range(N) if len(seen[k]) < 2]
    if stuck:
        return {'kind': 'oracle', 'where': 'np:positions of a long measurement list whose undetermined outcome never varied in 48 calls', 'observed': stuck, 'expected': 'both outcomes at every position', 'tags': ['coin', 'positions']}
    return None


def c_many_outcomes(ctx, args):
    """the log2-probability of n undetermined outcomes in one call is exactly -n, however large n is (2^-n itself underflows beyond n = 1074)"""
    N, seed = args
    NP.seed_numba(seed)
    s = pc.zero_state(N)
    gs = np.zeros((N, 2 * N), dtype=np.int_)
    gs[np.arange(N), 2 * np.arange(N)] = 1
    obs = pc.paulialg.PauliList(gs, np.zeros(N, dtype=np.int_))
    out, lp = s.measure(obs)
    if float(lp) != -float(N):
        return {'kind': 'oracle', 'where': 'np:log2prob of %d undetermined outcomes in one call' % N, 'observed': repr(float(lp)), 'expected': -N, 'tags': ['many_outcomes']}
    out2, lp2 = s.measure(obs)
    if float(lp2) != 0.0 or [int(v) for v in out2] != [int(v) for v in out] or int(s.r) != 0:
        return {'kind': 'oracle', 'where': 'np:repeating a measurement of %d observables' % N, 'observed': [float(lp2), int(s.r)], 'expected': [0.0, 0], 'tags': ['many_outcomes']}
    return None


CHECKS = {'many_outcomes': c_many_outcomes, 'layer': __import__('props.C14', fromlist=['c_layer']).c_layer, 'coin_positions': c_coin_positions, 'coin_joint': c_coin_joint, 'coin_fair': c_coin_fair, 'measure': c_measure, 'measure_forms': c_measure_forms}


def all_tableaux_1q():
    out = []
    S1 = [g for g in gen.all_strings(1) if any(g)]
    for a in S1:
        for b in S1:
            if (a[1] * b[0] - a[0] * b[1]) % 2 == 1:
                for pa in (0, 2):
                    for pb in (0, 2):
                        for r in (0, 1):
                            out.append([[[a, pa], [b, pb]], r])
    return out


def run(ctx):
    ctx.checks = CHECKS
    rng, B = ctx.rng, ctx.budget
    # corpus: the witness of the fixed pivot defect (mixed state, standby Z0/X0, stabilizer Z1, observable X0X1)
    wit = [[[[0, 1, 0, 0], 0], [[0, 0, 0, 1], 0], [[1, 0, 0, 0], 0], [[0, 0, 1, 0], 0]], 1]
    for sd in range(4):
        do(ctx, 'measure', [wit, [[[1, 0, 1, 0], 0]], sd], nontrivial=('w', sd), sample=(sd == 0))
        do(ctx, 'measure', [wit, [[[1, 0, 1, 0], 2], [[0, 1, 0, 1], 2]], sd], nontrivial=('w2', sd))
    for t in all_tableaux_1q():
        for g in gen.all_strings(1):
            for p in (0, 2):
                for sd in (0, 1, 2):
                    do(ctx, 'measure', [t, [[g, p]], sd], nontrivial=('1q', str(t), str(g), p, sd) if (t[1] and any(g)) else None)
    ctx.res.exhaustive = True
    for it in range(int(900 * B)):
        n = rng.randint(1, 6)
        t = gen.rtableau(rng, ctx.model, n)
        L = rng.randint(1, 4)
        kind = rng.random()
        if kind < 0.6:
            obs = gen.commuting_obs(rng, ctx.model, n, L)
        elif kind < 0.8:        # members of the stabilizer group / logical operators of the state itself
            rows = t[0]
            cand = rows[:n] if rng.random() < 0.7 else rows[:n] + rows[n:n + t[1]]
            first = rng.choice(cand)
            obs = [[first[0], rng.choice([0, 2])]]
            for _ in range(L - 1):
                c = rng.choice(rows[:n])
                if all(acq_py(c[0], o[0]) == 0 for o in obs):
                    obs.append([c[0], rng.choice([0, 2])])
        else:
            o = gen.rpauli(rng, n, herm=True)
            obs = [o, [o[0], (o[1] + 2) % 4]] if rng.random() < 0.3 else [o]
        minus = any(p == 2 for _, p in t[0][:n]) or any(o[1] == 2 for o in obs)
        r = do(ctx, 'measure', [t, obs, rng.randrange(10 ** 6), rng.choice(['c', 'c', 'c', 'strided', 'fortran', 'colslice'])], sample=(it < 3))
        flags = ctx.model.call('measure_flags', t, obs) if ctx.model else []
        if t[1] > 0 and minus and any(flags):
            ctx.res.nontrivial.add(('m', it))
        ctx.res.count('rank%d_of_N%d' % (t[1], n))
        ctx.res.count('undetermined' if any(flags) else 'all_determined')
    # LARGE registers: byte, word and cache-line boundaries of every packed or vectorised representation (8, 9, 16, 17, 33, 64, 65 qubits); model correspondence only
    for n in gen.BIG:
        t = gen.rtableau(rng, ctx.model, n)
        do(ctx, 'measure', [t, gen.commuting_obs(rng, ctx.model, n, rng.randint(1, 4)), rng.randrange(10 ** 6)], nontrivial=('big', n))
        do(ctx, 'measure', [t, [[t[0][rng.randrange(n)][0], rng.choice([0, 2])]], rng.randrange(10 ** 6)], nontrivial=('bigs', n))
    # Z measurements through a MeasureLayer: same outcomes, log2prob, state and rank as the direct measurement (every rank; the layer keeps using the state's own arrays)
    for it in range(int(80 * B)):
        n = rng.randint(1, 5)
        do(ctx, 'layer', [n, rng.sample(range(n), rng.randint(1, n)), gen.rtableau(rng, ctx.model, n, r=rng.randint(0, n), depth=rng.choice([0, 1, None])), rng.randrange(10 ** 6), rng.choice(['c', 'c', 'fortran', 'strided', 'int32', 'int8'])], nontrivial=('ly', it))
    # argument forms: a StabilizerState argument of every rank against a measured state of every rank
    for it in range(int(80 * B)):
        n = rng.randint(1, 5)
        t = gen.rtableau(rng, ctx.model, n)
        u = gen.rtableau(rng, ctx.model, n)
        do(ctx, 'measure_forms', [t, u, rng.randrange(10 ** 6)], nontrivial=('f', it) if t[1] != u[1] else None)
    # fairness of the coin, state by state: single Z / X / random observables on states of every rank (maximally mixed and half-mixed ones included)
    for it in range(int(60 * B)):
        n = rng.randint(1, 4)
        t = gen.rtableau(rng, ctx.model, n, depth=rng.choice([0, 0, 1, None]))
        q = rng.randrange(n)
        o = rng.choice([[[1 if j == 2 * q + 1 else 0 for j in range(2 * n)], 0], [[1 if j == 2 * q else 0 for j in range(2 * n)], 0], gen.rpauli(rng, n, herm=True, nonzero=True)])
        do(ctx, 'coin_fair', [t, o, rng.randrange(10 ** 6)], nontrivial=('cf', it) if t[1] > 0 else None)
    if not getattr(ctx, 'is_worker', False):
        do(ctx, 'many_outcomes', [1100, rng.randrange(10 ** 6)], nontrivial='mo')
        for N in (70, 130):
            do(ctx, 'coin_positions', [N, rng.randrange(10 ** 6)], nontrivial=('cp', N))
    # ... and jointly: several undetermined observables in one call (single-site Z's / X's on product-like states, random commuting lists on random states)
    for it in range(int(40 * B)):
        n = rng.randint(2, 5)
        t = gen.rtableau(rng, ctx.model, n, depth=rng.choice([0, 0, 1, None]))
        if it % 2 == 0:
            qs = rng.sample(range(n), rng.randint(2, min(n, 4)))
            xz = rng.randint(0, 1)
            obs = [[[1 if j == 2 * q + xz else 0 for j in range(2 * n)], rng.choice([0, 2])] for q in qs]
        else:
            obs = gen.commuting_obs(rng, ctx.model, n, rng.randint(2, 4))
        flags = ctx.model.call('measure_flags', t, obs) if ctx.model else []
        do(ctx, 'coin_joint', [t, obs, rng.randrange(10 ** 6)], nontrivial=('cj', it) if sum(1 for f in flags if f) >= 2 else None)
