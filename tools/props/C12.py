"""C12 -- state-map duality and state constructors denote the documented states."""
import numpy as np
from vlib import gen, dense as D, states as S
from vlib import impl_np as NP
from vlib.run import corr, do, impl
from vlib.core import Err
from props.C03 import dense_image, all_maps_1q
import pyclifford as pc

RULE = ('all 24 one-qubit maps x ranks, random valid maps N<=6 with random signs and ranks (to_state / to_map round trips, dense image of |0..0>); every constructor for N<=4 against '
        'the dense density matrix it names; stabilizer_state on independent commuting signed lists of every length 1<=L<=N<=5 in three input formats, plus anticommuting inputs; '
        'to_qutip exports; np and torch for the shared parts. Non-trivial = at least one minus sign and an entangling map / L<N; distinct by input.')
ASSUMES = ['QuTiP tensor/matrix arithmetic is trusted and only compared numerically']


def c_duality_corr(ctx, args):
    be, m, r = args
    x = corr(ctx, be, 'map_to_state', [m]) or corr(ctx, be, 'state_to_map', [m])
    if x:
        return x
    if be == 'np':
        st = NP.CM(m).to_state(r)
        got = S.st_list(st)
        want = [ctx.model.call('map_to_state', m), r]
        if got != want:
            return {'kind': 'corr', 'where': 'np:CliffordMap.to_state', 'observed': got, 'expected': want, 'tags': ['signs'] if any(p for _, p in m) else []}
        back = NP.oPL(st.to_map())
        if back != m:
            return {'kind': 'oracle', 'where': 'np:to_state().to_map() round trip', 'observed': back, 'expected': m}
        st2 = st.to_map().to_state(r)
        if S.st_list(st2) != got:
            return {'kind': 'oracle', 'where': 'np:to_map().to_state() round trip', 'observed': S.st_list(st2), 'expected': got}
    else:
        import vlib.impl_torch as TT
        st = TT.CM(m).to_state(r)
        got = TT.oST(st)
        want = [ctx.model.call('map_to_state', m), r]
        if got != want:
            return {'kind': 'corr', 'where': 'torch:CliffordMap.to_state', 'observed': got, 'expected': want}
    return None


def c_to_state_dense(ctx, args):
    """the state of a map is the map applied to |0...0>: stabilized by the images of Z_i, signs included"""
    m, r = args
    n = len(m) // 2
    st = NP.CM(m).to_state(r)
    rho = S.rho(S.st_list(st))
    want = np.eye(2 ** n, dtype=complex)
    for i in range(r, n):
        zi = [[1 if j == 2 * i + 1 else 0 for j in range(2 * n)], 0]
        want = want @ (np.eye(2 ** n) + dense_image(m, zi)) / 2
    want = want / 2 ** r
    if not np.allclose(rho, want):
        return {'kind': 'oracle', 'where': 'np:to_state', 'observed': S.st_list(st), 'expected': 'normalised projector onto the images of Z_i (signs included)'}
    q = np.array(st.to_qutip().full())
    if not np.allclose(q, want):
        return {'kind': 'oracle', 'where': 'np:StabilizerState.to_qutip', 'observed': 'matrix', 'expected': 'product of (1+S_a)/2 over active rows / 2^r'}
    return None


def basis_rho(n, bits):
    v = np.zeros(2 ** n)
    v[int(''.join(str(b) for b in bits), 2)] = 1
    return np.outer(v, v)


def c_ctor(ctx, args):
    name, n, seed = args
    NP.seed_numba(seed)
    if name == 'zero':
        st, want = pc.zero_state(n), basis_rho(n, [0] * n)
    elif name == 'one':
        st, want = pc.one_state(n), basis_rho(n, [1] * n)
    elif name == 'mixed':
        st, want = pc.maximally_mixed_state(n), np.eye(2 ** n) / 2 ** n
    elif name == 'ghz':
        st = pc.ghz_state(n)
        v = np.zeros(2 ** n)
        v[0] = v[-1] = 1 / np.sqrt(2) if n > 1 else 0
        if n == 1:
            v = np.array([1, 1]) / np.sqrt(2)
        want = np.outer(v, v)
    elif name == 'bit':
        st = pc.random_bit_state(n)
        rho = S.rho(S.st_list(st))
        d = np.diag(rho).real
        ok = np.allclose(rho, np.diag(d)) and abs(d.max() - 1) < 1e-9 and S.dense_valid(S.st_list(st)) is None
        return None if ok else {'kind': 'oracle', 'where': 'np:random_bit_state', 'observed': S.st_list(st), 'expected': 'a computational basis state'}
    elif name == 'rpauli':
        st = pc.random_pauli_state(n)
        t = S.st_list(st)
        if S.dense_valid(t):
            return {'kind': 'oracle', 'where': 'np:random_pauli_state', 'observed': t, 'expected': 'valid state'}
        rho = S.rho(t)
        for q in range(n):      # product state: every single-qubit reduced state is pure
            red = D.partial_trace(rho, n, [q])
            if abs(np.trace(red @ red).real - 1) > 1e-9:
                return {'kind': 'oracle', 'where': 'np:random_pauli_state is not a product state', 'observed': t, 'expected': 'product of single-qubit stabilizer states'}
        return None
    t = S.st_list(st)
    if not np.allclose(S.rho(t), want):
        return {'kind': 'oracle', 'where': 'np:%s_state(%d)' % (name, n), 'observed': t, 'expected': 'the named density matrix'}
    if ctx.model is not None and ctx.model.call('tableau_ok', t) != 1:
        return {'kind': 'oracle', 'where': 'np:%s_state tableau invariant' % name, 'observed': t, 'expected': 'tableau_ok'}
    return None


LET = {(0, 0): 'I', (1, 0): 'X', (1, 1): 'Y', (0, 1): 'Z'}


def c_stab_state(ctx, args):
    n, stabs, fmt = args
    if fmt == 'list':
        arg = (NP.PL(stabs, 2 * n),)
    elif fmt in ('strings', 'gen_strings', 'list_strings', 'tuple_strings'):
        strs = [{0: '', 2: '-'}[p] + ''.join(LET[(g[2 * i], g[2 * i + 1])] for i in range(n)) for g, p in stabs]
        # several arguments / one generator / one list / one tuple of descriptions
        arg = tuple(strs) if fmt == 'strings' else (((x for x in strs),) if fmt == 'gen_strings' else ((list(strs),) if fmt == 'list_strings' else (tuple(strs),)))
    elif fmt == 'gen_objects':
        arg = ((NP.P([g, p]) for g, p in stabs),)
    else:
        arg = ([pc.pauli(np.array([{(0, 0): 0, (1, 0): 1, (1, 1): 2, (0, 1): 3}[(g[2 * i], g[2 * i + 1])] for i in range(n)])) if p == 0 else -pc.pauli(np.array([{(0, 0): 0, (1, 0): 1, (1, 1): 2, (0, 1): 3}[(g[2 * i], g[2 * i + 1])] for i in range(n)])) for g, p in stabs],)
    commute = all(sum(a[0][2 * i + 1] * b[0][2 * i] - a[0][2 * i] * b[0][2 * i + 1] for i in range(n)) % 2 == 0 for a in stabs for b in stabs)
    try:
        st = pc.stabilizer_state(*arg)
    except ValueError:
        return None if not commute else {'kind': 'oracle', 'where': 'np:stabilizer_state raised on commuting input', 'observed': 'ValueError', 'expected': 'a state'}
    if not commute:
        return {'kind': 'oracle', 'where': 'np:stabilizer_state accepted anticommuting stabilizers', 'observed': S.st_list(st), 'expected': 'ValueError'}
    t = S.st_list(st)
    L = len(stabs)
    if fmt == 'list':
        # the caller's list is only read: it still holds its rows, and a second state built from the SAME object is the same state
        if NP.oPL(arg[0]) != [[g, p % 4] for g, p in stabs]:
            return {'kind': 'oracle', 'where': 'np:stabilizer_state modified the list it was given', 'observed': NP.oPL(arg[0]), 'expected': stabs, 'tags': ['argument_modified']}
        t2 = S.st_list(pc.stabilizer_state(*arg))
        if t2 != t:
            return {'kind': 'oracle', 'where': 'np:stabilizer_state gives another state when called again with the same list object', 'observed': t2, 'expected': t, 'tags': ['history']}
    if t[1] != n - L or t[0][t[1]:n] != [[g, p % 4] for g, p in stabs]:
        return {'kind': 'oracle', 'where': 'np:stabilizer_state rank / active rows', 'observed': [t[1], t[0][t[1]:n]], 'expected': [n - L, stabs]}
    if ctx.model is not None and not ctx.search:
        want = ctx.model.call('stabilizer_state', n, stabs)
        if t != want:
            if isinstance(want, Err) or not S.same_state(t, want):
                return {'kind': 'corr', 'where': 'np:stabilizer_state vs model', 'observed': t, 'expected': repr(want)}
            ctx.res.count('raw_tableau_differs_same_state')
        if ctx.model.call('tableau_ok', t) != 1:
            return {'kind': 'oracle', 'where': 'np:stabilizer_state tableau invariant', 'observed': t, 'expected': 'tableau_ok'}
    if n <= 4:
        want = np.eye(2 ** n, dtype=complex)
        for a in stabs:
            want = want @ (np.eye(2 ** n) + D.op(*a)) / 2
        want = want / 2 ** (n - L)
        if not np.allclose(S.rho(t), want):
            return {'kind': 'oracle', 'where': 'np:stabilizer_state', 'observed': t, 'expected': 'normalised projector onto the joint +1 eigenspace'}
    return None


def c_history(ctx, args):
    """a query on ONE reused object, after in-place (often sign-only) updates, equals the same query on a fresh equal object"""
    from vlib import history
    kind, n, seed, steps, which = args
    return history.reused_object_history(ctx, kind, n, seed, steps, which)


def c_set_r(ctx, args):
    """rank bookkeeping: set_r(k) declares the first k stabilizer rows inactive (log2 rank k), set_r() and set_r(None) mean the documented default 0 (a pure state),
    whatever the rank was before; the rows are untouched; to_state(r) is to_state().set_r(r)"""
    be, m, r0, r1 = args
    M = impl_mod(be)
    n = len(m) // 2
    st = M.CM(m).to_state(r0)
    rows = M.oPL(st)
    out = []
    for arg in ('none', 'None', r1, 0):
        s2 = st.copy()
        ret = s2.set_r() if arg == 'none' else (s2.set_r(None) if arg == 'None' else s2.set_r(arg))
        want_r = 0 if arg in ('none', 'None') else arg
        if int(s2.r) != want_r or M.oPL(s2) != rows or ret is not s2:
            return {'kind': 'oracle', 'where': '%s:set_r(%s) on a state of rank %d' % (be, {'none': '', 'None': 'None'}.get(arg, arg), r0), 'observed': [int(s2.r), ret is s2], 'expected': [want_r, True], 'tags': ['set_r']}
    if M.oST(M.CM(m).to_state(r1)) != [rows, r1]:
        return {'kind': 'oracle', 'where': be + ':to_state(r) is not to_state().set_r(r)', 'observed': M.oST(M.CM(m).to_state(r1)), 'expected': [rows, r1], 'tags': ['set_r']}
    return None


def impl_mod(be):
    if be == 'np':
        return NP
    import vlib.impl_torch as TT
    return TT


CHECKS = {'set_r': c_set_r, 'density': __import__('props.C19', fromlist=['c_density']).c_density, 'duality_corr': c_duality_corr, 'to_state_dense': c_to_state_dense, 'ctor': c_ctor, 'stab_state': c_stab_state, 'history': c_history}


def run(ctx):
    ctx.checks = CHECKS
    rng, B = ctx.rng, ctx.budget
    for m in all_maps_1q():
        for r in (0, 1):
            do(ctx, 'duality_corr', ['np', m, r], nontrivial=('1', str(m), r))
            do(ctx, 'to_state_dense', [m, r])
        do(ctx, 'duality_corr', ['torch', m, 0])
    ctx.res.exhaustive = True
    for n in range(1, 5):
        for name in ('zero', 'one', 'mixed', 'ghz'):
            do(ctx, 'ctor', [name, n, 0], nontrivial=(name, n), sample=(name == 'ghz' and n == 3))
        for sd in range(3):
            do(ctx, 'ctor', ['bit', n, sd], nontrivial=('bit', n, sd))
            do(ctx, 'ctor', ['rpauli', n, sd], nontrivial=('rp', n, sd))
    for it in range(int(30 * B)):
        n = rng.randint(1, 4)
        do(ctx, 'set_r', [['np', 'torch'][it % 2], gen.rmap(rng, ctx.model, n), rng.randint(0, n), rng.randint(0, n)], nontrivial=('sr', it))
    # the exported density matrix (PauliPolynomial form): every product of the active stabilizers once, weight 2^-N -- both backends, small groups and groups of 8..12 generators
    for it in range(int(30 * B)):
        n = rng.randint(1, 5)
        do(ctx, 'density', [gen.rtableau(rng, ctx.model, n), rng.choice(['np', 'torch'])], nontrivial=('dm', it))
    for k, n in [(8, 8), (9, 9), (9, 10), (10, 11), (12, 12), (1, 63), (2, 64), (3, 65)]:
        for be in ('np', 'torch'):
            do(ctx, 'density', [gen.rtableau(rng, ctx.model, n, r=n - k), be], nontrivial=('dml', be, k, n))
    # LARGE registers: byte, word and cache-line boundaries of every packed or vectorised representation (8, 9, 16, 17, 33, 64, 65 qubits); model correspondence only
    for n in gen.BIG:
        for be in (['np', 'torch'] if n <= 33 else ['np']):
            do(ctx, 'duality_corr', [be, gen.rmap(rng, ctx.model, n), rng.randint(0, n)], nontrivial=('big', be, n))
    for it in range(int(300 * B)):
        n = rng.randint(1, 6)
        m = gen.rmap(rng, ctx.model, n)
        r = rng.randint(0, n)
        be = 'np' if rng.random() < 0.8 else 'torch'
        do(ctx, 'duality_corr', [be, m, r], nontrivial=(be, it) if any(p for _, p in m) else None, sample=(it < 1))
        if n <= 3:
            do(ctx, 'to_state_dense', [m, r], nontrivial=('d', it))
    for it in range(int(300 * B)):
        n = rng.randint(1, 5)
        L = rng.randint(1, n)
        m = gen.rmap(rng, ctx.model, n)
        stabs = [[m[2 * i + 1][0], rng.choice([0, 2])] for i in rng.sample(range(n), L)]
        if rng.random() < 0.15:      # make two of them anticommute
            stabs.append([m[2 * rng.randrange(n)][0], 0])
            stabs = [s for s in stabs]
        fmt = rng.choice(['list', 'strings', 'objects', 'gen_strings', 'gen_objects', 'list_strings', 'tuple_strings'])
        do(ctx, 'stab_state', [n, stabs, fmt], nontrivial=('s', it) if L < n and any(p for _, p in stabs) else None)
        ctx.res.count('L%d_of_N%d' % (L, n))
    # histories on one reused object: lazily kept results must follow every in-place update
    for _ in range(int(40 * B)):
        do(ctx, 'history', ['map', rng.randint(1, 4), rng.randrange(10 ** 6), rng.randint(4, 12), ['to_state', 'to_state_r', 'copy']], nontrivial=('h', 'map', ctx.res.evaluations))
        do(ctx, 'history', ['state', rng.randint(1, 4), rng.randrange(10 ** 6), rng.randint(4, 12), ['to_map', 'copy']], nontrivial=('h', 'state', ctx.res.evaluations))
