"""C05 -- every reachable stabilizer state is a valid density matrix (tableau invariant)."""
import numpy as np
from vlib import gen, dense as D, states as S
from vlib import impl_np as NP
from vlib.run import do, mgate, opt
from vlib.core import Err
import pyclifford as pc
from pyclifford import circuit as CI

RULE = ('random walks over the public state-changing operations {rotate, masked rotate, map transform, masked transform, gate forward/backward, measure list, measurement layer in a '
        'Circuit, postselect, copy, to_map/to_state round trip} started from every constructor {zero, one, ghz, maximally mixed, random bit, stabilizer_state(list), map.to_state(r)}; '
        'after EVERY step the implementation tableau is checked against the invariant (model predicate tableau_ok on the arrays), against the model state in lock-step '
        '(coins recovered), and every few steps against the dense density matrix (trace one, positive, rank 2^r). Non-trivial = a walk that contains a rank-changing '
        'measurement and a sign flip; distinct by (constructor, step list).')
ASSUMES = ['operations are used within their documented domain (Hermitian generators, valid maps, commuting Hermitian observables)']


def make_state(ctx, N, ctor):
    kind = ctor[0]
    if kind == 'zero':
        return pc.zero_state(N)
    if kind == 'one':
        return pc.one_state(N)
    if kind == 'ghz':
        return pc.ghz_state(N)
    if kind == 'mixed':
        return pc.maximally_mixed_state(N)
    if kind == 'bit':
        NP.seed_numba(ctor[1])
        return pc.random_bit_state(N)
    if kind == 'map':
        return NP.CM(ctor[1]).to_state(ctor[2])
    if kind == 'stab':
        return pc.stabilizer_state(NP.PL(ctor[1], 2 * N))
    raise ValueError(kind)


def model_ctor(ctx, N, ctor, got):
    """model counterpart of the constructor (None when the constructor is random: then the implementation's own state seeds the model)"""
    kind = ctor[0]
    M = ctx.model
    if kind == 'zero':
        return M.call('zero_state', N)
    if kind == 'mixed':
        return M.call('mixed_state', N)
    if kind == 'map':
        return [M.call('map_to_state', ctor[1]), ctor[2]]
    if kind == 'stab':
        return M.call('stabilizer_state', N, ctor[1])
    if kind == 'one':
        z = M.call('zero_state', N)
        return [[[g, 2] for g, p in z[0]], 0]
    if kind == 'ghz':
        stabs = [[[1 if (j == 2 * i + 1 or j == 2 * i + 3) else 0 for j in range(2 * N)], 0] for i in range(N - 1)] + [[[1, 0] * N, 0]]
        return M.call('stabilizer_state', N, stabs)
    return None


def c_walk(ctx, args):
    NP.set_layout(args[3] if len(args) > 3 else 'c')
    try:
        return _walk(ctx, args[:3])
    finally:
        NP.set_layout('c')


def _walk(ctx, args):
    N, ctor, steps = args
    M = None if ctx.search else ctx.model
    try:
        s = make_state(ctx, N, ctor)
    except Exception as e:
        return {'kind': 'oracle', 'where': 'np:constructor %s' % ctor[0], 'observed': 'raised ' + type(e).__name__, 'expected': 'a state'}
    cur = S.st_list(s)
    mt = model_ctor(ctx, N, ctor, cur) if M else None
    if mt is None:
        mt = cur
    hist = ['ctor:' + ctor[0]]

    def bad(where, observed, expected, kind='oracle'):
        return {'kind': kind, 'where': where, 'observed': observed, 'expected': expected, 'history': hist[-6:]}
    for idx, st in enumerate([None] + steps):
        if st is not None:
            op = st[0]
            hist.append(op)
            try:
                if op == 'rotate':
                    s.rotate_by(NP.P(st[1]), mask=NP.optmask(st[2]))
                    if M:
                        mt = M.call('state_rotate', st[1], opt(st[2]), mt)
                elif op == 'transform':
                    s.transform_by(NP.CM(st[1]), mask=NP.optmask(st[2]))
                    if M:
                        mt = M.call('state_transform', st[1], opt(st[2]), mt)
                elif op in ('gate_f', 'gate_b'):
                    g = NP.mk_gate(st[1])
                    (g.forward if op == 'gate_f' else g.backward)(s)
                    if M:
                        rows = M.call('gate_forward' if op == 'gate_f' else 'gate_backward', N, mgate(st[1]), mt[0])
                        mt = [rows, mt[1]]
                elif op == 'measure':
                    NP.seed_numba(st[2])
                    out, lp = s.measure(NP.PL(st[1], 2 * N))
                    outs = [int(v) for v in out]
                    if M:
                        flags = M.call('measure_flags', mt, st[1])
                        coins = S.recover_coins(flags, outs, st[1])
                        mt2, mouts, mlp, _ = M.call('measure', mt, st[1], coins)
                        if mouts != outs or mlp != int(lp):
                            return bad('np:measure inside a walk', [outs, lp], [mouts, mlp], 'corr')
                        mt = mt2
                elif op == 'mlayer':
                    NP.seed_numba(st[2])
                    c = CI.Circuit(N)
                    c.measure(*st[1])
                    c.forward(s)
                    outs = [(1 - int(v)) // 2 for v in c.measure_result]
                    if M:
                        obs = [[[1 if j == 2 * q + 1 else 0 for j in range(2 * N)], 0] for q in st[1]]
                        flags = M.call('measure_flags', mt, obs)
                        coins = S.recover_coins(flags, outs, obs)
                        mt2, mouts, mlp, _ = M.call('measure', mt, obs, coins)
                        if mouts != outs or mlp != int(c.log2prob):
                            return bad('np:MeasureLayer inside a walk', [outs, c.log2prob], [mouts, mlp], 'corr')
                        mt = mt2
                elif op == 'postselect':
                    if s.r == 0:
                        prob = s.postselect(NP.P(st[1]), st[2])
                        if M:
                            mt2, mpr = M.call('postselect', mt, [st[1][0], (st[1][1] + 2 * st[2]) % 4])
                            if int(round(2 * prob)) != mpr:
                                return bad('np:postselect probability', prob, mpr / 2.0, 'corr')
                            mt = mt2
                elif op == 'query':
                    # read-only use of the state in between: whatever a query does internally, the state goes on being the same valid state
                    rr = __import__('random').Random(st[1])
                    region = [q for q in range(N) if rr.random() < 0.5] or [0]
                    s.entropy(region)
                    s.entropy(np.array([q in region for q in range(N)]))
                    s.expect(NP.PL(gen.rplist(rr, N, 3, herm=True)))
                    s.sample(2)
                    s.to_map()
                    repr(s)
                    if N - s.r <= 4:
                        s.density_matrix
                    before_q = S.st_list(s)
                    if before_q != cur:
                        return bad('np:a query changed the tableau of the state', before_q, cur)
                elif op == 'copy':
                    s = s.copy()
                elif op == 'roundtrip':
                    s = s.to_map().to_state(s.r)
            except Exception as e:
                return bad('np:%s raised %s' % (op, type(e).__name__), str(e)[:200], 'no exception')
        cur = S.st_list(s)
        n = N
        if not (0 <= cur[1] <= n) or len(cur[0]) != 2 * n:
            return bad('np:rank bookkeeping', cur[1], '0 <= r <= N')
        inv = S.tableau_invariant_py(cur)
        if inv:
            return bad('np:tableau invariant broken: ' + inv, cur, 'valid tableau')
        if M:
            if M.call('tableau_ok', cur) != 1:
                return bad('np:tableau invariant broken', cur, 'tableau_ok')
            if cur != mt:
                if cur[1] != mt[1] or not S.same_state(cur, mt):
                    return bad('np:state differs from the model', cur, mt, 'corr')
                ctx.res.count('raw_tableau_differs_same_state')
                mt = cur      # continue in lock-step from the implementation's representative
        if N <= 3 and (idx % 3 == 0 or idx == len(steps)):
            dv = S.dense_valid(cur)
            if dv:
                return bad('np:not a valid density matrix: ' + dv, cur, 'positive, trace one, rank 2^r')
    return None


def c_circuit_state(ctx, args):
    """a state sent through a circuit -- gate by gate, layer-compiled or compiled -- is the state the gates produce one at a time, and is valid"""
    from props.C09 import c_prog_seq
    r = c_prog_seq(ctx, args)
    if r:
        return r
    from props.C09 import run_impl
    from vlib import states as S_
    cls, N, prog, t, mode, variant, obj = args
    got, _ = run_impl(cls, N, prog, t, mode, variant, obj)
    inv = S_.tableau_invariant_py(got)
    if inv:
        return {'kind': 'oracle', 'where': 'np:state after a %s (mode %d) breaks the tableau invariant: %s' % (cls, mode, inv), 'observed': str(got)[:400], 'expected': 'a valid tableau', 'tags': ['circuit_state']}
    return None


def c_copy_extend_state(ctx, args):
    """a state sent through a copy of a circuit that was extended after copying (and compiled) is the state the gates produce one at a time, and is valid"""
    N, base, extra, t = args
    from vlib import states as S_
    c = NP.build_circuit(N, base, 'CliffordCircuit')
    c2 = c.copy()
    for ins in extra:
        c2.take(NP.mk_gate(ins[1]))
    c2.compile()
    s, ref = NP.STATE(t), NP.STATE(t)
    c2.forward(s)
    for ins in base + extra:
        NP.mk_gate(ins[1]).forward(ref)
    got = NP.oST(s)
    inv = S_.tableau_invariant_py(got)
    if inv:
        return {'kind': 'oracle', 'where': 'np:state after the compiled extended copy of a circuit breaks the tableau invariant: ' + inv, 'observed': str(got)[:400], 'expected': 'a valid tableau', 'tags': ['copy_extend']}
    if got != NP.oST(ref):
        return {'kind': 'oracle', 'where': 'np:state after the compiled extended copy of a circuit differs from the gates one at a time', 'observed': str(got)[:400], 'expected': str(NP.oST(ref))[:400], 'tags': ['copy_extend']}
    return None


CHECKS = {'copy_extend_state': c_copy_extend_state, 'circuit_state': c_circuit_state, 'ctor_fresh': __import__('props.C17', fromlist=['c_ctor_fresh']).c_ctor_fresh, 'walk': c_walk}


def rstep(ctx, rng, N, pure_hint):
    k = rng.choice(['rotate', 'rotate', 'transform', 'gate_f', 'gate_b', 'measure', 'measure', 'mlayer', 'postselect', 'copy', 'roundtrip', 'query', 'query'])
    if k == 'query':
        return ['query', rng.randrange(10 ** 6)]
    if k == 'rotate':
        n = rng.randint(1, N)
        return ['rotate', gen.rpauli(rng, n, herm=True), None if n == N else gen.rmask(rng, N, n)[0]]
    if k == 'transform':
        n = rng.randint(1, N)
        return ['transform', gen.rmap(rng, ctx.model, n), None if n == N else gen.rmask(rng, N, n)[0]]
    if k in ('gate_f', 'gate_b'):
        return [k, gen.rgate(rng, ctx.model, N)]
    if k == 'measure':
        return ['measure', gen.commuting_obs(rng, ctx.model, N, rng.randint(1, 3)), rng.randrange(10 ** 6)]
    if k == 'mlayer':
        return ['mlayer', sorted(rng.sample(range(N), rng.randint(1, N))), rng.randrange(10 ** 6)]
    if k == 'postselect':
        return ['postselect', gen.rpauli(rng, N, herm=True, nonzero=True), rng.randint(0, 1)]
    return [k]


def rctor(ctx, rng, N):
    k = rng.choice(['zero', 'one', 'ghz', 'mixed', 'bit', 'map', 'map', 'stab', 'stab'])
    if k == 'bit':
        return ['bit', rng.randrange(10 ** 6)]
    if k == 'map':
        return ['map', gen.rmap(rng, ctx.model, N), rng.randint(0, N)]
    if k == 'stab':
        L = rng.randint(1, N)
        m = gen.rmap(rng, ctx.model, N)
        return ['stab', [[m[2 * i + 1][0], rng.choice([0, 2])] for i in rng.sample(range(N), L)]]
    return [k]


def run(ctx):
    ctx.checks = CHECKS
    rng, B = ctx.rng, ctx.budget
    # corpus: MeasureLayer on a mixed state (rank was dropped), mixed-state pivot witness
    do(ctx, 'walk', [1, ['mixed'], [['mlayer', [0], 1], ['mlayer', [0], 2]]], nontrivial='w1', sample=True)
    do(ctx, 'walk', [2, ['map', [[[1, 0, 0, 0], 0], [[0, 1, 0, 0], 0], [[0, 0, 1, 0], 0], [[0, 0, 0, 1], 0]], 1], [['measure', [[[1, 0, 1, 0], 0]], 3], ['measure', [[[1, 0, 1, 0], 2]], 4]]], nontrivial='w2')
    # every constructor the walks start from hands out a FRESH valid tableau, whatever was built, compiled or run before on the same width
    for be in ('np', 'torch'):
        for what in ('identity_map', 'zero_state', 'mixed_state', 'ghz_state', 'stabilizer_state'):
            for use in ('flip', 'library'):
                for _ in range(max(2, int(2 * B))):
                    do(ctx, 'ctor_fresh', [be, what, rng.randint(1, 4), rng.randrange(10 ** 6), use], nontrivial=('cf', be, what, use, ctx.res.evaluations))
    for it in range(int(30 * B)):
        N = rng.randint(2, 4)
        base = [[0, gen.rgate(rng, ctx.model, N, kinds=('gen', 'named', 'fwd'))] for _ in range(rng.randint(1, 3))]
        extra = [[0, gen.rgate(rng, ctx.model, N, kinds=('gen', 'named', 'fwd'))] for _ in range(rng.randint(1, 3))]
        do(ctx, 'copy_extend_state', [N, base, extra, gen.rtableau(rng, ctx.model, N)], nontrivial=('ces', it))
    # states through whole circuits, small registers and registers beyond one machine word (gates next to the word boundaries)
    for it in range(int(24 * B)):
        N = [2, 3, 5, 9, 65, 66][it % 6]
        pool = gen.edge_pool(N) if N > 9 else range(N)
        prog = [[0, gen.rgate(rng, ctx.model, N, kinds=('gen', 'named', 'fwd'), pool=pool)] for _ in range(rng.randint(3, 8))]
        t = gen.rtableau(rng, ctx.model, N, depth=None if N <= 9 else 3)
        do(ctx, 'circuit_state', [rng.choice(['CliffordCircuit', 'Circuit']), N, prog, t, it % 3, 'orig', 'state'], nontrivial=('cs', it))
    nwalks = int(150 * B)
    steps = 25 if ctx.tier == 'quick' else 120
    for it in range(nwalks):
        N = rng.randint(1, 5)
        ctor = rctor(ctx, rng, N)
        sl = [rstep(ctx, rng, N, True) for _ in range(rng.randint(3, steps))]
        has_meas = any(s[0] in ('measure', 'mlayer') for s in sl)
        do(ctx, 'walk', [N, ctor, sl, rng.choice(['c', 'c', 'c', 'strided', 'fortran', 'colslice'])], nontrivial=('walk', it) if has_meas else None, sample=(it < 1))
        ctx.res.count('ctor_' + ctor[0])
        for s in sl:
            ctx.res.count('step_' + s[0])
