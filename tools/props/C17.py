"""C17 -- copy is faithful and independent; queries have no side effects."""
import numpy as np
from vlib import gen, states as S
from vlib import impl_np as NP
from vlib.run import do
import pyclifford as pc
from pyclifford import circuit as CI, stabilizer as ST, paulialg as PA

RULE = ('every object kind {Pauli, PauliList, PauliMonomial, PauliPolynomial, CliffordMap, StabilizerState, CliffordGate (generator / maps), CliffordLayer and CliffordCircuit (compiled and not)} x '
        'copy: deep snapshot equality, no shared memory between any reachable arrays, mutate-one / re-observe-the-other in both directions; every query method x receiver and arguments '
        'snapshotted before and after; every in-place method x arguments snapshotted; the lazy inverse caches of gates are accepted only when the cached map is the inverse of its partner; '
        'torch for the Pauli / map / state classes. Non-trivial = object with at least one array of more than one element; distinct by (kind, method, input).')
ASSUMES = ['views by design (__neg__, c*P for unit c, as_list, slices, stabilizers) are not copies and are not claimed independent']


def arrays_of(o, seen=None, path='o'):
    """all numpy arrays reachable from o, with their access paths"""
    seen = seen if seen is not None else set()
    out = []
    if id(o) in seen or o is None:
        return out
    seen.add(id(o))
    if isinstance(o, np.ndarray):
        return [(path, o)]
    if isinstance(o, (list, tuple)):
        for i, x in enumerate(o):
            out += arrays_of(x, seen, '%s[%d]' % (path, i))
        return out
    if hasattr(o, '__dict__'):
        for k, v in vars(o).items():
            if k in ('prev_layer',):
                continue
            out += arrays_of(v, seen, path + '.' + k)
    return out


def objects_of(o, seen=None, path='self'):
    """every MUTABLE object reachable from o (instances, lists, dicts, sets, arrays), by identity -- all links followed, prev_layer included"""
    seen = seen if seen is not None else {}
    if o is None or isinstance(o, (int, float, complex, str, bool, bytes, np.number, type)) or callable(o) and not hasattr(o, '__dict__'):
        return seen
    if id(o) in seen:
        return seen
    if isinstance(o, tuple):
        for i, x in enumerate(o):
            objects_of(x, seen, '%s[%d]' % (path, i))
        return seen
    if isinstance(o, np.ndarray):
        seen[id(o)] = (path, 'ndarray')
        return seen
    if isinstance(o, (list, set)):
        seen[id(o)] = (path, type(o).__name__)
        for i, x in enumerate(o):
            objects_of(x, seen, '%s[%d]' % (path, i))
        return seen
    if isinstance(o, dict):
        seen[id(o)] = (path, 'dict')
        for k, v in o.items():
            objects_of(v, seen, '%s[%r]' % (path, k))
        return seen
    if hasattr(o, '__dict__') and not isinstance(o, type) and type(o).__module__.split('.')[0] in ('pyclifford', 'torchclifford'):
        seen[id(o)] = (path, type(o).__name__)
        for k, v in vars(o).items():
            objects_of(v, seen, path + '.' + k)
    return seen


def snap(o, seen=None):
    """deep, value-only snapshot"""
    seen = seen if seen is not None else set()
    if o is None or isinstance(o, (int, float, complex, str, bool, np.number)):
        return complex(o) if isinstance(o, (complex, np.complexfloating)) else o
    if id(o) in seen:
        return '<cycle>'
    seen.add(id(o))
    if isinstance(o, np.ndarray):
        return ('arr', o.shape, o.tolist())
    if isinstance(o, (list, tuple)):
        return [snap(x, seen) for x in o]
    if hasattr(o, '__dict__'):
        return (type(o).__name__, {k: snap(v, seen) for k, v in sorted(vars(o).items()) if k != 'prev_layer'})
    return repr(o)


def scramble(o):
    for _, a in arrays_of(o):
        if a.size:
            if a.dtype.kind in 'iu':
                a[...] = (a + 1) % 2 if a.max(initial=0) <= 1 and a.ndim == 2 else (a + 1)
            elif a.dtype.kind == 'c':
                a[...] = a + 1
            elif a.dtype.kind == 'b':
                a[...] = ~a
            else:
                a[...] = a + 1


def make(ctx, rng, kind, n):
    M = ctx.model
    if kind == 'Pauli':
        return NP.P(gen.rpauli(rng, n))
    if kind == 'PauliList':
        return NP.PL(gen.rplist(rng, n, rng.randint(1, 4)))
    if kind == 'PauliMonomial':
        a = gen.rpauli(rng, n)
        return pc.PauliMonomial(NP.G(a[0]), a[1]).set_c(complex(rng.randint(-3, 3), rng.randint(-3, 3)))
    if kind == 'PauliPolynomial':
        l = gen.rplist(rng, n, rng.randint(1, 4))
        return pc.PauliPolynomial(NP.GS([a[0] for a in l]), np.array([a[1] for a in l], dtype=np.int_)).set_cs(np.array([complex(rng.randint(-3, 3), rng.randint(1, 3)) for _ in l]))
    if kind == 'CliffordMap':
        return NP.CM(gen.rmap(rng, M, n))
    if kind == 'StabilizerState':
        return NP.STATE(gen.rtableau(rng, M, n))
    if kind.startswith('CliffordGate'):
        return NP.mk_gate(gen.rgate(rng, M, n, kinds=({'CliffordGate:gen': ('gen',), 'CliffordGate:maps': ('both',), 'CliffordGate:fwd': ('fwd',)}[kind])))
    if kind.startswith('CliffordLayer'):
        qs = list(range(n))
        rng.shuffle(qs)
        gates, i = [], 0
        while i < n:
            k = min(rng.randint(1, 2), n - i)
            g = gen.rgate(rng, M, k, kinds=('gen', 'fwd', 'both'))
            g[0] = sorted(qs[i:i + k])[:len(g[0])]
            gates.append(NP.mk_gate(g))
            i += k
        ly = CI.CliffordLayer(*gates)
        if kind.endswith('compiled'):
            ly.compile(n)
        return ly
    if kind == 'CliffordCircuit:random':
        # unspecified (resampling) gates mixed with specified ones: brick wall / on-site / hand-placed
        c = rng.choice([lambda: pc.brickwall_rcc(n if n % 2 == 0 else n + 1, 2), lambda: pc.onsite_rcc(n), lambda: pc.global_rcc(n)])()
        c.take(NP.mk_gate(gen.rgate(rng, M, c.N, kinds=('gen', 'named'))))
        if c.N >= 2:
            c.gate(0, 1)
        return c
    if kind.startswith('CliffordCircuit'):
        c = NP.build_circuit(n, [[0, gen.rgate(rng, M, n, kinds=('gen', 'fwd', 'both', 'named'))] for _ in range(rng.randint(1, 5))])
        if kind.endswith('compiled'):
            c.compile()
        return c
    raise ValueError(kind)


KINDS = ['Pauli', 'PauliList', 'PauliMonomial', 'PauliPolynomial', 'CliffordMap', 'StabilizerState', 'CliffordGate:gen', 'CliffordGate:maps', 'CliffordGate:fwd',
         'CliffordLayer', 'CliffordLayer:compiled', 'CliffordCircuit', 'CliffordCircuit:compiled', 'CliffordCircuit:random']


def c_copy(ctx, args):
    kind, n, seed = args
    rng = __import__('random').Random(seed)
    o = make(ctx, rng, kind, n)
    s0 = snap(o)
    try:
        c = o.copy()
    except Exception as e:
        return {'kind': 'oracle', 'where': 'np:%s.copy raised %s' % (kind, type(e).__name__), 'observed': str(e)[:100], 'expected': 'a copy'}
    if snap(c) != s0:
        return {'kind': 'oracle', 'where': 'np:%s.copy is not faithful' % kind, 'observed': str(snap(c))[:300], 'expected': str(s0)[:300], 'tags': ['unfaithful', kind]}
    for pa, a in arrays_of(o):
        for pb, b in arrays_of(c):
            if a.size and b.size and np.shares_memory(a, b):
                return {'kind': 'oracle', 'where': 'np:%s.copy shares memory' % kind, 'observed': [pa, pb], 'expected': 'no shared arrays', 'tags': ['shared', kind]}
    oo, oc = objects_of(o), objects_of(c)
    both = sorted(set(oo) & set(oc))
    if both:
        return {'kind': 'oracle', 'where': 'np:%s.copy shares a mutable object with the original' % kind, 'observed': [[oo[i], oc[i]] for i in both[:4]], 'expected': 'disjoint object graphs', 'tags': ['shared', kind]}
    # structural histories: extend the copy (a further gate slides through its layer chain), the original must not notice; and the other way round
    if kind.startswith('CliffordCircuit') or kind.startswith('CliffordLayer'):
        for first, second, who in ((c, o, 'copy'), (o, c, 'original')):
            other0 = snap(second)
            for _ in range(2):
                first.take(NP.mk_gate(gen.rgate(rng, ctx.model, getattr(first, 'N', None) or n, kinds=('gen', 'named'))))
            if snap(second) != other0:
                return {'kind': 'oracle', 'where': 'np:taking gates on the %s of a %s changed the other one' % (who, kind), 'observed': str(snap(second))[:300], 'expected': str(other0)[:300], 'tags': ['shared', kind]}
        s0 = snap(o)
    if kind.startswith('CliffordCircuit') or kind.startswith('CliffordLayer'):
        # give data to every gate of the copy (freeze a random gate, re-specify a specified one): the original must not notice
        def gates_of(x):
            if hasattr(x, 'gates'):
                return list(x.gates)
            return [g for ly in x.layers_forward() for g in ly.gates]
        before = snap(o)
        for g in gates_of(c):
            g.set_generator(NP.P(gen.rpauli(rng, g.n, herm=True, nonzero=True)))
        if snap(o) != before:
            return {'kind': 'oracle', 'where': 'np:specifying the gates of the copy of a %s changed the original' % kind, 'observed': str(snap(o))[:300], 'expected': str(before)[:300], 'tags': ['shared', kind]}
        s0 = snap(o)
    scramble(c)
    if snap(o) != s0:
        return {'kind': 'oracle', 'where': 'np:mutating the copy of %s changed the original' % kind, 'observed': str(snap(o))[:300], 'expected': str(s0)[:300], 'tags': ['shared', kind]}
    c2 = o.copy()
    s2 = snap(c2)
    scramble(o)
    if snap(c2) != s2:
        return {'kind': 'oracle', 'where': 'np:mutating the original %s changed its copy' % kind, 'observed': str(snap(c2))[:300], 'expected': str(s2)[:300], 'tags': ['shared', kind]}
    return None


QUERIES = {
    'StabilizerState': ['expect_list', 'expect_pauli', 'expect_poly', 'expect_state', 'entropy', 'sample', 'get_prob', 'density_matrix', 'to_map', 'repr', 'tokenize', 'stabilizers', 'diagonalize', 'to_qutip', 'copy'],
    'CliffordMap': ['compose', 'inverse', 'to_state', 'repr', 'copy'],
    'PauliList': ['repr', 'tokenize', 'trace', 'weight', 'as_polynomial', 'stabilizer_state', 'neg', 'getitem_mask'],
    'PauliPolynomial': ['add', 'matmul', 'reduce', 'trace', 'rmul', 'repr', 'neg'],
    'Pauli': ['matmul', 'add', 'repr', 'tokenize', 'as_list', 'diagonalize', 'trace'],
}


def c_query(ctx, args):
    kind, meth, n, seed = args
    rng = __import__('random').Random(seed)
    o = make(ctx, rng, kind, n)
    extra = []
    if kind == 'StabilizerState':
        if meth in ('expect_state', 'get_prob'):
            t = gen.rtableau(rng, ctx.model, n, r=0)
            o = NP.STATE(t)
    a = None
    if meth == 'expect_list':
        a = make(ctx, rng, 'PauliList', n)
        a.ps[:] = 2 * (a.ps // 2)
        f = lambda: o.expect(a)
    elif meth == 'expect_pauli':
        a = make(ctx, rng, 'Pauli', n)
        f = lambda: o.expect(a)
    elif meth == 'expect_poly':
        a = make(ctx, rng, 'PauliPolynomial', n)
        f = lambda: o.expect(a)
    elif meth == 'expect_state':
        a = make(ctx, rng, 'StabilizerState', n)
        f = lambda: o.expect(a)
    elif meth == 'entropy':
        # every region kind: arbitrary subsets, leading and trailing blocks, whole system; called twice (the value must not change either)
        regions = [[q for q in range(n) if rng.random() < 0.5] or [0]] + [list(range(lo, n)) for lo in range(n)] + [list(range(0, hi + 1)) for hi in range(n)]

        def f():
            out = []
            for region in regions:
                a1 = o.entropy(region)
                a2 = o.entropy(np.array([q in region for q in range(n)]))
                if a1 != a2:
                    raise AssertionError('entropy changed between two calls: %r %r' % (a1, a2))
                out.append(a1)
            return out
    elif meth == 'sample':
        f = lambda: o.sample(3)
    elif meth == 'get_prob':
        a = np.array([rng.randint(0, 1) for _ in range(n)])
        f = lambda: o.get_prob(a)
    elif meth == 'density_matrix':
        f = lambda: o.density_matrix
    elif meth in ('to_map', 'to_state', 'inverse', 'copy', 'reduce', 'trace', 'weight', 'as_polynomial', 'as_list', 'tokenize', 'to_qutip'):
        f = lambda: getattr(o, meth)()
    elif meth == 'repr':
        f = lambda: repr(o)
    elif meth == 'stabilizers':
        f = lambda: o.stabilizers
    elif meth == 'diagonalize':
        if kind == 'StabilizerState':
            o = NP.STATE(gen.rtableau(rng, ctx.model, n, r=0))
        f = lambda: pc.diagonalize(o)
    elif meth == 'compose':
        a = make(ctx, rng, 'CliffordMap', n)
        f = lambda: o.compose(a)
    elif meth == 'stabilizer_state':
        m = gen.rmap(rng, ctx.model, n)
        o = NP.PL([[m[2 * i + 1][0], rng.choice([0, 2])] for i in range(n) if rng.random() < 0.7] or [[m[1][0], 0]])
        f = lambda: pc.stabilizer_state(o)
    elif meth == 'neg':
        f = lambda: -o
    elif meth == 'getitem_mask':
        f = lambda: o[np.array([rng.random() < 0.5 for _ in range(len(o))])]
    elif meth in ('add', 'matmul'):
        a = make(ctx, rng, rng.choice(['Pauli', 'PauliPolynomial']), n)
        f = (lambda: o + a) if meth == 'add' else (lambda: o @ a)
    elif meth == 'rmul':
        f = lambda: (2 + 1j) * o
    else:
        return None
    so, sa = snap(o), snap(a)
    try:
        res = f()
    except NotImplementedError:
        res = None
    if snap(o) != so:
        return {'kind': 'oracle', 'where': 'np:%s.%s modified its receiver' % (kind, meth), 'observed': str(snap(o))[:300], 'expected': str(so)[:300], 'tags': ['query', kind, meth]}
    if snap(a) != sa:
        return {'kind': 'oracle', 'where': 'np:%s.%s modified its argument' % (kind, meth), 'observed': str(snap(a))[:300], 'expected': str(sa)[:300], 'tags': ['query', kind, meth]}
    # results announced as new objects must not alias receiver or argument (so that later mutation of the result cannot change them)
    if meth in ('compose', 'inverse', 'to_state', 'to_map', 'sample', 'density_matrix', 'copy', 'reduce', 'add', 'matmul', 'stabilizer_state', 'getitem_mask') and res is not None:
        for pa, x in arrays_of(res):
            for pb, y in arrays_of(o) + arrays_of(a):
                if x.size and y.size and np.shares_memory(x, y):
                    return {'kind': 'oracle', 'where': 'np:result of %s.%s aliases an operand' % (kind, meth), 'observed': [pa, pb], 'expected': 'fresh arrays', 'tags': ['alias', kind, meth]}
    return None


def _raw_snap(x):
    """what a caller can see of a plain argument: type, dtype, shape, values (element types for sequences)"""
    if isinstance(x, np.ndarray):
        return ('ndarray', str(x.dtype), x.shape, x.tolist(), bool(x.flags.writeable))
    if isinstance(x, (list, tuple)):
        return (type(x).__name__, [_raw_snap(v) for v in x])
    if isinstance(x, dict):
        return ('dict', sorted((repr(k), _raw_snap(v)) for k, v in x.items()))
    return (type(x).__name__, repr(x))


def c_plain_args(ctx, args):
    """PLAIN arguments -- regions, masks, bit strings, index arrays, qubit labels, descriptions -- are read, never written: handed over as the caller's own numpy arrays
    (int64 / int32 / bool, in ANY order), lists, tuples or dictionaries, they are the same after the call (values, order, dtype, type); the value returned does not depend
    on the form either"""
    api, n, seed = args
    rng = __import__('random').Random(seed)
    st = NP.STATE(gen.rtableau(rng, ctx.model, n, r=rng.choice([0, None])))
    l = NP.PL(gen.rplist(rng, n, 4))
    region = rng.sample(range(n), rng.randint(1, n))                # in the order drawn: not ascending in general
    calls = []
    if api == 'entropy':
        forms = [np.array(region, dtype=np.int64), np.array(region, dtype=np.int32), list(region), tuple(region), np.array([q in region for q in range(n)])]
        calls = [(a, (lambda a=a: int(st.entropy(a)))) for a in forms]
    elif api == 'mask':
        forms = [np.array(region, dtype=np.int64), np.array(region, dtype=np.int32), list(region), tuple(region)]
        calls = [(a, (lambda a=a: [bool(v) for v in pc.utils.mask(a, n)])) for a in forms]
    elif api == 'get_prob':
        st = NP.STATE(gen.rtableau(rng, ctx.model, n, r=0))
        bits = [rng.randint(0, 1) for _ in range(n)]
        forms = [np.array(bits, dtype=np.int64), np.array(bits, dtype=np.int32)]
        calls = [(a, (lambda a=a: round(float(st.get_prob(a)), 9))) for a in forms]
    elif api == 'getitem':
        idx = [rng.randrange(4) for _ in range(3)]
        forms = [np.array(idx, dtype=np.int64), np.array(idx, dtype=np.int32), list(idx)]
        calls = [(a, (lambda a=a: NP.oPL(l[a]))) for a in forms]
        mk = [rng.random() < 0.5 for _ in range(4)]
        calls += [(a, (lambda a=a: NP.oPL(l[a]))) for a in (np.array(mk),)]
    elif api in ('rotate_mask', 'transform_mask') and n >= 2:
        k = rng.randint(1, n - 1)
        mk = gen.rmask(rng, n, k)[0]
        a = np.array(mk, dtype=bool)
        if api == 'rotate_mask':
            g = NP.P(gen.rpauli(rng, k, herm=True, nonzero=True))
            calls = [(a, (lambda: NP.oPL(l.copy().rotate_by(g, mask=a))))]
        else:
            m = NP.CM(gen.rmap(rng, ctx.model, k))
            calls = [(a, (lambda: NP.oPL(l.copy().transform_by(m, mask=a))))]
    elif api == 'gate':
        qs = region[:min(len(region), 2)]
        arr = np.array(qs, dtype=np.int64)
        g = gen.rpauli(rng, len(qs), herm=True, nonzero=True)

        def run_gate(labels):
            gt = pc.circuit.CliffordGate(*labels)
            gt.generator = NP.P(g)
            c = pc.circuit.CliffordCircuit(n)
            c.take(gt)
            return NP.oPL(c.forward(l.copy()))
        calls = [(arr, (lambda: run_gate(arr))), (list(qs), (lambda: run_gate(list(qs)))), (tuple(qs), (lambda: run_gate(tuple(qs))))]
    elif api == 'measure_layer':
        arr = np.array(region, dtype=np.int64)
        s0 = NP.STATE(gen.rtableau(rng, ctx.model, n, r=0))

        def run_meas(labels):
            NP.seed_numba(seed)
            c = pc.circuit.Circuit(n)
            c.measure(*labels)
            s2 = s0.copy()
            c.forward(s2)
            return [int(v) for v in c.measure_result], NP.oST(s2)
        calls = [(arr, (lambda: run_meas(arr))), (list(region), (lambda: run_meas(list(region))))]
    elif api == 'backward_record':
        st0 = NP.STATE(gen.rtableau(rng, ctx.model, n, r=0))
        c = pc.circuit.Circuit(n)
        c.take(NP.mk_gate(gen.rgate(rng, ctx.model, n, kinds=('gen', 'named'))))
        c.measure(*region)
        c.take(NP.mk_gate(gen.rgate(rng, ctx.model, n, kinds=('gen', 'named'))))
        NP.seed_numba(seed)
        s1 = st0.copy()
        c.forward(s1)
        rec = [int(v) for v in c.measure_result]
        own = list(rec)

        def use():
            c.backward(s1.copy(), measure_result=rec)
            NP.seed_numba(seed + 1)
            c.forward(st0.copy())                 # the circuit goes on being used: its own record grows, the caller's list must not
            return list(rec) == own
        calls = [(rec, use)]
    elif api == 'describe':
        rows = gen.rplist(rng, n, 3)
        code = lambda g: [int(a + 2 * b) if (a, b) != (1, 1) else 2 for a, b in zip(g[0::2], g[1::2])]
        d = [{i: c for i, c in enumerate(code(r[0])) if c} for r in rows]
        ca = [np.array(code(r[0])) for r in rows]
        calls = [(d, (lambda: [x[0] for x in NP.oPL(pc.paulis(d, N=n))])), (ca, (lambda: [x[0] for x in NP.oPL(pc.paulis(ca))])),
                 (ca[0], (lambda: NP.oP(pc.pauli(ca[0]))[0])), (d[0], (lambda: NP.oP(pc.pauli(d[0], N=n))[0]))]
    vals = []
    for a, f in calls:
        before = _raw_snap(a)
        try:
            vals.append(f())
        except Exception as e:
            return {'kind': 'oracle', 'where': 'np:%s with a %s argument raised %s' % (api, before[0] + ':' + str(before[1])[:12], type(e).__name__), 'observed': str(e)[:150], 'expected': 'a value', 'tags': ['plain_args', api]}
        if _raw_snap(a) != before:
            return {'kind': 'oracle', 'where': 'np:%s modified the plain argument it was given' % api, 'observed': str(_raw_snap(a))[:300], 'expected': str(before)[:300], 'tags': ['plain_args', api]}
    if api == 'backward_record' and vals != [True]:
        return {'kind': 'oracle', 'where': 'np:the record list given to Circuit.backward changed when the circuit was used again', 'observed': str(calls[0][0]), 'expected': 'the caller\'s list as it was', 'tags': ['plain_args', api]}
    if api in ('entropy', 'mask', 'get_prob', 'gate', 'measure_layer') and any(v != vals[0] for v in vals):
        return {'kind': 'oracle', 'where': 'np:%s depends on the form its argument is given in' % api, 'observed': str(vals)[:400], 'expected': 'equal values', 'tags': ['plain_args', api]}
    return None


def c_inplace(ctx, args):
    """in-place operations change their receiver only, never their arguments"""
    op, n, seed = args
    rng = __import__('random').Random(seed)
    tgt = make(ctx, rng, rng.choice(['PauliList', 'StabilizerState', 'PauliPolynomial', 'CliffordMap']), n)
    if op == 'rotate_by':
        k = rng.randint(1, n)
        a = NP.P(gen.rpauli(rng, k, herm=True))
        mask = None if k == n else np.array(gen.rmask(rng, n, k)[0], dtype=bool)
        extra = mask
        f = lambda: tgt.rotate_by(a, mask=mask)
    elif op == 'transform_by':
        k = rng.randint(1, n)
        a = NP.CM(gen.rmap(rng, ctx.model, k))
        mask = None if k == n else np.array(gen.rmask(rng, n, k)[0], dtype=bool)
        extra = mask
        f = lambda: tgt.transform_by(a, mask=mask)
    elif op == 'measure':
        tgt = make(ctx, rng, 'StabilizerState', n)
        a = NP.PL(gen.commuting_obs(rng, ctx.model, n, 2))
        extra = None
        f = lambda: tgt.measure(a)
    elif op == 'measure_state':
        tgt = make(ctx, rng, 'StabilizerState', n)
        a = NP.STATE(gen.rtableau(rng, ctx.model, n, r=0))
        extra = None
        f = lambda: tgt.measure(a)
    elif op in ('gate_forward', 'gate_backward', 'circuit_forward', 'circuit_backward', 'layer_forward'):
        kind = {'gate_forward': 'CliffordGate:' + rng.choice(['gen', 'maps', 'fwd']), 'gate_backward': 'CliffordGate:' + rng.choice(['gen', 'maps', 'fwd']),
                'circuit_forward': 'CliffordCircuit' + rng.choice(['', ':compiled']), 'circuit_backward': 'CliffordCircuit' + rng.choice(['', ':compiled']),
                'layer_forward': 'CliffordLayer' + rng.choice(['', ':compiled'])}[op]
        a = make(ctx, rng, kind, n)
        extra = None
        f = (lambda: a.forward(tgt)) if op.endswith('forward') else (lambda: a.backward(tgt))
    else:
        return None
    sa, se = snap(a), snap(extra)
    f()
    sa2 = snap(a)
    if sa2 != sa:
        # lazily filled inverse caches of gates are allowed iff the cached map is the inverse of its partner
        if not cache_only(a, sa, sa2):
            return {'kind': 'oracle', 'where': 'np:%s modified its argument' % op, 'observed': str(sa2)[:300], 'expected': str(sa)[:300], 'tags': ['inplace', op]}
    if snap(extra) != se:
        return {'kind': 'oracle', 'where': 'np:%s modified its mask' % op, 'observed': str(snap(extra)), 'expected': str(se)}
    return None


def cache_only(obj, before, after):
    """True iff the only difference is forward_map/backward_map going from None to the inverse of the partner map, anywhere inside obj"""
    ok = [True]

    def walk(o, seen):
        if o is None or id(o) in seen or isinstance(o, (int, float, complex, str, np.ndarray)):
            return
        seen.add(id(o))
        if isinstance(o, CI.CliffordGate):
            f, b = o.forward_map, o.backward_map
            if f is not None and b is not None:
                inv = f.inverse()
                if not ((inv.gs == b.gs).all() and (inv.ps == b.ps).all()):
                    ok[0] = False
        if isinstance(o, (list, tuple)):
            for x in o:
                walk(x, seen)
        elif hasattr(o, '__dict__'):
            for k, v in vars(o).items():
                if k != 'prev_layer':
                    walk(v, seen)
    walk(obj, set())

    def strip(s):
        if isinstance(s, tuple) and len(s) == 2 and isinstance(s[1], dict):
            return (s[0], {k: ('<map>' if k in ('forward_map', 'backward_map') else strip(v)) for k, v in s[1].items()})
        if isinstance(s, list):
            return [strip(x) for x in s]
        return s
    return ok[0] and strip(before) == strip(after)


def c_torch_copy(ctx, args):
    kind, n, seed = args
    import torch, vlib.impl_torch as TT, torchclifford as tc
    rng = __import__('random').Random(seed)
    if kind == 'Pauli':
        o = TT.P(gen.rpauli(rng, n))
    elif kind == 'PauliList':
        o = TT.PL(gen.rplist(rng, n, 3))
    elif kind == 'CliffordMap':
        o = TT.CM(gen.rmap(rng, ctx.model, n))
    elif kind == 'StabilizerState':
        o = TT.STATE(gen.rtableau(rng, ctx.model, n))
    else:
        l = gen.rplist(rng, n, 3)
        o = tc.paulialg.PauliPolynomial(TT.GS([a[0] for a in l]), TT.PS([a[1] for a in l])).set_cs(torch.tensor([complex(rng.randint(-2, 2), 1) for _ in l], dtype=torch.complex64))

    def tsnap(x):
        return {k: (v.tolist() if torch.is_tensor(v) else v) for k, v in vars(x).items()}
    s0 = tsnap(o)
    c = o.copy()
    if tsnap(c) != s0:
        return {'kind': 'oracle', 'where': 'torch:%s.copy is not faithful' % kind, 'observed': str(tsnap(c))[:300], 'expected': str(s0)[:300], 'tags': ['unfaithful', 'torch', kind]}
    for v in vars(c).values():
        if torch.is_tensor(v) and v.numel():
            v.add_(1)
    if tsnap(o) != s0:
        return {'kind': 'oracle', 'where': 'torch:mutating the copy of %s changed the original' % kind, 'observed': str(tsnap(o))[:300], 'expected': str(s0)[:300], 'tags': ['shared', 'torch', kind]}
    return None


def c_ctor_fresh(ctx, args):
    """constructors return FRESH objects: build, mutate the result in place, build again with the same arguments -- the second result must be what the first one was
    (a memoised table handed out without copying would be corrupted by the in-place update of its first user)"""
    be, what, n, seed = args[:4]
    use = args[4] if len(args) > 4 else 'flip'       # 'flip': overwrite the arrays; 'library': only library calls (rotate_by, a circuit of the same width compiled and run)
    rng = __import__('random').Random(seed)
    if be == 'np':
        M, lib, ST_, CI_ = NP, pc, pc.stabilizer, pc.circuit
    else:
        import vlib.impl_torch as TT, torchclifford as tc
        M, lib, ST_, CI_ = TT, tc, tc.stabilizer, tc.circuit
    g = gen.rpauli(rng, n, herm=True, nonzero=True)
    if what == 'rotation_map':
        f = lambda: ST_.clifford_rotation_map(M.P(g))
    elif what == 'identity_map':
        f = lambda: ST_.identity_map(n)
    elif what == 'zero_state':
        f = lambda: ST_.zero_state(n)
    elif what == 'mixed_state':
        f = lambda: ST_.maximally_mixed_state(n)
    elif what == 'ghz_state':
        if be != 'np' or n < 2:
            return None
        f = lambda: ST_.ghz_state(n)
    elif what == 'stabilizer_state':
        m = gen.rmap(rng, ctx.model, n)
        stabs = [[m[2 * i + 1][0], rng.choice([0, 2])] for i in range(n)]
        f = lambda: ST_.stabilizer_state(M.PL(stabs))
    elif what == 'named_gate':
        if be != 'np':
            return None
        k = rng.choice(['H', 'S', 'X', 'Y', 'Z', 'C', 'CNOT'])
        if k == 'CNOT' and n < 2:
            k = 'H'
        f = (lambda: CI_.CNOT(0, 1).forward_map) if k == 'CNOT' else ((lambda: CI_.C(seed % 24, 0).forward_map) if k == 'C' else (lambda: getattr(CI_, k)(0).forward_map))
    elif what == 'rotation_gate':
        f = lambda: CI_.clifford_rotation_gate(M.P(g)).generator
    elif what in ('pauli_identity', 'pauli_zero'):
        f = lambda: getattr(lib, what)(n)
    elif what == 'pauli_str':
        txt = {0: '', 1: 'i', 2: '-', 3: '-i'}[seed % 4] + ''.join('IXZY'[int(x) + 2 * int(z)] for x, z in zip(g[0][0::2], g[0][1::2]))
        f = lambda: lib.pauli(txt)
    elif what == 'paulis_str':
        txts = [''.join('IXZY'[int(x) + 2 * int(z)] for x, z in zip(r[0][0::2], r[0][1::2])) for r in gen.rplist(rng, n, 3)]
        f = lambda: lib.paulis(txts)
    elif what == 'pauli':
        f = lambda: lib.paulialg.pauli([int(2 * a + b) if (a, b) != (1, 1) else 2 for a, b in zip(g[0][0::2], g[0][1::2])])
    else:
        return None

    def val(o):
        if hasattr(o, 'cs'):
            return [M.oPL(o), [[round(complex(c).real, 9), round(complex(c).imag, 9)] for c in o.cs]]
        if hasattr(o, 'gs'):
            return M.oST(o) if hasattr(o, 'r') else M.oPL(o)
        return M.oP(o)
    try:
        r1 = f()
        v1 = val(r1)
        # in-place update of the first result (what any user of the object may do)
        if hasattr(r1, 'cs'):
            # a polynomial: the builder idiom set_cs(...) on the constructor's result ('library'), or direct writes to its arrays
            if use == 'library':
                r1.set_cs(r1.cs * 0.25)
            else:
                r1.cs[...] = r1.cs * 0.25 + 1
                r1.ps[...] = (r1.ps + 2) % 4
        elif use == 'library' and hasattr(r1, 'gs') and int(r1.gs.shape[-1]) == 2 * n:
            r1.rotate_by(M.P(gen.rpauli(rng, n, herm=True, nonzero=True)))
            # (a gate on the last qubit first: the torch circuit takes its width from the largest label)
            circ = M.build_circuit(n, [[0, [[n - 1], [2, 0]]]] + [[0, gen.rgate(rng, ctx.model, n, kinds=('gen', 'fwd', 'named'))] for _ in range(rng.randint(1, 4))])
            circ.compile()
            circ.forward(r1)
        elif use == 'library' and hasattr(r1, 'g') and n >= 2 and int(r1.g.shape[-1]) == 2 * n:
            # a single operator updated in place by a masked rotation (the masked branch writes into the operator's own array)
            k = rng.randint(1, n - 1)
            mk = gen.rmask(rng, n, k)[0]
            sub = [b for q in range(n) if mk[q] for b in (g[0][2 * q], g[0][2 * q + 1])]
            anti = [1 - sub[0], sub[1]] + [0] * (2 * k - 2) if any(sub[:2]) else [1, 0] + [0] * (2 * k - 2)
            r1.rotate_by(M.P([anti, 0]), mask=M.mk_mask(mk) if hasattr(M, 'mk_mask') else (np.array(mk, dtype=bool) if be == 'np' else __import__('torch').tensor([bool(b) for b in mk])))
        elif hasattr(r1, 'gs'):
            r1.gs[...] = 1 - r1.gs
            r1.ps[...] = (r1.ps + 1) % 4
        else:
            r1.g[...] = 1 - r1.g
        v2 = val(f())
    except Exception as e:
        return {'kind': 'oracle', 'where': '%s:%s constructor raised %s' % (be, what, type(e).__name__), 'observed': str(e)[:100], 'expected': 'an object'}
    if v2 != v1:
        return {'kind': 'oracle', 'where': '%s:%s returns an object that shares data with an earlier result (second call sees the in-place update of the first)' % (be, what),
                'observed': v2, 'expected': v1, 'tags': ['ctor_shared', be, what]}
    return None


def c_ctor_arg(ctx, args):
    """an object built FROM another one (a rotation gate or a rotation map from a Pauli object, a state from a list of stabilizers) does not keep hold of it: updating the
    argument in place afterwards -- rotation, masked rotation, direct writes -- changes nothing about the object built from it"""
    be, what, n, seed = args
    rng = __import__('random').Random(seed)
    if be == 'np':
        M, lib = NP, pc
    else:
        import vlib.impl_torch as TT, torchclifford as tc
        M, lib = TT, tc
    full = [[b for _ in range(n) for b in rng.choice([(1, 0), (0, 1), (1, 1)])], rng.choice([0, 2])]       # no identity factor: nothing to condense
    part = gen.rpauli(rng, n, herm=True, nonzero=True)
    g = full if seed % 2 == 0 else part
    probe = gen.rplist(rng, n, 4)
    if what == 'rotation_gate':
        arg = M.P(g)
        obj = lib.circuit.clifford_rotation_gate(arg)
        view = lambda: [M.oP(obj.generator), [int(q) for q in obj.qubits], M.oPL(obj.forward(M.PL(probe)))]
    elif what == 'rotation_map':
        arg = M.P(g)
        obj = lib.stabilizer.clifford_rotation_map(arg)
        view = lambda: M.oPL(obj)
    else:
        m = gen.rmap(rng, ctx.model, n)
        arg = M.PL([[m[2 * i + 1][0], rng.choice([0, 2])] for i in range(n) if rng.random() < 0.8] or [[m[1][0], 0]])
        obj = lib.stabilizer_state(arg)
        view = lambda: M.oST(obj)
    before = view()
    # the caller goes on using ITS object
    arg.rotate_by(M.P(gen.rpauli(rng, n, herm=True, nonzero=True)))
    if n >= 2:
        k = rng.randint(1, n - 1)
        mk = gen.rmask(rng, n, k)[0]
        mask = np.array(mk, dtype=bool) if be == 'np' else __import__('torch').tensor([bool(b) for b in mk])
        arg.rotate_by(M.P(gen.rpauli(rng, k, herm=True, nonzero=True)), mask=mask)
    if hasattr(arg, 'gs'):
        arg.gs[...] = 1 - arg.gs
        arg.ps[...] = (arg.ps + 2) % 4
    else:
        arg.g[...] = 1 - arg.g
    after = view()
    if after != before:
        return {'kind': 'oracle', 'where': '%s:%s changed when the object it was built from was updated in place' % (be, what), 'observed': str(after)[:400], 'expected': str(before)[:400], 'tags': ['ctor_arg', be, what]}
    return None


def c_empties(ctx, args):
    """the degenerate ends of every quantifier: empty lists, empty circuits, zero samples, empty regions -- operations return the empty / unchanged result and modify nothing"""
    n, seed = args
    rng = __import__('random').Random(seed)
    e = NP.PL([], 2 * n)
    st = NP.STATE(gen.rtableau(rng, ctx.model, n))
    m = NP.CM(gen.rmap(rng, ctx.model, n))
    l = NP.PL(gen.rplist(rng, n, 3))
    s_st, s_m, s_l = snap(st), snap(m), snap(l)
    steps = [
        ('rotate an empty list', lambda: len(NP.oPL(e.copy().rotate_by(NP.P(gen.rpauli(rng, n, herm=True))) or e)) == 0),
        ('transform an empty list', lambda: len(NP.oPL(e.copy().transform_by(m) or e)) == 0),
        ('negate an empty list', lambda: len(NP.oPL(-e)) == 0),
        ('expect of an empty list', lambda: len(st.expect(e)) == 0),
        ('measure an empty list', lambda: (lambda r: len(r[0]) == 0 and float(r[1]) == 0.0)(st.measure(e))),
        ('entropy of the empty region', lambda: int(st.entropy([])) == 0),
        ('sample(0)', lambda: len(st.sample(0)) == 0),
        ('empty circuit forward', lambda: NP.oPL(pc.identity_circuit(n).forward(l.copy())) == NP.oPL(l)),
        ('empty circuit backward', lambda: NP.oPL(pc.identity_circuit(n).backward(l.copy())) == NP.oPL(l)),
        ('empty circuit compiled', lambda: (lambda c: (c.compile(), NP.oPL(c.forward(l.copy())) == NP.oPL(l))[1])(pc.identity_circuit(n))),
        ('empty circuit on a state', lambda: (lambda s2: snap(pc.identity_circuit(n).forward(s2)) == s_st)(st.copy())),
        ('zero polynomial product', lambda: len((pc.pauli([1] * n) - pc.pauli([1] * n)) @ pc.pauli([3] * n)) == 0),
    ]
    for name, f in steps:
        try:
            ok = f()
        except Exception as ex:
            return {'kind': 'oracle', 'where': 'np:%s raised %s' % (name, type(ex).__name__), 'observed': str(ex)[:120], 'expected': 'the empty / unchanged result', 'tags': ['empties']}
        if not ok:
            return {'kind': 'oracle', 'where': 'np:%s does not give the empty / unchanged result' % name, 'observed': 'see check', 'expected': 'empty / unchanged', 'tags': ['empties']}
        if (snap(st), snap(m), snap(l)) != (s_st, s_m, s_l):
            return {'kind': 'oracle', 'where': 'np:%s modified an object it was only given to read' % name, 'observed': 'state / map / list changed', 'expected': 'unchanged', 'tags': ['empties']}
    return None


def c_obj_history(ctx, args):
    """ONE long-lived map or state (numpy or torch): queries interleaved with in-place updates -- rotations, masked updates, sign changes, embed into a block-diagonal map --
    and with in-place updates of the RESULTS the queries returned; every query equals the same query on a freshly built equal object, and no result changes afterwards"""
    from vlib import history
    kind, n, seed, steps, which, be = args
    return history.reused_object_history(ctx, kind, n, seed, steps, which, be=be)


CHECKS = {'compose_independent': __import__('props.C09', fromlist=['c_compose_independent']).c_compose_independent, 'ctor_arg': c_ctor_arg, 'obj_history': c_obj_history, 'plain_args': c_plain_args, 'empties': c_empties, 'ctor_fresh': c_ctor_fresh, 'copy': c_copy, 'query': c_query, 'inplace': c_inplace, 'torch_copy': c_torch_copy}


def run(ctx):
    ctx.checks = CHECKS
    rng, B = ctx.rng, ctx.budget
    # corpus: signed mixed state (copy dropped the phases before the fix)
    do(ctx, 'copy', ['StabilizerState', 2, 7], nontrivial='w', sample=True)
    reps = int(6 * B)
    for kind in KINDS:
        for _ in range(reps):
            n = rng.randint(2, 4)
            do(ctx, 'copy', [kind, n, rng.randrange(10 ** 6)], nontrivial=('c', kind, ctx.res.evaluations))
    for kind, meths in QUERIES.items():
        for m in meths:
            for _ in range(max(8, int(10 * B))):
                do(ctx, 'query', [kind, m, rng.randint(1, 4), rng.randrange(10 ** 6)], nontrivial=('q', kind, m, ctx.res.evaluations))
    for it in range(int(80 * B)):
        api = ['entropy', 'mask', 'get_prob', 'getitem', 'rotate_mask', 'transform_mask', 'gate', 'measure_layer', 'describe', 'backward_record'][it % 10]
        do(ctx, 'plain_args', [api, rng.randint(2, 5), rng.randrange(10 ** 6)], nontrivial=('pa', api, it))
    for it in range(int(60 * B)):
        be = ['np', 'torch'][it % 2]
        do(ctx, 'obj_history', ['map', rng.randint(1, 4), rng.randrange(10 ** 6), rng.randint(4, 12), ['inverse', 'compose', 'to_state', 'copy'], be], nontrivial=('oh', be, it))
        do(ctx, 'obj_history', ['state', rng.randint(1, 4), rng.randrange(10 ** 6), rng.randint(4, 12), ['to_map', 'copy', 'expect', 'entropy'] + (['density_matrix'] if be == 'np' else []), be], nontrivial=('ohs', be, it))
    from props.C09 import rprog as _rprog
    for it in range(int(40 * B)):
        N_ = rng.randint(1, 4)
        pa = [] if it % 3 == 0 else _rprog(rng, ctx.model, N_, rng.randint(1, 3))
        pb = _rprog(rng, ctx.model, N_, rng.randint(1, 3)) if it % 5 else []
        do(ctx, 'compose_independent', [N_, pa, pb, _rprog(rng, ctx.model, N_, rng.randint(1, 2)), gen.rplist(rng, N_, 3), 'AB'[it % 2], False, ['np', 'torch'][it % 2]], nontrivial=('ci', it))
    for it in range(int(48 * B)):
        do(ctx, 'ctor_arg', [['np', 'torch'][it % 2], ['rotation_gate', 'rotation_map', 'stabilizer_state'][(it // 2) % 3], rng.randint(1, 4), rng.randrange(10 ** 6)], nontrivial=('ca', it))
    # the rank kernels work in place on whatever they are handed: entropy on larger, mixed and pure states, every block region
    for _ in range(max(30, int(30 * B))):
        do(ctx, 'query', ['StabilizerState', 'entropy', rng.randint(3, 6), rng.randrange(10 ** 6)], nontrivial=('qe', ctx.res.evaluations))
    for op in ['rotate_by', 'transform_by', 'measure', 'measure_state', 'gate_forward', 'gate_backward', 'circuit_forward', 'circuit_backward', 'layer_forward']:
        for _ in range(max(3, int(5 * B))):
            do(ctx, 'inplace', [op, rng.randint(2, 4), rng.randrange(10 ** 6)], nontrivial=('i', op, ctx.res.evaluations))
    for kind in ['Pauli', 'PauliList', 'CliffordMap', 'StabilizerState', 'PauliPolynomial']:
        for _ in range(max(2, int(3 * B))):
            do(ctx, 'torch_copy', [kind, rng.randint(1, 3), rng.randrange(10 ** 6)], nontrivial=('t', kind, ctx.res.evaluations))
    for be in ('np', 'torch'):
        for what in ['rotation_map', 'identity_map', 'zero_state', 'mixed_state', 'ghz_state', 'stabilizer_state', 'named_gate', 'rotation_gate', 'pauli']:
            for _ in range(max(3, int(3 * B))):
                do(ctx, 'ctor_fresh', [be, what, rng.randint(1, 3), rng.randrange(10 ** 6), rng.choice(['flip', 'library'])], nontrivial=('cf', be, what, ctx.res.evaluations))
    for _ in range(max(4, int(4 * B))):
        do(ctx, 'empties', [rng.randint(1, 3), rng.randrange(10 ** 6)], nontrivial=('em', ctx.res.evaluations))
