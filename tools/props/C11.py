"""C11 -- named gates are the textbook Cliffords; C(0..23) enumerates the 1-qubit group."""
import itertools
import numpy as np
from vlib import gen, dense as D
from vlib.run import corr, do, impl

RULE = ('the finite gate tables (H,S,X,Y,Z, CNOT both orientations, C(0..23)) x all placements in registers N<=4 (exhaustive for N<=3) x all '
        'generator operands; oracle = U P U^dagger with the textbook 2x2 / 4x4 unitaries; rejected indices and arities. Distinct by (gate, placement).')
ASSUMES = ['named gates act as P -> U P U^dagger (the convention of CliffordMap docstring)']

s2 = 1 / np.sqrt(2)
U1 = {0: np.array([[1, 1], [1, -1]], dtype=complex) * s2, 1: np.diag([1, 1j]).astype(complex), 2: D.X2, 3: D.Y2, 4: D.Z2}


def place1(U, q, N):
    m = np.eye(1, dtype=complex)
    for i in range(N):
        m = np.kron(m, U if i == q else D.I2)
    return m


def cnot(c, t, N):
    P0 = np.array([[1, 0], [0, 0]], dtype=complex)
    P1 = np.array([[0, 0], [0, 1]], dtype=complex)
    a = np.eye(1, dtype=complex)
    b = np.eye(1, dtype=complex)
    for i in range(N):
        a = np.kron(a, P0 if i == c else D.I2)
        b = np.kron(b, P1 if i == c else (D.X2 if i == t else D.I2))
    return a + b


def c_table_corr(ctx, args):
    nm, qs = args
    return corr(ctx, 'np', 'named_gate_map', [nm, qs])


def c_action(ctx, args):
    nm, qs, N = args
    l = [[g, 0] for g in gen.identity_rows(N) and [r[0] for r in gen.identity_rows(N)]] + [[[1] * (2 * N), 1]]
    r = corr(ctx, 'np', 'gate_forward', [N, [qs, [2, nm]], l])
    if r:
        return r
    got = impl('np').OPS['gate_forward'](N, [qs, [2, nm]], l)
    U = cnot(qs[0], qs[1], N) if nm == 5 else place1(U1[nm], qs[0], N)
    for a, b in zip(l, got):
        if not np.allclose(D.op(*b), U @ D.op(*a) @ U.conj().T):
            return {'kind': 'oracle', 'where': 'np:named gate %d on %s' % (nm, qs), 'observed': b, 'expected': 'U P U^dagger', 'operand': a}
    back = impl('np').OPS['gate_backward'](N, [qs, [2, nm]], got)
    if back != l:
        return {'kind': 'oracle', 'where': 'np:named gate backward', 'observed': back, 'expected': l}
    return None


def c_placed(ctx, args):
    """the named gate placed in a register THROUGH A CIRCUIT -- uncompiled, layer-compiled, fully compiled, a copy of the compiled circuit, the general Circuit class;
    alone or next to a second gate on other qubits -- conjugates every operand by the same textbook unitary, forward and backward"""
    nm, qs, N, mode, neighbour = args
    NPm = impl('np')
    l = [[r[0], 0] for r in gen.identity_rows(N)] + [[[1] * (2 * N), 1]]
    U = cnot(qs[0], qs[1], N) if nm == 5 else place1(U1[nm], qs[0], N)
    prog = [[0, [qs, [2, nm]]]]
    free = [q for q in range(N) if q not in qs]
    if neighbour and free:
        prog.append([0, [[free[-1]], [2, 0]]])                 # a Hadamard on another qubit: same layer, commutes
        U = place1(U1[0], free[-1], N) @ U
    c = NPm.build_circuit(N, prog, cls='Circuit' if mode == 'general' else 'CliffordCircuit')
    if neighbour:
        # somebody asks the gates for the inverse of their tables and goes on working with what they got (in place): the gates must not be affected
        for ly in c.layers_forward():
            for g_ in getattr(ly, 'gates', []):
                if g_.forward_map is not None:
                    t_ = g_.forward_map.inverse()
                    t_.rotate_by(NPm.P([[1, 0] * g_.n, 0]))
                    t_.ps[0] = (int(t_.ps[0]) + 2) % 4
    if mode == 'layers':
        for ly in c.layers_forward():
            if hasattr(ly, 'compile'):
                ly.compile(N)
    elif mode in ('compiled', 'compiled_copy', 'general'):
        c.compile()
    if mode == 'compiled_copy':
        c = c.copy()
    got = NPm.oPL(c.forward(NPm.PL(l)))
    for a, b in zip(l, got):
        if not np.allclose(D.op(*b), U @ D.op(*a) @ U.conj().T):
            return {'kind': 'oracle', 'where': 'np:named gate %d on %s in a %s circuit (forward)' % (nm, qs, mode), 'observed': b, 'expected': 'U P U^dagger', 'operand': a, 'tags': ['placed', mode]}
    back = NPm.oPL(c.backward(NPm.PL(l)))
    for a, b in zip(l, back):
        if not np.allclose(U @ D.op(*b) @ U.conj().T, D.op(*a)):
            return {'kind': 'oracle', 'where': 'np:named gate %d on %s in a %s circuit (backward)' % (nm, qs, mode), 'observed': b, 'expected': 'U^dagger P U', 'operand': a, 'tags': ['placed', mode]}
    return None


def c_single_through_gate(ctx, args):
    """a named gate applied to ONE operator -- a Pauli with any phase, a monomial with any coefficient -- conjugates it by the textbook unitary and leaves the coefficient alone;
    backward undoes it"""
    nm, qs, N, a, c = args
    NPm = impl('np')
    U = cnot(qs[0], qs[1], N) if nm == 5 else place1(U1[nm], qs[0], N)
    for form in ('pauli', 'mono'):
        o = NPm.P(a)
        coef = 1.0
        if form == 'mono':
            coef = complex(*c)
            o = o.as_monomial().set_c(coef)
        g = NPm.mk_gate([qs, [2, nm]])
        g.forward(o)
        got = complex(getattr(o, 'c', 1.0)) * D.op(*NPm.oP(o))
        want = coef * (U @ D.op(*a) @ U.conj().T)
        if not np.allclose(got, want):
            return {'kind': 'oracle', 'where': 'np:named gate %d on %s applied to a single %s' % (nm, qs, form), 'observed': [NPm.oP(o), [complex(getattr(o, 'c', 1.0)).real, complex(getattr(o, 'c', 1.0)).imag]], 'expected': 'c U P U^dagger', 'tags': ['single', form]}
        g.backward(o)
        if NPm.oP(o) != [a[0], a[1] % 4] or abs(complex(getattr(o, 'c', 1.0)) - coef) > 1e-12:
            return {'kind': 'oracle', 'where': 'np:named gate %d backward on a single %s does not restore it' % (nm, form), 'observed': NPm.oP(o), 'expected': a, 'tags': ['single', form]}
    return None


def c_C_group(ctx, args):
    """through the implementation: 24 pairwise different valid gates, closed under compose and inverse"""
    I = impl('np').OPS
    tabs = [I['named_gate_map'](100 + k, [0]) for k in range(24)]
    keys = [str(t) for t in tabs]
    if len(set(keys)) != 24:
        dup = [(i, j) for i in range(24) for j in range(i) if keys[i] == keys[j]]
        return {'kind': 'oracle', 'where': 'np:C(k)', 'observed': 'C(%d) == C(%d)' % dup[0], 'expected': '24 pairwise different gates', 'tags': ['C_duplicate']}
    for t in tabs:
        a, b = t
        ok = (a[1] in (0, 2) and b[1] in (0, 2) and (a[0][1] * b[0][0] - a[0][0] * b[0][1]) % 2 == 1)
        if not ok:
            return {'kind': 'oracle', 'where': 'np:C(k) validity', 'observed': t, 'expected': 'anticommuting Hermitian images'}
    S = set(keys)
    for x in tabs:
        if str(I['inverse'](x)) not in S:
            return {'kind': 'oracle', 'where': 'np:C(k) closed under inverse', 'observed': x, 'expected': 'inverse among the 24'}
        for y in tabs:
            if str(I['compose'](x, y)) not in S:
                return {'kind': 'oracle', 'where': 'np:C(k) closed under compose', 'observed': [x, y], 'expected': 'product among the 24'}
    return None


def c_guards(ctx, args):
    nm, qs = args
    got = impl('np').OPS['named_gate_map'](nm, qs)
    want = ctx.model.call('named_gate_map', nm, qs)
    from vlib.core import Err
    if isinstance(got, Err) != isinstance(want, Err):
        return {'kind': 'oracle' if not isinstance(got, Err) else 'corr', 'where': 'np:gate constructor guard', 'observed': repr(got), 'expected': repr(want)}
    return None


def c_C_index(ctx, args):
    """the 24 indices are 0..23 and nothing else: negative numbers (which Python sequences would wrap around), 24 and beyond, huge numbers are rejected with ValueError;
    the valid ones are accepted as Python ints and as numpy integers and give the same gate"""
    idx, = args
    from pyclifford import circuit as CI_
    valid = 0 <= idx <= 23
    try:
        g = CI_.C(idx, 0)
        ok = True
    except ValueError:
        ok = False
    except Exception as e:
        return {'kind': 'oracle', 'where': 'np:C(%d) raised %s instead of ValueError' % (idx, type(e).__name__), 'observed': str(e)[:100], 'expected': 'ValueError' if not valid else 'a gate', 'tags': ['C_index']}
    if ok != valid:
        return {'kind': 'oracle', 'where': 'np:C(%d) %s' % (idx, 'was accepted' if ok else 'was rejected'), 'observed': 'accepted' if ok else 'rejected', 'expected': 'a gate' if valid else 'ValueError', 'tags': ['C_index']}
    if valid:
        g2 = CI_.C(np.int64(idx), 0)
        if impl('np').oPL(g.forward_map) != impl('np').oPL(g2.forward_map):
            return {'kind': 'oracle', 'where': 'np:C(numpy.int64(%d)) differs from C(%d)' % (idx, idx), 'observed': impl('np').oPL(g2.forward_map), 'expected': impl('np').oPL(g.forward_map), 'tags': ['C_index']}
    return None


def c_C_roundtrip(ctx, args):
    """every C(k), at every placement, as gate / circuit / compiled circuit: backward undoes forward and forward undoes backward (all one-site and mixed operands),
    and the gate's backward action is the model's (the inverse table)"""
    k, q, N, mode = args
    spec = [[q], [2, 100 + k]]
    l = [[r[0], 0] for r in gen.identity_rows(N)] + [[[1] * (2 * N), 1], [[1, 0] * N, 3]]
    I = impl('np').OPS
    if mode == 'gate':
        f = I['gate_forward'](N, spec, l)
        fb = I['gate_backward'](N, spec, f)
        b = I['gate_backward'](N, spec, l)
        bf = I['gate_forward'](N, spec, b)
        r = corr(ctx, 'np', 'gate_backward', [N, spec, l])
        if r:
            return r
    elif mode in ('copy', 'used_copy'):
        import vlib.impl_np as NP
        g = NP.mk_gate(spec)
        if mode == 'used_copy':
            g.backward(NP.PL(l))           # materialises the lazily inverted map
            g.forward(NP.PL(l))
        c = g.copy()
        def app(d, rows):
            o = NP.PL(rows)
            (c.forward if d == 'f' else c.backward)(o)
            return NP.oPL(o)
        f = app('f', l); fb = app('b', f); b = app('b', l); bf = app('f', b)
        if f != I['gate_forward'](N, spec, l) or b != I['gate_backward'](N, spec, l):
            return {'kind': 'oracle', 'where': 'np:%s of C(%d) acts differently from the gate' % (mode, k), 'observed': [f, b], 'expected': [I['gate_forward'](N, spec, l), I['gate_backward'](N, spec, l)], 'tags': ['C_copy']}
    else:
        import vlib.impl_np as NP
        def run(direction, rows):
            c = NP.build_circuit(N, [[0, spec]], 'CliffordCircuit')
            if mode == 'compiled':
                c.compile()
            o = NP.PL(rows)
            (c.forward if direction == 'f' else c.backward)(o)
            return NP.oPL(o)
        f = run('f', l); fb = run('b', f); b = run('b', l); bf = run('f', b)
    if fb != l or bf != l:
        return {'kind': 'oracle', 'where': 'np:C(%d) on qubit %d of %d (%s): backward and forward are not inverse to each other' % (k, q, N, mode),
                'observed': [fb, bf], 'expected': l, 'tags': ['C_backward']}
    return None


CHECKS = {'single': c_single_through_gate, 'C_index': c_C_index, 'placed': c_placed, 'C_roundtrip': c_C_roundtrip, 'table_corr': c_table_corr, 'action': c_action, 'C_group': c_C_group, 'guards': c_guards, 'ctor_fresh': __import__('props.C17', fromlist=['c_ctor_fresh']).c_ctor_fresh}


def run(ctx):
    ctx.checks = CHECKS
    rng = ctx.rng
    for nm in [0, 1, 2, 3, 4] + [100 + k for k in range(24)]:
        do(ctx, 'table_corr', [nm, [0]], nontrivial=('t', nm), sample=(nm == 106))
    do(ctx, 'table_corr', [5, [0, 1]], nontrivial=('t', 5, 0))
    do(ctx, 'table_corr', [5, [1, 0]], nontrivial=('t', 5, 1))
    maxN = 3 if ctx.tier == 'quick' else 4
    for N in range(1, maxN + 1):
        for nm in (0, 1, 2, 3, 4):
            for q in range(N):
                do(ctx, 'action', [nm, [q], N], nontrivial=('a', nm, q, N))
        for c, t in itertools.permutations(range(N), 2):
            do(ctx, 'action', [5, [c, t], N], nontrivial=('a', 5, c, t, N), sample=(N == 3 and c > t))
    for N in range(1, 4):
        for mode in ('plain', 'layers', 'compiled', 'compiled_copy', 'general'):
            for nb in (0, 1):
                for nm in (0, 1, 2, 3, 4):
                    q = rng.randrange(N)
                    do(ctx, 'placed', [nm, [q], N, mode, nb], nontrivial=('pl', nm, q, N, mode, nb))
                for c, t in itertools.permutations(range(N), 2):
                    do(ctx, 'placed', [5, [c, t], N, mode, nb], nontrivial=('pl', 5, c, t, N, mode, nb))
    for k in range(24):
        for N, q in ((1, 0), (2, 1), (3, 1)):
            for mode in ('gate', 'circuit', 'compiled', 'copy', 'used_copy'):
                do(ctx, 'C_roundtrip', [k, q, N, mode], nontrivial=('Cr', k, N, mode))
    ctx.res.exhaustive = True
    do(ctx, 'C_group', [], nontrivial='C_group')
    for N in (1, 2, 3):
        for nm in (0, 1, 2, 3, 4):
            for q in range(N):
                do(ctx, 'single', [nm, [q], N, gen.rpauli(rng, N), [rng.choice([-2.5, 0.5, 3]), rng.choice([0, 1.5, -4])]], nontrivial=('sg', nm, q, N))
        for c_, t_ in itertools.permutations(range(N), 2):
            do(ctx, 'single', [5, [c_, t_], N, gen.rpauli(rng, N), [rng.choice([-2.5, 0.5, 3]), rng.choice([0, 1.5, -4])]], nontrivial=('sg', 5, c_, t_, N))
    for idx in list(range(-30, 30)) + [39, 47, 48, 100, -100, 255, 256, 2 ** 31, 2 ** 40, -2 ** 40]:
        do(ctx, 'C_index', [idx], nontrivial=('ci', idx))
    # wrong COUNTS are rejected whatever the labels are -- repeated labels included (every tuple over three labels of every wrong length up to 4)
    for nm, arity in ((0, 1), (1, 1), (2, 1), (3, 1), (4, 1), (5, 2), (107, 1)):
        for L in range(0, 5):
            if L != arity:
                for qs in itertools.product(range(3), repeat=L):
                    if len(set(qs)) < L or L == 0 or rng.random() < 0.3:
                        do(ctx, 'guards', [nm, list(qs)], nontrivial=('gr', nm, str(qs)))
    for nm, qs in [(0, []), (0, [0, 1]), (1, [0, 1]), (2, [0, 1]), (2, []), (3, [0, 1]), (3, []), (4, []), (1, []), (4, [1, 2, 3]), (5, [0]), (5, [0, 1, 2]), (124, [0]), (130, [0]), (99, [0]), (100, [0, 1]), (111, [])]:
        do(ctx, 'guards', [nm, qs], nontrivial=('g', nm, str(qs)))
    # every call of a named-gate constructor hands out a fresh table (users rotate / transform gate maps in place, a CliffordMap is a PauliList)
    for sd in range(40):
        do(ctx, 'ctor_fresh', ['np', 'named_gate', 2, 1000 + sd], nontrivial=('cf', sd))
