"""C04 -- Clifford maps form a group under compose and inverse."""
import itertools
import numpy as np
from vlib import gen, dense as D
from vlib import impl_np as NP
from vlib.run import corr, do, impl
from props.C03 import all_maps_1q

RULE = ('pairs/triples of valid maps: all 24x24 one-qubit pairs (exhaustive), random valid maps N<=6 with random signs; z2inv on all 2x2 and 3x3 '
        'binary matrices (exhaustive, singular ones included) and random larger ones; both backends; histories of 4-14 steps on ONE reused map object (inverse/compose queries between in-place rotations, sign-only changes, transforms, copies), each query compared with the same query on a fresh equal map. Non-trivial = neither map is the identity; '
        'distinct by (backend,check,input).')
ASSUMES = ['maps are valid; bits 0/1']


def c_compose_corr(ctx, args):
    be, a, b = args
    return corr(ctx, be, 'compose', [a, b])


def c_inverse_corr(ctx, args):
    be, a = args
    return corr(ctx, be, 'inverse', [a])


def c_z2inv_corr(ctx, args):
    be, m = args
    return corr(ctx, be, 'z2inv', [m])


def c_group_laws(ctx, args):
    """through the implementation only (oracle = the group axioms and 'apply first then second')"""
    be, a, b, c, l = args
    I = impl(be).OPS
    n = len(a) // 2
    ident = I['identity_map'](n)
    ab = I['compose'](a, b)
    # acts as applying a then b
    if I['transform'](ab, None, l) != I['transform'](b, None, I['transform'](a, None, l)):
        return {'kind': 'oracle', 'where': be + ':compose action', 'observed': I['transform'](ab, None, l), 'expected': 'apply first map then second'}
    if I['compose'](ab, c) != I['compose'](a, I['compose'](b, c)):
        return {'kind': 'oracle', 'where': be + ':compose associativity', 'observed': I['compose'](ab, c), 'expected': I['compose'](a, I['compose'](b, c))}
    norm = [[g, p % 4] for g, p in a]
    if I['compose'](ident, a) != norm or I['compose'](a, ident) != norm:
        return {'kind': 'oracle', 'where': be + ':identity neutral', 'observed': I['compose'](ident, a), 'expected': norm}
    ai = I['inverse'](a)
    if I['compose'](a, ai) != ident or I['compose'](ai, a) != ident:
        return {'kind': 'oracle', 'where': be + ':inverse', 'observed': [I['compose'](a, ai), I['compose'](ai, a)], 'expected': 'identity on both sides'}
    if I['inverse'](ab) != I['compose'](I['inverse'](b), ai):
        return {'kind': 'oracle', 'where': be + ':inverse of composition', 'observed': I['inverse'](ab), 'expected': I['compose'](I['inverse'](b), ai)}
    return None


def c_z2inv_oracle(ctx, args):
    be, m = args
    r = impl(be).OPS['z2inv'](m)
    M = np.array(m) % 2
    n = len(m)
    det = int(round(np.linalg.det(M))) % 2 if n else 1
    if isinstance(r, list):
        R = np.array(r)
        ok = ((R @ M) % 2 == np.eye(n, dtype=int)).all() and ((M @ R) % 2 == np.eye(n, dtype=int)).all()
        if not ok:
            return {'kind': 'oracle', 'where': be + ':z2inv', 'observed': r, 'expected': 'two-sided inverse over GF(2)'}
        if det == 0:
            return {'kind': 'oracle', 'where': be + ':z2inv', 'observed': r, 'expected': 'ValueError for a singular matrix'}
    else:
        if det == 1:
            return {'kind': 'oracle', 'where': be + ':z2inv', 'observed': 'error', 'expected': 'an inverse (matrix is invertible)'}
    return None


def c_map_history(ctx, args):
    """one long-lived CliffordMap object: queries (inverse, compose) interleaved with in-place updates (rotations, sign-only changes,
    transforms, copies).  Oracle, independent of the model: every query on the reused object equals the same query on a FRESHLY built equal map,
    and inverse is two-sided for the map as it is now.  The steps are derived from the seed, so a replay reproduces the history."""
    be, n, seed, steps = args
    rng = __import__('random').Random(seed)
    M = impl(be)
    I = M.OPS
    m = M.CM(gen.rmap(rng, ctx.model, n))
    ident = I['identity_map'](n)
    hist = []
    alive = []                 # earlier results (objects) with the value they had: later calls on the same or other maps must not change them
    other_maps = [M.CM(gen.rmap(rng, ctx.model, n)) for _ in range(2)]
    for _ in range(steps):
        for nm_, res_, was_ in alive:
            now_ = M.oPL(res_)
            if now_ != was_:
                return {'kind': 'oracle', 'where': be + ':the result of an earlier %s changed after later calls (results share data)' % nm_, 'observed': now_, 'expected': was_, 'history': hist, 'tags': ['history', 'result_aliasing']}
        # two mixes: general, and 'query - sign-only update - query' (the strings, hence any string-keyed cache, stay the same)
        op = rng.choice(['inverse', 'inverse', 'compose', 'rotate', 'rotate2', 'signflip', 'transform', 'copy', 'setps'] if seed % 2 else
                        ['inverse', 'inverse', 'compose', 'rotate2', 'signflip', 'setps'])
        hist.append(op)
        cur = M.oPL(m)
        if op == 'inverse':
            res = m.inverse()
            got = M.oPL(res)
            alive.append(('inverse', res, got))
            # inverses of OTHER maps of the same size taken while the first result is still referenced
            o2 = rng.choice(other_maps)
            r2 = o2.inverse()
            alive.append(('inverse', r2, M.oPL(r2)))
            del alive[:-6]
            want = I['inverse'](cur)
            if got != want:
                return {'kind': 'oracle', 'where': be + ':inverse on a reused map object differs from inverse of an equal fresh map', 'observed': got, 'expected': want, 'history': hist, 'map': cur, 'tags': ['history']}
            if I['compose'](cur, got) != ident or I['compose'](got, cur) != ident:
                return {'kind': 'oracle', 'where': be + ':inverse (after history) is not two-sided', 'observed': got, 'expected': 'compose with the map = identity', 'history': hist, 'map': cur, 'tags': ['history']}
        elif op == 'compose':
            b = gen.rmap(rng, ctx.model, n)
            res = m.compose(M.CM(b))
            got = M.oPL(res)
            alive.append(('compose', res, got))
            want = I['compose'](cur, b)
            if got != want:
                return {'kind': 'oracle', 'where': be + ':compose on a reused map object differs from compose of an equal fresh map', 'observed': got, 'expected': want, 'history': hist, 'map': cur, 'tags': ['history']}
        elif op in ('rotate', 'rotate2'):
            g = M.P(gen.rpauli(rng, n, herm=True))
            m.rotate_by(g)
            if op == 'rotate2':
                m.rotate_by(g)           # two quarter turns: strings restored, signs changed
        elif op == 'signflip':
            q = rng.randrange(n)
            z = [0] * (2 * n)
            z[2 * q + rng.randint(0, 1)] = 1
            if rng.random() < 0.5:
                z[2 * q], z[2 * q + 1] = 1, 1
            m.rotate_by(M.P([z, 0]))
            m.rotate_by(M.P([z, 0]))
        elif op == 'transform':
            m.transform_by(M.CM(gen.rmap(rng, ctx.model, n)))
        elif op == 'copy':
            m = m.copy()
        elif op == 'setps':
            j = rng.randrange(2 * n)
            m.ps[j] = (int(m.ps[j]) + 2) % 4
    return None


def c_obj_history(ctx, args):
    """ONE long-lived map or state (numpy or torch): queries interleaved with in-place updates -- rotations, masked updates, sign changes, embed into a block-diagonal map --
    and with in-place updates of the RESULTS the queries returned; every query equals the same query on a freshly built equal object, and no result changes afterwards"""
    from vlib import history
    kind, n, seed, steps, which, be = args
    return history.reused_object_history(ctx, kind, n, seed, steps, which, be=be)


def c_storage(ctx, args):
    """a map whose 0/1 string matrix is stored as another integer type or as booleans (a user-built CliffordMap) composes and inverts to the same map as the int64 one"""
    a, b, dt = args
    from pyclifford.stabilizer import CliffordMap
    mk = lambda m, d: CliffordMap(np.array([r[0] for r in m], dtype=d), np.array([r[1] for r in m], dtype=np.int_))
    A, B = mk(a, np.int64), mk(b, np.int64)
    want = [NP.oPL(A.compose(B)), NP.oPL(A.inverse()), NP.oPL(A.compose(A.inverse()))]
    d = {'int32': np.int32, 'int8': np.int8, 'uint8': np.uint8, 'bool': np.bool_}[dt]
    try:
        A2, B2 = mk(a, d), mk(b, d)
        got = [NP.oPL(A2.compose(B2)), NP.oPL(A2.inverse()), NP.oPL(A2.compose(A2.inverse()))]
    except Exception as e:
        return {'kind': 'oracle', 'where': 'np:compose / inverse of a map stored as %s raised %s' % (dt, type(e).__name__), 'observed': str(e)[:120], 'expected': 'the same maps as for int64 storage', 'tags': ['storage', dt]}
    if got != want:
        k = [i for i in range(3) if got[i] != want[i]][0]
        return {'kind': 'oracle', 'where': 'np:%s of a map stored as %s differs from the int64 result' % (['compose', 'inverse', 'map . inverse'][k], dt), 'observed': got[k], 'expected': want[k], 'tags': ['storage', dt]}
    return None


CHECKS = {'storage': c_storage, 'obj_history': c_obj_history, 'compose_corr': c_compose_corr, 'inverse_corr': c_inverse_corr, 'z2inv_corr': c_z2inv_corr, 'group_laws': c_group_laws,
          'z2inv_oracle': c_z2inv_oracle, 'map_history': c_map_history}


def run(ctx):
    ctx.checks = CHECKS
    rng, B = ctx.rng, ctx.budget
    maps1 = all_maps_1q()
    ops1 = gen.all_paulis(1)
    for a in maps1:
        do(ctx, 'inverse_corr', ['np', a], nontrivial=('i', str(a)))
        do(ctx, 'inverse_corr', ['torch', a])
        for b in maps1:
            do(ctx, 'compose_corr', ['np', a, b], nontrivial=('c', str(a), str(b)))
            if rng.random() < 0.2:
                do(ctx, 'compose_corr', ['torch', a, b])
            if rng.random() < 0.25 or ctx.search:
                do(ctx, 'group_laws', [rng.choice(['np', 'torch']), a, b, rng.choice(maps1), ops1])
    ctx.res.exhaustive = True
    for n in (1, 2, 3):
        for bits in itertools.product((0, 1), repeat=n * n):
            m = [list(bits[i * n:(i + 1) * n]) for i in range(n)]
            do(ctx, 'z2inv_corr', ['np', m], nontrivial=('z', str(m)))
            do(ctx, 'z2inv_oracle', ['np', m])
    # LARGE registers: byte, word and cache-line boundaries of every packed or vectorised representation (8, 9, 16, 17, 33, 64, 65 qubits); model correspondence only
    for n in (129, 160):          # more than 256 tableau rows (an index no longer fits one byte)
        a, b = gen.rmap(rng, ctx.model, n, depth=n), gen.rmap(rng, ctx.model, n, depth=n // 2)
        do(ctx, 'compose_corr', ['np', a, b], nontrivial=('huge', n))
        do(ctx, 'inverse_corr', ['np', a], nontrivial=('hugei', n))
    for n in gen.BIG + [20, 24, 28]:
        for be in (['np', 'torch'] if n <= 33 else ['np']):
            # DENSE maps (4n rotations): elimination kernels accumulate most on them
            a, b = gen.rmap(rng, ctx.model, n, depth=4 * n), gen.rmap(rng, ctx.model, n)
            do(ctx, 'compose_corr', [be, a, b], nontrivial=('big', be, n))
            do(ctx, 'inverse_corr', [be, a], nontrivial=('bigi', be, n))
            do(ctx, 'inverse_corr', [be, b], nontrivial=('bigj', be, n))
    for _ in range(int(150 * B)):
        n = rng.randint(4, 9)
        m = [[rng.randint(0, 1) for _ in range(n)] for _ in range(n)]
        do(ctx, 'z2inv_corr', ['np', m], nontrivial=('z', str(m)))
        do(ctx, 'z2inv_oracle', ['np', m])
    for _ in range(int(350 * B)):
        N = rng.randint(1, 6)
        a, b, c = (gen.rmap(rng, ctx.model, N) for _ in range(3))
        be = rng.choice(['np', 'torch'])
        do(ctx, 'compose_corr', [be, a, b], nontrivial=(be, 'c', str(a), str(b)), sample=True)
        do(ctx, 'inverse_corr', [be, a], nontrivial=(be, 'i', str(a)))
        do(ctx, 'group_laws', [be, a, b, c, gen.rplist(rng, N, 3)])
        ctx.res.count('N%d' % N)
    for it in range(int(24 * B)):
        N = rng.randint(2, 4)
        do(ctx, 'storage', [gen.rmap(rng, ctx.model, N, depth=3 * N), gen.rmap(rng, ctx.model, N), ['bool', 'uint8', 'int8', 'int32'][it % 4]], nontrivial=('st', it))
    # histories on one reused object (lazily cached results must follow in-place updates)
    for it in range(int(40 * B)):
        be = ['np', 'torch'][it % 2]
        do(ctx, 'obj_history', ['map', rng.randint(1, 4), rng.randrange(10 ** 6), rng.randint(4, 12), ['inverse', 'compose', 'copy'], be], nontrivial=('oh', be, it))
    for _ in range(int(60 * B)):
        be = rng.choice(['np', 'np', 'torch'])
        do(ctx, 'map_history', [be, rng.randint(1, 4), rng.randrange(10 ** 6), rng.randint(4, 14)], nontrivial=(be, 'h', ctx.res.evaluations))
