"""C03 -- applying a Clifford map is a unitary conjugation (phase-exact homomorphism)."""
import numpy as np
from vlib import gen, dense as D
from vlib.run import norm, corr, do, impl, opt
from vlib import impl_np as NP

RULE = ('(valid map, optional mask, operand list): all 24 one-qubit maps x all operands (exhaustive), random valid maps N<=6 built by the model '
        'from rotations and sign flips, masks of every size, embed; both backends. Oracle = dense ordered product of the map rows. '
        'Non-trivial = non-identity map and an operand with x.z != 0 or phase i/-i; distinct by (backend,check,input).')
ASSUMES = ['the map is valid (canonical commutation relations, Hermitian rows); bits 0/1, phases 0..3']


def acq_py(a, b):
    return sum(a[2 * i + 1] * b[2 * i] - a[2 * i] * b[2 * i + 1] for i in range(len(a) // 2)) % 2


def all_maps_1q():
    out = []
    S = [g for g in gen.all_strings(1) if any(g)]
    for a in S:
        for b in S:
            if acq_py(a, b) == 1:
                for pa in (0, 2):
                    for pb in (0, 2):
                        out.append([[a, pa], [b, pb]])
    return out


def dense_image(m, a):
    """i^p * i^(x.z) * prod_j Mx_j^x_j Mz_j^z_j, densely"""
    g, p = a
    n = len(g) // 2
    mat = np.eye(2 ** (len(m[0][0]) // 2), dtype=complex)
    ph = p
    for j in range(n):
        x, z = g[2 * j], g[2 * j + 1]
        ph += x * z
        if x:
            mat = mat @ D.op(*m[2 * j])
        if z:
            mat = mat @ D.op(*m[2 * j + 1])
    return (1j ** (ph % 4)) * mat


def c_tr_corr(ctx, args):
    be, m, mask, l = args[:4]
    NP.set_layout(args[4] if len(args) > 4 else 'c')
    try:
        return corr(ctx, be, 'transform', [m, opt(mask), l], [m, mask, l])
    finally:
        NP.set_layout('c')


def c_tr_dense(ctx, args):
    be, m, l = args
    got = impl(be).OPS['transform'](m, None, l)
    if not isinstance(got, list):
        return {'kind': 'oracle', 'where': be + ':transform_by', 'observed': repr(got), 'expected': 'a result'}
    for a, r in zip(l, got):
        if not np.allclose(D.op(*r), dense_image(m, a)):
            return {'kind': 'oracle', 'where': be + ':transform_by', 'observed': r, 'expected': 'ordered product of map rows', 'operand': a}
    # homomorphism and commutation on pairs
    for i in range(len(l) - 1):
        a, b = l[i], l[i + 1]
        ab = impl(be).OPS['pmul'](a, b)
        r_ab = impl(be).OPS['transform'](m, None, [ab])[0]
        if not np.allclose(D.op(*r_ab), D.op(*got[i]) @ D.op(*got[i + 1])):
            return {'kind': 'oracle', 'where': be + ':transform_by multiplicativity', 'observed': r_ab, 'expected': 'image(a) image(b)', 'operands': [a, b]}
    return None


def c_embed_corr(ctx, args):
    be, N, small, mask = args
    big = gen.identity_rows(N)
    return corr(ctx, be, 'embed', [big, small, mask])


def c_masked_is_embedded(ctx, args):
    be, N, small, mask, l = args
    emb = impl(be).OPS['embed'](gen.identity_rows(N), small, mask)
    a = impl(be).OPS['transform'](small, mask, l)
    b = impl(be).OPS['transform'](emb, None, l)
    if a != b:
        return {'kind': 'oracle', 'where': be + ':masked transform vs embedded map', 'observed': a, 'expected': b}
    # qubits outside the mask are untouched
    for x, y in zip(l, a if isinstance(a, list) else []):
        for i, mk in enumerate(mask):
            if not mk and (x[0][2 * i], x[0][2 * i + 1]) != (y[0][2 * i], y[0][2 * i + 1]):
                return {'kind': 'oracle', 'where': be + ':masked transform touched an unmasked qubit', 'observed': y, 'expected': x}
    return None


def c_state_corr(ctx, args):
    be, m, mask, t = args
    return corr(ctx, be, 'state_transform', [m, opt(mask), t], [m, mask, t])


def c_rotmap(ctx, args):
    """the map of a rotation acts as the rotation: transform_by(clifford_rotation_map(G)) == rotate_by(G) on every operand (through the implementation; the two paths
    share no arithmetic: the map path multiplies listed images, the rotation path adds one product phase)"""
    be, g, l = args[:3]
    mask = args[3] if len(args) > 3 else None
    I = impl(be).OPS
    NP.set_layout(args[4] if len(args) > 4 and be == 'np' else 'c')      # the operand as a strided / Fortran-ordered / column-sliced view (list[::2], the inverse of a map)
    try:
        a = I['rotate'](g, mask, l)
    finally:
        NP.set_layout('c')
    m = I['rotation_map'](g)
    b = I['transform'](m, mask, l)
    if norm(a) != norm(b):
        return {'kind': 'oracle', 'where': be + ':transform_by(clifford_rotation_map(G)) differs from rotate_by(G)', 'observed': norm(b), 'expected': norm(a), 'generator': g, 'tags': ['rotmap']}
    return None


def c_single(ctx, args):
    """transform_by on a single Pauli / PauliMonomial object (their own wrappers) agrees with the one-row list, masked or not"""
    be, m, mask, a, form = args
    if be == 'np':
        import vlib.impl_np as M
    else:
        import vlib.impl_torch as M
    ref = impl(be).OPS['transform'](m, mask, [a])
    if not isinstance(ref, list):
        return None
    try:
        o = M.P(a)
        if form == 'mono':
            if not hasattr(o, 'as_monomial'):
                return None
            o = o.as_monomial().set_c(2.5 - 1.5j)          # a monomial carries a coefficient: an in-place update of the operator must leave it alone
        r = o.transform_by(M.CM(m), mask=M.optmask(mask))
        r = r if r is not None else o
        got = M.oP(r)
    except Exception as e:
        return {'kind': 'oracle', 'where': '%s:%s.transform_by raised %s' % (be, form, type(e).__name__), 'observed': str(e)[:100], 'expected': ref[0]}
    if [got[0], got[1] % 4] != [ref[0][0], ref[0][1] % 4]:
        return {'kind': 'oracle', 'where': '%s:transform_by on a single %s differs from the one-row list' % (be, form), 'observed': got, 'expected': ref[0], 'tags': ['single_object', be]}
    if form == 'mono' and (complex(r.c) != 2.5 - 1.5j or complex(o.c) != 2.5 - 1.5j):
        return {'kind': 'oracle', 'where': '%s:transform_by on a monomial changed its coefficient (coefficients are untouched by a Clifford map)' % be, 'observed': [complex(r.c).real, complex(r.c).imag], 'expected': [2.5, -1.5], 'tags': ['single_object', 'coefficient', be]}
    return None


CHECKS = {'ctor_fresh': __import__('props.C17', fromlist=['c_ctor_fresh']).c_ctor_fresh, 'single': c_single, 'rotmap': c_rotmap, 'tr_corr': c_tr_corr, 'tr_dense': c_tr_dense, 'embed_corr': c_embed_corr, 'masked_is_embedded': c_masked_is_embedded,
          'state_corr': c_state_corr}


def _nt(m, l):
    return m != gen.identity_rows(len(m) // 2) and any((a[1] % 2 == 1) or any(a[0][2 * i] and a[0][2 * i + 1] for i in range(len(a[0]) // 2)) for a in l)


def run(ctx):
    ctx.checks = CHECKS
    rng, B = ctx.rng, ctx.budget
    backends = ['np', 'torch']
    ops1 = gen.all_paulis(1)
    for m in all_maps_1q():
        for be in backends:
            do(ctx, 'tr_corr', [be, m, None, ops1], nontrivial=(be, str(m)))
            do(ctx, 'tr_dense', [be, m, ops1])
    ctx.res.exhaustive = True
    ctx.res.count('one_qubit_maps', 24)
    # the maps a transformation is built from are fresh objects: rotation maps and identity maps built twice, with a use of the first in between
    for be in backends:
        for what in ('rotation_map', 'identity_map'):
            for use in ('flip', 'library'):
                for _ in range(max(3, int(3 * B))):
                    do(ctx, 'ctor_fresh', [be, what, rng.randint(1, 4), rng.randrange(10 ** 6), use], nontrivial=('cf', be, what, use, ctx.res.evaluations))
    # LONG lists: more rows / terms / pairs than any block, chunk or vector width (255, 256, 257, 300, 1025 rows; 65 x 65 and 40 x 130 term pairs)
    for L in gen.LONG:
        for be in backends:
            N = rng.randint(1, 4)
            n = rng.randint(1, N)
            mask = None if n == N else gen.rmask(rng, N, n)[0]
            do(ctx, 'tr_corr', [be, gen.rmap(rng, ctx.model, n), mask, gen.rplist(rng, N, L)], nontrivial=('long', be, L))
    for L in gen.LONG2:
        for be in backends:
            N = rng.randint(1, 3)
            do(ctx, 'tr_corr', [be, gen.rmap(rng, ctx.model, N), None, gen.rplist(rng, N, L)], nontrivial=('long2', be, L))
    # SPARSE generators on wide registers, unmasked, either sign (a rotation about one or two qubits of many)
    for N in gen.BIG:
        for be in backends:
            g = gen.rsparse(rng, N, rng.randint(1, 2))
            l = [gen.rsparse(rng, N, rng.randint(1, 3), herm=False, pool=[q for q in range(N) if g[0][2 * q] or g[0][2 * q + 1]] + [0, N - 1]) for _ in range(4)] + gen.rplist(rng, N, 2)
            do(ctx, 'rotmap', [be, g, l], nontrivial=('sparse', be, N))
    # LARGE registers: byte, word and cache-line boundaries of every packed or vectorised representation (8, 9, 16, 17, 33, 64, 65 qubits); model correspondence only
    for N in gen.BIG:
        for be in backends:
            n = rng.choice([N, rng.randint(1, min(N, 9))])
            mask = None if n == N else gen.rmask(rng, N, n)[0]
            do(ctx, 'tr_corr', [be, gen.rmap(rng, ctx.model, n), mask, gen.rplist(rng, N, 4)], nontrivial=('big', be, N))
    for _ in range(int(500 * B)):
        N = rng.randint(1, 6)
        n = rng.randint(1, N)
        mask = None if n == N else gen.rmask(rng, N, n)[0]
        m = gen.rmap(rng, ctx.model, n)
        l = gen.rplist(rng, N, rng.randint(1, 5))
        be = rng.choice(backends)
        lay = rng.choice(['c', 'c', 'strided', 'fortran', 'colslice']) if be == 'np' else 'c'
        do(ctx, 'tr_corr', [be, m, mask, l, lay], nontrivial=(be, str(m), str(mask), str(l)) if _nt(m, l) else None, sample=True)
        if mask is None and N <= 4:
            do(ctx, 'tr_dense', [be, m, l])
        # (a mask that selects EVERY qubit is a mask too: no identity wire is left)
        emask = mask if mask is not None else [1] * N
        do(ctx, 'embed_corr', [be, N, m, emask])
        do(ctx, 'masked_is_embedded', [be, N, m, emask, l])
        ctx.res.count('N%d_n%d' % (N, n))
    for _ in range(int(120 * B)):
        N = rng.randint(1, 5)
        n = rng.randint(1, N)
        mask = None if n == N else gen.rmask(rng, N, n)[0]
        be = rng.choice(backends)
        do(ctx, 'state_corr', [be, gen.rmap(rng, ctx.model, n), mask, gen.rtableau(rng, ctx.model, N)], nontrivial=(be, 's', ctx.res.evaluations))
    # rotation maps against rotations, generators and operands meeting on several sites (N up to 6)
    for _ in range(int(200 * B)):
        n = rng.randint(1, 6)
        g = gen.rpauli(rng, n, herm=True, nonzero=True)
        if rng.random() < 0.5:          # heavy generators and operands: all sites non-trivial
            g = [[b for _ in range(n) for b in rng.choice([(1, 0), (0, 1), (1, 1)])], g[1]]
        l = gen.rplist(rng, n, 4) + [[[b for _ in range(n) for b in rng.choice([(1, 0), (0, 1), (1, 1)])], rng.randint(0, 3)]]
        do(ctx, 'rotmap', [rng.choice(backends), g, l], nontrivial=('rm', ctx.res.evaluations))
    # the same through a mask: a generator (either sign) on a sub-register against its rotation map on the same sub-register
    for _ in range(int(150 * B)):
        N = rng.randint(2, 6)
        k = rng.randint(1, N - 1)
        mask = gen.rmask(rng, N, k)[0]
        g = gen.rpauli(rng, k, herm=True, nonzero=True)
        do(ctx, 'rotmap', [rng.choice(backends), g, gen.rplist(rng, N, 4), mask, rng.choice(['c', 'strided', 'fortran', 'colslice'])], nontrivial=('rmm', ctx.res.evaluations))
        do(ctx, 'rotmap', [rng.choice(backends), gen.rpauli(rng, N, herm=True, nonzero=True), gen.rplist(rng, N, 4), None, rng.choice(['strided', 'fortran', 'colslice'])], nontrivial=('rml', ctx.res.evaluations))
    for _ in range(int(150 * B)):
        N = rng.randint(1, 5)
        k = rng.randint(1, N)
        mask = None if k == N else gen.rmask(rng, N, k)[0]
        do(ctx, 'single', [rng.choice(['np', 'np', 'torch']), gen.rmap(rng, ctx.model, k), mask, gen.rpauli(rng, N), rng.choice(['pauli', 'mono'])], nontrivial=('sg', ctx.res.evaluations))
