"""C10 -- backward is the exact inverse of forward."""
from vlib import gen
from vlib import impl_np as NP
from vlib.run import do, impl, mgate, mprog, corr
from vlib.core import Err
from props.C09 import run_impl, rprog

RULE = ('the gate programs of C09 (generator / forward-map / backward-map / both / named gates) run forward-then-backward and backward-then-forward, uncompiled, '
        'layer-compiled and circuit-compiled, CliffordCircuit and Circuit, on Pauli lists with all four phases and on signed mixed states (strings, phases, rank); '
        'single gates and single layers too. Non-trivial = at least two non-commuting layers; distinct by (config, program, input).')
ASSUMES = ['deterministic gates; maps given as forward/backward pairs are mutually inverse (generated so)']


def c_roundtrip(ctx, args):
    cls, N, prog, x, mode, obj, direction = args[:7]
    variant = args[7] if len(args) > 7 else 'orig'
    got, c = run_impl(cls, N, prog, x, mode, variant, obj, direction)
    want = [[g, p % 4] for g, p in x] if obj == 'list' else [[[g, p % 4] for g, p in x[0]], x[1]]
    if got != want:
        return {'kind': 'oracle', 'where': 'np:%s %s (mode %d, %s)' % (cls, direction, mode, obj), 'observed': got, 'expected': want,
                'tags': ['compiled'] if mode == 2 else []}
    return None


def c_backward_corr(ctx, args):
    N, prog, l, mode = args
    try:
        got, c = run_impl('CliffordCircuit', N, prog, l, mode, 'orig', 'list', 'backward')
    except Exception:
        got = Err(1)
    want = ctx.model.call('circ_backward', N, mprog(prog), l, mode)
    if isinstance(got, Err) or isinstance(want, Err):
        return None if isinstance(got, Err) == isinstance(want, Err) else {'kind': 'corr', 'where': 'np:backward', 'observed': repr(got), 'expected': repr(want)}
    if got != want:
        return {'kind': 'corr', 'where': 'np:CliffordCircuit.backward mode %d' % mode, 'observed': got, 'expected': want}
    return None


def c_maps_corr(ctx, args):
    N, prog = args
    import vlib.impl_np as NP
    c = NP.build_circuit(N, prog, 'CliffordCircuit').compile()
    got = [NP.oPL(c.forward_map), NP.oPL(c.backward_map)]
    want = ctx.model.call('circ_maps', N, mprog(prog))
    if got != want:
        return {'kind': 'corr', 'where': 'np:compiled maps', 'observed': got, 'expected': want}
    inv = impl('np').OPS['inverse'](got[0])
    if inv != got[1]:
        return {'kind': 'oracle', 'where': 'np:compiled backward_map is not the inverse of forward_map', 'observed': got[1], 'expected': inv, 'tags': ['compiled']}
    return None


def c_torch_history(ctx, args):
    """torchclifford circuits: one program object (gate / layers / compiled circuit) used for a HISTORY of forward and backward applications, each on a fresh operand;
    oracle = pyclifford applying the same gates one at a time (tied to the model by the other checks), and F.B / B.F restore the operand"""
    N, prog, l, mode, hist = args[:5]      # mode 0 uncompiled, 1 layers compiled, 2 circuit compiled; hist e.g. 'BF', 'FBBF'
    when = args[5] if len(args) > 5 else 'never'       # the circuit is replaced by its copy: never | first (before any use or compilation) | compiled (after compiling) | used (after the first step)
    import vlib.impl_torch as TT
    # a torch circuit has no register size of its own: it is as wide as its highest qubit; operands are cut to that width
    N = 1 + max(max(ins[1][0]) for ins in prog)
    l = [[g[:2 * N], p] for g, p in l]
    try:
        c = TT.build_circuit(N, prog)
        if when == 'first':
            c = c.copy()
        if mode == 1:
            for layer in c.layers_forward():
                layer.compile(N)
        elif mode == 2:
            c.compile()
        if when == 'compiled':
            c = c.copy()
    except Exception as e:
        return {'kind': 'oracle', 'where': 'torch:building/copying/compiling the circuit raised %s' % type(e).__name__, 'observed': str(e)[:120], 'expected': 'a circuit', 'tags': ['torch']}
    for step, d in enumerate(hist):
        if when == 'used' and step == 1:
            c = c.copy()
        o = TT.PL(l)
        ref = NP.PL(l)
        try:
            (c.forward if d == 'F' else c.backward)(o)
            got = TT.oPL(o)
        except Exception as e:
            return {'kind': 'oracle', 'where': 'torch:circuit %s raised %s' % (d, type(e).__name__), 'observed': str(e)[:120], 'expected': 'rows', 'history': hist[:step + 1], 'tags': ['torch']}
        gates = [NP.mk_gate(ins[1]) for ins in prog]
        for g in (gates if d == 'F' else reversed(gates)):
            (g.forward if d == 'F' else g.backward)(ref)
        want = NP.oPL(ref)
        if got != want:
            return {'kind': 'oracle', 'where': 'torch:circuit %s at step %d of history %s (mode %d) differs from pyclifford gate by gate' % (d, step, hist, mode),
                    'observed': got, 'expected': want, 'tags': ['torch', 'history']}
    return None


def c_layer_roundtrip(ctx, args):
    """a LAYER used on its own -- built from disjoint gates, compiled, then given one more disjoint gate (and optionally compiled again) -- acts forward as its gates one at a
    time, and backward undoes forward"""
    N, gates, extra, l, recompile, be = args
    if be == 'np':
        from pyclifford import circuit as CI_
        M = NP
    else:
        import torchclifford.circuit as CI_, vlib.impl_torch as M
    try:
        ly = CI_.CliffordLayer(*[M.mk_gate(g) for g in gates])
        ly.compile(N)
        if extra is not None:
            ly.take(M.mk_gate(extra))
        if recompile:
            ly.compile(N)
        o = M.PL(l)
        ly.forward(o)
        fwd = M.oPL(o)
        ly.backward(o)
        back = M.oPL(o)
    except Exception as e:
        return {'kind': 'oracle', 'where': '%s:layer compile / take / run raised %s' % (be, type(e).__name__), 'observed': str(e)[:120], 'expected': 'rows', 'tags': ['layer', be]}
    ref = NP.PL(l)
    for g in gates + ([extra] if extra is not None else []):
        NP.mk_gate(g).forward(ref)
    # (without a fresh compile() the layer may still run its old compiled maps: documented; then only the round trip is claimed)
    if (recompile or extra is None) and fwd != NP.oPL(ref):
        return {'kind': 'oracle', 'where': '%s:a compiled layer that took one more gate does not act as its gates (forward)' % be, 'observed': fwd, 'expected': NP.oPL(ref), 'tags': ['layer', be]}
    if back != [[a[0], a[1] % 4] for a in l]:
        return {'kind': 'oracle', 'where': '%s:layer backward after forward does not restore the operand (compiled, then one more gate)' % be, 'observed': back, 'expected': l, 'tags': ['layer', be]}
    return None


CHECKS = {'layer_roundtrip': c_layer_roundtrip, 'respecify': __import__('props.C09', fromlist=['c_respecify']).c_respecify, 'torch_history': c_torch_history, 'roundtrip': c_roundtrip, 'backward_corr': c_backward_corr, 'maps_corr': c_maps_corr}


def run(ctx):
    ctx.checks = CHECKS
    rng, B = ctx.rng, ctx.budget
    # corpus: witness of the fixed compile-order defect (H(0); CNOT(0,1) on XI)
    wit = [[0, [[0], [2, 0]]], [0, [[0, 1], [2, 5]]]]
    for mode in (0, 1, 2):
        for d in ('fb', 'bf'):
            do(ctx, 'roundtrip', ['CliffordCircuit', 2, wit, [[[1, 0, 0, 0], 0], [[0, 1, 1, 1], 3]], mode, 'list', d], nontrivial=('w', mode, d), sample=(mode == 2))
    do(ctx, 'maps_corr', [2, wit], nontrivial='wm')
    # registers beyond one machine word, gates on the qubits next to the word boundaries
    for N in (65, 66, 130):
        pool = gen.edge_pool(N)
        prog = [[0, gen.rgate(rng, ctx.model, N, kinds=('gen', 'named', 'fwd', 'bwd'), pool=pool)] for _ in range(rng.randint(4, 9))]
        for mode in (0, 1, 2):
            do(ctx, 'roundtrip', ['CliffordCircuit', N, prog, gen.rplist_on(rng, N, 3, pool), mode, 'list', rng.choice(['fb', 'bf'])], nontrivial=('edge', N, mode))
    # LARGE registers: byte, word and cache-line boundaries of every packed or vectorised representation (8, 9, 16, 17, 33, 64, 65 qubits); model correspondence only
    for N in gen.BIG[:5]:
        prog = rprog(rng, ctx.model, N, rng.randint(3, 8))
        for mode in (0, 2):
            do(ctx, 'roundtrip', ['CliffordCircuit', N, prog, gen.rplist(rng, N, 3), mode, 'list', rng.choice(['fb', 'bf'])], nontrivial=('big', N, mode))
        do(ctx, 'roundtrip', ['CliffordCircuit', N, prog, gen.rtableau(rng, ctx.model, N), 2, 'state', 'fb'], nontrivial=('bigs', N))
    for it in range(int(260 * B)):
        N = rng.randint(1, 5)
        L = rng.randint(1, 12 if ctx.tier == 'quick' else 40)
        prog = rprog(rng, ctx.model, N, L)
        cls = rng.choice(['CliffordCircuit', 'Circuit'])
        mode = rng.choice([0, 1, 2])
        d = rng.choice(['fb', 'bf'])
        l = gen.rplist(rng, N, 3)
        nlayers = len(ctx.model.call('circ_layers', mprog(prog)))
        do(ctx, 'roundtrip', [cls, N, prog, l, mode, 'list', d], nontrivial=('r', it) if nlayers >= 2 else None)
        if cls == 'CliffordCircuit':
            do(ctx, 'roundtrip', [cls, N, prog, l, mode, 'list', d, rng.choice(['copy', 'copy2', 'halves'])], nontrivial=('rv', it) if nlayers >= 3 else None)
        do(ctx, 'roundtrip', [cls, N, prog, gen.rtableau(rng, ctx.model, N), mode, 'state', d], nontrivial=('s', it) if nlayers >= 2 else None)
        do(ctx, 'backward_corr', [N, prog, l, mode])
        if it % 3 == 0:
            do(ctx, 'maps_corr', [N, prog], nontrivial=('m', it))
        ctx.res.count('mode%d_%s_%s' % (mode, cls, d))
    for it in range(int(40 * B)):
        N = rng.randint(2, 5)
        qs_ = list(range(N))
        rng.shuffle(qs_)
        cut = rng.randint(1, N - 1)
        mkg = lambda q: [[q], [0, [list(rng.choice([(1, 0), (0, 1), (1, 1)])), rng.choice([0, 2])]]] if rng.random() < 0.6 else [[q], [2, rng.choice([0, 1, 2, 3, 4])]]
        gates = [mkg(q) for q in sorted(qs_[:cut])[:rng.randint(1, cut)]]
        extra = mkg(qs_[cut]) if it % 4 else None
        do(ctx, 'layer_roundtrip', [N, gates, extra, gen.rplist(rng, N, 4), it % 3 == 0, ['np', 'np', 'torch'][it % 3 if it % 2 else 0]], nontrivial=('lr', it))
    # gates whose data is given again -- or whose generator object is updated in place by its owner -- after they were used: backward still undoes forward
    for it in range(int(40 * B)):
        N = rng.randint(1, 4)
        k = rng.randint(1, N)
        qs = sorted(rng.sample(range(N), k))
        full = lambda: [[b for i in range(k) for b in rng.choice([(1, 0), (0, 1), (1, 1)])], rng.choice([0, 2])]
        do(ctx, 'respecify', [N, qs, full(), full(), gen.rplist(rng, N, 4), ['generator_inplace', 'use_then_generator', 'compile_then_generator', 'generator_inplace'][it % 4], ['np', 'np', 'torch'][it % 3 if it % 2 else 0]], nontrivial=('rs', it))
    # the torch port: histories of forward / backward on ONE program object (lazily inverted maps must land in the right slot)
    for it in range(int(70 * B)):
        N = rng.randint(1, 4)
        prog = [[0, gen.rgate(rng, ctx.model, N, kinds=('gen', 'fwd', 'fwd', 'bwd', 'both', 'named'))] for _ in range(rng.randint(1, 5))]
        do(ctx, 'torch_history', [N, prog, gen.rplist(rng, N, 3), rng.choice([0, 0, 1, 2]), rng.choice(['F', 'B', 'FB', 'BF', 'BBF', 'FBBF', 'BFFB']), rng.choice(['never', 'never', 'first', 'compiled', 'used'])], nontrivial=('th', it))
