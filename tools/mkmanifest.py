#!/usr/bin/env python3
"""Regenerate MANIFEST.json from the table below (one place to keep the per-property texts)."""
import json, os
HERE = os.path.dirname(os.path.abspath(__file__))
VERIF = os.path.dirname(HERE)

NOTE = ('Trusted base: Coq 8.16.1 kernel (vm_compute yes, native_compute no); translator tools/translate.py; extraction (ExtrOcamlBasic only) + '
        'ocaml/driver.ml; correspondence harness tools/vlib + dense numpy oracle; numba/numpy/torch runtimes modelled not verified. '
        'Axioms: none (every Print Assumptions reports "Closed under the global context"; see evidence.coverage.assumptions).')

P = {
 'C01': ('Theorems for all N, all strings, all four phases: the returned product is the matrix product in the ket semantics built from the four 2x2 '
         'matrices (act_pmul), the denotation is faithful, acq=1 iff anticommute, associativity, squares, chains of any length; summands re-extracted '
         'from source every run; correspondence np+torch exhaustive N<=2.',
         'Coq proof (induction over sites) + regenerated per-site tables + correspondence', '5/C01'),
 'C02': ('Theorems for all N: rotate = identity on commuting / i*P*G on anticommuting operands, conjugation identities G P G = +-P (the group-algebra content '
         'of U^dagger P U), multiplicativity, inverse by -G, period 4, masked = lifted generator, outside untouched; and as matrices in the ket semantics: V^dagger P V = 2 rotate(P) with V = 1 + iG, V^dagger V = 2 (sequences: 2^K); formula regenerated from source.',
         'Coq proof + regenerated phase formula + correspondence (np, torch) with dense U^dagger P U oracle', '5/C02'),
 'C03': ('Theorems for all N and all valid maps: identity to identity, generators to the listed images, products to products with the exact phase (transform_hom), commutation/Hermiticity/'
         'squares preserved, phases pulled out, masked map = embedded map, rotation map acts as the rotation; a single (scaled) unitary implements every valid map: constructive decomposition into pi/4 rotations, each a conjugation by 1+iG in the ket semantics '
         '(V^dagger V = 2^K, V^dagger P V = 2^K transform(P)).',
         'Coq proof (homomorphism lemma by induction over rows; decomposition of symplectic tables into rotations; matrix-level conjugation) + correspondence with dense ordered-product oracle', '5/C03'),
 'C04': ('Theorems for all N: compose acts as first-then-second, is associative and closed, identity neutral; the inverse exists for every valid map, is valid and two-sided; inverse of a '
         'composition; z2inv as implemented (partial-row Gauss-Jordan) is a two-sided GF(2) inverse and rejects only singular input.',
         'Coq proof (Gauss-Jordan invariants, symplectic right inverse, group axioms) + correspondence exhaustive on 24x24 one-qubit pairs and all 2x2/3x3 matrices', '5/C04'),
 'C05': ('Invariant by induction over histories: for the alphabet of public state-changing operations (rotate, transform, masked variants, gate forward/backward, measure with any coin '
         'schedule, measurement layer, postselect, copy, map round trip) every step preserves tableau_ok, hence every reachable state from every constructor satisfies it; consequences: '
         'commuting Hermitian generators, exactly N-r of them, independence and "-I never a stabilizer" (C06). The density polynomial of every valid tableau has matrix trace 1 and satisfies rho*rho = 2^-r rho entrywise in the ket semantics (Hermitian idempotent up to scale); PARTIAL only in that "Hermitian idempotent => positive" is the cited textbook step.',
         'Coq proof (symplectic pair-update lemma for the scan, invariant lifted over op lists) + lock-step random walks of model and implementation with dense validity checks', '5/C05'),
 'C06': ('Theorems for all N, ranks, signs and both coins: determined case (state unchanged, lp 0, outcome = eigenvalue fixed by the state), undetermined case (expectation 0, outcome = coin, lp -1, '
         '(-1)^out O becomes a stabilizer, rank drops iff no active stabilizer anticommutes), commuting stabilizers survive, repetition returns the same outcome with lp 0, non-degeneracy, '
         'independence, sign uniqueness; the post-measurement stabilizer group is EXACTLY {b, b.(+-O) : b in the old group commuting with O} (both inclusions), unchanged in the determined case. PARTIAL: the step from the group to the matrix P rho P/Tr is compared densely, not formalised.',
         'Coq proof (scan characterisation + non-degeneracy via the inverse map) + correspondence with recovered coins and dense Born/projection oracle', '5/C06'),
 'C07': ('Theorems for all N: expect = +1 iff O in the stabilizer group, -1 iff -O is, 0 iff some stabilizer/standby row anticommutes, and no other value; lists entrywise; polynomial path = phase- and '
         'coefficient-weighted sum; the value computed by the kernel IS Tr(rho O) (sum of diagonal ket amplitudes of the density polynomial times O) for every valid tableau. Overlaps and get_prob: the sequential-projection kernel returns Tr(rho P_1...P_k) for commuting observables on a pure rho, and the overlap the code returns is Tr(rho sigma) (theorems); dense traces for all readouts compared by correspondence.',
         'Coq proof (group membership via spanning/non-degeneracy) + correspondence np+torch with dense Tr(rho O) oracle', '5/C07'),
 'C08': ('Theorems: z2rank as implemented is the dimension of the row space (basis existence + Steinitz), rank depends on the span only; mixed branch = |A|-L+rank(complement) for all N; pure branch = '
         'the same formula for EVERY N (rank-nullity, symplectic complements, maximal isotropy; also enumerated for N<=3); the partial trace of rho over the complement IS the density matrix of a valid stabilizer tableau of log2-rank entropy(A) (theorem in the ket semantics); empty/full region; generator independence. Outside Coq only: -Tr rho log2 rho = r for a flat spectrum on 2^r dimensions.',
         'Coq proof (GF(2) linear algebra for the rank function as implemented; partial trace) + finite enumeration (vm_compute) + correspondence with dense von Neumann entropy oracle', '5/C08'),
 'C12': ('Theorems for all N: to_state = the map applied to |0..0> row by row with signs, both round trips, validity; stabilizer_state on an independent commuting signed list has rank N-L and exactly the '
         'input as active rows in order, rejects anticommuting input; zero/one/random-bit/maximally-mixed constructors ARE |0..0><0..0|, |1..1><1..1|, |b><b|, 2^-N identity entry by entry; random-product states have single-site stabilizers and entropy 0 on every region; GHZ for every N (accepted, pure, valid, rows = the documented list, correlations +1). Dense density matrices and to_qutip compared by correspondence.',
         'Coq proof + correspondence (dense oracle, three input formats) + reused-object histories', '5/C12'),
 'C13': ('PARTIAL by design: proved that every formula/table re-extracted from torchclifford on each run equals its pyclifford twin; control flow of the vectorised kernels tied by the three-way '
         'correspondence numpy == torch == model over the shared surface (enumerated, unmatched names reported). Open port findings listed in known_findings.json.',
         'regenerated-formula equalities in Coq + three-way differential correspondence', '5/C13'),
 'C14': ('Theorems for EVERY program interleaving gates and measurement layers, every state and coin schedule: the layered Circuit computes the instruction-by-instruction trajectory; measurement layers '
         'stay in program order and no gate crosses one; one +-1 result per measured qubit in order; shape and rank bound preserved; one post-selection on a pure state returns 1+<O> (Born) and projects or leaves unchanged accordingly. Backward: pure states stay pure and valid, a layer accepts its own record, and the record of EVERY run is accepted by the backward pass from the final state (theorems); values of backward states compared by correspondence + dense adjoint-trajectory oracle, incl. re-run histories.',
         'Coq proof (segment-wise generalisation of the take lemma) + correspondence with recovered coins and dense trajectory / adjoint oracle', '5/C14'),
 'C15': ('Theorems over exact Gaussian rationals: sums, scalar multiples, negation, products (batch_dot) denote the matrix operations in the ket semantics; numbers add multiples of I; reduce merges exactly, '
         'drops only terms below tolerance, leaves distinct strings with zero phases; trace semantics. trace() phase defect refuted in Coq and reported as known finding. PARTIAL: IEEE rounding not modelled.',
         'Coq proof (ring homomorphism into monomial-matrix semantics) + expression-tree correspondence with dense oracle', '5/C15'),
 'C16': ('Theorems: random_pair is valid and exactly two-to-one for every accepted draw; recursion step; EXACT uniformity of random_clifford over Sp(2,2) (6) and Sp(4,2) (720) by enumeration of all 12 / 2880 '
         'accepted raw draws; for ALL N the whole recursion returns a table with the canonical commutation relations whose first pair is the drawn pair, and is a BIJECTION from accepted draw sequences onto the symplectic tables (exact uniformity for every N given fair bits); entangles. PARTIAL: fairness of the generators and rejection sampling are assumptions; chi-square support.',
         'Coq proof + complete enumeration (vm_compute) + replay of recorded draws through the model', '5/C16'),
 'C17': ('Memory-model theorems (frame rule): a copy with fresh arrays is faithful, shares nothing and stays independent under every history; queries (empty footprint) and in-place operations change '
         'nothing outside the receiver; the copy table regenerated from source shows every array attribute passed fresh and well bound. numpy/torch aliasing semantics are modelled; validated dynamically.',
         'Coq proof over a heap model + source-extracted copy tables + dynamic shares_memory / snapshot validation', '5/C17'),
 'C18': ('Theorems for all N: pauli_diagonalize1 (<=2 rotations) maps every non-identity string to Z on the target qubit and never touches trivial qubits (causality), pauli_diagonalize2 for pairs; the layered circuit diagonalize(Pauli) returns maps the operator to +-Z on the target (causal variant: acts on later qubits only); '
         'signs by C02; the state case: forward of the circuit of diagonalize(state) sends the rows of the state to those of |0..0>, backward re-encodes them. SBRG: the whole loop is modelled over exact Gaussian rationals and proved, for every Hamiltonian, N and tolerance, to return only I/Z strings, a stepwise causal circuit, and on commuting Hamiltonians (exact arithmetic) the input conjugated by the circuit as matrices; the pre-repair loop is refuted in Coq (finding F15, fixed). PARTIAL only for floating-point rounding of coefficients (correspondence: strings, order, circuit exact; coefficients to 1e-9).',
         'Coq proof (case analysis following the code; loop invariants for SBRG) + exhaustive N<=3 correspondence + SBRG model correspondence and dense spectrum oracle', '5/C18'),
 'C19': ('Theorems: sampled operators are group elements with expectation +1; selection -> element injective; binary_repr enumerates; density_matrix lists every group element exactly once; snapshots are valid, are eigenstates of the whole back-evolved basis with the recorded signs, overlap the measured state (Tr = 2^lp 2^-r > 0), and are pure for a pure basis. '
         'PARTIAL: uniformity of randint assumed.',
         'Coq proof + correspondence with re-drawn selection matrices and dense rho', '5/C19'),
 'C09': ('Theorems for EVERY gate program: the layered circuit built by take (sliding through non-overlapping layers) acts as the gates applied one at a time; compose = concatenation; '
         'layer- and circuit-compilation preserve the action; disjoint gates commute; gates are local.',
         'Coq proof (abstract masked-kernel commutation, induction over the layer list) + correspondence over configurations {uncompiled, layer-compiled, circuit-compiled} x {CliffordCircuit, Circuit} x {original, copy, halves}', '5/C09'),
 'C10': ('Theorems for every program of proper gates: backward after forward and forward after backward return every well-formed list, for gates, layers, circuits; the compiled backward '
         'map is the inverse of the compiled forward map and both orders round-trip; circuits built by take satisfy the layer invariant.',
         'Coq proof + correspondence (Pauli lists with all phases, signed mixed states, both orders, compiled and uncompiled)', '5/C10'),
 'C11': ('Finite statements decided by computation over tables regenerated from circuit.py on every run: H,S,X,Y,Z,CNOT (both orientations) equal the textbook conjugation tables, are valid with '
         'two-sided inverses; the 24 C(k) are valid, pairwise different (276 pairs), closed under compose (576) and inverse (24); bad indices / arities rejected; each table is conjugation by the textbook operator as a matrix identity in the ket semantics (X+Z, 1+iZ, X, Y, Z, 1+Z_c+X_t-Z_c X_t; all 24 C(k) as words of length <= 6 in H,S). Placement anywhere is C03 (embed).',
         'vm_compute over the complete finite domain (tables regenerated from source) + correspondence with the textbook 2x2/4x4 unitaries for all placements N<=3', '5/C11'),
 'C20': ('Theorems for all N and all four phases: parse(repr P) = P, parse(tokenize P) = P, letters/codes/dict/prefix forms agree; dispatch, repr and token '
         'tables regenerated from source every run; indexing laws; correspondence np+torch exhaustive N<=3.',
         'Coq proof (loop invariant of pauli()) over regenerated dispatch tables + correspondence', '5/C20'),
}
UNDER_CONSTRUCTION = {}

def main():
    props = [json.loads(l)['id'] for l in open(os.path.join(VERIF, 'properties.jsonl'))]
    checks, na = [], []
    for pid in props:
        if pid in P and os.path.exists(os.path.join(VERIF, 'coq', 'Props', pid + '.v')) and os.path.exists(os.path.join(HERE, 'props', pid + '.py')):
            text, tech, ref = P[pid]
            checks.append({
                'property_id': pid,
                'quick_cmd': './check %s --tier quick' % pid,
                'thorough_cmd': './check %s --tier thorough' % pid,
                'evidence_file': 'evidence/%s.json' % pid,
                'replay_cmd_template': './check %s --replay {path}' % pid,
                'engine': 'coq-model',
                'level_claimed': {'category': 'proof', 'text': text, 'design_ref': 'DESIGN.md section ' + ref},
                'level_note': NOTE,
                'technique': tech,
            })
        else:
            na.append({'property_id': pid, 'reason': UNDER_CONSTRUCTION.get(pid, 'check not yet registered (model/proofs under construction in this session)')})
    m = {
        'version': 1,
        'setup_cmd': './check --setup',
        'hooks': {
            'guard': 'PYCLIFFORD_VERIF',
            'enable': 'no source hooks are needed: checks drive /repo through its public API and kernels from a harness process (PYTHONPATH=/repo); coins of measurements are recovered from outputs',
            'baseline_off_cmd': 'cd /repo && /venv/bin/python -m pytest -ra -q -p no:cacheprovider --timeout=900 --continue-on-collection-errors',
            'source_commits': [],
            'add_only': True,
        },
        'engines': [{'name': 'coq-model', 'path': 'coq/', 'serves_properties': [c['property_id'] for c in checks],
                     'kind_free_text': 'Coq 8.16 model (Model/), lemma library (Proofs/), property theorems (Props/), translator-generated fragments (Gen/), extracted OCaml driver, python correspondence harness'}],
        'checks': checks,
        'not_applicable': na,
        'notes': 'fix: commits in /repo are listed in known_findings.json (status fixed). One entry point: ./check <id> [--tier quick|thorough] [--replay file].',
    }
    json.dump(m, open(os.path.join(VERIF, 'MANIFEST.json'), 'w'), indent=1)
    print('MANIFEST: %d checks, %d not_applicable' % (len(checks), len(na)))

if __name__ == '__main__':
    main()
