#!/usr/bin/env python3
"""Regenerate MANIFEST.json from the table below (one place to keep the per-property texts)."""
import json, os
HERE = os.path.dirname(os.path.abspath(__file__))
VERIF = os.path.dirname(HERE)

NOTE = ('Trusted base: Coq 8.16.1 kernel (vm_compute yes, native_compute no); translator tools/translate.py; extraction (ExtrOcamlBasic only) + '
        'ocaml/driver.ml; correspondence harness tools/vlib + dense numpy oracle; numba/numpy/torch runtimes modelled not verified. '
        'Axioms: none (every Print Assumptions reports "Closed under the global context"; see evidence.coverage.assumptions).')

P = {
 'C01': ('Theorems for all N, all strings, all four phases: the returned product is the matrix product in the ket semantics built from the four 2x2 '
         'matrices (act_pmul), the denotation is faithful, acq=1 iff anticommute, associativity, squares, chains of any length; summands re-extracted '
         'from source every run; correspondence np+torch exhaustive N<=2.',
         'Coq proof (induction over sites) + regenerated per-site tables + correspondence', '5/C01'),
 'C02': ('Theorems for all N: rotate = identity on commuting / i*P*G on anticommuting operands, conjugation identities G P G = +-P (the group-algebra content '
         'of U^dagger P U), multiplicativity, inverse by -G, period 4, masked = lifted generator, outside untouched; formula regenerated from source.',
         'Coq proof + regenerated phase formula + correspondence (np, torch) with dense U^dagger P U oracle', '5/C02'),
 'C03': ('Theorems for all N and all valid maps: identity to identity, generators to the listed images, products to products with the exact phase (transform_hom), commutation/Hermiticity/'
         'squares preserved, phases pulled out, masked map = embedded map, rotation map acts as the rotation. PARTIAL: existence of the implementing unitary is the cited textbook theorem; '
         'proved is the centre-fixing automorphism property.',
         'Coq proof (homomorphism lemma by induction over rows, only associativity and pairwise (anti)commutation) + correspondence with dense ordered-product oracle', '5/C03'),
 'C04': ('Theorems for all N: compose acts as first-then-second, is associative and closed, identity neutral; the inverse exists for every valid map, is valid and two-sided; inverse of a '
         'composition; z2inv as implemented (partial-row Gauss-Jordan) is a two-sided GF(2) inverse and rejects only singular input.',
         'Coq proof (Gauss-Jordan invariants, symplectic right inverse, group axioms) + correspondence exhaustive on 24x24 one-qubit pairs and all 2x2/3x3 matrices', '5/C04'),
 'C09': ('Theorems for EVERY gate program: the layered circuit built by take (sliding through non-overlapping layers) acts as the gates applied one at a time; compose = concatenation; '
         'layer- and circuit-compilation preserve the action; disjoint gates commute; gates are local.',
         'Coq proof (abstract masked-kernel commutation, induction over the layer list) + correspondence over configurations {uncompiled, layer-compiled, circuit-compiled} x {CliffordCircuit, Circuit} x {original, copy, halves}', '5/C09'),
 'C10': ('Theorems for every program of proper gates: backward after forward and forward after backward return every well-formed list, for gates, layers, circuits; the compiled backward '
         'map is the inverse of the compiled forward map and both orders round-trip; circuits built by take satisfy the layer invariant.',
         'Coq proof + correspondence (Pauli lists with all phases, signed mixed states, both orders, compiled and uncompiled)', '5/C10'),
 'C11': ('Finite statements decided by computation over tables regenerated from circuit.py on every run: H,S,X,Y,Z,CNOT (both orientations) equal the textbook conjugation tables, are valid with '
         'two-sided inverses; the 24 C(k) are valid, pairwise different (276 pairs), closed under compose (576) and inverse (24); bad indices / arities rejected. Placement anywhere is C03 (embed).',
         'vm_compute over the complete finite domain (tables regenerated from source) + correspondence with the textbook 2x2/4x4 unitaries for all placements N<=3', '5/C11'),
 'C20': ('Theorems for all N and all four phases: parse(repr P) = P, parse(tokenize P) = P, letters/codes/dict/prefix forms agree; dispatch, repr and token '
         'tables regenerated from source every run; indexing laws; correspondence np+torch exhaustive N<=3.',
         'Coq proof (loop invariant of pauli()) over regenerated dispatch tables + correspondence', '5/C20'),
}
UNDER_CONSTRUCTION = {}

def main():
    props = [json.loads(l)['id'] for l in open(os.path.join(VERIF, 'properties.jsonl'))]
    checks, na = [], []
    for pid in props:
        if pid in P and os.path.exists(os.path.join(VERIF, 'coq', 'Props', pid + '.v')) and os.path.exists(os.path.join(HERE, 'props', pid + '.py')):
            text, tech, ref = P[pid]
            checks.append({
                'property_id': pid,
                'quick_cmd': './check %s --tier quick' % pid,
                'thorough_cmd': './check %s --tier thorough' % pid,
                'evidence_file': 'evidence/%s.json' % pid,
                'replay_cmd_template': './check %s --replay {path}' % pid,
                'engine': 'coq-model',
                'level_claimed': {'category': 'proof', 'text': text, 'design_ref': 'DESIGN.md section ' + ref},
                'level_note': NOTE,
                'technique': tech,
            })
        else:
            na.append({'property_id': pid, 'reason': UNDER_CONSTRUCTION.get(pid, 'check not yet registered (model/proofs under construction in this session)')})
    m = {
        'version': 1,
        'setup_cmd': './check --setup',
        'hooks': {
            'guard': 'PYCLIFFORD_VERIF',
            'enable': 'no source hooks are needed: checks drive /repo through its public API and kernels from a harness process (PYTHONPATH=/repo); coins of measurements are recovered from outputs',
            'baseline_off_cmd': 'cd /repo && /venv/bin/python -m pytest -ra -q -p no:cacheprovider --timeout=900 --continue-on-collection-errors',
            'source_commits': [],
            'add_only': True,
        },
        'engines': [{'name': 'coq-model', 'path': 'coq/', 'serves_properties': [c['property_id'] for c in checks],
                     'kind_free_text': 'Coq 8.16 model (Model/), lemma library (Proofs/), property theorems (Props/), translator-generated fragments (Gen/), extracted OCaml driver, python correspondence harness'}],
        'checks': checks,
        'not_applicable': na,
        'notes': 'fix: commits in /repo are listed in known_findings.json (status fixed). One entry point: ./check <id> [--tier quick|thorough] [--replay file].',
    }
    json.dump(m, open(os.path.join(VERIF, 'MANIFEST.json'), 'w'), indent=1)
    print('MANIFEST: %d checks, %d not_applicable' % (len(checks), len(na)))

if __name__ == '__main__':
    main()
