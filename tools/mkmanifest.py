#!/usr/bin/env python3
"""Regenerate MANIFEST.json from the table below (one place to keep the per-property texts)."""
import json, os
HERE = os.path.dirname(os.path.abspath(__file__))
VERIF = os.path.dirname(HERE)

NOTE = ('Trusted base: Coq 8.16.1 kernel (vm_compute yes, native_compute no); translator tools/translate.py; extraction (ExtrOcamlBasic only) + '
        'ocaml/driver.ml; correspondence harness tools/vlib + dense numpy oracle; numba/numpy/torch runtimes modelled not verified. '
        'Axioms: none (every Print Assumptions reports "Closed under the global context"; see evidence.coverage.assumptions).')

P = {
 'C01': ('Theorems for all N, all strings, all four phases: the returned product is the matrix product in the ket semantics built from the four 2x2 '
         'matrices (act_pmul), the denotation is faithful, acq=1 iff anticommute, associativity, squares, chains of any length; summands re-extracted '
         'from source every run; correspondence np+torch exhaustive N<=2.',
         'Coq proof (induction over sites) + regenerated per-site tables + correspondence', '5/C01'),
 'C02': ('Theorems for all N: rotate = identity on commuting / i*P*G on anticommuting operands, conjugation identities G P G = +-P (the group-algebra content '
         'of U^dagger P U), multiplicativity, inverse by -G, period 4, masked = lifted generator, outside untouched; formula regenerated from source.',
         'Coq proof + regenerated phase formula + correspondence (np, torch) with dense U^dagger P U oracle', '5/C02'),
 'C20': ('Theorems for all N and all four phases: parse(repr P) = P, parse(tokenize P) = P, letters/codes/dict/prefix forms agree; dispatch, repr and token '
         'tables regenerated from source every run; indexing laws; correspondence np+torch exhaustive N<=3.',
         'Coq proof (loop invariant of pauli()) over regenerated dispatch tables + correspondence', '5/C20'),
}
UNDER_CONSTRUCTION = {}

def main():
    props = [json.loads(l)['id'] for l in open(os.path.join(VERIF, 'properties.jsonl'))]
    checks, na = [], []
    for pid in props:
        if pid in P and os.path.exists(os.path.join(VERIF, 'coq', 'Props', pid + '.v')) and os.path.exists(os.path.join(HERE, 'props', pid + '.py')):
            text, tech, ref = P[pid]
            checks.append({
                'property_id': pid,
                'quick_cmd': './check %s --tier quick' % pid,
                'thorough_cmd': './check %s --tier thorough' % pid,
                'evidence_file': 'evidence/%s.json' % pid,
                'replay_cmd_template': './check %s --replay {path}' % pid,
                'engine': 'coq-model',
                'level_claimed': {'category': 'proof', 'text': text, 'design_ref': 'DESIGN.md section ' + ref},
                'level_note': NOTE,
                'technique': tech,
            })
        else:
            na.append({'property_id': pid, 'reason': UNDER_CONSTRUCTION.get(pid, 'check not yet registered (model/proofs under construction in this session)')})
    m = {
        'version': 1,
        'setup_cmd': './check --setup',
        'hooks': {
            'guard': 'PYCLIFFORD_VERIF',
            'enable': 'no source hooks are needed: checks drive /repo through its public API and kernels from a harness process (PYTHONPATH=/repo); coins of measurements are recovered from outputs',
            'baseline_off_cmd': 'cd /repo && /venv/bin/python -m pytest -ra -q -p no:cacheprovider --timeout=900 --continue-on-collection-errors',
            'source_commits': [],
            'add_only': True,
        },
        'engines': [{'name': 'coq-model', 'path': 'coq/', 'serves_properties': [c['property_id'] for c in checks],
                     'kind_free_text': 'Coq 8.16 model (Model/), lemma library (Proofs/), property theorems (Props/), translator-generated fragments (Gen/), extracted OCaml driver, python correspondence harness'}],
        'checks': checks,
        'not_applicable': na,
        'notes': 'fix: commits in /repo are listed in known_findings.json (status fixed). One entry point: ./check <id> [--tier quick|thorough] [--replay file].',
    }
    json.dump(m, open(os.path.join(VERIF, 'MANIFEST.json'), 'w'), indent=1)
    print('MANIFEST: %d checks, %d not_applicable' % (len(checks), len(na)))

if __name__ == '__main__':
    main()
