#!/venv/bin/python
"""Entry point of every check:  check.py <Cxx> [--tier quick|thorough] [--replay file]   |   check.py --setup

Per check: (1) re-run the translator on /repo's working tree, (2) rebuild the Coq model / driver if needed,
(3) compile the property file (fresh Print Assumptions), (4) run the corpus and the tier's correspondence and
oracle domain, (5) on any break search for a concrete failing input and print the VIOLATION line,
(6) write evidence/<id>.json."""
import sys, os, json, time, argparse, importlib, random, hashlib, traceback
os.environ.setdefault('PYTHONHASHSEED', '0')
HERE = os.path.dirname(os.path.abspath(__file__))
sys.path.insert(0, HERE)
REPO = os.environ.get('VERIF_REPO', '/repo')
sys.path.insert(0, REPO)
from vlib import core

VERIF = core.VERIF

TRUSTED = [
    'Coq 8.16.1 kernel (coqc; vm_compute used for finite obligations and witnesses; native_compute not used)',
    'translator tools/translate.py (Python ast -> Gen/*.v) and the identification of Python int % // with Coq Z.modulo Z.div',
    'extraction (ExtrOcamlBasic only; no Extract Constant; Extract Inductive for bool,list,prod,option,unit,sumbool,sumor as that file declares), OCaml 4.13.1, ocaml/driver.ml',
    'correspondence harness tools/vlib (generators, canonical forms, coin recovery) and the dense numpy oracle tools/vlib/dense.py',
    'numba/numpy/torch runtimes are modelled, not verified',
]


def setup():
    t0 = time.time()
    with core.BuildLock():
        rc, out, st = core.translate()
        print(out)
        core.coq_makefile()
        ok, log = core.make_targets([], keep_going=True)
        print(log[-3000:])
        drv, dlog = core.build_model()
        print(dlog[-2000:])
    print('setup: coq build %s, driver %s, %.0fs' % ('ok' if ok else 'FAILED', drv, time.time() - t0))
    return 0 if (ok and drv) else 1


class Ctx:
    pass


def write_replay(pid, payload):
    os.makedirs(os.path.join(VERIF, 'replays'), exist_ok=True)
    h = hashlib.sha256(json.dumps(payload, sort_keys=True, default=str).encode()).hexdigest()[:12]
    p = os.path.join(VERIF, 'replays', '%s-%s.json' % (pid, h))
    json.dump(core.jsonable(payload), open(p, 'w'), indent=1)
    return p


def match_finding(pid, failure, findings):
    for f in findings:
        if f.get('property') != pid or f.get('status') != 'open':
            continue
        sig = f.get('signature', {})
        if sig.get('check') and sig['check'] != failure.get('check'):
            continue
        tags = set(failure.get('tags', []))
        if sig.get('tags_all') and not set(sig['tags_all']) <= tags:
            continue
        if sig.get('tags_none') and set(sig['tags_none']) & tags:
            continue
        return f
    return None


def main():
    ap = argparse.ArgumentParser()
    ap.add_argument('pid', nargs='?')
    ap.add_argument('--tier', default=os.environ.get('VERIF_TIER', 'quick'))
    ap.add_argument('--replay')
    ap.add_argument('--setup', action='store_true')
    ap.add_argument('--worker', help='internal: run the domain of one extra seed and dump the outcome to this file')
    a = ap.parse_args()
    if a.setup:
        sys.exit(setup())
    pid = a.pid
    tier = a.tier if a.tier in ('quick', 'thorough') else 'quick'
    seed = int(os.environ.get('VERIF_SEED', '0') or 0)
    t0 = time.time()
    mod = importlib.import_module('props.' + pid)

    if a.worker:
        # the parent holds everything built; only locate the driver
        import glob
        ds = glob.glob(os.path.join(core.BUILD, 'driver-*'))
        driver, dlog, tstatus, tout, props, forb, chk = (ds[0] if ds else None), 'worker', {}, '', {'ok': True, 'theorems': [], 'assumptions': {}}, [], None
    with core.BuildLock() if not a.worker else open(os.devnull) as _:
      if not a.worker:
        trc, tout, tstatus = core.translate()
        driver, dlog = core.build_model()
        props = core.check_props(pid)
        forb = core.forbidden_scan()
        chk = None
        if tier == 'thorough' and props['ok']:
            chk = core.coqchk(pid)
            if not chk[0]:
                props['ok'] = False
                props['failed_at'] = 'coqchk rejected Props/%s.vo' % pid
                props['error'] = chk[2]
    print('[%s] %s' % (pid, tout))
    print('[%s] model: %s' % (pid, dlog.strip().split('\n')[-1][:200]))
    frozen = {k: v['status'] for k, v in tstatus.items() if v['status'] != 'translated'}

    res = core.Result(pid, tier, seed)
    ctx = Ctx()
    ctx.pid, ctx.tier, ctx.seed, ctx.res = pid, tier, seed, res
    ctx.rng = random.Random(seed * 1000003 + int(pid[1:]))
    ctx.model = core.Model(driver) if driver else None
    ctx.search = False
    ctx.is_worker = bool(a.worker)      # fixed-seed statistical checks are not repeated by the thorough tier's seed workers
    ctx.budget = 1.0 if tier == 'quick' else float(os.environ.get('VERIF_THOROUGH_FACTOR', '12'))
    ctx.translator = tstatus
    # source watch: definitions whose syntax tree is not the one the hand-written control flow of the model was validated against -> explore more (no alarm by itself)
    from vlib import srcwatch
    src_changed = [] if a.worker else (srcwatch.changed(REPO) or [])
    if src_changed and not a.replay:
        print('[%s] source watch: %d definition(s) differ from the validated source (%s%s): larger budget and a second pass' % (pid, len(src_changed), ', '.join(src_changed[:4]), ' ...' if len(src_changed) > 4 else ''))
        ctx.budget = max(ctx.budget, float(os.environ.get('VERIF_CHANGED_FACTOR', '3')))

    # ---- worker mode (thorough tier fans out over seeds; no build steps, no evidence)
    if a.worker:
        try:
            mod.run(ctx)
            err = None
        except Exception:
            err = traceback.format_exc()
        json.dump(core.jsonable({'seed': seed, 'evaluations': res.evaluations, 'nontrivial': len(res.nontrivial), 'failures': res.failures[:50],
                                 'dist': res.dist, 'error': err, 'model_calls': ctx.model.calls if ctx.model else 0}), open(a.worker, 'w'))
        if ctx.model:
            ctx.model.close()
        sys.exit(0)

    # ---- replay mode
    if a.replay:
        rp = json.load(open(a.replay))
        ok = True
        for c in rp.get('cases', []):
            fn = mod.CHECKS[c['check']]
            r = fn(ctx, c['args'])
            print('replay %s: %s' % (c['check'], 'holds' if r is None else 'FAILS ' + json.dumps(core.jsonable(r))[:800]))
            ok = ok and r is None
        sys.exit(0 if ok else 1)

    harness_error = None
    if ctx.model is None:
        res.notes['model'] = 'the model no longer compiles: ' + dlog[-1200:]
    try:
        mod.run(ctx)
    except Exception as e:
        harness_error = traceback.format_exc()
        print(harness_error)

    if src_changed and harness_error is None and not res.failures and tier == 'quick' and time.time() - t0 < float(os.environ.get('VERIF_SECOND_PASS_WITHIN', '300')):
        ctx.rng = random.Random(seed * 104729 + 31 + int(pid[1:]))
        try:
            mod.run(ctx)
        except Exception as e:
            harness_error = traceback.format_exc()
            print(harness_error)
    # ---- thorough: the same domain under further seeds, in parallel processes
    fan = None
    nworkers = int(os.environ.get('VERIF_THOROUGH_WORKERS', '6')) if tier == 'thorough' else 0
    if nworkers and ctx.model is not None and harness_error is None:
        import subprocess, tempfile
        tmpd = tempfile.mkdtemp(prefix='verif_fan_')
        procs = []
        for w in range(nworkers):
            env = dict(os.environ, VERIF_SEED=str(seed * 1000 + 101 + w))
            out = os.path.join(tmpd, 'w%d.json' % w)
            procs.append((out, subprocess.Popen([sys.executable, os.path.abspath(__file__), pid, '--tier', 'thorough', '--worker', out], env=env,
                                                stdout=subprocess.DEVNULL, stderr=subprocess.DEVNULL)))
        fan = {'workers': nworkers, 'seeds': [], 'evaluations': 0, 'nontrivial': 0, 'failures': 0, 'errors': 0}
        for out, pr in procs:
            pr.wait()
            try:
                w = json.load(open(out))
            except Exception:
                fan['errors'] += 1
                harness_error = harness_error or 'a thorough-tier worker produced no result (%s)' % out
                continue
            fan['seeds'].append(w['seed'])
            fan['evaluations'] += w['evaluations']
            fan['nontrivial'] += w['nontrivial']
            fan['failures'] += len(w['failures'])
            if w.get('error'):
                fan['errors'] += 1
                harness_error = harness_error or w['error']
            for f in w['failures']:
                f['seed'] = w['seed']
                res.fail(**f)
        import shutil
        shutil.rmtree(tmpd, ignore_errors=True)

    golden = None
    if tier == 'thorough' and ctx.model is not None:
        with core.BuildLock():
            golden = core.golden_cases(pid, ctx.model.log)
        if not golden[0]:
            res.fail(kind='corr', check='golden', where='extracted driver vs in-Coq evaluation (vm_compute) of the same calls', observed=golden[2], expected='0 mismatches', args=[])
    # ---- decide
    findings = core.load_findings()
    obligations = len(props['theorems'])
    discharged = obligations if props['ok'] else 0
    proof_broken = (not props['ok']) or bool(forb)
    known_lines, unknown = [], []
    for f in res.failures:
        kf = match_finding(pid, f, findings)
        if kf is not None:
            known_lines.append((kf, f))
        else:
            unknown.append(f)
    broken = proof_broken or bool(unknown) or harness_error is not None or ctx.model is None

    violations = 0
    replay_path = None
    if broken:
        # search for a concrete failing input of the property itself (oracle-kind failures)
        concrete = [f for f in unknown if f.get('kind') == 'oracle']
        if not concrete and hasattr(mod, 'run'):
            ctx.search = True
            ctx.budget = max(ctx.budget, 6.0)
            res2 = core.Result(pid, tier, seed)
            ctx.res = res2
            ctx.rng = random.Random(seed * 7919 + 17)
            try:
                mod.run(ctx)
            except Exception:
                print(traceback.format_exc())
            for f in res2.failures:
                if f.get('kind') == 'oracle' and match_finding(pid, f, findings) is None:
                    concrete.append(f)
            ctx.res = res
        what = []
        if not props['ok']:
            what.append({'broken': 'proof obligation', 'where': props.get('failed_at'), 'error': props.get('error')})
        if forb:
            what.append({'broken': 'forbidden construct in the development', 'where': forb})
        if ctx.model is None:
            what.append({'broken': 'model does not compile against the regenerated fragments', 'log': dlog[-1500:]})
        if harness_error:
            what.append({'broken': 'harness exception', 'trace': harness_error[-2000:]})
        corr = [f for f in unknown if f.get('kind') != 'oracle']
        if corr:
            what.append({'broken': 'correspondence model<->implementation', 'first': corr[:3]})
        payload = {'property': pid, 'tier': tier, 'seed': seed, 'no_longer_checks': what,
                   'cases': [{'check': f.get('check'), 'args': f.get('args'), 'observed': f.get('observed'),
                              'expected': f.get('expected'), 'kind': f.get('kind'), 'where': f.get('where')} for f in (concrete[:5] or unknown[:5])],
                   'rerun': './check %s --replay <this file>' % pid}
        replay_path = write_replay(pid, payload)
        violations = 1
        suffix = '' if concrete else ' no-failing-input-found'
        print('VIOLATION property=%s replay=%s%s' % (pid, replay_path, suffix))
    seen = set()
    for kf, f in known_lines:
        if kf['id'] in seen:
            continue
        seen.add(kf['id'])
        print('KNOWN-FINDING: property=%s %s %s' % (pid, kf['id'], kf['what']))

    # ---- evidence
    ev = {
        'property_id': pid, 'tier': tier, 'seed': seed, 'level': 'proof',
        'coverage': {
            'obligations': obligations, 'discharged': discharged,
            'checker_cmd': 'cd /verif/coq && make (Proofs) && coqc -Q . PC Props/%s.v' % pid,
            'trusted_base': TRUSTED,
            'theorems': props['theorems'], 'assumptions': props['assumptions'],
            'evaluations': res.evaluations, 'distinct_nontrivial': len(res.nontrivial),
            'rule': getattr(mod, 'RULE', ''), 'samples': core.jsonable(res.samples) or [getattr(mod, 'RULE', 'n/a')],
            'exhaustive': bool(res.exhaustive),
            'distribution': res.dist, 'notes': core.jsonable(res.notes),
            'translator': {k: v['status'] for k, v in tstatus.items()},
            'translator_frozen': frozen,
            'source_watch': {'definitions_differing_from_validated_source': src_changed, 'effect': 'larger budget and a second pass' if src_changed else 'none'},
            'model_calls': ctx.model.calls if ctx.model else 0,
            'further_seeds': fan if fan else 'not run in the quick tier',
            'known_findings_seen': sorted(seen),
            'extraction_cross_check': ({'cases_evaluated_in_coq': golden[1], 'agree': golden[0]} if golden else 'not run in the quick tier'),
            'coqchk': ({'accepted': chk[0], 'axioms': chk[1]} if chk else 'not run in the quick tier'),
            'proof_status': 'all obligations discharged' if props['ok'] else 'BROKEN at %s' % props.get('failed_at'),
        },
        'assumptions': getattr(mod, 'ASSUMES', []),
        'wall_s': round(time.time() - t0, 2),
        'violations': violations,
    }
    if not (obligations >= 1 and discharged >= 1):
        # the proof-level keys are only claimed when obligations are really discharged; otherwise the generic counts stand alone
        ev['coverage']['obligations_stated'] = ev['coverage'].pop('obligations')
        ev['coverage']['obligations_discharged'] = ev['coverage'].pop('discharged')
    os.makedirs(os.path.join(VERIF, 'evidence'), exist_ok=True)
    json.dump(ev, open(os.path.join(VERIF, 'evidence', pid + '.json'), 'w'), indent=1)
    if ctx.model:
        ctx.model.close()
    print('[%s] tier=%s obligations=%d discharged=%d evaluations=%d nontrivial=%d failures=%d known=%d wall=%.1fs%s'
          % (pid, tier, obligations, discharged, res.evaluations, len(res.nontrivial), len(unknown), len(known_lines), time.time() - t0,
             (' further_seeds=%d (+%d evaluations)' % (len(fan['seeds']), fan['evaluations'])) if fan else ''))
    sys.exit(1 if violations else 0)


if __name__ == '__main__':
    main()
