"""Adapter: runs pyclifford (numpy/numba) on plain python values and returns plain python values
in the same shape as the Coq model's dispatcher (Model/Dispatch.v).  One function per model op."""
import numpy as np
import warnings
warnings.filterwarnings('ignore')
import pyclifford as pc
from pyclifford import utils as U, paulialg as PA, stabilizer as ST, circuit as CI
from .core import Err

I_ = np.int_


def A(x, dtype=I_):
    return np.array(x, dtype=dtype)


def G(g):
    return np.array(g, dtype=I_).reshape(-1)


LAYOUT = 'c'        # memory layout of the 2-d arrays handed to the library: 'c' | 'strided' | 'fortran' | 'colslice'


MASKFORM = 'array'  # how boolean qubit masks are handed over: 'array' (numpy bool) | 'pylist' (list of bool) | 'nplist' (list of numpy.bool_)


def set_layout(name):
    """memory layout of the operands; the form of mask arguments varies along with it (strided -> Python list, fortran -> list of numpy.bool_)"""
    global LAYOUT, MASKFORM
    LAYOUT = name or 'c'
    MASKFORM = {'strided': 'pylist', 'fortran': 'nplist'}.get(LAYOUT, 'array')


def _maskform(a):
    if MASKFORM == 'pylist':
        return [bool(b) for b in a]
    if MASKFORM == 'nplist':
        return [np.bool_(b) for b in a]
    return a


def _lay(a):
    """same values, different (legitimate) numpy memory layout: views like lst[::2], z2inv's column slice, Fortran order"""
    if LAYOUT == 'c' or a.ndim != 2 or a.size == 0:
        return a
    if LAYOUT == 'strided':
        big = np.zeros((2 * a.shape[0], a.shape[1]), dtype=a.dtype)
        big[::2] = a
        return big[::2]
    if LAYOUT == 'fortran':
        return np.asfortranarray(a)
    if LAYOUT == 'colslice':
        big = np.zeros((a.shape[0], a.shape[1] + 3), dtype=a.dtype)
        big[:, :a.shape[1]] = a
        return big[:, :a.shape[1]]
    return a


def GS(gs, width=None):
    a = np.array(gs, dtype=I_)
    if a.size == 0:
        a = a.reshape(0, width if width is not None else 0)
    return _lay(a)


ROUTES = [True]        # objects are built through the library's own constructors as often as from raw arrays (see _route)


def _route(vals):
    """0: raw arrays; 1: the library's constructor (pauli / paulis from printed strings, CliffordMap.to_state for states) -- chosen by the content, so a replay takes the same route"""
    if not ROUTES[0]:
        return 0
    def tot(v):
        return sum(tot(x) for x in v) if isinstance(v, (list, tuple)) else int(v)
    return 1 if tot(vals) % 3 == 1 else 0


def _valid_rows(l):
    """rows of a valid Clifford map (Hermitian phases, canonical commutation relations): only then does transforming the identity reproduce them"""
    n2 = len(l)
    if any(int(a[1]) % 2 for a in l):
        return False
    for i in range(n2):
        for j in range(n2):
            acq = sum(int(l[i][0][2 * q + 1]) * int(l[j][0][2 * q]) - int(l[i][0][2 * q]) * int(l[j][0][2 * q + 1]) for q in range(n2 // 2)) % 2
            if acq != (1 if (i // 2 == j // 2 and i != j) else 0):
                return False
    return True


def _pstr(a):
    return {0: '', 1: 'i', 2: '-', 3: '-i'}[int(a[1]) % 4] + ''.join('IXZY'[int(x) + 2 * int(z)] for x, z in zip(a[0][0::2], a[0][1::2]))


def P(a):
    if len(a[0]) >= 2 and _route(a) == 1:
        return _reg(PA.pauli(_pstr(a)), 'P', [[int(v) for v in a[0]], int(a[1])])
    return _reg(PA.Pauli(G(a[0]), int(a[1])), 'P', [[int(v) for v in a[0]], int(a[1])])


def PL(l, width=None):
    if len(l) >= 1 and len(l[0][0]) >= 2 and _route(l) == 1:
        return _reg(PA.paulis([_pstr(a) for a in l]), 'PL', [[[int(v) for v in a[0]], int(a[1])] for a in l])
    gs = GS([a[0] for a in l], width)
    ps = np.array([a[1] for a in l], dtype=I_)
    return _reg(PA.PauliList(gs, ps), 'PL', [[[int(v) for v in a[0]], int(a[1])] for a in l])


def CM(l):
    if len(l) >= 2 and len(l) % 2 == 0 and len(l[0][0]) == len(l) and _route(l) == 1 and _valid_rows(l):
        # the library's own way to a map: identity_map(N) updated IN PLACE (transforming the identity rows by a map gives that map's rows)
        ROUTES[0] = False
        try:
            m = ST.identity_map(len(l) // 2)
            m.transform_by(CM(l))
        finally:
            ROUTES[0] = True
        return _reg(m, 'PL', [[[int(v) for v in a[0]], int(a[1])] for a in l])
    gs = GS([a[0] for a in l])
    ps = np.array([a[1] for a in l], dtype=I_)
    return _reg(ST.CliffordMap(gs, ps), 'PL', [[[int(v) for v in a[0]], int(a[1])] for a in l])


def STATE(t):
    rows, r = t
    n_ = len(rows) // 2
    if n_ >= 1 and len(rows) == 2 * n_ and _route(t) == 1:
        m = [None] * (2 * n_)
        m[0::2], m[1::2] = rows[n_:], rows[:n_]
        ROUTES[0] = False
        try:
            st = CM(m).to_state(int(r))
        finally:
            ROUTES[0] = True
        return _reg(st, 'ST', [[[[int(v) for v in a[0]], int(a[1])] for a in rows], int(r)])
    gs = GS([a[0] for a in rows])
    ps = np.array([a[1] for a in rows], dtype=I_)
    if ROUTES[0] and (len(rows) + int(r)) % 3 == 0:
        # the documented low-level constructor takes the rank itself, by position or by keyword
        st_ = ST.StabilizerState(gs, int(r), ps=ps) if (len(rows) + int(r)) % 2 == 0 else ST.StabilizerState(gs=gs, ps=ps, r=int(r))
        return _reg(st_, 'ST', [[[[int(v) for v in a[0]], int(a[1])] for a in rows], int(r)])
    return _reg(ST.StabilizerState(gs, ps=ps).set_r(int(r)), 'ST', [[[[int(v) for v in a[0]], int(a[1])] for a in rows], int(r)])


def oP(p):
    return [[int(v) for v in p.g], int(p.p) if not hasattr(p.p, 'item') else int(p.p.item())]


def oPL(l):
    return [[[int(v) for v in g], int(p)] for g, p in zip(l.gs, l.ps)]


def oST(s):
    return [oPL(s), int(s.r)]


def MASK(m):
    return None if m is None else _maskform(np.array(m, dtype=np.bool_))


def optmask(m):
    """model encoding of option mask: None or Some(list)"""
    from .core import Some
    if m is None:
        return None
    if isinstance(m, Some):
        return _maskform(np.array(m.v, dtype=np.bool_))
    return _maskform(np.array(m, dtype=np.bool_))


# ---- argument watch: every object the adapter builds from plain values during one op call is remembered; when the call returns, all of them except the
# designated receivers (RCV) of in-place methods must still hold exactly the values they were built from.  Violations are queued in MUT_EVENTS and turned
# into oracle failures by vlib.run.do ("an operation modified its argument").
_BUILT = []
MUT_EVENTS = []


def _reg(obj, kind, desc):
    _BUILT.append([obj, kind, desc, False])
    return obj


def RCV(obj):
    """the receiver of an in-place method: allowed to change"""
    for e in _BUILT:
        if e[0] is obj:
            e[3] = True
    return obj


def _current(obj, kind):
    if kind == 'P':
        return oP(obj)
    if kind == 'ST':
        return oST(obj)
    return oPL(obj)


def _watch_begin():
    del _BUILT[:]


def _watch_end(opname):
    for obj, kind, desc, rcv in _BUILT:
        if rcv:
            continue
        try:
            now = _current(obj, kind)
        except Exception as e:      # the object no longer holds integer bits / phases
            now = 'unreadable: %s' % type(e).__name__
        if now != desc:
            MUT_EVENTS.append({'op': opname, 'kind': kind, 'before': desc, 'after': now})
    del _BUILT[:]


def guard(f, name='?'):
    def w(*a):
        _watch_begin()
        try:
            r = f(*a)
            _watch_end(name)
            return r
        except (ValueError, AssertionError, NotImplementedError, TypeError, IndexError, Exception) as e:   # noqa
            return Err(1)
    return w


# ---------------------------------------------------------------- gates
def GEN(a, text_ok=False):
    """a rotation generator in one of its equivalent forms: the Pauli object, the PauliMonomial with coefficient 1 (what poly[k] or .as_monomial() hand out), or -- where the
    callee parses its argument -- the printed text; chosen by the content"""
    form = (sum(int(b) for b in a[0]) + 2 * int(a[1]) + len(a[0])) % (4 if text_ok else 3)
    if form == 1 and len(a[0]) >= 2:
        ROUTES[0] = False
        try:
            return P(a).as_monomial()
        finally:
            ROUTES[0] = True
    if form == 3 and len(a[0]) >= 2:
        return _pstr(a)
    return P(a)


def _ctor_route(qs, gen_):
    """a rotation gate is as often built by the library's own constructor as by hand: when the generator is non-trivial on every declared qubit (so that its support IS the
    declared qubits, in ascending order) a third of the gates go through clifford_rotation_gate(full-width generator) and a third through
    clifford_rotation_gate(generator, qubits); the rest set .generator directly"""
    qs = [int(q) for q in qs]
    g, p = gen_
    k = len(qs)
    if k == 0 or len(g) != 2 * k or qs != sorted(qs) or any(not (g[2 * i] or g[2 * i + 1]) for i in range(k)):
        return None
    route = (sum(qs) + 3 * int(p) + sum(int(b) for b in g)) % 3
    if route == 0:
        W = qs[-1] + 1
        full = [0] * (2 * W)
        for i, q in enumerate(qs):
            full[2 * q], full[2 * q + 1] = int(g[2 * i]), int(g[2 * i + 1])
        return CI.clifford_rotation_gate(GEN([full, p], text_ok=True))
    if route == 1:
        import numpy as _np
        return CI.clifford_rotation_gate(GEN([list(g), p], text_ok=True), _np.array(qs))
    return None


def mk_gate(spec):
    """spec = [qubits, [0, gen]] | [qubits, [1, optfwd, optbwd]] | [qubits, [2, name]]"""
    from .core import Some
    qs, k = spec
    qs = [int(q) for q in qs]
    if (sum(qs) + len(qs)) % 2 == 1:
        qs = [np.int64(q) for q in qs]        # qubit labels arrive as numpy integers as often as Python ints (numpy.arange in the library's own callers)
    if k[0] == 0:
        via = _ctor_route(qs, k[1])
        if via is not None:
            return via
        g = CI.CliffordGate(*qs)
        g.generator = P(k[1])
        return g
    if k[0] == 1:
        g = CI.CliffordGate(*qs)
        f, b = k[1], k[2]
        if f is not None:
            g.set_forward_map(CM(f.v if isinstance(f, Some) else f))
        if b is not None:
            g.set_backward_map(CM(b.v if isinstance(b, Some) else b))
        return g
    if k[0] == 2:
        nm = int(k[1])
        if nm >= 100:
            return CI.C(nm - 100, *qs)
        return [CI.H, CI.S, CI.X, CI.Y, CI.Z, CI.CNOT][nm](*qs)
    raise ValueError('gate spec')


def build_circuit(n, prog, cls='CliffordCircuit'):
    c = CI.CliffordCircuit(n) if cls == 'CliffordCircuit' else CI.Circuit(n)
    for ins in prog:
        if ins[0] == 0:
            c.take(mk_gate(ins[1]))
        else:
            c.measure(*[int(q) for q in ins[1]])
    return c


def layers_shape(c):
    out = []
    for layer in c.layers_forward():
        if isinstance(layer, CI.MeasureLayer):
            out.append([1, [int(q) for q in layer.qubits]])
        else:
            out.append([0, [[int(q) for q in g.qubits] for g in layer.gates]])
    return out


def set_coins(coins):
    """Force the coins of stabilizer_measure: numba's generator cannot be scripted, so the kernel is
    re-run under different seeds until its realised coin sequence starts with [coins] (see measure_with_coins)."""
    raise NotImplementedError


@__import__('numba').njit
def _seed(s):
    np.random.seed(s)


def seed_numba(s):
    _seed(int(s) % (2 ** 31))
    np.random.seed(int(s) % (2 ** 31))


def measure_raw(t, obs):
    """run StabilizerState.measure; return (state, outs, lp)"""
    s = RCV(STATE(t))
    o = PL(obs, width=s.gs.shape[1])
    out, lp = s.measure(o)
    return s, [int(v) for v in out], lp


OPS = {}


def op(name):
    def d(f):
        OPS[name] = guard(f, name)
        return f
    return d


@op('acq')
def _(a, b): return int(U.acq(G(a), G(b)))
@op('ipow')
def _(a, b): return int(U.ipow(G(a), G(b)))
@op('p0')
def _(a): return int(U.p0(G(a)))
@op('acq_mat')
def _(gs): return U.acq_mat(GS(gs)).tolist()
@op('pmul')
def _(a, b): return oP(P(a) @ P(b))
@op('pmul_chain')
def _(l):
    acc = P(l[0])
    for x in l[1:]:
        acc = acc @ P(x)
    return oP(acc)
@op('batch_mul')
def _(l1, l2):
    a, b = PL(l1), PL(l2)
    gs, ps, cs = U.batch_dot(a.gs, a.ps, np.ones(len(l1), dtype=np.complex128), b.gs, b.ps, np.ones(len(l2), dtype=np.complex128))
    return [[[int(v) for v in g], int(p)] for g, p in zip(gs, ps)]
@op('prmul')
def _(c, a): return oP([1, 1j, -1, -1j][c] * P(a))
@op('pneg')
def _(a): return oP(-P(a))
@op('combine')
def _(n, C, rows):
    l = RCV(PL(rows, width=2 * n))
    gs, ps = U.pauli_combine(GS(C, len(rows)), l.gs, l.ps)
    return [[[int(v) for v in g], int(p)] for g, p in zip(gs, ps)]
@op('transform')
def _(m, mask, l):
    o = RCV(PL(l))
    o.transform_by(CM(m), mask=optmask(mask))
    return oPL(o)
@op('rotate')
def _(gen, mask, l):
    o = RCV(PL(l))
    o.rotate_by(GEN(gen), mask=optmask(mask))
    return oPL(o)
@op('rotate_seq')
def _(gms, l):
    o = RCV(PL(l))
    for gen, mask in gms:
        o.rotate_by(P(gen), mask=optmask(mask))
    return oPL(o)
@op('front')
def _(g): return int(U.front(G(g)))
@op('condense')
def _(g):
    a, q = U.condense(G(g))
    return [[int(v) for v in a], [int(v) for v in q]]
@op('is_onsite')
def _(g, i0): return int(bool(U.pauli_is_onsite(G(g), int(i0))))
@op('weight')
def _(g): return int(PA.Pauli(G(g)).weight())
@op('mask')
def _(qs, n): return [int(v) for v in U.mask([int(q) for q in qs], int(n))]
@op('z2rank')
def _(m):
    a = GS(m)
    return int(U.z2rank(a.copy()))
@op('z2inv')
def _(m): return U.z2inv(GS(m)).tolist()
@op('identity_map')
def _(n): return oPL(ST.identity_map(int(n)))
@op('compose')
def _(a, b): return oPL(CM(a).compose(CM(b)))
@op('inverse')
def _(a): return oPL(CM(a).inverse())
@op('embed')
def _(big, small, m):
    # embed works IN PLACE on the host and returns it: the host is what callers (layer compilation) go on using, so the host is read back, and the returned object must show the same
    host = RCV(CM(big))
    ret = host.embed(CM(small), MASK(m))
    h, r = oPL(host), (oPL(ret) if ret is not None else None)
    return h if r == h else ['host', h, 'returned', r]
@op('rotation_map')
def _(gen): return oPL(ST.clifford_rotation_map(GEN(gen, text_ok=True)))
@op('map_to_state')
def _(m):
    c = RCV(CM(m))
    gs, ps = U.map_to_state(c.gs, c.ps)
    return [[[int(v) for v in g], int(p)] for g, p in zip(gs, ps)]
@op('state_to_map')
def _(m):
    c = RCV(CM(m))
    gs, ps = U.state_to_map(c.gs, c.ps)
    return [[[int(v) for v in g], int(p)] for g, p in zip(gs, ps)]
@op('expect')
def _(t, obs):
    s = STATE(t)
    return [int(v) for v in s.expect(PL(obs, width=s.gs.shape[1]))]
@op('project')
def _(t, gos):
    s = RCV(STATE(t))
    gs, r = U.stabilizer_project(s.gs, GS(gos, s.gs.shape[1]), s.r)
    s.gs, s.r = gs, r
    return oST(s)
@op('projection_trace')
def _(t, obs):
    s = RCV(STATE(t))
    o = PL(obs, width=s.gs.shape[1])
    gs, ps, r, tr = U.stabilizer_projection_trace(s.gs, s.ps, o.gs, o.ps, s.r)
    s.gs, s.ps, s.r = gs, ps, r
    if tr == 0:
        return [oST(s), 1, 0]     # halvings not comparable once zero: canonicalised by the caller
    h = int(round(-np.log2(tr)))
    return [oST(s), 0, h]
@op('postselect')
def _(t, o):
    s = RCV(STATE(t))
    gs, ps, prob = U.stabilizer_postselection(s.gs, s.ps, G(o[0]), int(o[1]))
    s.gs, s.ps = gs, ps
    return [oST(s), int(round(2 * prob))]
@op('stabilizer_state')
def _(n, stabs): return oST(ST.stabilizer_state(PL(stabs, width=2 * n)))
@op('zero_state')
def _(n): return oST(ST.zero_state(int(n)))
@op('mixed_state')
def _(n): return oST(ST.maximally_mixed_state(int(n)))
@op('stabilizers')
def _(t): return oPL(STATE(t).stabilizers)
@op('entropy')
def _(t, m): return int(STATE(t).entropy(np.array(m, dtype=np.bool_)))
@op('entropy_of')
def _(n, gs, m): return int(U.stabilizer_entropy(GS(gs, 2 * n), np.array(m, dtype=np.bool_)))
@op('state_rotate')
def _(gen, mask, t):
    s = RCV(STATE(t))
    s.rotate_by(P(gen), mask=optmask(mask))
    return oST(s)
@op('state_transform')
def _(m, mask, t):
    s = RCV(STATE(t))
    s.transform_by(CM(m), mask=optmask(mask))
    return oST(s)
@op('named_gate_map')
def _(nm, qs): return oPL(mk_gate([qs, [2, nm]]).forward_map)
@op('gate_forward')
def _(n, g, l):
    o = RCV(PL(l))
    mk_gate(g).forward(o)
    return oPL(o)
@op('gate_backward')
def _(n, g, l):
    o = RCV(PL(l))
    mk_gate(g).backward(o)
    return oPL(o)
@op('gate_compile')
def _(g):
    gt = mk_gate(g).compile()
    return [oPL(gt.forward_map), oPL(gt.backward_map)]
@op('circ_layers')
def _(prog):
    n = 1 + max([max(i[1][0]) if i[0] == 0 else max(i[1]) for i in prog] + [0])
    has_m = any(i[0] == 1 for i in prog)
    return layers_shape(build_circuit(n, prog, 'Circuit' if has_m else 'CliffordCircuit'))
@op('front_')
def _(g): return int(U.front(G(g)))
@op('fix_pair')
def _(g1, g2):
    # random_pair after the draw: re-implemented call path is not available; exercised via recorded draws
    raise NotImplementedError
@op('diag1')
def _(g, i0): return [[int(v) for v in x] for x in U.pauli_diagonalize1(G(g), int(i0))]
@op('diag2')
def _(g1, g2, i0):
    gs, a, b = U.pauli_diagonalize2(G(g1), G(g2), int(i0))
    return [[[int(v) for v in x] for x in gs], [int(v) for v in a], [int(v) for v in b]]
@op('repr')
def _(a): return [ord(c) for c in repr(P(a))]
@op('tokenize')
def _(a): return [int(v) for v in P(a).tokenize()[0]]
@op('parse')
def _(toks):
    obj = [chr(t - 1000) if t >= 1000 else int(t) for t in toks]
    return oP(PA.pauli(obj))
@op('parse_dict')
def _(n, items):
    d = {}
    for k, v in items:
        d[int(k)] = chr(v - 1000) if v >= 1000 else int(v)
    return oP(PA.pauli(d, int(n)))

@op('get_int')
def _(l, i): return oP(PL(l)[int(i)])
@op('get_slice')
def _(l, a, b, st=None): return oPL(PL(l)[slice(None if a is None else int(a), None if b is None else int(b), None if st is None else int(st))])
def _mask_form(m, form):
    if form == 'pylist':
        return [bool(b) for b in m]
    if form == 'npbool_list':
        return [np.bool_(b) for b in m]
    return np.array(m, dtype=np.bool_)


def _idx_form(idx, form):
    if form == 'pylist':
        return [int(i) for i in idx]
    if form == 'int32':
        return np.array(idx, dtype=np.int32)
    return np.array(idx, dtype=int)


@op('get_mask')
def _(l, m, form='array'): return oPL(PL(l)[_mask_form(m, form)])
@op('get_idx')
def _(l, idx, form='array'): return oPL(PL(l)[_idx_form(idx, form)])
@op('list_neg')
def _(l): return oPL(-PL(l))
@op('list_rmul')
def _(c, l): return oPL([1, 1j, -1, -1j][c] * PL(l))
@op('list_weight')
def _(l): return [int(v) for v in PL(l).weight()]
