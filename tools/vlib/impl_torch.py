"""Adapter: runs torchclifford on plain python values (same op names / result shapes as impl_np)."""
import numpy as np
import warnings
warnings.filterwarnings('ignore')
import torch
import torchclifford as tc
from torchclifford import utils as U, paulialg as PA, stabilizer as ST, circuit as CI
from .core import Err, Some

F = torch.float32


def G(g):
    return torch.tensor([float(v) for v in g], dtype=F)


def GS(gs, width=0):
    if len(gs) == 0:
        return torch.zeros((0, width), dtype=F)
    return torch.tensor([[float(v) for v in g] for g in gs], dtype=F)


def PS(ps):
    return torch.tensor([float(p) for p in ps], dtype=F)


ROUTES = [True]        # objects are built through the library's own constructors as often as from raw arrays (see _route)


def _route(vals):
    """0: raw arrays; 1: the library's constructor (pauli / paulis from printed strings, CliffordMap.to_state for states) -- chosen by the content, so a replay takes the same route"""
    if not ROUTES[0]:
        return 0
    def tot(v):
        return sum(tot(x) for x in v) if isinstance(v, (list, tuple)) else int(v)
    return 1 if tot(vals) % 3 == 1 else 0


def _valid_rows(l):
    """rows of a valid Clifford map (Hermitian phases, canonical commutation relations): only then does transforming the identity reproduce them"""
    n2 = len(l)
    if any(int(a[1]) % 2 for a in l):
        return False
    for i in range(n2):
        for j in range(n2):
            acq = sum(int(l[i][0][2 * q + 1]) * int(l[j][0][2 * q]) - int(l[i][0][2 * q]) * int(l[j][0][2 * q + 1]) for q in range(n2 // 2)) % 2
            if acq != (1 if (i // 2 == j // 2 and i != j) else 0):
                return False
    return True


def _pstr(a):
    return {0: '', 1: 'i', 2: '-', 3: '-i'}[int(a[1]) % 4] + ''.join('IXZY'[int(x) + 2 * int(z)] for x, z in zip(a[0][0::2], a[0][1::2]))


def P(a):
    if len(a[0]) >= 2 and _route(a) == 1:
        return _reg(PA.pauli(_pstr(a)), 'P', [[int(v) for v in a[0]], int(a[1])])
    return _reg(PA.Pauli(G(a[0]), int(a[1])), 'P', [[int(v) for v in a[0]], int(a[1])])


def PL(l, width=0):
    if len(l) >= 1 and len(l[0][0]) >= 2 and _route(l) == 1:
        return _reg(PA.paulis([_pstr(a) for a in l]), 'PL', [[[int(v) for v in a[0]], int(a[1])] for a in l])
    return _reg(PA.PauliList(GS([a[0] for a in l], width), PS([a[1] for a in l])), 'PL', [[[int(v) for v in a[0]], int(a[1])] for a in l])


def CM(l):
    if len(l) >= 2 and len(l) % 2 == 0 and len(l[0][0]) == len(l) and _route(l) == 1 and _valid_rows(l):
        ROUTES[0] = False
        try:
            m = ST.identity_map(len(l) // 2)
            m.transform_by(CM(l))
        finally:
            ROUTES[0] = True
        return _reg(m, 'PL', [[[int(v) for v in a[0]], int(a[1])] for a in l])
    return _reg(ST.CliffordMap(GS([a[0] for a in l]), PS([a[1] for a in l])), 'PL', [[[int(v) for v in a[0]], int(a[1])] for a in l])


def STATE(t):
    rows, r = t
    n_ = len(rows) // 2
    if n_ >= 1 and len(rows) == 2 * n_ and _route(t) == 1:
        m = [None] * (2 * n_)
        m[0::2], m[1::2] = rows[n_:], rows[:n_]
        ROUTES[0] = False
        try:
            st = CM(m).to_state(int(r))
        finally:
            ROUTES[0] = True
        return _reg(st, 'ST', [[[[int(v) for v in a[0]], int(a[1])] for a in rows], int(r)])
    if ROUTES[0] and (len(rows) + int(r)) % 3 == 0:
        st_ = ST.StabilizerState(GS([a[0] for a in rows]), int(r), ps=PS([a[1] for a in rows])) if (len(rows) + int(r)) % 2 == 0 else ST.StabilizerState(gs=GS([a[0] for a in rows]), ps=PS([a[1] for a in rows]), r=int(r))
        return _reg(st_, 'ST', [[[[int(v) for v in a[0]], int(a[1])] for a in rows], int(r)])
    return _reg(ST.StabilizerState(GS([a[0] for a in rows]), ps=PS([a[1] for a in rows])).set_r(int(r)), 'ST', [[[[int(v) for v in a[0]], int(a[1])] for a in rows], int(r)])


def iv(x):
    x = x.item() if hasattr(x, 'item') else x
    if float(x) != int(round(float(x))):
        raise ValueError('non-integer value %r' % (x,))
    return int(round(float(x)))


def oP(p):
    return [[iv(v) for v in p.g], iv(p.p)]


def oPL(l):
    return [[[iv(v) for v in g], iv(p)] for g, p in zip(l.gs, l.ps)]


def oRows(gs, ps):
    return [[[iv(v) for v in g], iv(p)] for g, p in zip(gs, ps)]


def oST(s):
    return [oPL(s), int(s.r)]


def optmask(m):
    if m is None:
        return None
    v = m.v if isinstance(m, Some) else m
    return torch.tensor([bool(b) for b in v])


# ---- argument watch: every object the adapter builds from plain values during one op call is remembered; when the call returns, all of them except the
# designated receivers (RCV) of in-place methods must still hold exactly the values they were built from.  Violations are queued in MUT_EVENTS and turned
# into oracle failures by vlib.run.do ("an operation modified its argument").
_BUILT = []
MUT_EVENTS = []


def _reg(obj, kind, desc):
    _BUILT.append([obj, kind, desc, False])
    return obj


def RCV(obj):
    """the receiver of an in-place method: allowed to change"""
    for e in _BUILT:
        if e[0] is obj:
            e[3] = True
    return obj


def _current(obj, kind):
    if kind == 'P':
        return oP(obj)
    if kind == 'ST':
        return oST(obj)
    return oPL(obj)


def _watch_begin():
    del _BUILT[:]


def _watch_end(opname):
    for obj, kind, desc, rcv in _BUILT:
        if rcv:
            continue
        try:
            now = _current(obj, kind)
        except Exception as e:      # the object no longer holds integer bits / phases
            now = 'unreadable: %s' % type(e).__name__
        if now != desc:
            MUT_EVENTS.append({'op': opname, 'kind': kind, 'before': desc, 'after': now})
    del _BUILT[:]


def guard(f, name='?'):
    def w(*a):
        _watch_begin()
        try:
            r = f(*a)
            _watch_end(name)
            return r
        except Exception as e:   # noqa
            return Err(1)
    return w


OPS = {}


def op(name):
    def d(f):
        OPS[name] = guard(f, name)
        return f
    return d


@op('acq')
def _(a, b): return iv(U.acq(G(a), G(b)))
@op('ipow')
def _(a, b): return iv(U.ipow(G(a), G(b)))
@op('p0')
def _(a): return iv(U.ps0(G(a).unsqueeze(0))[0])
@op('acq_mat')
def _(gs): return [[iv(v) for v in r] for r in U.acq_mat(GS(gs))]
@op('pmul')
def _(a, b): return oP(P(a) @ P(b))
@op('pmul_chain')
def _(l):
    acc = P(l[0])
    for x in l[1:]:
        acc = acc @ P(x)
    return oP(acc)
@op('batch_mul')
def _(l1, l2):
    a, b = PL(l1), PL(l2)
    gs, ps, cs = U.batch_dot(a.gs, a.ps, torch.ones(len(l1), dtype=torch.complex64), b.gs, b.ps, torch.ones(len(l2), dtype=torch.complex64))
    return oRows(gs, ps)
@op('prmul')
def _(c, a): return oP([1, 1j, -1, -1j][c] * P(a))
@op('pneg')
def _(a): return oP(-P(a))
@op('combine')
def _(n, C, rows):
    l = RCV(PL(rows, 2 * n))
    gs, ps = U.pauli_combine(GS(C, len(rows)), l.gs, l.ps)
    return oRows(gs, ps)
@op('transform')
def _(m, mask, l):
    o = RCV(PL(l))
    o.transform_by(CM(m), mask=optmask(mask))
    return oPL(o)
@op('rotate')
def _(gen, mask, l):
    o = RCV(PL(l))
    mk = optmask(mask)
    o.rotate_by(P(gen), mask=None if mk is None else mk.numpy())
    return oPL(o)
@op('rotate_seq')
def _(gms, l):
    o = RCV(PL(l))
    for gen, mask in gms:
        mk = optmask(mask)
        o.rotate_by(P(gen), mask=None if mk is None else mk.numpy())
    return oPL(o)
@op('front')
def _(g): return iv(U.front(G(g)))
@op('condense')
def _(g):
    a, q = U.condense(G(g))
    return [[iv(v) for v in a], [iv(v) for v in q]]
@op('is_onsite')
def _(g, i0): return int(bool(U.pauli_is_onsite(G(g), int(i0))))
@op('weight')
def _(g): return iv(PA.Pauli(G(g)).weight())
@op('mask')
def _(qs, n): return [int(bool(v)) for v in U.mask([int(q) for q in qs], int(n))]
@op('z2rank')
def _(m): return iv(U.z2rank(GS(m)))
@op('identity_map')
def _(n): return oPL(ST.identity_map(int(n)))
@op('compose')
def _(a, b): return oPL(CM(a).compose(CM(b)))
@op('inverse')
def _(a): return oPL(CM(a).inverse())
@op('embed')
def _(big, small, m):
    # embed works IN PLACE on the host and returns it: the host is what callers (layer compilation) go on using, so the host is read back, and the returned object must show the same
    host = RCV(CM(big))
    ret = host.embed(CM(small), np.array(m, dtype=bool))
    h, r = oPL(host), (oPL(ret) if ret is not None else None)
    return h if r == h else ['host', h, 'returned', r]
@op('rotation_map')
def _(gen): return oPL(ST.clifford_rotation_map(GEN(gen, text_ok=True)))
@op('map_to_state')
def _(m):
    c = RCV(CM(m))
    return oRows(*U.map_to_state(c.gs, c.ps))
@op('state_to_map')
def _(m):
    c = RCV(CM(m))
    return oRows(*U.state_to_map(c.gs, c.ps))
@op('expect')
def _(t, obs):
    s = STATE(t)
    return [iv(v) for v in s.expect(PL(obs, s.gs.shape[1]))]
@op('vexpect')
def _(t, obs):
    s = RCV(STATE(t))
    o = PL(obs, s.gs.shape[1])
    return [iv(v) for v in U.vectorizable_stabilizer_expect(s.gs, s.ps, o.gs, o.ps, s.r)]
@op('project')
def _(t, gos):
    s = RCV(STATE(t))
    gs, r = U.stabilizer_project(s.gs, GS(gos, s.gs.shape[1]), s.r)
    s.gs, s.r = gs, r
    return oST(s)
@op('stabilizer_state')
def _(n, stabs): return oST(ST.stabilizer_state(PL(stabs, 2 * n)))
@op('zero_state')
def _(n): return oST(ST.zero_state(int(n)))
@op('mixed_state')
def _(n): return oST(ST.maximally_mixed_state(int(n)))
@op('stabilizers')
def _(t): return oPL(STATE(t).stabilizers)
@op('entropy')
def _(t, m): return iv(STATE(t).entropy([i for i, b in enumerate(m) if b]))     # torch accepts index lists only
@op('entropy_of')
def _(n, gs, m): return iv(U.stabilizer_entropy(GS(gs, 2 * n), torch.tensor([bool(b) for b in m])))
@op('state_rotate')
def _(gen, mask, t):
    s = RCV(STATE(t))
    mk = optmask(mask)
    s.rotate_by(P(gen), mask=None if mk is None else mk.numpy())
    return oST(s)
@op('state_transform')
def _(m, mask, t):
    s = RCV(STATE(t))
    s.transform_by(CM(m), mask=optmask(mask))
    return oST(s)
@op('diag1')
def _(g, i0): return [[iv(v) for v in x] for x in U.pauli_diagonalize1(G(g), int(i0))]
@op('diag2')
def _(g1, g2, i0):
    gs, a, b = U.pauli_diagonalize2(G(g1), G(g2), int(i0))
    return [[[iv(v) for v in x] for x in gs], [iv(v) for v in a], [iv(v) for v in b]]
@op('repr')
def _(a): return [ord(c) for c in repr(P(a))]
@op('tokenize')
def _(a): return [iv(v) for v in P(a).tokenize()[0]]
@op('parse')
def _(toks):
    obj = [chr(t - 1000) if t >= 1000 else int(t) for t in toks]
    return oP(PA.pauli(obj))
@op('parse_dict')
def _(n, items):
    d = {}
    for k, v in items:
        d[int(k)] = chr(v - 1000) if v >= 1000 else int(v)
    return oP(PA.pauli(d, int(n)))

@op('get_int')
def _(l, i): return oP(PL(l)[int(i)])
@op('get_slice')
def _(l, a, b, st=None): return oPL(PL(l)[slice(None if a is None else int(a), None if b is None else int(b), None if st is None else int(st))])
@op('get_mask')
def _(l, m): return oPL(PL(l)[torch.tensor([bool(b) for b in m])])
@op('get_idx')
def _(l, idx): return oPL(PL(l)[torch.tensor([int(i) for i in idx], dtype=torch.long)])
@op('list_neg')
def _(l): return oPL(-PL(l))
@op('list_rmul')
def _(c, l): return oPL([1, 1j, -1, -1j][c] * PL(l))
@op('list_weight')
def _(l): return [iv(v) for v in PL(l).weight()]


# ---------------------------------------------------------------- circuits (torchclifford has CliffordGate / CliffordLayer / CliffordCircuit; no named gates, no Circuit with measurements)
def GEN(a, text_ok=False):
    """a rotation generator as the Pauli object or -- where the callee parses its argument -- as its printed text (the port has no monomials)"""
    if text_ok and len(a[0]) >= 2 and (sum(int(b) for b in a[0]) + 2 * int(a[1]) + len(a[0])) % 2 == 1:
        return _pstr(a)
    return P(a)


def _ctor_route(qs, gen_):
    """a rotation gate is as often built by the library's own constructor as by hand: when the generator is non-trivial on every declared qubit (so that its support IS the
    declared qubits, in ascending order) a third of the gates go through clifford_rotation_gate(full-width generator) and a third through
    clifford_rotation_gate(generator, qubits); the rest set .generator directly"""
    qs = [int(q) for q in qs]
    g, p = gen_
    k = len(qs)
    if k == 0 or len(g) != 2 * k or qs != sorted(qs) or any(not (g[2 * i] or g[2 * i + 1]) for i in range(k)):
        return None
    route = (sum(qs) + 3 * int(p) + sum(int(b) for b in g)) % 3
    if route == 0:
        W = qs[-1] + 1
        full = [0] * (2 * W)
        for i, q in enumerate(qs):
            full[2 * q], full[2 * q + 1] = int(g[2 * i]), int(g[2 * i + 1])
        return CI.clifford_rotation_gate(GEN([full, p], text_ok=True))
    if route == 1:
        import numpy as _np
        return CI.clifford_rotation_gate(P([list(g), p]), _np.array(qs))
    return None


def mk_gate(spec):
    """same gate specs as impl_np.mk_gate; a named gate becomes a forward-map gate with the table of the pyclifford gate"""
    qs, k = spec
    qs = [int(q) for q in qs]
    if k[0] == 0:
        via = _ctor_route(qs, k[1])
        if via is not None:
            return via
    g = CI.CliffordGate(*qs)
    if k[0] == 0:
        g.generator = P(k[1])
        return g
    if k[0] == 1:
        f, b = k[1], k[2]
        if f is not None:
            g.set_forward_map(CM(f.v if isinstance(f, Some) else f))
        if b is not None:
            g.set_backward_map(CM(b.v if isinstance(b, Some) else b))
        return g
    if k[0] == 2:
        from . import impl_np as NP_
        ng = NP_.mk_gate(spec)
        g.set_forward_map(CM(NP_.oPL(ng.forward_map)))
        return g
    raise ValueError('gate spec')


def build_circuit(n, prog):
    c = CI.CliffordCircuit()
    for ins in prog:
        c.take(mk_gate(ins[1]))
    return c
