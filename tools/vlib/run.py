"""Helpers shared by the per-property modules."""
import importlib
from .core import Some, Err

_impl = {}


def impl(backend):
    if backend not in _impl:
        _impl[backend] = importlib.import_module('vlib.impl_' + backend)
    return _impl[backend]


def opt(x):
    """JSON form (None | value) -> model option encoding"""
    return None if x is None else Some(x)


def mgate(spec):
    """JSON gate spec -> model encoding (options wrapped)"""
    qs, k = spec
    if k[0] == 1:
        return [qs, [1, opt(k[1]), opt(k[2])]]
    return [qs, k]


def mprog(prog):
    return [[0, mgate(i[1])] if i[0] == 0 else [1, i[1]] for i in prog]


def norm(v):
    """canonical form for comparison: Err -> 'ERR'"""
    if isinstance(v, Err):
        return 'ERR'
    if isinstance(v, (list, tuple)):
        return [norm(x) for x in v]
    return v


def corr(ctx, backend, op, margs, iargs=None, check=None, tags=()):
    """one correspondence case: implementation op == model op.  Returns None or a failure dict."""
    if getattr(ctx, 'search', False) or ctx.model is None:
        return None          # violation search: only the independent oracle counts
    iargs = margs if iargs is None else iargs
    got = impl(backend).OPS[op](*iargs)
    want = ctx.model.call(op, *margs)
    if norm(got) != norm(want):
        return {'kind': 'corr', 'where': '%s:%s' % (backend, op), 'observed': norm(got), 'expected': norm(want), 'tags': list(tags)}
    return None


def _drain_mutations():
    """events queued by the adapters' argument watch (an object built for an op call no longer holds the values it was built from)"""
    import sys
    out = []
    for be, modname in (('np', 'vlib.impl_np'), ('torch', 'vlib.impl_torch')):
        m = sys.modules.get(modname)
        if m is not None and getattr(m, 'MUT_EVENTS', None):
            for e in m.MUT_EVENTS:
                e = dict(e)
                e['backend'] = be
                out.append(e)
            del m.MUT_EVENTS[:]
    return out


def do(ctx, name, args, nontrivial=None, sample=False, tags=None):
    """run CHECKS[name] of the current property module on args; record the outcome"""
    fn = ctx.checks[name]
    _drain_mutations()
    r = fn(ctx, args)
    ev = _drain_mutations()
    if ev and r is None:
        e = ev[0]
        r = {'kind': 'oracle', 'where': '%s:%s modified an argument it was only given to read (%s)' % (e['backend'], e['op'], e['kind']),
             'observed': e['after'], 'expected': e['before'], 'tags': ['argument_modified', e['backend'], e['op']]}
    ctx.res.case(nontrivial_key=nontrivial, sample={'check': name, 'args': args} if sample else None)
    ctx.res.count('check:' + name)
    if r is not None:
        r.setdefault('check', name)
        r['args'] = args
        if tags:
            r['tags'] = list(set(r.get('tags', [])) | set(tags))
        ctx.res.fail(**r)
    return r
