"""Dense-matrix oracle, independent of both /repo and the Coq model: built only from the four
2x2 Pauli matrices.  Used for the violation search and as support for the model's validity."""
import numpy as np
import itertools

I2 = np.eye(2, dtype=complex)
X2 = np.array([[0, 1], [1, 0]], dtype=complex)
Y2 = np.array([[0, -1j], [1j, 0]], dtype=complex)
Z2 = np.array([[1, 0], [0, -1]], dtype=complex)
SITE = {(0, 0): I2, (1, 0): X2, (1, 1): Y2, (0, 1): Z2}


def sigma(g):
    """Hermitian matrix of the flat bit string g = [x0,z0,x1,z1,...] (qubit 0 = leftmost kron factor)."""
    g = [int(v) for v in g]
    m = np.eye(1, dtype=complex)
    for i in range(len(g) // 2):
        m = np.kron(m, SITE[(g[2 * i], g[2 * i + 1])])
    return m


def op(g, p):
    return (1j ** (int(p) % 4)) * sigma(g)


def all_strings(n):
    return [list(t) for t in itertools.product((0, 1), repeat=2 * n)]


def decompose(m, n):
    """Return (g, p) with m == i^p sigma[g], or None."""
    d = 2 ** n
    for g in all_strings(n):
        s = sigma(g)
        c = np.trace(s.conj().T @ m) / d
        if abs(abs(c) - 1) < 1e-9:
            for p in range(4):
                if abs(c - 1j ** p) < 1e-9 and np.allclose(m, (1j ** p) * s):
                    return g, p
    return None


def rho_of(gs, ps, r):
    """Density matrix 2^-r prod_{a in [r,N)} (1+S_a)/2 of a tableau (gs: 2N x 2N, ps: 2N)."""
    n = len(gs) // 2
    d = 2 ** n
    rho = np.eye(d, dtype=complex)
    for a in range(r, n):
        rho = rho @ (np.eye(d) + op(gs[a], ps[a])) / 2
    return rho / (2 ** r)


def rot_unitary(g, p):
    """exp(i pi/4 G) = (1 + iG)/sqrt2 for Hermitian G = i^p sigma[g], p in {0,2}."""
    G = op(g, p)
    return (np.eye(G.shape[0]) + 1j * G) / np.sqrt(2)


def vn_entropy_bits(rho):
    w = np.linalg.eigvalsh((rho + rho.conj().T) / 2)
    w = w[w > 1e-12]
    return float(-(w * np.log2(w)).sum())


def partial_trace(rho, n, keep):
    """keep: list of qubit indices kept (ascending)."""
    keep = list(keep)
    t = rho.reshape([2] * (2 * n))
    drop = [q for q in range(n) if q not in keep]
    # trace out in descending order
    cur = n
    for q in sorted(drop, reverse=True):
        t = np.trace(t, axis1=q, axis2=q + cur)
        cur -= 1
    k = len(keep)
    return t.reshape(2 ** k, 2 ** k)
