"""Source watch: which definitions of the anchored source files differ from the source the hand-written parts of the model were validated against.

The formulas and tables of the model are regenerated from the source on every run (tools/translate.py); the CONTROL FLOW around them is modelled by hand and
tied to the code by the correspondence.  A correspondence samples.  So when the text of a definition in a property's anchored files is not the text the model
was validated against (coq/Model/source_fingerprints.json, written by tools/mksourcewatch.py on the pinned tree), the check of that property explores more:
a larger budget and a second pass under other seeds.  A difference is NOT a violation and raises no alarm by itself (comments, docstrings, blank lines and
line numbers do not even count as a difference: the fingerprint is taken over the syntax tree)."""
import ast, hashlib, json, os

FILE = os.path.join(os.path.dirname(os.path.dirname(os.path.dirname(os.path.abspath(__file__)))), 'coq', 'Model', 'source_fingerprints.json')


def _strip_doc(node):
    for n in ast.walk(node):
        if isinstance(n, (ast.FunctionDef, ast.ClassDef, ast.Module)) and n.body and isinstance(n.body[0], ast.Expr) \
                and isinstance(getattr(n.body[0], 'value', None), ast.Constant) and isinstance(n.body[0].value.value, str):
            n.body = n.body[1:] or [ast.Pass()]
    return node


def _h(nodes):
    return hashlib.sha256('\n'.join(ast.dump(n) for n in nodes).encode()).hexdigest()[:16]


def fingerprints(repo, files):
    out = {}
    for f in sorted(set(files)):
        p = os.path.join(repo, f)
        if not os.path.exists(p):
            out[f + '::<file>'] = 'missing'
            continue
        try:
            tree = _strip_doc(ast.parse(open(p).read()))
        except SyntaxError:
            out[f + '::<file>'] = 'syntax error'
            continue
        rest = []
        for n in tree.body:
            if isinstance(n, ast.FunctionDef):
                out['%s::%s' % (f, n.name)] = _h([n])
            elif isinstance(n, ast.ClassDef):
                crest = []
                for m in n.body:
                    if isinstance(m, ast.FunctionDef):
                        out['%s::%s.%s' % (f, n.name, m.name)] = _h([m])
                    else:
                        crest.append(m)
                out['%s::%s.<class body>' % (f, n.name)] = _h(crest + list(n.bases))
            else:
                rest.append(n)
        out[f + '::<module level>'] = _h(rest)
    return out


def changed(repo):
    """names of definitions (added, removed or altered) in the recorded files relative to the recorded fingerprints; None when nothing is recorded"""
    if not os.path.exists(FILE):
        return None
    rec = json.load(open(FILE))
    files = sorted(set(k.split('::')[0] for k in rec))
    now = fingerprints(repo, files)
    return sorted(k for k in set(rec) | set(now) if rec.get(k) != now.get(k))
