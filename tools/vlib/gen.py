"""Input generators.  Everything random derives from one random.Random(seed).  Valid Clifford maps and
tableaux are produced by the *model* (products of rotations applied to the identity table), never by the
code under test."""
import itertools

# register sizes at the byte, word and cache-line boundaries of every packed or vectorised representation
BIG = [8, 9, 16, 17, 33, 64, 65]
# list lengths around every block, chunk or vector width
LONG = [255, 256, 257, 300, 1025]
LONG2 = [4097, 5000]       # beyond 4096 rows (on 1-3 qubits every string then occurs many times, with different phases)


def unit(n2, k):
    return [1 if i == k else 0 for i in range(n2)]


def identity_rows(n):
    return [[unit(2 * n, k), 0] for k in range(2 * n)]


def rstr(rng, n, nonzero=False):
    while True:
        g = [rng.randint(0, 1) for _ in range(2 * n)]
        if not nonzero or any(g):
            return g


def rpauli(rng, n, herm=False, nonzero=False):
    return [rstr(rng, n, nonzero), rng.choice([0, 2]) if herm else rng.randint(0, 3)]


def rplist(rng, n, L, herm=False):
    return [rpauli(rng, n, herm) for _ in range(L)]


def rmask(rng, N, k):
    idx = sorted(rng.sample(range(N), k))
    return [1 if i in idx else 0 for i in range(N)], idx


def rmap(rng, model, n, depth=None, signs=True):
    """valid Clifford map on n qubits: random rotations of the identity table + random sign flips"""
    # structured as well as scrambled tables: a fifth of the draws are shallow (0-2 rotations of the identity table: basis / product-like),
    # and the sign pattern is one of: independent coins on all rows, only on the Z-images (stabilizer signs), only on the X-images, a single row, none
    if depth is None and rng.random() < 0.12:
        # a signed PERMUTATION of the single-qubit Paulis: relabel the qubits and permute X/Y/Z on each (Hadamard-, SWAP-, cyclic-relabelling-like maps,
        # of order up to 6 or more): every row has weight 1 -- the maps for which an inverse is "just a transpose"
        perm = list(range(n))
        rng.shuffle(perm)
        rows = []
        for q in range(n):
            t = perm[q]
            imgs = rng.choice([((1, 0), (0, 1)), ((0, 1), (1, 0)), ((1, 1), (0, 1)), ((1, 0), (1, 1)), ((0, 1), (1, 1)), ((1, 1), (1, 0))])   # images of X, Z: any anticommuting pair
            for im in imgs:
                g = [0] * (2 * n)
                g[2 * t], g[2 * t + 1] = im
                rows.append([g, 0])
        depth = 0
    else:
        if depth is None:
            depth = rng.randint(0, 2) if rng.random() < 0.2 else rng.randint(0, 3 * n + 2)
        gms = [[rpauli(rng, n, herm=True, nonzero=True), None] for _ in range(depth)]
        rows = model.call('rotate_seq', gms, identity_rows(n))
    if signs:
        mode = rng.choice(['all', 'all', 'all', 'z_rows', 'x_rows', 'one', 'none'])
        if mode == 'all':
            flips = [rng.choice([0, 2]) for _ in rows]
        elif mode == 'z_rows':
            flips = [rng.choice([0, 2]) if j % 2 == 1 else 0 for j in range(len(rows))]
        elif mode == 'x_rows':
            flips = [rng.choice([0, 2]) if j % 2 == 0 else 0 for j in range(len(rows))]
        elif mode == 'one':
            k = rng.randrange(len(rows)) if rows else 0
            flips = [2 if j == k else 0 for j in range(len(rows))]
        else:
            flips = [0] * len(rows)
        rows = [[g, (p + f) % 4] for (g, p), f in zip(rows, flips)]
    return rows


def map_to_state_rows(rows):
    return rows[1::2] + rows[0::2]


def rtableau(rng, model, n, r=None, depth=None):
    rows = map_to_state_rows(rmap(rng, model, n, depth))
    if r is None:
        r = rng.randint(0, n)
    return [rows, r]


def all_strings(n):
    return [list(t) for t in itertools.product((0, 1), repeat=2 * n)]


def all_paulis(n, phases=(0, 1, 2, 3)):
    return [[g, p] for g in all_strings(n) for p in phases]


def commuting_obs(rng, model, n, L, signs=True):
    """L commuting Hermitian observables: images of distinct Z_i (and products) under a random valid map"""
    m = rmap(rng, model, n)
    zs = [m[2 * i + 1] for i in range(n)]
    out = []
    for _ in range(L):
        sel = [rng.randint(0, 1) for _ in range(n)]
        if not any(sel):
            sel[rng.randrange(n)] = 1
        acc = None
        for s, z in zip(sel, zs):
            if s:
                acc = z if acc is None else model.call('pmul', acc, z)
        if signs:
            acc = [acc[0], (acc[1] + rng.choice([0, 2])) % 4]
        out.append(acc)
    return out


def edge_pool(N):
    """the qubits next to every byte / word boundary of a register (and its two ends): where packed supports, bit masks and shifted indices go wrong first"""
    return sorted({q for q in (0, 1, 7, 8, 15, 16, 31, 32, 63, 64, 65, 127, 128, N - 2, N - 1) if 0 <= q < N})


def rplist_on(rng, N, L, pool):
    """operators supported on the pool qubits (all four phases)"""
    out = []
    for _ in range(L):
        g = [0] * (2 * N)
        for q in pool:
            if rng.random() < 0.7:
                g[2 * q], g[2 * q + 1] = rng.choice([(1, 0), (0, 1), (1, 1), (0, 0)])
        out.append([g, rng.randint(0, 3)])
    return out


def rsparse(rng, N, w, herm=True, pool=None):
    """an operator of weight w (on qubits from [pool] if given), either sign (any phase if not herm)"""
    qs = rng.sample(list(pool) if pool is not None else range(N), min(w, N))
    g = [0] * (2 * N)
    for q in qs:
        g[2 * q], g[2 * q + 1] = rng.choice([(1, 0), (0, 1), (1, 1)])
    return [g, rng.choice([0, 2]) if herm else rng.randint(0, 3)]


def rgate(rng, model, N, kinds=('gen', 'fwd', 'bwd', 'both', 'named'), pool=None):
    """random deterministic gate spec on ascending qubits (drawn from [pool] when given)"""
    from .core import Some
    kind = rng.choice(kinds)
    if pool is not None:
        pool = list(pool)
        k = rng.randint(1, min(len(pool), 2))
        qs = sorted(rng.sample(pool, k))
        if kind == 'named':
            if k == 2:
                return [qs if rng.random() < 0.5 else qs[::-1], [2, 5]]
            return [qs, [2, rng.choice([0, 1, 2, 3, 4, 100 + rng.randrange(24)])]]
        if kind == 'gen':
            g = rpauli(rng, k, herm=True)
            g[0] = [b for i in range(k) for b in rng.choice([(1, 0), (0, 1), (1, 1)])]
            return [qs, [0, g]]
        m = rmap(rng, model, k)
        return [qs, [1, m, None]] if kind == 'fwd' else ([qs, [1, None, m]] if kind == 'bwd' else [qs, [1, m, model.call('inverse', m)]])
    if kind == 'named':
        nm = rng.choice([0, 1, 2, 3, 4, 5] + [100 + rng.randrange(24)])
        if nm == 5:
            if N < 2:
                nm = 0
            else:
                a, b = rng.sample(range(N), 2)
                return [[a, b], [2, 5]]
        return [[rng.randrange(N)], [2, nm]]
    k = rng.randint(1, min(N, 3))
    qs = sorted(rng.sample(range(N), k))
    if kind == 'gen':
        g = rpauli(rng, k, herm=True)
        # clifford_rotation_gate condenses to the support: every site nontrivial
        g[0] = [b for i in range(k) for b in rng.choice([(1, 0), (0, 1), (1, 1)])]
        return [qs, [0, g]]
    m = rmap(rng, model, k)
    if kind == 'fwd':
        return [qs, [1, m, None]]
    if kind == 'bwd':
        return [qs, [1, None, m]]
    inv = model.call('inverse', m)
    return [qs, [1, m, inv]]
