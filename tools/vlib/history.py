"""Histories on ONE reused object.

A result computed lazily and kept on the object (an inverse, a reordered tableau, an expanded density matrix) must follow every in-place update of
that object.  The oracle used here needs no model: a query on the long-lived object must equal the same query on a FRESHLY built equal object
(same strings, phases, rank).  The steps are drawn from a seed, so a replay reproduces the history.
"""
import random
import numpy as np
from vlib import gen
from vlib.run import impl


def _canon_poly(p):
    out = []
    for g, ph, c in zip(p.gs, p.ps, p.cs):
        c = complex(c) * [1, 1j, -1, -1j][int(ph) % 4]
        out.append(([int(v) for v in g], round(c.real, 9), round(c.imag, 9)))
    return sorted(out)


def _fixed_obs(rng, n, k=4):
    return [gen.rpauli(rng, n, herm=True) for _ in range(k)]


def state_queries(M, n, rng):
    """name -> function(state) -> canonical value; deterministic functions of the state only"""
    obs = _fixed_obs(rng, n)
    region = [q for q in range(n) if rng.random() < 0.5] or [0]
    bits = np.array([rng.randint(0, 1) for _ in range(n)])
    q = {
        'density_matrix': lambda s: s.density_matrix if (s.N - s.r) <= 5 else None,
        'expect': lambda s: [int(v) for v in s.expect(M.PL(obs))],
        'entropy': lambda s: int(s.entropy(region)),
        'to_map': lambda s: s.to_map(),
        'stabilizers': lambda s: s.stabilizers,
        'repr': lambda s: repr(s),
        'get_prob': lambda s: round(float(s.get_prob(bits)), 9) if s.r == 0 else None,
        'copy': lambda s: s.copy(),
    }
    return q


def map_queries(M, n, rng):
    other = gen_map(rng, n)
    return {
        'to_state': lambda m: m.to_state(),
        'to_state_r': lambda m: m.to_state(min(1, n)),
        'inverse': lambda m: m.inverse(),
        'compose': lambda m: m.compose(M.CM(other)),
        'repr': lambda m: repr(m),
        'copy': lambda m: m.copy(),
    }


def canon(M, r):
    """canonical value of a query result (library object or plain value)"""
    if r is None or isinstance(r, (int, float, str, list)):
        return r
    if hasattr(r, 'cs'):
        return _canon_poly(r)
    if hasattr(r, 'gs') and hasattr(r, 'r'):
        return M.oST(r)
    if hasattr(r, 'gs'):
        return M.oPL(r)
    return repr(r)


_MODEL = [None]


def gen_map(rng, n):
    return gen.rmap(rng, _MODEL[0], n)


def _sign_only(M, obj, rng, n):
    """an in-place update that changes phases only: two quarter turns about a one- or two-site Pauli"""
    z = [0] * (2 * n)
    for q in rng.sample(range(n), min(n, rng.randint(1, 2))):
        a, b = rng.choice([(1, 0), (0, 1), (1, 1)])
        z[2 * q], z[2 * q + 1] = a, b
    obj.rotate_by(M.P([z, 0]))
    obj.rotate_by(M.P([z, 0]))


def reused_object_history(ctx, kind, n, seed, steps, which, be='np'):
    """kind: 'state' | 'map'.  which: the query names to interleave.  Returns None or an oracle failure dict."""
    _MODEL[0] = ctx.model
    rng = random.Random(seed)
    M = impl(be)
    if kind == 'state':
        r = rng.choice([0, 0, rng.randint(0, n)])
        obj = M.STATE(gen.rtableau(rng, ctx.model, n, r=r))
        fresh = lambda o: M.STATE(M.oST(o))
        Q = state_queries(M, n, rng)
    else:
        obj = M.CM(gen_map(rng, n))
        fresh = lambda o: M.CM(M.oPL(o))
        Q = map_queries(M, n, rng)
    names = [w for w in which if w in Q]
    hist = []
    alive = []                         # earlier results that are still referenced: later calls must not change them
    sign_mode = seed % 2 == 0          # half of the histories change signs only between the queries
    embed_mode = (kind == 'map' and seed % 3 == 0 and n >= 1)      # a third of the map histories: a block-diagonal map (starting from the identity) whose blocks are overwritten by embed
    if embed_mode:
        qs_ = list(range(n))
        rng.shuffle(qs_)
        cut = sorted(rng.sample(range(1, n), rng.randint(0, min(2, n - 1)))) if n > 1 else []
        blocks = [sorted(qs_[i:j]) for i, j in zip([0] + cut, cut + [n])]
        obj = M.CM(gen.identity_rows(n))
    for _ in range(steps):
        for nm_, res_, was_ in alive:
            now_ = canon(M, res_)
            if now_ != was_:
                return {'kind': 'oracle', 'where': '%s:a result of %s.%s changed after later calls (results share data)' % (be, kind, nm_), 'observed': now_ if len(str(now_)) < 600 else str(now_)[:600],
                        'expected': was_ if len(str(was_)) < 600 else str(was_)[:600], 'history': hist, 'tags': ['history', 'result_aliasing', nm_]}
        if rng.random() < 0.5:
            name = rng.choice(names)
            hist.append('?' + name)
            want = canon(M, Q[name](fresh(obj)))
            snap = (M.oST(obj) if kind == 'state' else M.oPL(obj))
            res = Q[name](obj)
            got = canon(M, res)
            if got != want:
                return {'kind': 'oracle', 'where': '%s:%s.%s on a reused object differs from the same query on a fresh equal object' % (be, kind, name),
                        'observed': got if not isinstance(got, list) or len(str(got)) < 600 else str(got)[:600], 'expected': want if len(str(want)) < 600 else str(want)[:600],
                        'history': hist, 'object': snap, 'tags': ['history', name]}
            # results announced as NEW objects stay referenced; accessors that slice the receiver (stabilizers) are views by design and are not held to this
            if name in ('inverse', 'compose', 'to_state', 'to_state_r', 'to_map', 'copy', 'density_matrix') and not isinstance(res, (int, float, str, list, type(None))):
                if hasattr(res, 'rotate_by') and hasattr(res, 'gs') and not hasattr(res, 'cs') and rng.random() < 0.35 and n >= 1:
                    # the caller owns what a query returned: it may update it in place (masked update: same arrays); a later query must not hand the updated object out again
                    hist.append('mutate result of ' + name)
                    if n >= 2:
                        k = rng.randint(1, n - 1)
                        mk = gen.rmask(rng, n, k)[0]
                        mask = np.array(mk, dtype=bool) if be == 'np' else __import__('torch').tensor([bool(b) for b in mk])
                        res.rotate_by(M.P(gen.rpauli(rng, k, herm=True, nonzero=True)), mask=mask)
                    res.ps[0] = (int(res.ps[0]) + 2) % 4
                else:
                    alive.append((name, res, got))
                    del alive[:-4]
        else:
            op = rng.choice(['embed', 'embed', 'copy', 'setps'] if embed_mode else (['sign', 'setps'] if sign_mode else ['sign', 'setps', 'rotate', 'rotate', 'mrotate', 'mtransform', 'transform', 'copy', 'measure']))
            hist.append(op)
            if op == 'sign':
                _sign_only(M, obj, rng, n)
            elif op == 'setps':
                j = rng.randrange(2 * n)
                obj.ps[j] = (int(obj.ps[j]) + 2) % 4
            elif op == 'rotate':
                obj.rotate_by(M.P(gen.rpauli(rng, n, herm=True)))
            elif op in ('mrotate', 'mtransform') and n >= 2:
                # masked updates write the masked columns of the SAME arrays (no new array object is bound)
                k = rng.randint(1, n - 1)
                mk = gen.rmask(rng, n, k)[0]
                mask = np.array(mk, dtype=bool) if be == 'np' else __import__('torch').tensor([bool(b) for b in mk])
                if op == 'mrotate':
                    obj.rotate_by(M.P(gen.rpauli(rng, k, herm=True, nonzero=True)), mask=mask)
                else:
                    obj.transform_by(M.CM(gen_map(rng, k)), mask=mask)
            elif op == 'embed' and embed_mode:
                # embed overwrites one block of a block-diagonal map IN PLACE (same arrays, no rebinding): a fresh valid map on the qubits of that block
                blk = rng.choice(blocks)
                mk = [1 if q in blk else 0 for q in range(n)]
                mask = np.array(mk, dtype=bool)
                obj.embed(M.CM(gen_map(rng, len(blk))), mask)
            elif op == 'transform':
                obj.transform_by(M.CM(gen_map(rng, n)))
            elif op == 'copy':
                obj = obj.copy()
            elif op == 'measure' and kind == 'state' and be == 'np':          # (the torch port's measurement kernel does not run: not claimed, see DESIGN 7)
                # X then Z on one qubit: the strings come back, the sign is freshly drawn
                q = rng.randrange(n)
                for xz in ((1, 0), (0, 1)):
                    z = [0] * (2 * n)
                    z[2 * q], z[2 * q + 1] = xz
                    obj.measure(M.PL([[z, 0]]))
    return None


def operator_history(ctx, kind, n, seed, steps, be='np'):
    """ONE long-lived operator object -- kind 'pauli' | 'mono' | 'list' | 'poly' -- used in products, sums, casts and printing, updated IN PLACE in between (rotations, masked
    rotations, map transformations, direct phase / coefficient writes), and used again: every use equals the same use of a FRESHLY built equal object.  (A cast or a product
    remembered on the object must follow its in-place updates.)  Returns None or an oracle failure dict."""
    _MODEL[0] = ctx.model
    rng = random.Random(seed)
    M = impl(be)
    lib = __import__('pyclifford' if be == 'np' else 'torchclifford')
    PA = lib.paulialg

    def mkpoly(terms):
        gs = M.GS([t[0] for t in terms], 2 * n)
        if be == 'np':
            return PA.PauliPolynomial(gs, np.array([t[1] for t in terms], dtype=np.int_)).set_cs(np.array([complex(*t[2]) for t in terms]))
        import torch
        return PA.PauliPolynomial(gs, M.PS([t[1] for t in terms])).set_cs(torch.tensor([complex(*t[2]) for t in terms], dtype=torch.complex128))

    def rterms(L):
        return [[gen.rstr(rng, n), rng.randint(0, 3), [rng.choice([1, -1, 2, 0.5]), rng.choice([0, 0, 1, -0.5])]] for _ in range(L)]

    def values(o):
        if kind == 'pauli':
            return M.oP(o)
        if kind == 'mono':
            c = complex(o.c)
            return [M.oP(o), [c.real, c.imag]]
        if kind == 'list':
            return M.oPL(o)
        return [[[int(v) for v in g], int(round(float(p))) % 4, [complex(c).real, complex(c).imag]] for g, p, c in zip(o.gs, o.ps, o.cs)]

    def fresh(o):
        v = values(o)
        if kind == 'pauli':
            return PA.Pauli(M.G(v[0]), int(v[1]))
        if kind == 'mono':
            return PA.PauliMonomial(M.G(v[0][0]), int(v[0][1])).set_c(complex(*v[1]))
        if kind == 'list':
            return PA.PauliList(M.GS([a[0] for a in v], 2 * n), np.array([a[1] for a in v], dtype=np.int_) if be == 'np' else M.PS([a[1] for a in v]))
        return mkpoly(v)
    if kind == 'pauli':
        obj = M.P(gen.rpauli(rng, n))
    elif kind == 'mono':
        obj = PA.PauliMonomial(M.G(gen.rstr(rng, n)), rng.randint(0, 3)).set_c(complex(rng.choice([1, -1, 2, 1j, 0.5 - 0.5j])))
    elif kind == 'list':
        obj = M.PL(gen.rplist(rng, n, rng.randint(1, 4)))
    else:
        obj = mkpoly(rterms(rng.randint(1, 4)))
    H = mkpoly(rterms(3))
    Q = M.P(gen.rpauli(rng, n))

    def cpoly(r):
        r = r.as_polynomial() if hasattr(r, 'as_polynomial') and not hasattr(r, 'cs') else r
        return _canon_poly(r)
    queries = {
        'as_polynomial': lambda o: cpoly(o.as_polynomial()),
        'matmul_poly': lambda o: cpoly(o @ H) if kind != 'list' else None,
        'rmatmul_poly': lambda o: cpoly(H @ o) if kind != 'list' else None,
        'matmul_pauli': lambda o: cpoly(o @ Q) if kind != 'list' else None,
        'add_poly': lambda o: cpoly(o + H) if kind != 'list' else None,
        'radd_poly': lambda o: cpoly(H + o) if kind != 'list' else None,
        'neg': lambda o: cpoly(-o) if kind != 'list' else M.oPL(-o),
        'rmul': lambda o: cpoly(1j * o) if kind != 'list' else M.oPL(1j * o),
        'repr': lambda o: repr(o),
        'copy': lambda o: values(o.copy()),
        'as_list': lambda o: M.oPL(o.as_list()) if kind == 'pauli' else None,
    }
    if be == 'torch':
        for k_ in ('rmatmul_poly', 'radd_poly', 'matmul_pauli', 'add_poly') + (('matmul_poly',) if kind == 'pauli' else ()):
            queries.pop(k_, None)            # the port has no promotion of single operators inside sums / products of polynomials
    names = sorted(queries)
    hist = []
    for _ in range(steps):
        if rng.random() < 0.55:
            name = rng.choice(names)
            hist.append('?' + name)
            try:
                want = queries[name](fresh(obj))
            except (NotImplementedError, TypeError, AttributeError, RuntimeError):
                continue                          # not offered for this kind by this backend
            try:
                got = queries[name](obj)
            except Exception as e:
                return {'kind': 'oracle', 'where': '%s:%s.%s raised %s on a reused object (it works on a fresh equal one)' % (be, kind, name, type(e).__name__), 'observed': str(e)[:120], 'expected': want, 'history': hist, 'tags': ['op_history', kind, name]}
            if got != want:
                return {'kind': 'oracle', 'where': '%s:%s.%s on a reused object differs from the same use of a fresh equal object' % (be, kind, name), 'observed': got if len(str(got)) < 500 else str(got)[:500],
                        'expected': want if len(str(want)) < 500 else str(want)[:500], 'history': hist, 'object': values(obj), 'tags': ['op_history', kind, name]}
        else:
            op = rng.choice(['rotate', 'rotate', 'mrotate', 'transform', 'setp', 'setc'])
            hist.append(op)
            if op == 'rotate':
                obj.rotate_by(M.P(gen.rpauli(rng, n, herm=True, nonzero=True)))
            elif op == 'mrotate' and n >= 2:
                k = rng.randint(1, n - 1)
                mk = gen.rmask(rng, n, k)[0]
                mask = np.array(mk, dtype=bool) if be == 'np' else __import__('torch').tensor([bool(b) for b in mk])
                obj.rotate_by(M.P(gen.rpauli(rng, k, herm=True, nonzero=True)), mask=mask)
            elif op == 'transform':
                obj.transform_by(M.CM(gen_map(rng, n)))
            elif op == 'setp':
                if kind in ('pauli', 'mono'):
                    obj.p = (int(obj.p) + rng.choice([1, 2, 3])) % 4
                else:
                    j = rng.randrange(len(obj.ps))
                    obj.ps[j] = (int(round(float(obj.ps[j]))) + 2) % 4
            elif op == 'setc' and kind == 'poly':
                j = rng.randrange(len(obj.cs))
                obj.cs[j] = obj.cs[j] * (-1)
            elif op == 'setc' and kind == 'mono':
                obj.c = obj.c * 1j
    return None
