"""Core of the check harness: build (translator, Coq, extraction, driver), model client,
evidence / violation / known-finding reporting."""
import os, sys, json, time, subprocess, hashlib, fcntl, re, random, glob

VERIF = os.path.dirname(os.path.dirname(os.path.dirname(os.path.abspath(__file__))))
COQ = os.path.join(VERIF, 'coq')
BUILD = os.path.join(VERIF, 'build')
REPO = os.environ.get('VERIF_REPO', '/repo')
NCPU = os.cpu_count() or 4


def sh(cmd, cwd=None, timeout=1800, env=None):
    p = subprocess.run(cmd, shell=True, cwd=cwd, stdout=subprocess.PIPE, stderr=subprocess.STDOUT,
                       timeout=timeout, env=env, text=True)
    return p.returncode, p.stdout


class BuildLock:
    def __enter__(self):
        os.makedirs(BUILD, exist_ok=True)
        self.f = open(os.path.join(BUILD, '.lock'), 'w')
        fcntl.flock(self.f, fcntl.LOCK_EX)
        return self

    def __exit__(self, *a):
        fcntl.flock(self.f, fcntl.LOCK_UN)
        self.f.close()


def file_hash(paths):
    h = hashlib.sha256()
    for p in sorted(paths):
        h.update(p.encode())
        try:
            h.update(open(p, 'rb').read())
        except OSError:
            h.update(b'<missing>')
    return h.hexdigest()[:20]


def translate():
    """Re-run the translator on /repo's working tree.  Returns the per-item status dict."""
    rc, out = sh('python3 %s --repo %s --out %s' % (os.path.join(VERIF, 'tools', 'translate.py'), REPO,
                                                    os.path.join(COQ, 'Gen')))
    st = {}
    try:
        st = json.load(open(os.path.join(COQ, 'Gen', 'status.json')))
    except Exception:
        pass
    return rc, out.strip(), st


def coq_makefile():
    mk = os.path.join(COQ, 'Makefile')
    proj = os.path.join(COQ, '_CoqProject')
    if not os.path.exists(mk) or os.path.getmtime(mk) < os.path.getmtime(proj):
        sh('coq_makefile -f _CoqProject -o Makefile', cwd=COQ)


def make_targets(targets, keep_going=True):
    """make the given .vo targets (full .vo builds).  Returns (ok, log)."""
    coq_makefile()
    rc, out = sh('timeout 1500 make %s -j%d %s' % ('-k' if keep_going else '', NCPU, ' '.join(targets)), cwd=COQ, timeout=1600)
    return rc == 0, out


def model_files():
    """everything the extracted driver is built from: all generated fragments, all model files, the extraction script"""
    fs = sorted(glob.glob(os.path.join(COQ, 'Gen', '*.v')) + glob.glob(os.path.join(COQ, 'Model', '*.v')))
    return [os.path.relpath(f, COQ) for f in fs] + ['Extract.v']


def build_model():
    """Compile Model/ and rebuild the extracted driver when Gen/ or Model/ changed.
    Returns (driver_path or None, log)."""
    files = [os.path.join(COQ, f) for f in model_files() if os.path.exists(os.path.join(COQ, f))]
    files.append(os.path.join(VERIF, 'ocaml', 'driver.ml'))
    h = file_hash(files)
    drv = os.path.join(BUILD, 'driver-' + h)
    if os.path.exists(drv):
        return drv, 'driver up to date (%s)' % h
    ok, log = make_targets(['Model/Dispatch.vo'], keep_going=False)
    if not ok:
        return None, log
    ex = os.path.join(BUILD, 'extract-' + h)
    sh('rm -rf %s && mkdir -p %s' % (ex, ex))
    rc, out = sh('timeout 300 coqc -Q %s PC %s -o %s/Extract.vo' % (COQ, os.path.join(COQ, 'Extract.v'), ex), cwd=ex)
    if rc != 0 or not os.path.exists(os.path.join(ex, 'model.ml')):
        return None, log + out
    sh('cp %s %s/driver.ml' % (os.path.join(VERIF, 'ocaml', 'driver.ml'), ex))
    rc, out2 = sh('timeout 300 ocamlfind ocamlopt -O2 -w -a model.mli model.ml driver.ml -o driver', cwd=ex)
    if rc != 0:
        return None, log + out + out2
    os.replace(os.path.join(ex, 'driver'), drv)
    sh('rm -rf %s' % ex)
    for old in glob.glob(os.path.join(BUILD, 'driver-*')):
        if old != drv:
            try:
                os.remove(old)
            except OSError:
                pass
    return drv, 'driver rebuilt (%s)' % h


FORBIDDEN = re.compile(r'\b(Admitted|admit|Axiom|Parameter|Conjecture|Unset\s+Guard|bypass_check|Admit\s+Obligations|-type-in-type|-impredicative-set|native_compute)\b')


def forbidden_scan():
    bad = []
    for root, _, fs in os.walk(COQ):
        for f in fs:
            if f.endswith('.v'):
                p = os.path.join(root, f)
                txt = re.sub(r'\(\*.*?\*\)', '', open(p).read(), flags=re.S)
                for m in FORBIDDEN.finditer(txt):
                    bad.append('%s: %s' % (os.path.relpath(p, COQ), m.group(0)))
    for line in open(os.path.join(COQ, '_CoqProject')):
        if 'type-in-type' in line or 'impredicative-set' in line:
            bad.append('_CoqProject: ' + line.strip())
    return bad


def check_props(pid):
    """Build the lemma files the property file depends on and compile Props/<pid>.v with coqc so that its
    Print Assumptions output is fresh.  Returns dict(theorems, ok, failed, assumptions, log)."""
    pf = os.path.join(COQ, 'Props', pid + '.v')
    res = {'theorems': [], 'ok': False, 'failed_at': None, 'assumptions': {}, 'log': ''}
    if not os.path.exists(pf):
        res['log'] = 'no property file'
        return res
    src = open(pf).read()
    nocom = re.sub(r'\(\*.*?\*\)', '', src, flags=re.S)
    res['theorems'] = re.findall(r'^\s*(?:Theorem|Corollary)\s+([A-Za-z0-9_\']+)', nocom, flags=re.M)
    deps = re.findall(r'^\s*From\s+PC\s+Require\s+(?:Import|Export)\s+(.*?)\.\s*$', nocom, flags=re.M)
    targets = []
    for d in deps:
        for mod in d.split():
            targets.append(mod.replace('.', '/') + '.vo')
    if targets:
        ok, log = make_targets(targets)
        res['log'] += log[-4000:]
        if not ok:
            # find which dependency failed
            m = re.search(r'File "\./([^"]+)", line (\d+)', log)
            res['failed_at'] = m.group(0) if m else 'dependency build failed'
            err = re.search(r'Error:.*', log, flags=re.S)
            res['error'] = (err.group(0)[:1500] if err else log[-1500:])
            return res
    rc, out = sh('timeout 900 coqc -Q . PC Props/%s.v' % pid, cwd=COQ, timeout=1000)
    res['log'] += out[-6000:]
    if rc != 0:
        m = re.search(r'File "\./([^"]+)", line (\d+)', out)
        res['failed_at'] = m.group(0) if m else 'Props/%s.v failed' % pid
        err = re.search(r'Error:.*', out, flags=re.S)
        res['error'] = (err.group(0)[:1500] if err else out[-1500:])
        return res
    # parse Print Assumptions output: blocks either "Closed under the global context" or "Axioms:\n name : type"
    blocks = re.split(r'(?=Closed under the global context|Axioms:)', out)
    assum = [b.strip() for b in blocks if b.startswith('Closed under') or b.startswith('Axioms:')]
    for i, th in enumerate(res['theorems']):
        res['assumptions'][th] = assum[i].split('\n')[0:12] if i < len(assum) else ['<no Print Assumptions output>']
    res['ok'] = True
    return res


def coqchk(pid):
    """independent re-check of the compiled property file and everything it depends on (thorough tier)"""
    rc, out = sh('timeout 1500 coqchk -silent -o -Q . PC PC.Props.%s' % pid, cwd=COQ, timeout=1600)
    m = re.search(r'\* Axioms:(.*?)\n\s*\n\* Constants', out, flags=re.S)
    axioms = ' '.join(m.group(1).split()) if m else '<unparsed>'
    return rc == 0, axioms, out[-1500:]


def coq_val(txt):
    """driver text of ONE value -> Coq term of type val"""
    toks = txt.replace('[', ' [ ').replace(']', ' ] ').split()
    pos = 0

    def val():
        nonlocal pos
        t = toks[pos]
        pos += 1
        if t == '[':
            items = []
            while toks[pos] != ']':
                items.append(val())
            pos += 1
            return '(VL [' + '; '.join(items) + '])'
        if t[0] == 'E':
            return '(VE (%s))' % t[1:]
        return '(VZ (%s))' % t
    out = []
    while pos < len(toks):
        out.append(val())
    return out


def golden_cases(pid, log):
    """evaluate the same calls inside Coq (vm_compute on Model.Dispatch.run) and compare with what the extracted driver answered"""
    if not log:
        return True, 0, 'no model calls logged'
    rows = []
    for name, args, res in log:
        a = coq_val(args)
        r = coq_val(res)
        rows.append('("%s", VL [%s], %s)' % (name, '; '.join(a), r[0]))
    src = ('From Coq Require Import String ZArith List.\nFrom PC Require Import Model.Dispatch.\nImport ListNotations.\nOpen Scope string_scope.\nOpen Scope Z_scope.\n'
           'Definition cases : list (string * val * val) :=\n  [' + ';\n   '.join(rows) + '].\n'
           'Eval vm_compute in (length (filter (fun c : string * val * val => negb (val_eqb (run (fst (fst c)) (snd (fst c))) (snd c))) cases)).\n')
    d = os.path.join(BUILD, 'golden')
    os.makedirs(d, exist_ok=True)
    f = os.path.join(d, 'Golden_%s.v' % pid)
    open(f, 'w').write(src)
    rc, out = sh('ulimit -s unlimited; timeout 900 coqc -Q %s PC %s' % (COQ, f), cwd=d, timeout=1000)
    ok = rc == 0 and re.search(r'=\s*0%?n?a?t?\s*\n?\s*:\s*nat', out) is not None
    return ok, len(rows), out[-600:]


# ------------------------------------------------------------------ values
def enc(v):
    """python value -> driver text"""
    import numpy as np
    if v is None:
        return '[]'
    if isinstance(v, (bool, np.bool_)):
        return '1' if v else '0'
    if isinstance(v, (int, np.integer)):
        return str(int(v))
    if isinstance(v, float) and float(v).is_integer():
        return str(int(v))
    if isinstance(v, np.ndarray):
        return enc(v.tolist())
    if isinstance(v, (list, tuple)):
        return '[' + ' '.join(enc(x) for x in v) + ']'
    if isinstance(v, Some):
        return '[' + enc(v.v) + ']'
    raise TypeError('cannot encode %r' % (v,))


class Some:
    def __init__(self, v):
        self.v = v


class Err:
    def __init__(self, code):
        self.code = code

    def __eq__(self, o):
        return isinstance(o, Err)

    def __repr__(self):
        return 'Err(%d)' % self.code


def dec(s):
    """driver text -> nested python lists / ints / Err"""
    toks = s.replace('[', ' [ ').replace(']', ' ] ').split()
    pos = 0

    def val():
        nonlocal pos
        t = toks[pos]
        pos += 1
        if t == '[':
            out = []
            while toks[pos] != ']':
                out.append(val())
            pos += 1
            return out
        if t[0] == 'E':
            return Err(int(t[1:]))
        return int(t)
    return val()


class Model:
    """Client of the extracted Coq model: one persistent subprocess, one line per call."""

    def __init__(self, driver):
        self.driver = driver
        self.calls = 0
        self.log = []          # first calls, kept for the in-Coq cross-check of the extraction (thorough tier)
        self.p = subprocess.Popen(['/bin/bash', '-c', 'ulimit -s unlimited 2>/dev/null; exec ' + driver],
                                  stdin=subprocess.PIPE, stdout=subprocess.PIPE, text=True, bufsize=1)

    def call(self, name, *args):
        line = name + ' ' + ' '.join(enc(a) for a in args) + '\n'
        self.p.stdin.write(line)
        self.p.stdin.flush()
        out = self.p.stdout.readline()
        if not out:
            raise RuntimeError('model driver died on: ' + line[:300])
        self.calls += 1
        if len(self.log) < 400 and len(line) < 3000 and len(out) < 3000 and self.calls % 7 == 1:
            self.log.append((name, line[len(name) + 1:].strip(), out.strip()))
        return dec(out)

    def batch(self, cases):
        return [self.call(n, *a) for n, a in cases]

    def close(self):
        try:
            self.p.stdin.close()
            self.p.wait(timeout=5)
        except Exception:
            self.p.kill()


# ------------------------------------------------------------------ results
class Result:
    """Accumulates what a check covered."""

    def __init__(self, pid, tier, seed):
        self.pid, self.tier, self.seed = pid, tier, seed
        self.t0 = time.time()
        self.evaluations = 0
        self.nontrivial = set()
        self.samples = []
        self.failures = []        # dicts: {kind, where, input, observed, expected, ...}
        self.notes = {}
        self.dist = {}
        self.exhaustive = False

    def count(self, key, n=1):
        self.dist[key] = self.dist.get(key, 0) + n

    def case(self, nontrivial_key=None, sample=None):
        self.evaluations += 1
        if nontrivial_key is not None:
            self.nontrivial.add(nontrivial_key if isinstance(nontrivial_key, (str, int, tuple)) else json.dumps(nontrivial_key, sort_keys=True, default=str))
        if sample is not None and len(self.samples) < 6:
            self.samples.append(sample)

    def fail(self, **kw):
        if len(self.failures) < 200:
            self.failures.append(kw)
        self.count('failures')


def jsonable(o):
    import numpy as np
    if isinstance(o, dict):
        return {str(k): jsonable(v) for k, v in o.items()}
    if isinstance(o, (list, tuple, set)):
        return [jsonable(v) for v in o]
    if isinstance(o, np.ndarray):
        return o.tolist()
    if isinstance(o, (np.integer,)):
        return int(o)
    if isinstance(o, (np.floating,)):
        return float(o)
    if isinstance(o, (np.bool_,)):
        return bool(o)
    if isinstance(o, complex):
        return [o.real, o.imag]
    if isinstance(o, (Err, Some)):
        return repr(o)
    if isinstance(o, (str, int, float, bool)) or o is None:
        return o
    return repr(o)


def load_findings():
    p = os.path.join(VERIF, 'known_findings.json')
    if not os.path.exists(p):
        return []
    return json.load(open(p)).get('findings', [])
