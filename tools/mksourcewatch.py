#!/venv/bin/python
"""Record the syntax-tree fingerprints of every definition in the anchored source files of /repo (see vlib/srcwatch.py).  Run by hand on the tree the
hand-written model was validated against (all checks clean); never run by a check."""
import json, os, sys
sys.path.insert(0, os.path.dirname(os.path.abspath(__file__)))
from vlib import srcwatch
repo = os.environ.get('VERIF_REPO', '/repo')
files = set()
for l in open(os.path.join(os.path.dirname(os.path.dirname(os.path.abspath(__file__))), 'properties.jsonl')):
    if l.strip():
        files |= set(json.loads(l)['anchors'].get('files', []))
fp = srcwatch.fingerprints(repo, sorted(files))
json.dump(fp, open(srcwatch.FILE, 'w'), indent=1, sort_keys=True)
print('%d definitions in %d files' % (len(fp), len(files)))
