#!/usr/bin/env python3
"""Fail-closed translator: /repo Python source -> Coq definitions (coq/Gen/*.v).

Only *formulas and tables* are translated (per-site summands of the kernels,
scalar phase formulas, literal gate tables, the character dispatch of pauli(),
the repr tables, copy-call tables).  Control flow is tied to the model by the
correspondence check instead.

Every item is translated independently.  When an item cannot be translated
(the source no longer has the recognised shape) the committed last-good text of
that item (coq/Gen/frozen.json) is emitted instead and the item is reported with
status "frozen:<reason>"; this is NOT an alarm (see DESIGN.md 4.1): the tie for
that item then rests on the correspondence check alone.

Standard library only.  Usage: translate.py [--repo /repo] [--out coq/Gen] [--update-frozen]
Writes <out>/Kernels.v, <out>/Tables.v and <out>/status.json.
"""
import ast, sys, os, json, hashlib, argparse


class TErr(Exception):
    pass


# ----------------------------------------------------------------- expression -> Coq
class ExprTr:
    """Translate a Python integer expression into a Coq Z expression.
    subs: dict unparsed-subscript-or-name -> Coq variable name.
    env: local straight-line definitions (name -> ast expr) substituted on the fly."""

    def __init__(self, subs, env=None, allowed_calls=()):
        self.subs = subs
        self.env = dict(env or {})
        self.used = set()

    def tr(self, n):
        if isinstance(n, ast.Constant):
            if isinstance(n.value, bool) or not isinstance(n.value, int):
                raise TErr('non-integer constant %r' % (n.value,))
            return str(n.value) if n.value >= 0 else '(%d)' % n.value
        key = ast.unparse(n)
        if key in self.subs:
            self.used.add(self.subs[key])
            return self.subs[key]
        if isinstance(n, ast.Name):
            if n.id in self.env:
                return self.tr(self.env[n.id])
            raise TErr('free name %s' % n.id)
        if isinstance(n, ast.UnaryOp) and isinstance(n.op, ast.USub):
            if isinstance(n.operand, ast.Constant):
                return '(-%s)' % self.tr(n.operand)
            return '(- %s)' % self.tr(n.operand)
        if isinstance(n, ast.BinOp):
            a, b = n.left, n.right
            if isinstance(n.op, ast.Pow):
                if isinstance(a, ast.UnaryOp) and isinstance(a.op, ast.USub) and \
                        isinstance(a.operand, ast.Constant) and a.operand.value == 1:
                    return '(m1pow %s)' % self.tr(b)
                if isinstance(a, ast.Constant) and a.value == -1:
                    return '(m1pow %s)' % self.tr(b)
                if isinstance(b, ast.Constant) and isinstance(b.value, int) and 0 <= b.value <= 4:
                    return '(Z.pow %s %d)' % (self.tr(a), b.value)
                raise TErr('unsupported power ' + key)
            op = {ast.Add: '+', ast.Sub: '-', ast.Mult: '*', ast.FloorDiv: '/', ast.Mod: 'mod'}.get(type(n.op))
            if op is None:
                raise TErr('unsupported operator in ' + key)
            return '(%s %s %s)' % (self.tr(a), op, self.tr(b))
        if isinstance(n, ast.Call):
            f = ast.unparse(n.func)
            if f == 'torch.div' and len(n.args) == 2:
                mode = None
                for k in n.keywords:
                    if k.arg == 'rounding_mode' and isinstance(k.value, ast.Constant):
                        mode = k.value.value
                if mode == 'floor':
                    return '(%s / %s)' % (self.tr(n.args[0]), self.tr(n.args[1]))
                if mode == 'trunc':
                    return '(Z.quot %s %s)' % (self.tr(n.args[0]), self.tr(n.args[1]))
                raise TErr('torch.div without floor/trunc rounding')
            if f == 'int' and len(n.args) == 1:
                return self.tr(n.args[0])
            raise TErr('unsupported call ' + f)
        raise TErr('unsupported expression ' + key)


def find_func(tree, path):
    """path 'Class.method' or 'func' or 'outer.inner'."""
    node = tree
    for part in path.split('.'):
        found = None
        for ch in ast.walk(node) if node is tree else ast.iter_child_nodes(node):
            if isinstance(ch, (ast.FunctionDef, ast.ClassDef)) and ch.name == part:
                # top-level preference: only direct children of module for first part
                found = ch
                break
        if found is None:
            raise TErr('no definition %s' % path)
        node = found
    return node


def top_func(tree, name):
    for ch in tree.body:
        if isinstance(ch, (ast.FunctionDef, ast.ClassDef)) and ch.name == name:
            return ch
    raise TErr('no top-level definition %s' % name)


def get_def(tree, path):
    parts = path.split('.')
    node = top_func(tree, parts[0])
    for p in parts[1:]:
        nxt = None
        for ch in node.body:
            if isinstance(ch, (ast.FunctionDef, ast.ClassDef)) and ch.name == p:
                nxt = ch
        if nxt is None:
            raise TErr('no definition %s' % path)
        node = nxt
    return node


def innermost_for(fn):
    """Return (list of nested For nodes) for the deepest for-loop nest in fn."""
    best = []

    def rec(stmts, stack):
        nonlocal best
        for s in stmts:
            if isinstance(s, ast.For):
                st2 = stack + [s]
                if len(st2) > len(best):
                    best = st2
                rec(s.body, st2)
            elif isinstance(s, (ast.If, ast.While)):
                rec(s.body, stack)
                rec(s.orelse, stack)
    rec(fn.body, [])
    return best


def loop_accum(fn, var, subs, target_pred=None):
    """Find, in fn, the augmented assignment `var += expr` (or var[...] += expr) inside the
    deepest loop that contains it; substitute straight-line locals of that loop body; return
    the Coq text of expr."""
    hit = []

    def rec(stmts, env):
        env = dict(env)
        for s in stmts:
            if isinstance(s, ast.Assign) and len(s.targets) == 1 and isinstance(s.targets[0], ast.Name):
                env[s.targets[0].id] = s.value
            elif isinstance(s, ast.AugAssign) and isinstance(s.op, ast.Add):
                t = s.target
                tname = t.id if isinstance(t, ast.Name) else (t.value.id if isinstance(t, ast.Subscript) and isinstance(t.value, ast.Name) else None)
                if tname == var:
                    hit.append((s.value, env))
            elif isinstance(s, ast.For):
                rec(s.body, env)
            elif isinstance(s, ast.If):
                rec(s.body, env)
                rec(s.orelse, env)
    rec(fn.body, {})
    if len(hit) != 1:
        raise TErr('expected exactly one `%s += ...`, found %d' % (var, len(hit)))
    expr, env = hit[0]
    # locals that are themselves plain accumulators must not be substituted
    env.pop(var, None)
    t = ExprTr(subs, env)
    return t.tr(expr)


def return_modulus(fn, var):
    """`return var % m`  or  `var = var % m` before return -> m"""
    for s in ast.walk(fn):
        if isinstance(s, ast.Return) and isinstance(s.value, ast.BinOp) and isinstance(s.value.op, ast.Mod):
            if ast.unparse(s.value.left) == var and isinstance(s.value.right, ast.Constant):
                return int(s.value.right.value)
        if isinstance(s, ast.Assign) and isinstance(s.value, ast.BinOp) and isinstance(s.value.op, ast.Mod):
            if ast.unparse(s.value.left) == var and ast.unparse(s.targets[0]) == var and isinstance(s.value.right, ast.Constant):
                return int(s.value.right.value)
    raise TErr('no `%s %% m` found' % var)


def assign_expr(fn, target_unparsed, subs, nth=0, env_names=()):
    """The right-hand side of the nth assignment whose target unparses to target_unparsed."""
    hits = []

    def rec(stmts, env):
        env = dict(env)
        for s in stmts:
            if isinstance(s, ast.Assign) and len(s.targets) == 1:
                if ast.unparse(s.targets[0]) == target_unparsed:
                    hits.append((s.value, dict(env)))
                if isinstance(s.targets[0], ast.Name) and s.targets[0].id in env_names:
                    env[s.targets[0].id] = s.value
            for fld in ('body', 'orelse'):
                if hasattr(s, fld) and isinstance(getattr(s, fld), list):
                    rec(getattr(s, fld), env)
    rec(fn.body, {})
    if len(hits) <= nth:
        raise TErr('assignment to %s #%d not found' % (target_unparsed, nth))
    expr, env = hits[nth]
    return ExprTr(subs, env).tr(expr)


def return_expr(fn, subs, env_names=(), nth=0, want_tuple_index=None):
    hits = []

    def rec(stmts, env):
        env = dict(env)
        for s in stmts:
            if isinstance(s, ast.Assign) and len(s.targets) == 1 and isinstance(s.targets[0], ast.Name) \
                    and s.targets[0].id in env_names:
                env[s.targets[0].id] = s.value
            if isinstance(s, ast.Assign) and len(s.targets) == 1 and isinstance(s.targets[0], ast.Tuple) \
                    and isinstance(s.value, ast.Tuple) and len(s.value.elts) == len(s.targets[0].elts):
                for t, v in zip(s.targets[0].elts, s.value.elts):
                    if isinstance(t, ast.Name) and t.id in env_names:
                        env[t.id] = v
            if isinstance(s, ast.Return):
                hits.append((s.value, dict(env)))
            for fld in ('body', 'orelse'):
                if hasattr(s, fld) and isinstance(getattr(s, fld), list):
                    rec(getattr(s, fld), env)
    rec(fn.body, {})
    if len(hits) <= nth:
        raise TErr('return #%d not found' % nth)
    expr, env = hits[nth]
    if want_tuple_index is not None:
        if not isinstance(expr, ast.Tuple):
            raise TErr('return is not a tuple')
        expr = expr.elts[want_tuple_index]
    return expr, env


# ----------------------------------------------------------------- items
NP_SITE2 = {'g1[2 * i]': 'g1x', 'g1[2 * i + 1]': 'g1z', 'g2[2 * i]': 'g2x', 'g2[2 * i + 1]': 'g2z'}
TORCH_SITE2 = {'g1[..., ::2]': 'g1x', 'g1[..., 1::2]': 'g1z', 'g2[..., ::2]': 'g2x', 'g2[..., 1::2]': 'g2z'}


def defn(name, args, body):
    return 'Definition %s %s: Z := %s.' % (name, ''.join('(%s : Z) ' % a for a in args), body)


def item_np_acq(t):
    fn = get_def(t, 'acq')
    return [defn('np_acq_term', ['g1x', 'g1z', 'g2x', 'g2z'], loop_accum(fn, 'acq', NP_SITE2)),
            'Definition np_acq_modulus : Z := %d.' % return_modulus(fn, 'acq')]


def item_np_ipow(t):
    fn = get_def(t, 'ipow')
    return [defn('np_ipow_term', ['g1x', 'g1z', 'g2x', 'g2z'], loop_accum(fn, 'ipow', NP_SITE2)),
            'Definition np_ipow_modulus : Z := %d.' % return_modulus(fn, 'ipow')]


def item_np_p0(t):
    fn = get_def(t, 'p0')
    return [defn('np_p0_term', ['gx', 'gz'], loop_accum(fn, 'p0', {'g[2 * i]': 'gx', 'g[2 * i + 1]': 'gz'})),
            'Definition np_p0_modulus : Z := %d.' % return_modulus(fn, 'p0')]


def item_np_ps0(t):
    fn = get_def(t, 'ps0')
    return [defn('np_ps0_term', ['gx', 'gz'], loop_accum(fn, 'ps0', {'gs[j, 2 * i]': 'gx', 'gs[j, 2 * i + 1]': 'gz'})),
            'Definition np_ps0_modulus : Z := %d.' % return_modulus(fn, 'ps0')]


def item_np_acq_mat(t):
    fn = get_def(t, 'acq_mat')
    subs = {'gs[j1, 2 * i]': 'g1x', 'gs[j1, 2 * i + 1]': 'g1z', 'gs[j2, 2 * i]': 'g2x', 'gs[j2, 2 * i + 1]': 'g2z'}
    return [defn('np_acq_mat_term', ['g1x', 'g1z', 'g2x', 'g2z'], loop_accum(fn, 'mat', subs)),
            'Definition np_acq_mat_modulus : Z := %d.' % return_modulus(fn, 'mat')]


def item_np_tokenize(t):
    fn = get_def(t, 'pauli_tokenize')
    site = assign_expr(fn, 'ts[j, i]', {'gs[j, 2 * i]': 'gx', 'gs[j, 2 * i + 1]': 'gz'})
    ph = assign_expr(fn, 'ts[j, N]', {'ps[j]': 'p'}, env_names=('x',))
    return [defn('np_tok_site', ['gx', 'gz'], site), defn('np_tok_phase', ['p'], ph)]


def item_np_batch_dot(t):
    fn = get_def(t, 'batch_dot')
    ph = assign_expr(fn, 'ps[j1, j2]', {'ps1[j1]': 'p1', 'ps2[j2]': 'p2', 'ipow(gs1[j1], gs2[j2])': 'ip'})
    gg = assign_expr(fn, 'gs[j1, j2]', {'gs1[j1]': 'a', 'gs2[j2]': 'b'})
    return [defn('np_batch_dot_phase', ['p1', 'p2', 'ip'], ph), defn('np_batch_dot_bit', ['a', 'b'], gg)]


def item_np_combine(t):
    fn = get_def(t, 'pauli_combine')
    ph = assign_expr(fn, 'ps_out[j_out]', {'ps_out[j_out]': 'acc', 'ps_in[j_in]': 'p', 'ipow(gs_out[j_out], gs_in[j_in])': 'ip'})
    gg = assign_expr(fn, 'gs_out[j_out]', {'gs_out[j_out]': 'a', 'gs_in[j_in]': 'b'})
    return [defn('np_combine_phase', ['acc', 'p', 'ip'], ph), defn('np_combine_bit', ['a', 'b'], gg)]


def item_np_transform(t):
    fn = get_def(t, 'pauli_transform')
    ph = assign_expr(fn, 'ps_out', {'ps_in': 'p_in', 'ps0(gs_in)': 'p0', 'ps_out': 'p_comb'})
    return [defn('np_transform_phase', ['p_in', 'p0', 'p_comb'], ph)]


def item_np_rotate(t):
    fn = get_def(t, 'clifford_rotate')
    ph = assign_expr(fn, 'ps[j]', {'ps[j]': 'p', 'p': 'pg', 'ipow(gs[j], g)': 'ip'})
    gg = assign_expr(fn, 'gs[j]', {'gs[j]': 'a', 'g': 'b'})
    # the ipow argument order matters: ipow(gs[j], g) (operator first, generator second)
    return [defn('np_rotate_phase', ['p', 'pg', 'ip'], ph), defn('np_rotate_bit', ['a', 'b'], gg)]


def item_np_measure(t):
    fn = get_def(t, 'stabilizer_measure')
    upd = assign_expr(fn, 'ps_stb[j]', {'ps_stb[j]': 'pj', 'ps_stb[p]': 'pp', 'ipow(gs_stb[j], gs_stb[p])': 'ip'})
    acc = assign_expr(fn, 'pa', {'pa': 'pa', 'ps_stb[j - N]': 'ps', 'ipow(ga, gs_stb[j - N])': 'ip'}, nth=2)
    coin = assign_expr(fn, 'ps_stb[p]', {'numpy.random.randint(2)': 'coin'})
    out_r = assign_expr(fn, 'out[k]', {'ps_stb[p]': 'pp', 'ps_obs[k]': 'po'}, nth=0)
    out_d = assign_expr(fn, 'out[k]', {'pa': 'pa', 'ps_obs[k]': 'po'}, nth=1)
    return [defn('np_measure_update_phase', ['pj', 'pp', 'ip'], upd),
            defn('np_measure_acc_phase', ['pa', 'ps', 'ip'], acc),
            defn('np_measure_coin_phase', ['coin'], coin),
            defn('np_measure_out_random', ['pp', 'po'], out_r),
            defn('np_measure_out_determ', ['pa', 'po'], out_d)]


def item_np_expect(t):
    fn = get_def(t, 'stabilizer_expect')
    acc = assign_expr(fn, 'pa', {'pa': 'pa', 'ps_stb[j - N]': 'ps', 'ipow(ga, gs_stb[j - N])': 'ip'}, nth=2)
    xs = assign_expr(fn, 'xs[k]', {'pa': 'pa', 'ps_obs[k]': 'po'}, nth=1)
    return [defn('np_expect_acc_phase', ['pa', 'ps', 'ip'], acc), defn('np_expect_value', ['pa', 'po'], xs)]


def item_np_inverse(t):
    fn = get_def(t, 'CliffordMap.inverse')
    ph = assign_expr(fn, 'ps_inv', {'ps_mis': 'p_mis', 'ps0(gs_inv)': 'p0'})
    return [defn('np_inverse_phase', ['p_mis', 'p0'], ph)]


def item_np_matmul(t):
    fn = get_def(t, 'Pauli.__matmul__')
    ph = assign_expr(fn, 'p', {'self.p': 'p1', 'other.p': 'p2', 'ipow(self.g, other.g)': 'ip'})
    gg = assign_expr(fn, 'g', {'self.g': 'a', 'other.g': 'b'})
    return [defn('np_matmul_phase', ['p1', 'p2', 'ip'], ph), defn('np_matmul_bit', ['a', 'b'], gg)]


def rmul_table(t, cls, attr):
    """[(constant c as text, phase shift expr)] for the c == ... chain of __rmul__, and __neg__."""
    fn = get_def(t, cls + '.__rmul__')
    out = []
    node = fn.body[0]
    while isinstance(node, ast.If):
        test = node.test
        if not (isinstance(test, ast.Compare) and ast.unparse(test.left) == 'c' and isinstance(test.ops[0], ast.Eq)):
            raise TErr('rmul chain shape')
        c = ast.unparse(test.comparators[0])
        ret = node.body[0]
        if not isinstance(ret, ast.Return):
            raise TErr('rmul chain body')
        if ast.unparse(ret.value) == 'self':
            shift = 'p'
        else:
            call = ret.value
            if not (isinstance(call, ast.Call) and ast.unparse(call.func) == 'type(self)' and len(call.args) == 2
                    and ast.unparse(call.args[0]) == 'self.' + ('g' if attr == 'p' else 'gs')):
                raise TErr('rmul return shape')
            shift = ExprTr({'self.' + attr: 'p'}).tr(call.args[1])
        out.append((c, shift))
        if len(node.orelse) == 1 and isinstance(node.orelse[0], ast.If):
            node = node.orelse[0]
        else:
            break
    want = ['1', '1j', '-1', '-1j']
    if [c for c, _ in out] != want:
        raise TErr('rmul constants %r' % [c for c, _ in out])
    names = ['one', 'i', 'm1', 'mi']
    res = [defn('np_%s_rmul_%s' % (cls, n), ['p'], s) for n, (_, s) in zip(names, out)]
    fn = get_def(t, cls + '.__neg__')
    call = fn.body[0].value
    if not (isinstance(call, ast.Call) and ast.unparse(call.func) == 'type(self)' and len(call.args) == 2):
        raise TErr('neg shape')
    res.append(defn('np_%s_neg' % cls, ['p'], ExprTr({'self.' + attr: 'p'}).tr(call.args[1])))
    return res


def item_np_rmul_pauli(t):
    return rmul_table(t, 'Pauli', 'p')


def item_np_rmul_list(t):
    return rmul_table(t, 'PauliList', 'ps')


# torch
def torch_sum_expr(fn, subs, modulus_required=True):
    """return torch.sum(EXPR, dim=-1) % m  ->  (EXPR, m)"""
    expr, env = return_expr(fn, subs, env_names=('gx', 'gz', 'gx1', 'gx2', 'gz1', 'gz2', 'g1x', 'g1z', 'g2x', 'g2z'))
    if not (isinstance(expr, ast.BinOp) and isinstance(expr.op, ast.Mod) and isinstance(expr.right, ast.Constant)):
        raise TErr('torch return not `... % m`')
    m = int(expr.right.value)
    call = expr.left
    if not (isinstance(call, ast.Call) and ast.unparse(call.func) == 'torch.sum'):
        raise TErr('torch return not torch.sum(...) % m')
    return ExprTr(subs, env).tr(call.args[0]), m


def item_torch_acq(t):
    fn = get_def(t, 'acq')
    e, m = torch_sum_expr(fn, TORCH_SITE2)
    return [defn('torch_acq_term', ['g1x', 'g1z', 'g2x', 'g2z'], e), 'Definition torch_acq_modulus : Z := %d.' % m]


def item_torch_ipow(t):
    fn = get_def(t, 'ipow')
    e, m = torch_sum_expr(fn, TORCH_SITE2)
    return [defn('torch_ipow_term', ['g1x', 'g1z', 'g2x', 'g2z'], e), 'Definition torch_ipow_modulus : Z := %d.' % m]


def item_torch_ipow_product(t):
    fn = get_def(t, 'ipow_product')
    # g1x etc. are repeat/view reshapes of the slices: accept only the recognised reshaping idiom
    subs = {}
    want = {
        'g1x': "g1[..., ::2].repeat(1, L2).view(L1 * L2, -1)", 'g1z': "g1[..., 1::2].repeat(1, L2).view(L1 * L2, -1)",
        'g2x': "g2[..., ::2].repeat(L1, 1).view(L1 * L2, -1)", 'g2z': "g2[..., 1::2].repeat(L1, 1).view(L1 * L2, -1)"}
    seen = {}
    for s in fn.body:
        if isinstance(s, ast.Assign) and isinstance(s.targets[0], ast.Tuple) and isinstance(s.value, ast.Tuple):
            for a, v in zip(s.targets[0].elts, s.value.elts):
                seen[ast.unparse(a)] = ast.unparse(v)
    for k, v in want.items():
        if seen.get(k) != v:
            raise TErr('ipow_product reshaping of %s changed: %r' % (k, seen.get(k)))
    subs = {'g1x': 'g1x', 'g1z': 'g1z', 'g2x': 'g2x', 'g2z': 'g2z'}
    expr, env = return_expr(fn, subs, env_names=('gx', 'gz'))
    if not (isinstance(expr, ast.BinOp) and isinstance(expr.op, ast.Mod)):
        raise TErr('shape')
    m = int(expr.right.value)
    e = ExprTr(subs, env).tr(expr.left.args[0])
    return [defn('torch_ipow_product_term', ['g1x', 'g1z', 'g2x', 'g2z'], e),
            'Definition torch_ipow_product_modulus : Z := %d.' % m]


def item_torch_ps0(t):
    fn = get_def(t, 'ps0')
    e, m = torch_sum_expr(fn, {'gs[..., ::2]': 'gx', 'gs[..., 1::2]': 'gz'})
    return [defn('torch_ps0_term', ['gx', 'gz'], e), 'Definition torch_ps0_modulus : Z := %d.' % m]


def item_torch_tokenize(t):
    fn = get_def(t, 'pauli_tokenize')
    subs = {'gx': 'gx', 'gz': 'gz', 'ps': 'p'}
    site = assign_expr(fn, 'ts', subs)
    ph = assign_expr(fn, 'x', subs)
    return [defn('torch_tok_site', ['gx', 'gz'], site), defn('torch_tok_phase', ['p'], ph)]


def item_torch_matmul(t):
    fn = get_def(t, 'Pauli.__matmul__')
    ph = assign_expr(fn, 'p', {'self.p': 'p1', 'other.p': 'p2', 'ipow(self.g, other.g)': 'ip'})
    gg = assign_expr(fn, 'g', {'self.g': 'a', 'other.g': 'b'})
    return [defn('torch_matmul_phase', ['p1', 'p2', 'ip'], ph), defn('torch_matmul_bit', ['a', 'b'], gg)]


def item_torch_rotate(t):
    fn = get_def(t, 'clifford_rotate')
    ph = assign_expr(fn, 'ps', {'ps': 'p', 'p': 'pg', 'ipow(gs, g.unsqueeze(0))': 'ip', 'mask': 'm'})
    gg = assign_expr(fn, 'gs', {'gs': 'a', 'g': 'b', 'mask.view(-1, 1)': 'm'})
    return [defn('torch_rotate_phase', ['p', 'pg', 'ip', 'm'], ph), defn('torch_rotate_bit', ['a', 'b', 'm'], gg)]


def item_torch_transform(t):
    fn = get_def(t, 'pauli_transform')
    ph = assign_expr(fn, 'ps_out', {'ps_in': 'p_in', 'ps0(gs_in)': 'p0', 'ps_out': 'p_comb'})
    return [defn('torch_transform_phase', ['p_in', 'p0', 'p_comb'], ph)]


def item_torch_combine(t):
    fn = get_def(t, 'pauli_combine')
    ph = assign_expr(fn, 'ps_out[row_ind]', {'ps_out[row_ind]': 'acc', 'ps_in[column_ind]': 'p', 'ipow(gs_out[row_ind], gs_in[column_ind])': 'ip'})
    gg = assign_expr(fn, 'gs_out[row_ind]', {'gs_out[row_ind]': 'a', 'gs_in[column_ind]': 'b'})
    return [defn('torch_combine_phase', ['acc', 'p', 'ip'], ph), defn('torch_combine_bit', ['a', 'b'], gg)]


def item_torch_inverse(t):
    fn = get_def(t, 'CliffordMap.inverse')
    # torch version: ps_inv = (- ps_mis - ps0(gs_inv)) % 4 with tensors
    for s in ast.walk(fn):
        if isinstance(s, ast.Assign) and ast.unparse(s.targets[0]) == 'ps_inv':
            pass
    ph = assign_expr(fn, 'ps_inv', {'ps_mis': 'p_mis', 'ps0(gs_inv)': 'p0'})
    return [defn('torch_inverse_phase', ['p_mis', 'p0'], ph)]


# ------------- tables
def np_array_literal(n):
    """np.array([[..],[..]]) or np.array([..]) -> nested python lists of ints"""
    if not (isinstance(n, ast.Call) and ast.unparse(n.func) in ('np.array', 'numpy.array') and len(n.args) == 1):
        raise TErr('not an array literal: ' + ast.unparse(n))
    try:
        v = ast.literal_eval(n.args[0])
    except Exception:
        raise TErr('array literal not constant')
    return v


def cmap_literal(call):
    if not (isinstance(call, ast.Call) and ast.unparse(call.func) == 'CliffordMap'):
        raise TErr('not a CliffordMap(...) call')
    kw = {k.arg: k.value for k in call.keywords}
    if set(kw) != {'gs', 'ps'} or call.args:
        raise TErr('CliffordMap call without gs=,ps=')
    gs = np_array_literal(kw['gs'])
    ps = np_array_literal(kw['ps'])
    if not (isinstance(gs, list) and all(isinstance(r, list) and len(r) == len(gs) for r in gs) and len(ps) == len(gs)):
        raise TErr('table shape')
    if not all(v in (0, 1) for r in gs for v in r):
        raise TErr('table entries not bits')
    return gs, ps


def coq_table(gs, ps):
    rows = []
    for r, p in zip(gs, ps):
        sites = '; '.join('(%s, %s)' % ('true' if r[2 * i] else 'false', 'true' if r[2 * i + 1] else 'false') for i in range(len(r) // 2))
        rows.append('([%s], %d)' % (sites, p))
    return '[' + '; '.join(rows) + ']'


def gate_guard(fn, n):
    """first statement must be `if len(qubits) != n: raise ValueError`"""
    s = fn.body[0]
    if not (isinstance(s, ast.If) and ast.unparse(s.test) == 'len(qubits) != %d' % n and isinstance(s.body[0], ast.Raise)
            and 'ValueError' in ast.unparse(s.body[0])):
        raise TErr('%s: missing arity guard' % fn.name)


def simple_gate(t, name):
    fn = get_def(t, name)
    gate_guard(fn, 1)
    maps = [s.value for s in fn.body if isinstance(s, ast.Assign) and ast.unparse(s.targets[0]) == 'f_map']
    if len(maps) != 1:
        raise TErr('%s: expected one f_map' % name)
    sets = [s for s in fn.body if isinstance(s, ast.Expr) and ast.unparse(s.value) == 'gate.set_forward_map(f_map)']
    if len(sets) != 1:
        raise TErr('%s: set_forward_map(f_map) missing' % name)
    gs, ps = cmap_literal(maps[0])
    return 'Definition gate_%s : list (list (bool*bool) * Z) := %s.' % (name, coq_table(gs, ps))


def item_gates_named(t):
    return [simple_gate(t, n) for n in ('H', 'S', 'X', 'Y', 'Z')]


def item_gate_cnot(t):
    fn = get_def(t, 'CNOT')
    gate_guard(fn, 2)
    ifs = [s for s in fn.body if isinstance(s, ast.If) and ast.unparse(s.test) == 'qubits[0] < qubits[1]']
    if len(ifs) != 1:
        raise TErr('CNOT orientation test changed')
    a = cmap_literal(ifs[0].body[0].value)
    b = cmap_literal(ifs[0].orelse[0].value)
    return ['Definition gate_CNOT_asc : list (list (bool*bool) * Z) := %s.' % coq_table(*a),
            'Definition gate_CNOT_desc : list (list (bool*bool) * Z) := %s.' % coq_table(*b)]


def item_gate_C(t):
    fn = get_def(t, 'C')
    gate_guard(fn, 1)
    node = [s for s in fn.body if isinstance(s, ast.If) and ast.unparse(s.test).startswith('num ==')]
    if len(node) != 1:
        raise TErr('C: num chain missing')
    node = node[0]
    tabs = []
    k = 0
    while True:
        if ast.unparse(node.test) != 'num == %d' % k:
            raise TErr('C: chain index %d' % k)
        tabs.append(cmap_literal(node.body[0].value))
        k += 1
        if len(node.orelse) == 1 and isinstance(node.orelse[0], ast.If):
            node = node.orelse[0]
        else:
            if not (len(node.orelse) == 1 and isinstance(node.orelse[0], ast.Raise) and 'ValueError' in ast.unparse(node.orelse[0])):
                raise TErr('C: final else must raise ValueError')
            break
    return ['Definition gate_C_table : list (list (list (bool*bool) * Z)) :=\n  [' + ';\n   '.join(coq_table(*x) for x in tabs) + '].']


def item_parse_dispatch(t):
    """pauli(): the mu-chain.  Emits a list of (code option, char option, effect)."""
    fn = get_def(t, 'pauli')
    loop = [s for s in fn.body if isinstance(s, ast.For)]
    if len(loop) != 1:
        raise TErr('pauli: loop')
    node = [s for s in loop[0].body if isinstance(s, ast.If)]
    if len(node) != 1:
        raise TErr('pauli: chain')
    node = node[0]
    rows = []
    while True:
        test = node.test
        codes, chars = [], []
        cmps = test.values if isinstance(test, ast.BoolOp) and isinstance(test.op, ast.Or) else [test]
        for c in cmps:
            if not (isinstance(c, ast.Compare) and ast.unparse(c.left) == 'mu' and isinstance(c.ops[0], ast.Eq)
                    and isinstance(c.comparators[0], ast.Constant)):
                raise TErr('pauli: test shape')
            v = c.comparators[0].value
            (codes if isinstance(v, int) else chars).append(v)
        eff = '; '.join(ast.unparse(s) for s in node.body)
        known = {
            'continue': 'EffSkip',
            'g[2 * (i - h)] = 1': 'EffX',
            'g[2 * (i - h)] = 1; g[2 * (i - h) + 1] = 1': 'EffY',
            'g[2 * (i - h) + 1] = 1': 'EffZ',
            'p = 0; h += 1': '(EffSetP 0)', 'p = 2; h += 1': '(EffSetP 2)', 'p = 1; h += 1': '(EffSetP 1)',
            'p = 3; h += 1': '(EffSetP 3)', 'p += 1; h += 1': '(EffAddP 1)'}
        if eff not in known:
            raise TErr('pauli: unknown effect %r' % eff)
        for c in codes:
            rows.append('(inl %d, %s)' % (c, known[eff]))
        for c in chars:
            if len(c) != 1:
                raise TErr('pauli: multi-char token')
            rows.append('(inr %d, %s)' % (ord(c), known[eff]))
        if len(node.orelse) == 1 and isinstance(node.orelse[0], ast.If):
            node = node.orelse[0]
        else:
            if '; '.join(ast.unparse(s) for s in node.orelse) != 'h += 1':
                raise TErr('pauli: final else')
            break
    # tail: g[:-2*h]
    tail = '; '.join(ast.unparse(s) for s in fn.body[-1:])
    if 'Pauli(g[:-2 * h], p)' not in tail or 'Pauli(g, p)' not in tail:
        raise TErr('pauli: tail changed: ' + tail)
    return ['Definition parse_dispatch : list ((Z + Z) * parse_effect) :=\n  [' + ';\n   '.join(rows) + '].']


def item_repr_tables(t):
    fn = get_def(t, 'Pauli.__repr__')
    # phase prefixes
    outer = fn.body[0]
    if not (isinstance(outer, ast.If) and ast.unparse(outer.test) == 'self.N > 0'):
        raise TErr('repr: N>0 guard')
    node = outer.body[0]
    pref = []
    k = 0
    while isinstance(node, ast.If):
        if ast.unparse(node.test) != 'self.p == %d' % k:
            raise TErr('repr: phase chain')
        s = node.body[0]
        if not (isinstance(s, ast.Assign) and ast.unparse(s.targets[0]) == 'txt' and isinstance(s.value, ast.Constant)):
            raise TErr('repr: prefix')
        pref.append(s.value.value)
        k += 1
        node = node.orelse[0] if len(node.orelse) == 1 else None
    if k != 4:
        raise TErr('repr: 4 phases expected')
    loop = [s for s in fn.body if isinstance(s, ast.For)][0]
    chain = [s for s in loop.body if isinstance(s, ast.If)][0]
    letters = {}
    node = chain
    while isinstance(node, ast.If):
        xv = int(ast.unparse(node.test).split('==')[1])
        inner = node.body[0]
        while isinstance(inner, ast.If):
            zv = int(ast.unparse(inner.test).split('==')[1])
            s = inner.body[0]
            if not (isinstance(s, ast.AugAssign) and isinstance(s.value, ast.Constant)):
                raise TErr('repr: letter')
            letters[(xv, zv)] = s.value.value
            inner = inner.orelse[0] if len(inner.orelse) == 1 else None
        node = node.orelse[0] if len(node.orelse) == 1 else None
    if set(letters) != {(0, 0), (0, 1), (1, 0), (1, 1)}:
        raise TErr('repr: letters incomplete')

    def codes(s):
        return '[' + '; '.join(str(ord(c)) for c in s) + ']'
    return ['Definition repr_prefix : list (list Z) := [%s].' % '; '.join(codes(p) for p in pref),
            'Definition repr_letter (x z : bool) : Z := match x, z with false, false => %d | false, true => %d | true, false => %d | true, true => %d end.'
            % tuple(ord(letters[k]) for k in [(0, 0), (0, 1), (1, 0), (1, 1)])]


def copy_table(t, label):
    """For each class with a copy() method: how each constructor argument is passed."""
    rows = []
    for cls in t.body:
        if not isinstance(cls, ast.ClassDef):
            continue
        for m in cls.body:
            if isinstance(m, ast.FunctionDef) and m.name == 'copy':
                src = ' ; '.join(ast.unparse(s) for s in m.body)
                rows.append((cls.name, src))
    return rows


ARRAY_ATTRS = {'g', 'gs', 'ps', 'cs'}
SCALAR_ATTRS = {'p', 'r', 'c', 'N', 'n'}


def ctor_params(tree, cls):
    """formal parameters that positional / keyword actuals of cls(...) bind to, following *args/**kwargs to the first base class"""
    c = get_def(tree, cls)
    init = None
    for m in c.body:
        if isinstance(m, ast.FunctionDef) and m.name == '__init__':
            init = m
    if init is None:
        base = ast.unparse(c.bases[0]) if c.bases else None
        return ctor_params(tree, base) if base and base != 'object' else ([], set())
    pos = [a.arg for a in init.args.args[1:]]
    names = set(pos)
    if init.args.vararg is not None or init.args.kwarg is not None:
        base = ast.unparse(c.bases[0]) if c.bases else None
        if base and base != 'object':
            bp, bn = ctor_params(tree, base)
            if init.args.vararg is not None and not pos:
                pos = bp
            if init.args.kwarg is not None:
                names |= bn
            names |= set(pos)
    return pos, names


def classify_actual(node):
    """-> (attr, how) for an actual argument expression taken from self"""
    u = ast.unparse(node)
    if isinstance(node, ast.Call) and isinstance(node.func, ast.Attribute) and node.func.attr in ('copy', 'clone') and not node.args:
        inner = ast.unparse(node.func.value)
        if inner.startswith('self.'):
            return inner[5:], 'fresh'
    if u.startswith('self.') and u[5:].isidentifier():
        a = u[5:]
        return a, ('scalar' if a in SCALAR_ATTRS else 'shared')
    raise TErr('copy(): unrecognised actual ' + u)


def copy_rows_expr(tree, cls, expr):
    """rows (attr, how, bound_to) for a `return Ctor(args).set_x(y)...` expression"""
    rows = []
    node = expr
    setters = []
    while isinstance(node, ast.Call) and isinstance(node.func, ast.Attribute) and node.func.attr.startswith('set_'):
        if len(node.args) != 1:
            raise TErr('setter arity')
        setters.append((node.func.attr[4:], node.args[0]))
        node = node.func.value
    if not (isinstance(node, ast.Call) and isinstance(node.func, ast.Name)):
        raise TErr('copy(): not a constructor call: ' + ast.unparse(expr))
    pos, names = ctor_params(tree, node.func.id)
    for i, a in enumerate(node.args):
        attr, how = classify_actual(a)
        bound = pos[i] if i < len(pos) else 'UNBOUND'
        rows.append((attr, how, bound))
    for k in node.keywords:
        attr, how = classify_actual(k.value)
        rows.append((attr, how, k.arg if k.arg in names else 'UNBOUND'))
    for target, a in setters:
        attr, how = classify_actual(a)
        rows.append((attr, how, target))
    return node.func.id, rows


def item_copy_tables(trees):
    """copy() of the value classes: for every attribute how it is passed (fresh / shared / scalar) and which constructor parameter it binds to"""
    out = []
    for label, tree, classes in trees:
        for cls in classes:
            fn = get_def(tree, cls + '.copy')
            if not (len(fn.body) == 1 and isinstance(fn.body[0], ast.Return)):
                raise TErr('%s.copy: expected a single return' % cls)
            ctor, rows = copy_rows_expr(tree, cls, fn.body[0].value)
            if ctor != cls:
                raise TErr('%s.copy constructs a %s' % (cls, ctor))
            for attr, how, bound in rows:
                out.append('  ("%s", "%s", "%s", C%s, "%s")' % (label, cls, attr, how, bound))
    return ['Definition copy_table : list (string * string * string * copy_how * string) :=\n  [' + ';\n   '.join(x.strip() for x in out) + '].']


def item_copy_np(t):
    raise TErr('handled by item_copy_all')


def gate_copy_rows(tree, label, cls):
    """circuit classes: statements `new.attr = self.attr.copy()` (fresh) / `= self.attr` (shared)"""
    fn = get_def(tree, cls + '.copy')
    rows = []
    for s in ast.walk(fn):
        if isinstance(s, ast.Assign) and len(s.targets) == 1 and isinstance(s.targets[0], ast.Attribute) and isinstance(s.targets[0].value, ast.Name):
            tgt = s.targets[0].attr
            v = s.value
            u = ast.unparse(v)
            if isinstance(v, ast.Call) and isinstance(v.func, ast.Attribute) and v.func.attr in ('copy', 'clone') and ast.unparse(v.func.value) == 'self.' + tgt:
                rows.append((tgt, 'fresh', tgt))
            elif u == 'self.' + tgt:
                rows.append((tgt, 'shared', tgt))
    return ['  ("%s", "%s", "%s", C%s, "%s")' % (label, cls, a, h, b) for a, h, b in rows]


ITEMS = [
    # (name, file, function, target .v)
    ('np_acq', 'pyclifford/utils.py', item_np_acq, 'Kernels'),
    ('np_ipow', 'pyclifford/utils.py', item_np_ipow, 'Kernels'),
    ('np_p0', 'pyclifford/utils.py', item_np_p0, 'Kernels'),
    ('np_ps0', 'pyclifford/utils.py', item_np_ps0, 'Kernels'),
    ('np_acq_mat', 'pyclifford/utils.py', item_np_acq_mat, 'Kernels'),
    ('np_tokenize', 'pyclifford/utils.py', item_np_tokenize, 'Kernels'),
    ('np_batch_dot', 'pyclifford/utils.py', item_np_batch_dot, 'Kernels'),
    ('np_combine', 'pyclifford/utils.py', item_np_combine, 'Kernels'),
    ('np_transform', 'pyclifford/utils.py', item_np_transform, 'Kernels'),
    ('np_rotate', 'pyclifford/utils.py', item_np_rotate, 'Kernels'),
    ('np_measure', 'pyclifford/utils.py', item_np_measure, 'Kernels'),
    ('np_expect', 'pyclifford/utils.py', item_np_expect, 'Kernels'),
    ('np_inverse', 'pyclifford/stabilizer.py', item_np_inverse, 'Kernels'),
    ('np_matmul', 'pyclifford/paulialg.py', item_np_matmul, 'Kernels'),
    ('np_rmul_pauli', 'pyclifford/paulialg.py', item_np_rmul_pauli, 'Kernels'),
    ('np_rmul_list', 'pyclifford/paulialg.py', item_np_rmul_list, 'Kernels'),
    ('torch_acq', 'torchclifford/utils.py', item_torch_acq, 'Kernels'),
    ('torch_ipow', 'torchclifford/utils.py', item_torch_ipow, 'Kernels'),
    ('torch_ipow_product', 'torchclifford/utils.py', item_torch_ipow_product, 'Kernels'),
    ('torch_ps0', 'torchclifford/utils.py', item_torch_ps0, 'Kernels'),
    ('torch_tokenize', 'torchclifford/utils.py', item_torch_tokenize, 'Kernels'),
    ('torch_matmul', 'torchclifford/paulialg.py', item_torch_matmul, 'Kernels'),
    ('torch_rotate', 'torchclifford/utils.py', item_torch_rotate, 'Kernels'),
    ('torch_transform', 'torchclifford/utils.py', item_torch_transform, 'Kernels'),
    ('torch_combine', 'torchclifford/utils.py', item_torch_combine, 'Kernels'),
    ('gates_named', 'pyclifford/circuit.py', item_gates_named, 'Tables'),
    ('gate_cnot', 'pyclifford/circuit.py', item_gate_cnot, 'Tables'),
    ('gate_C', 'pyclifford/circuit.py', item_gate_C, 'Tables'),
    ('parse_dispatch', 'pyclifford/paulialg.py', item_parse_dispatch, 'Tables'),
    ('repr_tables', 'pyclifford/paulialg.py', item_repr_tables, 'Tables'),
]

def emit_copy_tables(repo):
    """separate pass: needs several files"""
    lines, status = [], 'translated'
    try:
        tp = ast.parse(open(os.path.join(repo, 'pyclifford/paulialg.py')).read())
        ts = ast.parse(open(os.path.join(repo, 'pyclifford/stabilizer.py')).read())
        tc = ast.parse(open(os.path.join(repo, 'pyclifford/circuit.py')).read())
        qp = ast.parse(open(os.path.join(repo, 'torchclifford/paulialg.py')).read())
        qs = ast.parse(open(os.path.join(repo, 'torchclifford/stabilizer.py')).read())
        # stabilizer classes derive from paulialg classes: merge the class definitions for parameter resolution
        merged_np = ast.Module(body=tp.body + ts.body, type_ignores=[])
        merged_t = ast.Module(body=qp.body + qs.body, type_ignores=[])
        rows = []
        for label, tree, classes in (('np', merged_np, ['Pauli', 'PauliList', 'PauliMonomial', 'PauliPolynomial', 'CliffordMap', 'StabilizerState']),
                                     ('torch', merged_t, ['Pauli', 'PauliList', 'PauliPolynomial', 'CliffordMap', 'StabilizerState'])):
            for cls in classes:
                fn = get_def(tree, cls + '.copy')
                if not (len(fn.body) == 1 and isinstance(fn.body[0], ast.Return)):
                    raise TErr('%s.copy: expected a single return' % cls)
                ctor, rr = copy_rows_expr(tree, cls, fn.body[0].value)
                if ctor != cls:
                    raise TErr('%s.copy constructs a %s' % (cls, ctor))
                rows += ['  ("%s", "%s", "%s", C%s, "%s")' % (label, cls, a, h, b) for a, h, b in rr]
        for cls in ('CliffordGate', 'CliffordLayer', 'CliffordCircuit'):
            rows += gate_copy_rows(tc, 'np', cls)
        lines = ['Definition copy_table : list (string * string * string * copy_how * string) :=\n  [' + ';\n   '.join(x.strip() for x in rows) + '].']
    except (TErr, SyntaxError, OSError, IndexError, AttributeError, KeyError, ValueError) as e:
        status = 'frozen:%s: %s' % (type(e).__name__, e)
    return lines, status


HEADER = {
    'Kernels': '(* GENERATED by tools/translate.py from /repo -- do not edit *)\nFrom Coq Require Import ZArith List.\nImport ListNotations.\nOpen Scope Z_scope.\nDefinition m1pow (e : Z) : Z := if Z.even e then 1 else (-1).\n',
    'Copies': '(* GENERATED by tools/translate.py from /repo -- do not edit *)\nFrom Coq Require Import String List.\nImport ListNotations.\nOpen Scope string_scope.\nInductive copy_how := Cfresh | Cshared | Cscalar.\n',
    'Tables': '(* GENERATED by tools/translate.py from /repo -- do not edit *)\nFrom Coq Require Import ZArith List.\nImport ListNotations.\nOpen Scope Z_scope.\nInductive parse_effect := EffSkip | EffX | EffY | EffZ | EffSetP (p : Z) | EffAddP (d : Z).\n',
}


def main():
    ap = argparse.ArgumentParser()
    ap.add_argument('--repo', default='/repo')
    ap.add_argument('--out', default=os.path.join(os.path.dirname(os.path.abspath(__file__)), '..', 'coq', 'Gen'))
    ap.add_argument('--update-frozen', action='store_true')
    a = ap.parse_args()
    out = os.path.abspath(a.out)
    os.makedirs(out, exist_ok=True)
    frozen_path = os.path.join(out, 'frozen.json')
    frozen = json.load(open(frozen_path)) if os.path.exists(frozen_path) else {}
    trees, hashes = {}, {}
    status = {}
    texts = {'Kernels': [], 'Tables': [], 'Copies': []}
    for name, rel, fn, target in ITEMS:
        path = os.path.join(a.repo, rel)
        try:
            if rel not in trees:
                src = open(path).read()
                hashes[rel] = hashlib.sha256(src.encode()).hexdigest()[:16]
                trees[rel] = ast.parse(src)
            lines = fn(trees[rel])
            st = 'translated'
        except (TErr, SyntaxError, OSError, IndexError, AttributeError, KeyError, ValueError) as e:
            if name in frozen:
                lines = frozen[name]
                st = 'frozen:%s: %s' % (type(e).__name__, e)
            else:
                print('translate: item %s failed and has no frozen text: %s' % (name, e), file=sys.stderr)
                sys.exit(2)
        status[name] = {'file': rel, 'status': st, 'sha': hashes.get(rel), 'defs': lines}
        texts[target].append('(* item %s  <- %s  [%s] *)' % (name, rel, st.split(':')[0]))
        texts[target].extend(lines)
        if a.update_frozen and st == 'translated':
            frozen[name] = lines
    cl, cst = emit_copy_tables(a.repo)
    if cst != 'translated':
        if 'copy_tables' in frozen:
            cl = frozen['copy_tables']
        else:
            print('translate: copy tables failed and no frozen text: ' + cst, file=sys.stderr)
            sys.exit(2)
    elif a.update_frozen:
        frozen['copy_tables'] = cl
    status['copy_tables'] = {'file': 'pyclifford/*.py, torchclifford/*.py', 'status': cst, 'sha': None, 'defs': cl}
    texts['Copies'] = ['(* item copy_tables [%s] *)' % cst.split(':')[0]] + cl
    for target, ls in texts.items():
        body = HEADER[target] + '\n'.join(ls) + '\n'
        p = os.path.join(out, target + '.v')
        old = open(p).read() if os.path.exists(p) else None
        if old != body:           # keep mtime when unchanged so make does not rebuild
            open(p, 'w').write(body)
    json.dump(status, open(os.path.join(out, 'status.json'), 'w'), indent=1, sort_keys=True)
    if a.update_frozen:
        json.dump(frozen, open(frozen_path, 'w'), indent=1, sort_keys=True)
    bad = [k for k, v in status.items() if v['status'] != 'translated']
    print('translate: %d items, %d translated, %d frozen%s' % (len(status), len(status) - len(bad), len(bad), (' ' + ','.join(bad)) if bad else ''))


if __name__ == '__main__':
    main()
