#!/bin/bash
# try_seed.sh <Cxx> <dir with patch.diff demo.py meta.json> [extra check ids...]
# applies the seeded change to /repo, confirms the demo fails with it and passes without, runs the checks, and always reverts.
set -u
pid=$1; dir=$2; shift 2
cd /repo || exit 2
if ! git diff --quiet; then echo "repo working tree not clean"; exit 2; fi
echo "== demo on unchanged tree"; PYTHONPATH=/repo /venv/bin/python "$dir/demo.py" /repo >/tmp/seed_demo0.log 2>&1; d0=$?
git apply "$dir/patch.diff" || { echo "patch does not apply"; exit 2; }
echo "== demo on changed tree"; PYTHONPATH=/repo /venv/bin/python "$dir/demo.py" /repo >/tmp/seed_demo1.log 2>&1; d1=$?
echo "demo: unchanged exit=$d0 changed exit=$d1"
res=""
for c in $pid "$@"; do
  out=$(cd /verif && ./check $c 2>&1 | grep "VIOLATION\|tier=" | tr '\n' ' ')
  echo "[$c] $out"
  res="$res $c:$(echo "$out" | grep -c VIOLATION)"
done
git checkout -- . 
echo "RESULT $pid demo0=$d0 demo1=$d1 checks=$res"
