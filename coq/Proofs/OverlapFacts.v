(* Proofs/OverlapFacts.v -- stabilizer_projection_trace computes Tr(rho P_1 ... P_k) for commuting Hermitian observables;
   the overlap of a pure state with any stabilizer state is Tr(rho sigma). *)
From Coq Require Import ZArith List Bool Lia ZifyBool Arith Permutation Setoid Morphisms.
From Coq Require Import QArith Qcanon.
From PC Require Import Gen.Kernels Model.Base Model.Pauli Model.Ket Model.CMap Model.Tableau Model.Circuit Model.Spec
  Model.Poly Model.PolySem Model.Sample
  Proofs.PauliFacts Proofs.Transform Proofs.MaskFacts Proofs.TableauInv Proofs.MeasureFacts Proofs.SampleFacts Proofs.PolyFacts
  Proofs.ProjectionFacts Proofs.TraceFacts Proofs.PositiveFacts Proofs.ProjectorFacts.
Import ListNotations.
Open Scope Z_scope.
Ltac Zify.zify_post_hook ::= Z.to_euclidean_division_equations.

(* ------------------------------------------------------------------ definitions (names fixed) *)
Fixpoint proj_prod (n : nat) (obs : plist) : poly :=
  match obs with [] => ident_poly n | o :: rest => pmulp (proj_poly n o) (proj_prod n rest) end.     (* P_1 P_2 ... P_k *)
Definition trace_value (zero : bool) (halv : nat) : coef := if zero then c0 else half_pow halv.

(* ------------------------------------------------------------------ matrices indexed by kets of length n *)
Definition mat : Type := ket -> ket -> coef.
(* equality of all columns belonging to kets of length n (the row index is unrestricted, as in the amp lemmas) *)
Definition meq (n : nat) (A B : mat) : Prop := forall k k', length k = n -> A k k' = B k k'.
(* (A B)[k -> k'] = sum_m B[k -> m] A[m -> k'] *)
Definition mmul (n : nat) (A B : mat) : mat :=
  fun k k' => csum (map (fun m => cmul (B k m) (A m k')) (all_kets n)).
Definition mtr (n : nat) (A : mat) : coef := csum (map (fun k => A k k) (all_kets n)).
Definition mscal (c : coef) (A : mat) : mat := fun k k' => cmul c (A k k').
Definition mzero : mat := fun _ _ => c0.
Definition mid : mat := fun k k' => if ket_eqb k k' then c1 else c0.

Lemma meq_refl : forall n A, meq n A A.
Proof. intros n A k k' _. reflexivity. Qed.
Lemma meq_sym : forall n A B, meq n A B -> meq n B A.
Proof. intros n A B H k k' Hk. symmetry. apply H. exact Hk. Qed.
Lemma meq_trans : forall n A B C, meq n A B -> meq n B C -> meq n A C.
Proof. intros n A B C H1 H2 k k' Hk. rewrite (H1 k k' Hk). apply H2. exact Hk. Qed.

Add Parametric Relation (n : nat) : mat (meq n)
  reflexivity proved by (meq_refl n) symmetry proved by (meq_sym n) transitivity proved by (meq_trans n) as meq_rel.

Lemma mmul_congr : forall n A A' B B', meq n A A' -> meq n B B' -> meq n (mmul n A B) (mmul n A' B').
Proof.
  intros n A A' B B' HA HB k k' Hk. unfold mmul. apply csum_map_ext. intros m Hm.
  apply all_kets_In in Hm. rewrite (HA m k' Hm), (HB k m Hk). reflexivity.
Qed.

Add Parametric Morphism (n : nat) : (mmul n) with signature (meq n) ==> (meq n) ==> (meq n) as mmul_mor.
Proof. intros A A' HA B B' HB. apply mmul_congr; assumption. Qed.

Lemma mtr_congr : forall n A B, meq n A B -> mtr n A = mtr n B.
Proof.
  intros n A B H. unfold mtr. apply csum_map_ext. intros k Hk. apply all_kets_In in Hk. apply H. exact Hk.
Qed.

Add Parametric Morphism (n : nat) : (mtr n) with signature (meq n) ==> eq as mtr_mor.
Proof. intros A B H. apply mtr_congr. exact H. Qed.

Add Parametric Morphism (n : nat) (c : coef) : (mscal c) with signature (meq n) ==> (meq n) as mscal_mor.
Proof. intros A B H k k' Hk. unfold mscal. rewrite (H k k' Hk). reflexivity. Qed.

Lemma mmul_assoc : forall n A B C, meq n (mmul n (mmul n A B) C) (mmul n A (mmul n B C)).
Proof.
  intros n A B C k k' _. unfold mmul.
  transitivity (csum (map (fun m => csum (map (fun j => cmul (cmul (C k m) (B m j)) (A j k')) (all_kets n))) (all_kets n))).
  - apply csum_map_ext. intros m _. rewrite <- csum_map_cmul. apply csum_map_ext. intros j _.
    symmetry. apply cmul_assoc.
  - rewrite (csum_swap (fun (j m : ket) => cmul (cmul (C k m) (B m j)) (A j k')) (all_kets n) (all_kets n)).
    apply csum_map_ext. intros j _.
    rewrite (cmul_comm (csum _)), <- csum_map_cmul. apply csum_map_ext. intros m _. apply cmul_comm.
Qed.

Lemma mtr_cyclic : forall n A B, mtr n (mmul n A B) = mtr n (mmul n B A).
Proof.
  intros n A B. unfold mtr, mmul.
  rewrite (csum_swap (fun (m k : ket) => cmul (B k m) (A m k)) (all_kets n) (all_kets n)).
  apply csum_map_ext. intros m _. apply csum_map_ext. intros k _. apply cmul_comm.
Qed.

Lemma mmul_mscal_l : forall n c A B, meq n (mmul n (mscal c A) B) (mscal c (mmul n A B)).
Proof.
  intros n c A B k k' _. unfold mmul, mscal. rewrite <- csum_map_cmul. apply csum_map_ext. intros m _.
  rewrite <- !cmul_assoc, (cmul_comm (B k m) c). reflexivity.
Qed.

Lemma mtr_mscal : forall n c A, mtr n (mscal c A) = cmul c (mtr n A).
Proof. intros n c A. unfold mtr, mscal. apply csum_map_cmul. Qed.

Lemma mmul_mzero_l : forall n B, meq n (mmul n mzero B) mzero.
Proof.
  intros n B k k' _. unfold mmul, mzero. apply csum_all_zero. intros m _. apply cmul_0_r.
Qed.

Lemma mtr_mzero : forall n, mtr n mzero = c0.
Proof. intros n. unfold mtr, mzero. apply csum_map_c0. Qed.

Lemma mmul_mid_r : forall n A, meq n (mmul n A mid) A.
Proof.
  intros n A k k' Hk. unfold mmul, mid.
  rewrite (csum_unique (fun m => cmul (if ket_eqb k m then c1 else c0) (A m k')) (all_kets n) k).
  - rewrite ket_eqb_refl. apply cmul_1_l.
  - apply all_kets_In. exact Hk.
  - intros m _ Hne. rewrite ket_eqb_neq; [apply cmul_0_l|]. intros E. apply Hne. symmetry. exact E.
  - apply all_kets_NoDup.
Qed.

(* ------------------------------------------------------------------ polynomials as matrices *)
Lemma amp_mmul : forall n p q, well_sized n p -> well_sized n q -> meq n (amp (pmulp p q)) (mmul n (amp p) (amp q)).
Proof. intros n p q Wp Wq k k' Hk. apply (amp_matrix_product n p q k k' Wp Wq Hk). Qed.

Lemma trace_sem_mtr : forall n p, trace_sem n p = mtr n (amp p).
Proof. reflexivity. Qed.

Lemma amp_ident_mid : forall n, meq n (amp (ident_poly n)) mid.
Proof. intros n k k' Hk. apply amp_ident. exact Hk. Qed.

Lemma well_sized_pmulp : forall n p q, well_sized n p -> well_sized n q -> well_sized n (pmulp p q).
Proof.
  intros n p q Wp Wq. unfold well_sized in *. rewrite Forall_forall in *. intros x Hx.
  unfold pmulp in Hx. apply in_flat_map in Hx. destruct Hx as [s [Hs Hx]].
  apply in_map_iff in Hx. destruct Hx as [u [E Hu]]. subst x. cbn [fst snd].
  rewrite gxor_length; [exact (Wp s Hs) | transitivity n; [exact (Wp s Hs) | symmetry; exact (Wq u Hu)]].
Qed.

Lemma well_sized_proj : forall n (o : pauli), length (fst o) = n -> well_sized n (proj_poly n o).
Proof.
  intros n o Lo. unfold well_sized, proj_poly. constructor; [|constructor; [exact Lo | constructor]].
  cbn [fst snd pid]. apply id_str_length.
Qed.

Lemma well_sized_ident : forall n, well_sized n (ident_poly n).
Proof. intros n. unfold well_sized, ident_poly. constructor; [|constructor]. cbn [fst snd pid]. apply id_str_length. Qed.

Lemma well_sized_proj_prod : forall n obs, Forall (fun o : pauli => length (fst o) = n) obs -> well_sized n (proj_prod n obs).
Proof.
  intros n obs H. induction H as [|o obs Ho _ IH]; cbn [proj_prod].
  - apply well_sized_ident.
  - apply well_sized_pmulp; [apply well_sized_proj; exact Ho | exact IH].
Qed.

(* ------------------------------------------------------------------ projector algebra at the matrix level *)
Lemma coef4 : forall h a b c d : coef,
  cadd (cmul (cmul h h) a) (cadd (cmul (cmul h h) b) (cadd (cmul (cmul h h) c) (cadd (cmul (cmul h h) d) c0)))
  = cmul (cmul h h) (cadd (cadd a d) (cadd b c)).
Proof. intros h a b c d. cring. Qed.

Lemma coef_half : forall a b : coef,
  cmul (cmul chalf chalf) (cadd (cadd a a) (cadd b b)) = cadd (cmul chalf a) (cadd (cmul chalf b) c0).
Proof.
  intros a b. rewrite cadd_0_r, cmul_assoc, cmul_cadd_distr_l, !chalf_double, cmul_cadd_distr_l. reflexivity.
Qed.

(* <k'| P_a P_b |k> *)
Lemma amp_proj_proj : forall n a b k k', wf n a -> wf n b ->
  amp (pmulp (proj_poly n a) (proj_poly n b)) k k'
  = cmul (cmul chalf chalf) (cadd (cadd (tamp k k' (pid n)) (tamp k k' (pmul a b))) (cadd (tamp k k' b) (tamp k k' a))).
Proof.
  intros n a b k k' Wa Wb. unfold proj_poly. rewrite !pmulp_cons, pmulp_nil_l, app_nil_r.
  cbn [map app fst snd]. rewrite (pmul_pid_l n (pid n) (wf_pid n)), (pmul_pid_l n b Wb), (pmul_pid_r n a Wa).
  rewrite !amp_cons, amp_nil, !amp_term_tamp. apply coef4.
Qed.

Lemma amp_proj : forall n a k k', amp (proj_poly n a) k k' = cadd (cmul chalf (tamp k k' (pid n))) (cadd (cmul chalf (tamp k k' a)) c0).
Proof. intros n a k k'. unfold proj_poly. rewrite !amp_cons, amp_nil, !amp_term_tamp. reflexivity. Qed.

Lemma proj_idem_amp : forall n o k k', wf n o -> hermP o ->
  amp (pmulp (proj_poly n o) (proj_poly n o)) k k' = amp (proj_poly n o) k k'.
Proof.
  intros n o k k' Wo Ho. rewrite (amp_proj_proj n o o k k' Wo Wo), (herm_square n o Wo Ho), amp_proj. apply coef_half.
Qed.

Lemma proj_comm_amp : forall n a b k k', wf n a -> wf n b -> acq (fst a) (fst b) = 0 ->
  amp (pmulp (proj_poly n a) (proj_poly n b)) k k' = amp (pmulp (proj_poly n b) (proj_poly n a)) k k'.
Proof.
  intros n a b k k' Wa Wb H. rewrite (amp_proj_proj n a b k k' Wa Wb), (amp_proj_proj n b a k k' Wb Wa).
  rewrite (acq_spec_comm a b H). f_equal. f_equal. apply cadd_comm.
Qed.

Lemma proj_idem : forall n o, wf n o -> hermP o ->
  meq n (mmul n (amp (proj_poly n o)) (amp (proj_poly n o))) (amp (proj_poly n o)).
Proof.
  intros n o Wo Ho. pose proof Wo as [Lo _].
  rewrite <- (amp_mmul n _ _ (well_sized_proj n o Lo) (well_sized_proj n o Lo)).
  intros k k' _. apply (proj_idem_amp n o k k' Wo Ho).
Qed.

Lemma proj_comm : forall n a b, wf n a -> wf n b -> acq (fst a) (fst b) = 0 ->
  meq n (mmul n (amp (proj_poly n a)) (amp (proj_poly n b))) (mmul n (amp (proj_poly n b)) (amp (proj_poly n a))).
Proof.
  intros n a b Wa Wb H. pose proof Wa as [La _]. pose proof Wb as [Lb _].
  rewrite <- (amp_mmul n _ _ (well_sized_proj n a La) (well_sized_proj n b Lb)).
  rewrite <- (amp_mmul n _ _ (well_sized_proj n b Lb) (well_sized_proj n a La)).
  intros k k' _. apply (proj_comm_amp n a b k k' Wa Wb H).
Qed.

Lemma pmulp_ident_proj : forall n o, wf n o -> pmulp (ident_poly n) (proj_poly n o) = proj_poly n o.
Proof.
  intros n o Wo. unfold ident_poly, proj_poly. rewrite pmulp_cons, pmulp_nil_l, app_nil_r.
  cbn [map fst snd]. rewrite (pmul_pid_l n (pid n) (wf_pid n)), (pmul_pid_l n o Wo), cmul_1_l. reflexivity.
Qed.

Definition obs_ok (n : nat) (o : pauli) : Prop := length (fst o) = n /\ hermP o.

Lemma obs_ok_len : forall n obs, Forall (obs_ok n) obs -> Forall (fun o : pauli => length (fst o) = n) obs.
Proof. intros n obs H. eapply Forall_impl; [|exact H]. intros o [L _]. exact L. Qed.

(* P commutes with the product of projectors that commute with it *)
Lemma proj_comm_prod : forall n o rest, obs_ok n o -> Forall (obs_ok n) rest ->
  (forall b, In b rest -> acq (fst o) (fst b) = 0) ->
  meq n (mmul n (amp (proj_poly n o)) (amp (proj_prod n rest))) (mmul n (amp (proj_prod n rest)) (amp (proj_poly n o))).
Proof.
  intros n o rest [Lo Ho] Hrest. pose proof (herm_wf_o n o Lo Ho) as Wo.
  induction Hrest as [|b rest [Lb Hb] Hrest IH]; intros Hc; cbn [proj_prod].
  - rewrite <- (amp_mmul n _ _ (well_sized_ident n) (well_sized_proj n o Lo)).
    rewrite (pmulp_ident_proj n o Wo). rewrite (amp_ident_mid n). apply mmul_mid_r.
  - pose proof (herm_wf_o n b Lb Hb) as Wb.
    pose proof (well_sized_proj_prod n rest (obs_ok_len n rest Hrest)) as WQ.
    rewrite (amp_mmul n _ _ (well_sized_proj n b Lb) WQ).
    rewrite <- (mmul_assoc n (amp (proj_poly n o))).
    rewrite (proj_comm n o b Wo Wb (Hc b (or_introl eq_refl))).
    rewrite (mmul_assoc n (amp (proj_poly n b))).
    rewrite IH by (intros x Hx; apply Hc; right; exact Hx).
    rewrite <- (mmul_assoc n (amp (proj_poly n b))). reflexivity.
Qed.

(* Tr(R P Q) = Tr((P R P) Q) when P P = P and P Q = Q P *)
Lemma trace_sandwich_mat : forall n R P Q, meq n (mmul n P P) P -> meq n (mmul n P Q) (mmul n Q P) ->
  mtr n (mmul n R (mmul n P Q)) = mtr n (mmul n (mmul n P (mmul n R P)) Q).
Proof.
  intros n R P Q HPP HPQ.
  transitivity (mtr n (mmul n R (mmul n (mmul n P P) Q))); [rewrite HPP; reflexivity|].
  rewrite (mmul_assoc n P P Q), HPQ.
  rewrite <- (mmul_assoc n R P (mmul n Q P)), <- (mmul_assoc n (mmul n R P) Q P).
  rewrite mtr_cyclic. rewrite <- (mmul_assoc n P (mmul n R P) Q). reflexivity.
Qed.

(* ------------------------------------------------------------------ one step of the kernel on a pure state *)
Lemma order_measure_pure : forall n, order_measure n 0 = order_plain n.
Proof.
  intros n. unfold order_measure, order_plain. cbn [seq app]. rewrite Nat.sub_0_r.
  replace (2 * n)%nat with (n + n)%nat by lia. rewrite seq_app. reflexivity.
Qed.

Lemma herm_half : forall o : pauli, hermP o -> (snd o / 2 = 0 \/ snd o / 2 = 1) /\ 2 * (snd o / 2) = snd o.
Proof. intros [g p] [H|H]; cbn [snd] in *; subst p; split; auto. Qed.

Lemma pair_eta : forall o : pauli, (fst o, snd o) = o.
Proof. intros [g p]. reflexivity. Qed.

(* the undetermined case: the same tableau as stabilizer_measure with the coin that installs the phase of o *)
Lemma ptrace1_blocked : forall n t (o : pauli) zero halv, tableau_ok n t -> rk t = 0%nat -> length (fst o) = n -> hermP o ->
  (exists i, (i < n + rk t)%nat /\ anti (fst o) (rows t) i = true) ->
  ptrace1 (t, zero, halv) o = (fst (fst (fst (measure1 t o (snd o / 2)))), zero, S halv).
Proof.
  intros n t o zero halv Hok Hrk Lo Ho B. pose proof Hok as [HL [Hr _]].
  destruct (herm_half o Ho) as [_ E2].
  unfold ptrace1, measure1. rewrite (ok_tN n t Hok). cbv zeta. rewrite Hrk, order_measure_pure.
  pose proof (scan_char n 0 (fst o) (rows t) _ (ord_ok_plain n 0) HL) as C. cbv zeta in C.
  destruct C as [[_ [_ C]]|[C1 _]].
  { exfalso. destruct B as [i [Hi Ha]]. rewrite Hrk in Hi. rewrite (C i ltac:(lia) Hi) in Ha. discriminate Ha. }
  rewrite C1. destruct (install n 0 (fst o) (scan_over (order_plain n) n 0 (fst o) (rows t))) as [[l r'] p].
  cbn [fst]. unfold np_measure_coin_phase. rewrite E2. reflexivity.
Qed.

Lemma ptrace1_free : forall n t (o : pauli) zero halv, tableau_ok n t ->
  (forall i, (i < n + rk t)%nat -> anti (fst o) (rows t) i = false) ->
  ptrace1 (t, zero, halv) o
  = (t, zero || negb (snd (accfold n (fst o) (rows t) (seq (n + rk t) (n - rk t)) (pid n)) =? snd o), halv).
Proof.
  intros n t o zero halv Hok Hfree. pose proof Hok as [_ [Hr _]].
  unfold ptrace1. rewrite (ok_tN n t Hok). cbv zeta.
  rewrite (scan_plain_free n (rk t) (fst o) (rows t) Hr Hfree). cbn [s_update s_rows s_acc].
  rewrite tableau_eta. reflexivity.
Qed.

Lemma ptrace1_spec_p : forall n t (o : pauli) zero halv, tableau_ok n t -> rk t = 0%nat -> length (fst o) = n -> hermP o ->
   let t' := fst (fst (ptrace1 (t, zero, halv) o)) in
   let zero' := snd (fst (ptrace1 (t, zero, halv) o)) in
   let halv' := snd (ptrace1 (t, zero, halv) o) in
   tableau_ok n t' /\ rk t' = 0%nat /\
   ((in_group n t o /\ t' = t /\ zero' = zero /\ halv' = halv) \/
    (in_group n t (pneg o) /\ zero' = true /\ halv' = halv) \/
    (expect1 t o = 0 /\ zero' = zero /\ halv' = S halv /\
     forall k k', length k = n -> amp (density_poly t') k k' = cmul c2 (amp (sandwich n o (density_poly t)) k k'))).
Proof.
  intros n t o zero halv Hok Hrk Lo Ho. cbv zeta.
  destruct (expect1_cases n t o Hok Lo Ho) as [[B E]|[Hfree HC]].
  - rewrite (ptrace1_blocked n t o zero halv Hok Hrk Lo Ho B). cbn [fst snd].
    destruct (herm_half o Ho) as [Hcoin E2].
    assert (Hblk : exists i, (i < n + rk t)%nat /\ acq (fst (row (rows t) i)) (fst o) = 1).
    { destruct B as [i [Hi Ha]]. exists i. split; [exact Hi|]. apply anti_true_iff. exact Ha. }
    pose proof (measure1_ok n t o (snd o / 2) Hok Lo Hcoin) as M.
    pose proof (measure1_density n t o (snd o / 2)) as D.
    destruct (measure1 t o (snd o / 2)) as [[[t1 out] lp] used]. cbn [fst] in *.
    destruct M as [M1 [M2 _]].
    split; [exact M1|]. split; [lia|]. right. right.
    split; [exact E|]. split; [reflexivity|]. split; [reflexivity|].
    intros k k' Hk. specialize (D k k' Hok Lo Ho Hcoin Hblk Hk). cbv zeta in D.
    rewrite E2, pair_eta in D. exact D.
  - rewrite (ptrace1_free n t o zero halv Hok Hfree). cbn [fst snd].
    split; [exact Hok|]. split; [exact Hrk|].
    destruct HC as [[K [G _]]|[K [G _]]]; rewrite K.
    + left. rewrite Z.eqb_refl. cbn [negb]. rewrite orb_false_r. auto.
    + right. left. rewrite (pneg_snd_neq o Ho). cbn [negb]. rewrite orb_true_r. auto.
Qed.

(* one step on a pure valid tableau: the three cases of ptrace1 *)
Theorem ptrace1_spec : forall n t o zero halv, tableau_ok n t -> rk t = 0%nat -> length (fst o) = n -> hermP o ->
   let '(t', zero', halv') := ptrace1 (t, zero, halv) o in
   tableau_ok n t' /\ rk t' = 0%nat /\
   ((in_group n t o /\ t' = t /\ zero' = zero /\ halv' = halv) \/
    (in_group n t (pneg o) /\ zero' = true /\ halv' = halv) \/
    (expect1 t o = 0 /\ zero' = zero /\ halv' = S halv /\ forall k k', length k = n -> amp (density_poly t') k k' = cmul c2 (amp (sandwich n o (density_poly t)) k k'))).
Proof.
  intros n t o zero halv Hok Hrk Lo Ho. pose proof (ptrace1_spec_p n t o zero halv Hok Hrk Lo Ho) as H. cbv zeta in H.
  destruct (ptrace1 (t, zero, halv) o) as [[t' zero'] halv']. exact H.
Qed.

(* ------------------------------------------------------------------ the whole kernel *)
Lemma trace_value_S : forall zero halv, trace_value zero (S halv) = cmul chalf (trace_value zero halv).
Proof. intros [|] halv; cbn [trace_value half_pow]; [rewrite cmul_0_r|]; reflexivity. Qed.

Lemma trace_rho_ident : forall n t, tableau_ok n t -> trace_sem n (pmulp (density_poly t) (ident_poly n)) = c1.
Proof.
  intros n t Hok. rewrite trace_sem_mtr.
  rewrite (amp_mmul n _ _ (density_poly_sized n t Hok) (well_sized_ident n)), (amp_ident_mid n), (mmul_mid_r n).
  apply (trace_rho_one n t Hok).
Qed.

(* Tr(rho P Q) = Tr((P rho P) Q) *)
Lemma trace_step : forall n t o rest, tableau_ok n t -> obs_ok n o -> Forall (obs_ok n) rest ->
  (forall b, In b rest -> acq (fst o) (fst b) = 0) ->
  trace_sem n (pmulp (density_poly t) (proj_prod n (o :: rest)))
  = mtr n (mmul n (amp (sandwich n o (density_poly t))) (amp (proj_prod n rest))).
Proof.
  intros n t o rest Hok Hobs Hrest Hc. pose proof Hobs as [Lo Ho]. pose proof (herm_wf_o n o Lo Ho) as Wo.
  pose proof (density_poly_sized n t Hok) as WR.
  pose proof (well_sized_proj n o Lo) as WP.
  pose proof (well_sized_proj_prod n rest (obs_ok_len n rest Hrest)) as WQ.
  rewrite trace_sem_mtr. cbn [proj_prod].
  rewrite (amp_mmul n _ _ WR (well_sized_pmulp n _ _ WP WQ)), (amp_mmul n _ _ WP WQ).
  rewrite (trace_sandwich_mat n _ _ _ (proj_idem n o Wo Ho) (proj_comm_prod n o rest Hobs Hrest Hc)).
  unfold sandwich.
  rewrite (amp_mmul n _ _ WP (well_sized_pmulp n _ _ WR WP)), (amp_mmul n _ _ WR WP). reflexivity.
Qed.

Lemma chalf_c2_cancel : forall x, cmul chalf (cmul c2 x) = x.
Proof. intros x. rewrite <- cmul_assoc, chalf_c2. apply cmul_1_l. Qed.

Lemma ptrace_fold : forall n obs t zero0 halv0, tableau_ok n t -> rk t = 0%nat -> Forall (obs_ok n) obs ->
  (forall a b, In a obs -> In b obs -> acq (fst a) (fst b) = 0) ->
  let st := fold_left ptrace1 obs (t, zero0, halv0) in
  trace_value (snd (fst st)) (snd st)
  = cmul (trace_value zero0 halv0) (trace_sem n (pmulp (density_poly t) (proj_prod n obs))).
Proof.
  intros n obs. induction obs as [|o rest IH]; intros t zero0 halv0 Hok Hrk Hobs Hc; cbv zeta.
  - cbn [fold_left fst snd proj_prod]. rewrite (trace_rho_ident n t Hok), cmul_1_r. reflexivity.
  - inversion_clear Hobs as [|? ? Ho Hrest]. pose proof Ho as [Lo Hh].
    assert (Hc1 : forall b, In b rest -> acq (fst o) (fst b) = 0).
    { intros b Hb. apply Hc; [left; reflexivity | right; exact Hb]. }
    assert (Hc2 : forall a b, In a rest -> In b rest -> acq (fst a) (fst b) = 0).
    { intros a b Ha Hb. apply Hc; right; assumption. }
    pose proof (well_sized_proj_prod n rest (obs_ok_len n rest Hrest)) as WQ.
    rewrite (trace_step n t o rest Hok Ho Hrest Hc1).
    cbn [fold_left].
    pose proof (ptrace1_spec_p n t o zero0 halv0 Hok Hrk Lo Hh) as S. cbv zeta in S.
    destruct (ptrace1 (t, zero0, halv0) o) as [[t1 zero1] halv1]. cbn [fst snd] in S.
    destruct S as [Hok1 [Hrk1 S]].
    specialize (IH t1 zero1 halv1 Hok1 Hrk1 Hrest Hc2). cbv zeta in IH. rewrite IH. clear IH.
    destruct S as [[G [Et [Ez Eh]]]|[[G [Ez Eh]]|[E0 [Ez [Eh D]]]]].
    + subst t1 zero1 halv1. f_equal.
      assert (M : meq n (amp (sandwich n o (density_poly t))) (amp (density_poly t))).
      { intros k k' Hk. apply (sandwich_eigen_plus n t o k k' Hok Lo Hh G Hk). }
      rewrite M, <- (amp_mmul n _ _ (density_poly_sized n t Hok) WQ). reflexivity.
    + subst zero1 halv1. cbn [trace_value]. rewrite cmul_0_l.
      assert (M : meq n (amp (sandwich n o (density_poly t))) mzero).
      { intros k k' Hk. apply (sandwich_eigen_minus n t o k k' Hok Lo Hh G Hk). }
      rewrite M, (mmul_mzero_l n), mtr_mzero, cmul_0_r. reflexivity.
    + subst zero1 halv1. rewrite trace_value_S.
      assert (M : meq n (amp (sandwich n o (density_poly t))) (mscal chalf (amp (density_poly t1)))).
      { intros k k' Hk. unfold mscal. rewrite (D k k' Hk). symmetry. apply chalf_c2_cancel. }
      rewrite M, (mmul_mscal_l n), mtr_mscal.
      rewrite <- (amp_mmul n _ _ (density_poly_sized n t1 Hok1) WQ), <- trace_sem_mtr.
      rewrite <- !cmul_assoc, (cmul_comm chalf). reflexivity.
Qed.

(* MAIN: for mutually commuting Hermitian observables the kernel returns Tr(rho P_1 ... P_k) *)
Theorem projection_trace_value : forall n t obs, tableau_ok n t -> rk t = 0%nat -> Forall (fun o => length (fst o) = n /\ hermP o) obs ->
   (forall a b, In a obs -> In b obs -> acq (fst a) (fst b) = 0) ->
   let '(_, zero, halv) := projection_trace t obs in
   trace_sem n (pmulp (density_poly t) (proj_prod n obs)) = trace_value zero halv.
Proof.
  intros n t obs Hok Hrk Hobs Hc.
  pose proof (ptrace_fold n obs t false 0%nat Hok Hrk Hobs Hc) as H. cbv zeta in H.
  unfold projection_trace. destruct (fold_left ptrace1 obs (t, false, 0%nat)) as [[t' zero] halv].
  cbn [fst snd] in H. rewrite H. cbn [trace_value half_pow]. rewrite cmul_1_l. reflexivity.
Qed.

(* ------------------------------------------------------------------ the projector product of a generator list *)
Definition expansion (n : nat) (rs : plist) : poly :=
  map (fun sel => (half_pow (length rs), rprod n sel rs)) (all_bitvecs (length rs)).

Lemma well_sized_expansion : forall n rs, Forall (wf n) rs -> well_sized n (expansion n rs).
Proof.
  intros n rs W. unfold well_sized, expansion. apply Forall_forall. intros x Hx.
  apply in_map_iff in Hx. destruct Hx as [sel [E _]]. subst x. cbn [fst snd].
  destruct (wf_rprod n sel rs W) as [L _]. exact L.
Qed.

(* prod_j (1 + s_j)/2 = 2^-m sum over selections of the ordered products *)
Lemma proj_prod_expand : forall n rs, Forall (wf n) rs -> meq n (amp (proj_prod n rs)) (amp (expansion n rs)).
Proof.
  intros n rs W. induction W as [|r rs Wr W IH].
  - reflexivity.
  - pose proof Wr as [Lr _]. cbn [proj_prod].
    assert (Wlen : Forall (fun o : pauli => length (fst o) = n) rs).
    { eapply Forall_impl; [|exact W]. intros a [L _]. exact L. }
    rewrite (amp_mmul n _ _ (well_sized_proj n r Lr) (well_sized_proj_prod n rs Wlen)), IH.
    rewrite <- (amp_mmul n _ _ (well_sized_proj n r Lr) (well_sized_expansion n rs W)).
    assert (E : pmulp (proj_poly n r) (expansion n rs) = expansion n (r :: rs)); [|rewrite E; reflexivity].
    unfold proj_poly, expansion. rewrite !pmulp_cons, pmulp_nil_l, app_nil_r. cbn [fst snd length all_bitvecs].
    rewrite map_app, !map_map. cbn [fst snd rprod half_pow]. f_equal.
    apply map_ext. intros sel. rewrite (pmul_pid_l n _ (wf_rprod n sel rs W)). reflexivity.
Qed.

Lemma two_pow_half_pow : forall n r, (r <= n)%nat -> half_pow (n - r) = cmul (two_pow r) (half_pow n).
Proof.
  intros n r H. rewrite <- (half_pow_rank n (n - r)) by lia. replace (n - (n - r))%nat with r by lia. reflexivity.
Qed.

Lemma proj_prod_density_p : forall n s k k', tableau_ok n s -> length k = n ->
   amp (proj_prod n (stabilizers s)) k k' = cmul (two_pow (rk s)) (amp (density_poly s) k k').
Proof.
  intros n s k k' Hok Hk. pose proof Hok as [_ [Hr _]]. rewrite <- active_stabilizers.
  pose proof (active_wf n s Hok) as W.
  rewrite (proj_prod_expand n (active s) W k k' Hk).
  rewrite (density_amp n s k k' Hok), (density_terms_eq n s Hok).
  unfold expansion. rewrite (active_length n s Hok).
  rewrite <- (map_map (fun sel => rprod n sel (active s)) (fun a : pauli => (half_pow (n - rk s), a))), amp_map_tamp.
  rewrite (map_ext (fun sel => gprod n sel (active s)) (fun sel => rprod n sel (active s)))
    by (intros sel; apply gprod_rprod; exact W).
  rewrite (two_pow_half_pow n (rk s) Hr), cmul_assoc. reflexivity.
Qed.

(* the projector product of the active stabilizers of sigma is 2^r sigma *)
Theorem proj_prod_density : forall n s k k', tableau_ok n s -> length k = n ->
   amp (proj_prod n (stabilizers s)) k k' = cmul (two_pow (rk s)) (amp (density_poly s) k k').
Proof. exact proj_prod_density_p. Qed.

(* ------------------------------------------------------------------ the overlap of a pure state with a stabilizer state *)
Lemma mmul_mscal_r : forall n c A B, meq n (mmul n A (mscal c B)) (mscal c (mmul n A B)).
Proof.
  intros n c A B k k' _. unfold mmul, mscal. rewrite <- csum_map_cmul. apply csum_map_ext. intros m _.
  apply cmul_assoc.
Qed.

Lemma stabilizers_obs_ok : forall n s, tableau_ok n s -> Forall (fun o : pauli => length (fst o) = n /\ hermP o) (stabilizers s).
Proof.
  intros n s Hok. rewrite <- active_stabilizers. eapply Forall_impl; [|exact (active_hrow n s Hok)].
  intros a [[L _] H]. split; assumption.
Qed.

Lemma stabilizers_commute : forall n s, tableau_ok n s ->
  forall a b, In a (stabilizers s) -> In b (stabilizers s) -> acq (fst a) (fst b) = 0.
Proof.
  intros n s Hok a b Ha Hb. rewrite <- active_stabilizers in Ha, Hb.
  rewrite acq_acqb, (active_allcomm n s Hok a b Ha Hb). reflexivity.
Qed.

(* overlap of a pure rho with any sigma, as the code computes it: trace / 2^r_sigma = Tr(rho sigma) *)
Theorem overlap_is_trace : forall n t s, tableau_ok n t -> rk t = 0%nat -> tableau_ok n s ->
   let '(_, zero, halv) := projection_trace t (stabilizers s) in
   trace_sem n (pmulp (density_poly t) (density_poly s)) = cmul (half_pow (rk s)) (trace_value zero halv).
Proof.
  intros n t s Hok Hrk Hs.
  pose proof (projection_trace_value n t (stabilizers s) Hok Hrk (stabilizers_obs_ok n s Hs) (stabilizers_commute n s Hs)) as H.
  destruct (projection_trace t (stabilizers s)) as [[t' zero] halv].
  rewrite <- H. clear H.
  pose proof (density_poly_sized n t Hok) as WT. pose proof (density_poly_sized n s Hs) as WS.
  assert (WQ : well_sized n (proj_prod n (stabilizers s))).
  { apply well_sized_proj_prod. eapply Forall_impl; [|exact (stabilizers_obs_ok n s Hs)]. intros a [L _]. exact L. }
  assert (M : meq n (amp (proj_prod n (stabilizers s))) (mscal (two_pow (rk s)) (amp (density_poly s)))).
  { intros k k' Hk. apply (proj_prod_density n s k k' Hs Hk). }
  rewrite !trace_sem_mtr.
  rewrite (amp_mmul n _ _ WT WQ), M, (mmul_mscal_r n), mtr_mscal.
  rewrite <- (amp_mmul n _ _ WT WS).
  rewrite <- cmul_assoc, half_pow_two_pow, cmul_1_l. reflexivity.
Qed.
