(* Proofs/SnapshotFacts.v -- a classical-shadow snapshot (device.py: snapshot = state.copy(); snapshot.measure(povm)) is
   stabilized, up to the recorded signs, by the back-evolved basis, is an eigenstate of the whole basis, has a strictly
   positive overlap with the measured state, and is pure when the basis state is pure. *)
From Coq Require Import ZArith List Bool Lia ZifyBool Arith Permutation Setoid Morphisms.
From Coq Require Import QArith Qcanon.
From PC Require Import Gen.Kernels Model.Base Model.Pauli Model.Ket Model.CMap Model.Tableau Model.Circuit Model.Spec
  Model.Poly Model.PolySem Model.Sample
  Proofs.PauliFacts Proofs.Transform Proofs.MaskFacts Proofs.TableauInv Proofs.MeasureFacts Proofs.SampleFacts Proofs.PolyFacts
  Proofs.ProjectionFacts Proofs.TraceFacts Proofs.PositiveFacts Proofs.ProjectorFacts Proofs.OverlapFacts Proofs.MeasureCircuitFacts
  Proofs.JointBornFacts.
Import ListNotations.
Open Scope Z_scope.

(* ------------------------------------------------------------------ 1. the measured observables are legitimate *)
Lemma stabilizers_measurable : forall n povm, tableau_ok n povm ->
  Forall (fun o => length (fst o) = n /\ hermP o) (stabilizers povm) /\
  (forall a b, In a (stabilizers povm) -> In b (stabilizers povm) -> acq (fst a) (fst b) = 0).
Proof.
  intros n povm Hp. split.
  - exact (stabilizers_obs_ok n povm Hp).
  - exact (stabilizers_commute n povm Hp).
Qed.

(* the whole invariant of the measure call behind a snapshot, in projection form *)
Lemma snapshot_fold : forall n base povm coins, tableau_ok n base -> tableau_ok n povm -> bit_coins coins ->
  let m := measure base (stabilizers povm) coins in
  let t' := fst (fst (fst m)) in
  let outs := snd (fst (fst m)) in
  let lp := snd (fst m) in
  snapshot base povm coins = (t', outs, lp) /\
  tableau_ok n t' /\ length outs = length (stabilizers povm) /\ Forall (fun b => b = 0 \/ b = 1) outs /\ lp <= 0 /\
  Forall (in_group n t') (signed_list (stabilizers povm) outs) /\
  (forall a, in_group n base a -> (forall o, In o (stabilizers povm) -> acq (fst a) (fst o) = 0) -> in_group n t' a) /\
  trace_sem n (pmulp (density_poly base) (proj_prod n (signed_list (stabilizers povm) outs))) = half_pow (Z.to_nat (- lp)) /\
  meq n (mscal (half_pow (Z.to_nat (- lp))) (amp (density_poly t')))
        (amp (pmulp (proj_prod n (signed_list (stabilizers povm) outs))
                    (pmulp (density_poly base) (proj_prod n (signed_list (stabilizers povm) outs))))).
Proof.
  intros n base povm coins Hb Hp HC.
  destruct (stabilizers_measurable n povm Hp) as [Hobs Hc].
  pose proof (measure_fold n (stabilizers povm) base coins Hb Hobs Hc HC) as H. cbv zeta in H |- *.
  split; [|exact H].
  unfold snapshot. destruct (measure base (stabilizers povm) coins) as [[[t' outs] lp] cl]. reflexivity.
Qed.

(* ------------------------------------------------------------------ 2. stabilized up to the recorded signs *)
Theorem snapshot_stabilized : forall n base povm coins, tableau_ok n base -> tableau_ok n povm -> bit_coins coins ->
  (length (stabilizers povm) <= length coins)%nat ->
  let '(t', outs, lp) := snapshot base povm coins in
  tableau_ok n t' /\ length outs = length (stabilizers povm) /\ Forall (fun b => b = 0 \/ b = 1) outs /\ lp <= 0 /\
  Forall (fun so => in_group n t' so) (signed_list (stabilizers povm) outs).
Proof.
  intros n base povm coins Hb Hp HC _.
  pose proof (snapshot_fold n base povm coins Hb Hp HC) as H. cbv zeta in H.
  destruct H as [E [H1 [H2 [H3 [H4 [H5 _]]]]]]. rewrite E.
  split; [exact H1|]. split; [exact H2|]. split; [exact H3|]. split; [exact H4 | exact H5].
Qed.

(* ------------------------------------------------------------------ 3. the snapshot is an eigenstate of the whole basis *)
Theorem snapshot_is_eigenstate : forall n base povm coins, tableau_ok n base -> tableau_ok n povm -> bit_coins coins ->
  (length (stabilizers povm) <= length coins)%nat ->
  let '(t', outs, lp) := snapshot base povm coins in
  forall coins2, bit_coins coins2 -> measure t' (stabilizers povm) coins2 = (t', outs, 0, coins2).
Proof.
  intros n base povm coins Hb Hp HC _.
  pose proof (snapshot_fold n base povm coins Hb Hp HC) as H. cbv zeta in H.
  destruct H as [E [H1 [H2 [H3 [_ [H5 _]]]]]]. rewrite E.
  intros coins2 _.
  destruct (stabilizers_measurable n povm Hp) as [Hobs _].
  apply (measure_determined_list n (stabilizers povm) _ _ coins2 H1 Hobs H3 H2 H5).
Qed.

(* ------------------------------------------------------------------ 4. the overlap with the measured state *)
(* 2^-m is a strictly positive real *)
Lemma half_pow_pos : forall m, exists x : Qc, (0 < x)%Qc /\ half_pow m = (x, 0%Qc).
Proof.
  induction m as [|m [x [Hx E]]].
  - exists 1%Qc. split; [reflexivity | reflexivity].
  - exists (Q2Qc (1 # 2) * x)%Qc. split.
    + assert (H : (0 * x < Q2Qc (1 # 2) * x)%Qc) by (apply Qcmult_lt_compat_r; [exact Hx | reflexivity]).
      replace (0 * x)%Qc with 0%Qc in H by ring. exact H.
    + cbn [half_pow]. rewrite E. unfold cmul, chalf. cbn [fst snd]. f_equal; ring.
Qed.

Lemma pos_real_cmul : forall a b : coef,
  (exists x : Qc, (0 < x)%Qc /\ a = (x, 0%Qc)) -> (exists y : Qc, (0 < y)%Qc /\ b = (y, 0%Qc)) ->
  exists z : Qc, (0 < z)%Qc /\ cmul a b = (z, 0%Qc).
Proof.
  intros a b [x [Hx Ea]] [y [Hy Eb]]. subst a b. exists (x * y)%Qc. split.
  - assert (H : (0 * y < x * y)%Qc) by (apply Qcmult_lt_compat_r; assumption).
    replace (0 * y)%Qc with 0%Qc in H by ring. exact H.
  - unfold cmul. cbn [fst snd]. f_equal; ring.
Qed.

(* a state stabilized by every member of a list of observables is unchanged by the product of their projectors: Pi rho Pi = rho *)
Lemma proj_prod_eigen : forall n t L, tableau_ok n t -> Forall (obs_ok n) L -> Forall (in_group n t) L ->
  meq n (amp (pmulp (proj_prod n L) (pmulp (density_poly t) (proj_prod n L)))) (amp (density_poly t)).
Proof.
  intros n t L Hok. induction L as [|o rest IH]; intros Hobs HG.
  - cbn [proj_prod].
    rewrite (pmulp_ident_r n _ (density_poly_wf n t Hok)), (pmulp_ident_l n _ (density_poly_wf n t Hok)). reflexivity.
  - inversion_clear Hobs as [|? ? Ho Hrest]. inversion_clear HG as [|? ? Go Grest]. pose proof Ho as [Lo Hh].
    pose proof (density_poly_sized n t Hok) as WR.
    pose proof (well_sized_proj_prod n rest (obs_ok_len n rest Hrest)) as WQ.
    assert (Hc : forall b, In b rest -> acq (fst o) (fst b) = 0).
    { intros b Hb. apply (group_abelian n t o b Hok Go). rewrite Forall_forall in Grest. exact (Grest b Hb). }
    rewrite (post_step n (density_poly t) o rest WR Ho Hrest Hc).
    assert (M : meq n (amp (sandwich n o (density_poly t))) (amp (density_poly t))).
    { intros k k' Hk. apply (sandwich_eigen_plus n t o k k' Hok Lo Hh Go Hk). }
    rewrite M, <- (amp_mmul n _ _ WR WQ), <- (amp_mmul n _ _ WQ (well_sized_pmulp n _ _ WR WQ)).
    exact (IH Hrest Grest).
Qed.

(* Tr(rho rho') = 2^lp 2^-r' for the post-state rho' of a measurement of mutually commuting observables *)
Lemma overlap_value_mat : forall n base t' L h, tableau_ok n base -> tableau_ok n t' -> Forall (obs_ok n) L ->
  Forall (in_group n t') L ->
  meq n (mscal h (amp (density_poly t')))
        (amp (pmulp (proj_prod n L) (pmulp (density_poly base) (proj_prod n L)))) ->
  trace_sem n (pmulp (density_poly base) (density_poly t')) = cmul h (half_pow (rk t')).
Proof.
  intros n base t' L h Hb Ht Hobs HG Post.
  pose proof (density_poly_sized n base Hb) as WR. pose proof (density_poly_sized n t' Ht) as WR'.
  pose proof (well_sized_proj_prod n L (obs_ok_len n L Hobs)) as WQ.
  pose proof (proj_prod_eigen n t' L Ht Hobs HG) as Eig.
  set (R := amp (density_poly base)) in *. set (R' := amp (density_poly t')) in *. set (Pi := amp (proj_prod n L)) in *.
  assert (Eig' : meq n (mmul n Pi (mmul n R' Pi)) R').
  { apply (meq_trans n _ (amp (pmulp (proj_prod n L) (pmulp (density_poly t') (proj_prod n L))))); [|exact Eig].
    unfold Pi, R'.
    rewrite (amp_mmul n _ _ WQ (well_sized_pmulp n _ _ WR' WQ)), (amp_mmul n _ _ WR' WQ). reflexivity. }
  assert (Post' : meq n (mmul n Pi (mmul n R Pi)) (mscal h R')).
  { apply (meq_trans n _ (amp (pmulp (proj_prod n L) (pmulp (density_poly base) (proj_prod n L)))));
      [|apply meq_sym; exact Post].
    unfold Pi, R.
    rewrite (amp_mmul n _ _ WQ (well_sized_pmulp n _ _ WR WQ)), (amp_mmul n _ _ WR WQ). reflexivity. }
  assert (Sq : meq n (mmul n R' R') (mscal (half_pow (rk t')) R')).
  { unfold R'. rewrite <- (amp_mmul n _ _ WR' WR'). intros k k' Hk. apply (rho_squared n t' k k' Ht Hk). }
  rewrite trace_sem_mtr, (amp_mmul n _ _ WR WR'). fold R R'.
  transitivity (mtr n (mmul n R (mmul n Pi (mmul n R' Pi)))); [rewrite Eig'; reflexivity|].
  rewrite <- (mmul_assoc n R Pi (mmul n R' Pi)), mtr_cyclic, (mmul_assoc n R' Pi (mmul n R Pi)).
  rewrite Post', (mmul_mscal_r n), mtr_mscal, Sq, mtr_mscal.
  unfold R'. rewrite <- trace_sem_mtr, (trace_rho_one n t' Ht), cmul_1_r. reflexivity.
Qed.

Theorem snapshot_overlap_value : forall n base povm coins, tableau_ok n base -> tableau_ok n povm -> bit_coins coins ->
  (length (stabilizers povm) <= length coins)%nat ->
  let '(t', outs, lp) := snapshot base povm coins in
  trace_sem n (pmulp (density_poly base) (density_poly t')) = cmul (half_pow (Z.to_nat (- lp))) (half_pow (rk t')).
Proof.
  intros n base povm coins Hb Hp HC _.
  pose proof (snapshot_fold n base povm coins Hb Hp HC) as H. cbv zeta in H.
  destruct H as [E [H1 [H2 [H3 [_ [H5 [_ [_ Post]]]]]]]]. rewrite E.
  destruct (stabilizers_measurable n povm Hp) as [Hobs _].
  refine (overlap_value_mat n base _ _ _ Hb H1 _ H5 Post).
  apply signed_list_ok; assumption.
Qed.

Theorem snapshot_overlap_positive : forall n base povm coins, tableau_ok n base -> tableau_ok n povm -> bit_coins coins ->
  (length (stabilizers povm) <= length coins)%nat ->
  let '(t', outs, lp) := snapshot base povm coins in
  exists x : Qc, (0 < x)%Qc /\ trace_sem n (pmulp (density_poly base) (density_poly t')) = (x, 0%Qc).
Proof.
  intros n base povm coins Hb Hp HC Hlen.
  pose proof (snapshot_overlap_value n base povm coins Hb Hp HC Hlen) as V.
  destruct (snapshot base povm coins) as [[t' outs] lp]. rewrite V.
  apply pos_real_cmul; apply half_pow_pos.
Qed.

(* ------------------------------------------------------------------ 5. a pure basis state gives a pure snapshot *)
Lemma acq_sym : forall a b, acq a b = acq b a.
Proof. intros a b. rewrite !acq_acqb, acqb_sym. reflexivity. Qed.

(* every observable has its signed version in the signed list *)
Lemma signed_list_covers : forall obs outs o, length outs = length obs -> In o obs ->
  exists b, In (signed_obs o b) (signed_list obs outs).
Proof.
  induction obs as [|o' rest IH]; intros outs o Hlen Ho; [destruct Ho|].
  destruct outs as [|out outs]; [discriminate Hlen|].
  cbn [length] in Hlen. injection Hlen as Hlen. rewrite signed_list_cons.
  destruct Ho as [Ho|Ho].
  - subst o'. exists out. left. reflexivity.
  - destruct (IH outs o Hlen Ho) as [b Hb]. exists b. right. exact Hb.
Qed.

(* the rows 0..n-1 of a pure tableau are its active stabilizers *)
Lemma pure_row_stabilizer : forall n povm i, tableau_ok n povm -> rk povm = 0%nat -> (i < n)%nat ->
  In (row (rows povm) i) (stabilizers povm).
Proof.
  intros n povm i Hp Hrk Hi. rewrite <- active_stabilizers.
  assert (Hi' : (i < n - rk povm)%nat) by (rewrite Hrk; lia).
  pose proof (active_nth n povm i Hp Hi') as E. rewrite Hrk in E. cbn [Nat.add] in E.
  change (row (rows povm) i) with (prow (rows povm) i). rewrite <- E.
  apply nth_In. rewrite (active_length n povm Hp). exact Hi'.
Qed.

(* the stabilizer group of a pure state is maximal: a string commuting with every stabilizer is, up to sign, in the group *)
Lemma pure_span : forall n povm g, tableau_ok n povm -> rk povm = 0%nat -> length g = n ->
  (forall o, In o (stabilizers povm) -> acq (fst o) g = 0) ->
  exists a, in_group n povm a /\ fst a = g.
Proof.
  intros n povm g Hp Hrk Lg Hc.
  assert (Hh : hermP (g, 0)) by (left; reflexivity).
  destruct (expect1_cases n povm (g, 0) Hp Lg Hh) as [[[i [Hi Ha]] _]|[_ [[_ [G _]]|[_ [G _]]]]].
  - exfalso. rewrite Hrk in Hi. apply anti_true_iff in Ha. cbn [fst] in Ha.
    assert (Hi' : (i < n)%nat) by lia.
    rewrite (Hc _ (pure_row_stabilizer n povm i Hp Hrk Hi')) in Ha. discriminate Ha.
  - exists (g, 0). split; [exact G | reflexivity].
  - exists (pneg (g, 0)). split; [exact G | reflexivity].
Qed.

(* a valid state stabilized (up to signs) by all n stabilizers of a pure state is pure *)
Lemma full_basis_pure : forall n t' povm outs, tableau_ok n t' -> tableau_ok n povm -> rk povm = 0%nat ->
  length outs = length (stabilizers povm) ->
  Forall (in_group n t') (signed_list (stabilizers povm) outs) -> rk t' = 0%nat.
Proof.
  intros n t' povm outs Ht Hp Hrk Hlen HG.
  destruct (rk t') as [|r] eqn:Er; [reflexivity|exfalso].
  pose proof Ht as [_ [Hr [HL [_ HA]]]]. rewrite Er in Hr.
  (* rows 0 and n of t' commute with every stabilizer of povm *)
  assert (Hcomm : forall i, (i < n + rk t')%nat -> forall o, In o (stabilizers povm) ->
                  acq (fst o) (fst (row (rows t') i)) = 0).
  { intros i Hi o Ho. destruct (signed_list_covers _ outs o Hlen Ho) as [b Hb].
    rewrite Forall_forall in HG. pose proof (HG _ Hb) as G.
    rewrite acq_sym. rewrite <- (signed_obs_fst o b).
    apply (group_commutes_with_rows n t' _ i Ht G Hi). }
  assert (H0 : (0 < n + rk t')%nat) by lia.
  assert (Hn : (n < n + rk t')%nat) by lia.
  destruct (pure_span n povm (fst (row (rows t') 0)) Hp Hrk (HL 0%nat ltac:(lia)) (Hcomm 0%nat H0)) as [a [Ga Ea]].
  destruct (pure_span n povm (fst (row (rows t') n)) Hp Hrk (HL n ltac:(lia)) (Hcomm n Hn)) as [d [Gd Ed]].
  pose proof (group_abelian n povm a d Hp Ga Gd) as C. rewrite Ea, Ed in C.
  rewrite (HA 0%nat n ltac:(lia) ltac:(lia)) in C. unfold tab_expected_acq in C.
  cbn [Nat.add] in C. rewrite Nat.eqb_refl in C. cbn [orb] in C. discriminate C.
Qed.

Theorem snapshot_pure : forall n base povm coins, tableau_ok n base -> tableau_ok n povm -> rk povm = 0%nat ->
  bit_coins coins -> (n <= length coins)%nat ->
  let '(t', outs, lp) := snapshot base povm coins in rk t' = 0%nat.
Proof.
  intros n base povm coins Hb Hp Hrk HC _.
  pose proof (snapshot_fold n base povm coins Hb Hp HC) as H. cbv zeta in H.
  destruct H as [E [H1 [H2 [_ [_ [H5 _]]]]]]. rewrite E.
  exact (full_basis_pure n _ povm _ H1 Hp Hrk H2 H5).
Qed.

Print Assumptions stabilizers_measurable.
Print Assumptions snapshot_stabilized.
Print Assumptions snapshot_is_eigenstate.
Print Assumptions snapshot_overlap_value.
Print Assumptions snapshot_overlap_positive.
Print Assumptions snapshot_pure.
