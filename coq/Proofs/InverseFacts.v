(* Proofs/InverseFacts.v -- CliffordMap.inverse is a two-sided inverse; valid Clifford maps form a group. *)
From Coq Require Import ZArith List Bool Lia ZifyBool Arith.
From PC Require Import Proofs.Z2Facts.
From PC Require Import Gen.Kernels Model.Base Model.Pauli Model.Ket Model.Z2 Model.CMap Model.Spec
                       Proofs.PauliFacts Proofs.Transform.
Import ListNotations.
Open Scope Z_scope.
Ltac Zify.zify_post_hook ::= Z.to_euclidean_division_equations.

(* NB: [wf], [nth_map_lt], [unit_row_length] exist both in Z2Facts and in Spec/Transform; the unqualified
   names refer to Spec.wf / Transform.* here, the Z2 versions are written qualified. *)

(* ------------------------------------------------------------------ GF(2) algebra: right inverse => left inverse *)
Open Scope nat_scope.

Lemma vecmat_nth : forall v A j, j < ncols A -> nth j (vecmat v A) false = bdot v (bcol A j).
Proof.
  intros v A j H. unfold vecmat.
  rewrite Z2Facts.nth_map_lt with (d' := 0) by (rewrite seq_length; exact H).
  rewrite seq_nth by exact H. reflexivity.
Qed.

Lemma bdot_comm : forall u v, bdot u v = bdot v u.
Proof.
  induction u as [|a u IH]; intros [|b v]; rewrite ?bdot_nil_l, ?bdot_nil_r; try reflexivity.
  rewrite !bdot_cons, IH, (andb_comm a b). reflexivity.
Qed.

(* linear combination of the rows of B selected by v, in row length m *)
Fixpoint lc (m : nat) (v : list bool) (B : bmat) : list bool :=
  match v, B with
  | a :: v', r :: B' => xr (if a then r else repeat false m) (lc m v' B')
  | _, _ => repeat false m
  end.

Lemma lc_length : forall m v B, Forall (fun r => length r = m) B -> length (lc m v B) = m.
Proof.
  intros m v; induction v as [|a v IH]; intros [|r B] HF; cbn [lc]; try apply repeat_length.
  inversion_clear HF as [|? ? Hr HF'].
  rewrite xr_length.
  - destruct a; [exact Hr | apply repeat_length].
  - rewrite (IH B HF'). destruct a; [exact Hr | apply repeat_length].
Qed.

Lemma bcol_cons : forall r B j, bcol (r :: B) j = brow_get r j :: bcol B j.
Proof. reflexivity. Qed.

Lemma lc_nth : forall m v B j, Forall (fun r => length r = m) B ->
  nth j (lc m v B) false = bdot v (bcol B j).
Proof.
  intros m v; induction v as [|a v IH]; intros [|r B] j HF; cbn [lc];
    rewrite ?bdot_nil_l, ?bdot_nil_r, ?nth_repeat_false; try reflexivity.
  inversion_clear HF as [|? ? Hr HF'].
  rewrite bcol_cons, bdot_cons, nth_xr.
  - rewrite (IH B j HF'). destruct a; [reflexivity | rewrite nth_repeat_false; reflexivity].
  - rewrite (lc_length m v B HF'). destruct a; [exact Hr | apply repeat_length].
Qed.

Lemma bdot_lc : forall m v B w, Forall (fun r => length r = m) B ->
  bdot (lc m v B) w = bdot v (map (fun r => bdot r w) B).
Proof.
  intros m v; induction v as [|a v IH]; intros [|r B] w HF; cbn [lc map];
    rewrite ?bdot_zero, ?bdot_nil_l, ?bdot_nil_r; try reflexivity.
  inversion_clear HF as [|? ? Hr HF'].
  rewrite bdot_xr, bdot_cons, (IH B w HF').
  - destruct a; [reflexivity | rewrite bdot_zero; reflexivity].
  - rewrite (lc_length m v B HF'). destruct a; [exact Hr | apply repeat_length].
Qed.

Lemma vecmat_lc : forall m v B, Forall (fun r => length r = m) B -> ncols B = m -> vecmat v B = lc m v B.
Proof.
  intros m v B HF Hc. apply nth_ext with (d := false) (d' := false).
  - rewrite vecmat_length, lc_length by exact HF. exact Hc.
  - intros j Hj. rewrite vecmat_length in Hj. rewrite vecmat_nth by exact Hj.
    symmetry. apply lc_nth. exact HF.
Qed.

Lemma bmul_square : forall n B C, square n B -> square n C -> square n (bmul B C).
Proof.
  intros n B C [LB FB] HC. pose proof (square_ncols n C HC) as NC. split.
  - unfold bmul. rewrite map_length. exact LB.
  - apply Forall_forall. intros x Hx. unfold bmul in Hx. apply in_map_iff in Hx.
    destruct Hx as [r [E _]]. rewrite <- E, map_length, seq_length. exact NC.
Qed.

Lemma bcol_bmul : forall n B C j, square n C -> j < n ->
  bcol (bmul B C) j = map (fun r => bdot r (bcol C j)) B.
Proof.
  intros n B C j HC Hj. pose proof (square_ncols n C HC) as NC.
  unfold bcol at 1. unfold bmul. rewrite map_map. apply map_ext. intros r.
  unfold brow_get. rewrite NC.
  rewrite Z2Facts.nth_map_lt with (d' := 0) by (rewrite seq_length; exact Hj).
  rewrite seq_nth by exact Hj. reflexivity.
Qed.

Lemma vecmat_assoc : forall n v B C, square n B -> square n C ->
  vecmat (vecmat v B) C = vecmat v (bmul B C).
Proof.
  intros n v B C HB HC.
  pose proof (square_ncols n B HB) as NB. pose proof (square_ncols n C HC) as NC.
  pose proof (square_ncols n _ (bmul_square n B C HB HC)) as NM.
  apply nth_ext with (d := false) (d' := false).
  - rewrite !vecmat_length. rewrite NC, NM. reflexivity.
  - intros j Hj. rewrite vecmat_length, NC in Hj.
    rewrite !vecmat_nth by (rewrite ?NC, ?NM; exact Hj).
    rewrite (bcol_bmul n) by assumption.
    destruct HB as [_ FB].
    rewrite (vecmat_lc n v B FB NB). apply bdot_lc. exact FB.
Qed.

Lemma bcol_bident : forall n j, j < n -> bcol (bident n) j = unit_row n j.
Proof.
  intros n j Hj. unfold bcol, bident, unit_row. rewrite map_map. apply map_ext_in.
  intros k Hk. apply in_seq in Hk. unfold brow_get.
  change (map (fun j0 : nat => k =? j0) (seq 0 n)) with (unit_row n k).
  rewrite unit_row_nth by exact Hj. apply Nat.eqb_sym.
Qed.

Lemma vecmat_ident : forall n v, length v = n -> vecmat v (bident n) = v.
Proof.
  intros n v L. pose proof (square_ncols n _ (bident_square n)) as NI.
  apply nth_ext with (d := false) (d' := false).
  - rewrite vecmat_length, NI. symmetry; exact L.
  - intros j Hj. rewrite vecmat_length, NI in Hj.
    rewrite vecmat_nth by (rewrite NI; exact Hj).
    rewrite bcol_bident by exact Hj. rewrite bdot_comm. apply bdot_unit. exact Hj.
Qed.

Lemma square_row_length : forall n A i, square n A -> i < n -> length (nth i A []) = n.
Proof. intros n A i H Hi. apply (square_wf n A H). exact Hi. Qed.

Lemma bmul_nth : forall A B i, i < length A -> nth i (bmul A B) [] = vecmat (nth i A []) B.
Proof.
  intros A B i Hi. rewrite bmul_vecmat.
  rewrite Z2Facts.nth_map_lt with (d' := []) by exact Hi. reflexivity.
Qed.

Theorem right_inv_left_inv : forall n a c, square n a -> square n c ->
  bmul a c = bident n -> bmul c a = bident n.
Proof.
  intros n a c Ha Hc H.
  destruct (z2inv_complete n c a Hc Ha H) as [b Hb].
  pose proof (z2inv_square n c b Hc Hb) as Sb.
  pose proof (z2inv_right n c b Hc Hb) as Hcb.
  assert (E : a = b).
  { apply nth_ext with (d := []) (d' := []).
    - destruct Ha as [La _]. destruct Sb as [Lb _]. rewrite La, Lb. reflexivity.
    - intros i Hi. destruct Ha as [La FA]. rewrite La in Hi.
      assert (Ha : square n a) by (split; assumption).
      transitivity (vecmat (nth i a []) (bident n)).
      { symmetry. apply vecmat_ident. apply square_row_length; assumption. }
      rewrite <- Hcb. rewrite <- (vecmat_assoc n) by assumption.
      replace (vecmat (nth i a []) c) with (unit_row n i).
      { apply (vecmat_unit n n); [apply square_wf; exact Sb | apply square_ncols; exact Sb | exact Hi]. }
      rewrite <- (bident_nth n i Hi). rewrite <- H. apply bmul_nth. rewrite La. exact Hi. }
  rewrite E. exact Hcb.
Qed.

Close Scope nat_scope.

(* ------------------------------------------------------------------ 1. the string of an ordered product is the GF(2) combination *)
Lemma cmap_bits_cons : forall r m, cmap_bits (r :: m) = flat (fst r) :: cmap_bits m.
Proof. reflexivity. Qed.

Lemma cmap_bits_length : forall m, length (cmap_bits m) = length m.
Proof. intros; unfold cmap_bits; apply map_length. Qed.

Lemma cmap_bits_nth : forall m i, (i < length m)%nat -> nth i (cmap_bits m) [] = flat (fst (row m i)).
Proof.
  intros m i Hi. unfold cmap_bits, row.
  rewrite Z2Facts.nth_map_lt with (d' := pid 0) by exact Hi. reflexivity.
Qed.

Lemma flat_id_str_nth : forall n j, nth j (flat (id_str n)) false = false.
Proof.
  induction n as [|n IH]; intros j.
  - rewrite id_str_0. destruct j; reflexivity.
  - rewrite id_str_S. unfold I_site. rewrite flat_cons.
    destruct j as [|[|j]]; cbn [nth]; try reflexivity. apply IH.
Qed.

Lemma rprod_flat_nth : forall n sel rows j, Forall (wf n) rows ->
  nth j (flat (fst (rprod n sel rows))) false = bdot sel (bcol (cmap_bits rows) j).
Proof.
  intros n sel; induction sel as [|b sel IH]; intros [|r rows] j HF; cbn [rprod];
    rewrite ?bdot_nil_l, ?bdot_nil_r; try (cbn [pid fst]; apply flat_id_str_nth).
  inversion_clear HF as [|? ? Wr HF'].
  rewrite cmap_bits_cons, bcol_cons, bdot_cons. destruct b.
  - rewrite pmul_fst, flat_gxor. change (map2 xorb) with xr. rewrite nth_xr.
    + rewrite (IH rows j HF'). reflexivity.
    + rewrite !flat_length. f_equal. apply (wf_len_eq n); [exact Wr | apply wf_rprod; exact HF'].
  - rewrite (IH rows j HF'). cbn [andb]. rewrite xorb_false_l. reflexivity.
Qed.

Lemma rows_bits_ncols : forall n rows, Forall (wf n) rows -> rows <> [] -> ncols (cmap_bits rows) = (2 * n)%nat.
Proof.
  intros n [|r rows] HF HN; [contradiction HN; reflexivity|].
  inversion_clear HF as [|? ? Wr _]. rewrite cmap_bits_cons. cbn [ncols].
  rewrite flat_length. destruct Wr as [L _]. rewrite L. reflexivity.
Qed.

(* the combine-string lemma *)
Theorem rprod_flat : forall n sel rows, Forall (wf n) rows -> rows <> [] ->
  flat (fst (rprod n sel rows)) = vecmat sel (cmap_bits rows).
Proof.
  intros n sel rows HF HN. pose proof (rows_bits_ncols n rows HF HN) as NC.
  apply nth_ext with (d := false) (d' := false).
  - rewrite flat_length, vecmat_length, NC. destruct (wf_rprod n sel rows HF) as [L _]. rewrite L. reflexivity.
  - intros j Hj. rewrite flat_length in Hj. destruct (wf_rprod n sel rows HF) as [L _]. rewrite L in Hj.
    rewrite vecmat_nth by (rewrite NC; exact Hj). apply rprod_flat_nth. exact HF.
Qed.

Theorem combine_row_flat : forall n sel rows, Forall (wf n) rows -> rows <> [] ->
  flat (fst (combine_row n sel rows)) = vecmat sel (cmap_bits rows).
Proof. intros n sel rows HF HN. rewrite (combine_row_rprod n sel rows HF). apply rprod_flat; assumption. Qed.

Lemma unflat_flat : forall g, unflat (flat g) = g.
Proof. induction g as [|[x z] g IH]; [reflexivity|]. rewrite flat_cons. cbn [unflat]. rewrite IH. reflexivity. Qed.

Lemma flat_inj : forall g1 g2, flat g1 = flat g2 -> g1 = g2.
Proof. intros g1 g2 H. rewrite <- (unflat_flat g1), <- (unflat_flat g2), H. reflexivity. Qed.

(* ------------------------------------------------------------------ shape of [inverse] *)
Definition inv_row (n : nat) (m : plist) (sel : list bool) : pauli :=
  (unflat sel, np_inverse_phase (snd (combine_row n sel m)) (p0 (unflat sel))).

Lemma map2_map_diag : forall (A B C : Type) (f : A -> B -> C) (g : A -> B) l,
  map2 f l (map g l) = map (fun x => f x (g x)) l.
Proof. induction l as [|a l IH]; [reflexivity|]. cbn [map map2]. rewrite IH. reflexivity. Qed.

Lemma valid_bits_square : forall n m, valid_map n m -> square (2 * n) (cmap_bits m).
Proof.
  intros n m HV. pose proof (valid_rows_wf n m HV) as HF. destruct HV as [HL _]. split.
  - rewrite cmap_bits_length. exact HL.
  - unfold cmap_bits. apply Forall_forall. intros x Hx. apply in_map_iff in Hx. destruct Hx as [r [E Hr]].
    rewrite Forall_forall in HF. destruct (HF r Hr) as [L _]. rewrite <- E, flat_length, L. reflexivity.
Qed.

Lemma inverse_shape : forall n m m', valid_map n m -> inverse m = Some m' ->
  exists ginv, z2inv (cmap_bits m) = Some ginv /\ square (2 * n) ginv /\ m' = map (inv_row n m) ginv.
Proof.
  intros n m m' HV H. pose proof (valid_rows_ok n m HV) as [_ HW]. unfold inverse in H.
  destruct (z2inv (cmap_bits m)) as [ginv|] eqn:E; [|discriminate H].
  exists ginv. split; [reflexivity|]. split.
  - apply (z2inv_square (2 * n) (cmap_bits m)); [apply valid_bits_square; exact HV | exact E].
  - injection H as H. rewrite <- H. unfold pauli_combine. rewrite map2_map_diag, HW. reflexivity.
Qed.

Lemma transform_inv_row : forall n m sel, rows_ok n m -> length sel = (2 * n)%nat ->
  transform1 m (inv_row n m sel) = (fst (rprod n sel m), 0).
Proof.
  intros n m sel HO HL. rewrite (transform1_rprod n) by exact HO.
  unfold inv_row. cbn [fst snd]. rewrite (flat_unflat n sel HL).
  rewrite (combine_row_rprod n) by apply HO.
  unfold pscale, np_inverse_phase. cbn [fst snd]. f_equal.
  pose proof (wf_rprod n sel m (proj1 HO)) as [_ R]. lia.
Qed.

Lemma wf_inv_row : forall n m sel, length sel = (2 * n)%nat -> wf n (inv_row n m sel).
Proof.
  intros n m sel HL. split; unfold inv_row; cbn [fst snd].
  - apply unflat_length. exact HL.
  - unfold np_inverse_phase. lia.
Qed.

Lemma row_identity : forall n k, (k < 2 * n)%nat -> row (identity_map n) k = (unit_str n k, 0).
Proof.
  intros n k Hk. unfold row, identity_map.
  rewrite Z2Facts.nth_map_lt with (d' := 0%nat) by (rewrite seq_length; exact Hk).
  rewrite seq_nth by exact Hk. reflexivity.
Qed.

Lemma identity_map_length : forall n, length (identity_map n) = (2 * n)%nat.
Proof. intros; unfold identity_map. rewrite map_length, seq_length. reflexivity. Qed.

Lemma plist_ext : forall n (a b : plist), length a = n -> length b = n ->
  (forall i, (i < n)%nat -> row a i = row b i) -> a = b.
Proof.
  intros n a b La Lb H. apply nth_ext with (d := pid 0) (d' := pid 0).
  - rewrite La, Lb. reflexivity.
  - intros i Hi. rewrite La in Hi. exact (H i Hi).
Qed.

(* ------------------------------------------------------------------ 2. inverse_left *)
Lemma inverse_row_image : forall n m ginv k, valid_map n m -> z2inv (cmap_bits m) = Some ginv ->
  (k < 2 * n)%nat -> transform1 m (inv_row n m (nth k ginv [])) = (unit_str n k, 0).
Proof.
  intros n m ginv k HV HZ Hk.
  pose proof (valid_rows_ok n m HV) as HO. pose proof (valid_bits_square n m HV) as SG.
  pose proof (z2inv_square _ _ _ SG HZ) as SI. pose proof (z2inv_left _ _ _ SG HZ) as HLft.
  assert (Lsel : length (nth k ginv []) = (2 * n)%nat) by (apply square_row_length; assumption).
  rewrite transform_inv_row by assumption. f_equal.
  apply flat_inj. rewrite flat_unit_str.
  assert (HN : m <> []).
  { destruct HV as [HL _]. intros E. rewrite E in HL. cbn [length] in HL. lia. }
  rewrite rprod_flat by (try apply HO; exact HN).
  rewrite <- bmul_nth by (destruct SI as [LI _]; rewrite LI; exact Hk).
  rewrite HLft. apply bident_nth. exact Hk.
Qed.

Theorem inverse_left : forall n m m', valid_map n m -> inverse m = Some m' -> compose m' m = identity_map n.
Proof.
  intros n m m' HV H. destruct (inverse_shape n m m' HV H) as [ginv [HZ [SI E]]].
  pose proof SI as [LI _].
  apply (plist_ext (2 * n)).
  - unfold compose, pauli_transform. rewrite E, !map_length. exact LI.
  - apply identity_map_length.
  - intros i Hi. unfold compose, pauli_transform. rewrite E.
    rewrite row_map by (rewrite map_length, LI; exact Hi).
    unfold row at 1. rewrite Z2Facts.nth_map_lt with (d' := []) by (rewrite LI; exact Hi).
    rewrite row_identity by exact Hi. apply inverse_row_image; assumption.
Qed.

(* ------------------------------------------------------------------ 3. existence: the bit table of a valid map is invertible *)
Definition partner (k : nat) : nat := if Nat.even k then S k else pred k.

Lemma partner_SS : forall k, partner (S (S k)) = S (S (partner k)).
Proof.
  intros k. unfold partner. cbn [Nat.even]. destruct (Nat.even k) eqn:E; [reflexivity|].
  destruct k as [|k]; [discriminate E | reflexivity].
Qed.

Lemma partner_lt : forall n k, (k < 2 * n)%nat -> (partner k < 2 * n)%nat.
Proof.
  intros n k Hk. unfold partner. destruct (Nat.even k) eqn:E.
  - apply Nat.even_spec in E. destruct E as [q E]. lia.
  - lia.
Qed.

Lemma partner_invol : forall k, partner (partner k) = k.
Proof.
  intros k. unfold partner. destruct (Nat.even k) eqn:E.
  - rewrite Nat.even_succ, <- Nat.negb_even, E. reflexivity.
  - destruct k as [|k]; [discriminate E|]. cbn [pred].
    rewrite Nat.even_succ, <- Nat.negb_even in E. destruct (Nat.even k); [reflexivity | discriminate E].
Qed.

(* the symplectic form in flat coordinates *)
Lemma acqb_bdot : forall g1 g2, length g1 = length g2 ->
  acqb g1 g2 = bdot (flat g1) (map (fun k => nth (partner k) (flat g2) false) (seq 0 (2 * length g1))).
Proof.
  induction g1 as [|[x1 z1] g1 IH]; intros [|[x2 z2] g2] HL; try discriminate HL; [reflexivity|].
  cbn [length] in HL. assert (HL' : length g1 = length g2) by lia.
  cbn [length]. replace (2 * S (length g1))%nat with (S (S (2 * length g1))) by lia.
  cbn [seq map]. rewrite !flat_cons. rewrite !bdot_cons.
  change (partner 0) with 1%nat. change (partner 1) with 0%nat. cbn [nth].
  rewrite <- !seq_shift, !map_map.
  rewrite (map_ext (fun k => nth (partner (S (S k))) (x2 :: z2 :: flat g2) false)
                   (fun k => nth (partner k) (flat g2) false)).
  2:{ intros k. rewrite partner_SS. reflexivity. }
  rewrite <- (IH g2 HL'). rewrite acqb_cons. unfold acqb_site. cbn [fst snd].
  destruct x1, z1, x2, z2, (acqb g1 g2); reflexivity.
Qed.

Lemma div2_2p : forall p, ((2 * p) / 2 = p)%nat.
Proof. intros p. rewrite Nat.mul_comm. apply Nat.div_mul. lia. Qed.
Lemma div2_2p1 : forall p, ((2 * p + 1) / 2 = p)%nat.
Proof. intros p. rewrite (Nat.mul_comm 2 p), Nat.div_add_l by lia. change (1 / 2)%nat with 0%nat. lia. Qed.

Lemma expected_acq_partner : forall i j, expected_acq i (partner j) = if Nat.eqb i j then 1 else 0.
Proof.
  intros i j. unfold expected_acq, partner. destruct (Nat.even j) eqn:E.
  - apply Nat.even_spec in E. destruct E as [q E]. rewrite E.
    replace (S (2 * q)) with (2 * q + 1)%nat by lia.
    destruct (Nat.Even_or_Odd i) as [[p P]|[p P]]; rewrite P; rewrite ?div2_2p, ?div2_2p1;
    match goal with |- (if (?a =? ?b)%nat && negb (?c =? ?d)%nat then _ else _) = (if (?e =? ?f)%nat then _ else _) =>
      destruct (Nat.eqb_spec a b), (Nat.eqb_spec c d), (Nat.eqb_spec e f) end;
      cbn [andb negb]; try reflexivity; exfalso; lia.
  - assert (O : Nat.odd j = true) by (rewrite <- Nat.negb_even, E; reflexivity).
    apply Nat.odd_spec in O. destruct O as [q O]. rewrite O.
    replace (pred (2 * q + 1)) with (2 * q)%nat by lia.
    destruct (Nat.Even_or_Odd i) as [[p P]|[p P]]; rewrite P; rewrite ?div2_2p, ?div2_2p1;
    match goal with |- (if (?a =? ?b)%nat && negb (?c =? ?d)%nat then _ else _) = (if (?e =? ?f)%nat then _ else _) =>
      destruct (Nat.eqb_spec a b), (Nat.eqb_spec c d), (Nat.eqb_spec e f) end;
      cbn [andb negb]; try reflexivity; exfalso; lia.
Qed.

(* the symplectic "inverse": c[k][j] = G[partner j][partner k] *)
Definition sympl_inv (N : nat) (G : bmat) : bmat :=
  map (fun k => map (fun j => bget G (partner j) (partner k)) (seq 0 N)) (seq 0 N).

Lemma sympl_inv_square : forall N G, square N (sympl_inv N G).
Proof.
  intros N G. split.
  - unfold sympl_inv. rewrite map_length, seq_length. reflexivity.
  - apply Forall_forall. intros x Hx. unfold sympl_inv in Hx. apply in_map_iff in Hx.
    destruct Hx as [k [E _]]. rewrite <- E, map_length, seq_length. reflexivity.
Qed.

Lemma bcol_sympl_inv : forall N G j, (j < N)%nat ->
  bcol (sympl_inv N G) j = map (fun k => bget G (partner j) (partner k)) (seq 0 N).
Proof.
  intros N G j Hj. unfold bcol, sympl_inv. rewrite map_map. apply map_ext. intros k.
  unfold brow_get. rewrite Z2Facts.nth_map_lt with (d' := 0%nat) by (rewrite seq_length; exact Hj).
  rewrite seq_nth by exact Hj. reflexivity.
Qed.

Lemma valid_bits_right_inverse : forall n m, valid_map n m ->
  bmul (cmap_bits m) (sympl_inv (2 * n) (cmap_bits m)) = bident (2 * n).
Proof.
  intros n m HV. pose proof HV as [HL [HR HA]].
  pose proof (square_ncols _ _ (sympl_inv_square (2 * n) (cmap_bits m))) as NC.
  apply nth_ext with (d := []) (d' := []).
  - unfold bmul. rewrite map_length, cmap_bits_length, bident_length. exact HL.
  - intros i Hi. unfold bmul in Hi. rewrite map_length, cmap_bits_length, HL in Hi.
    rewrite bmul_nth by (rewrite cmap_bits_length, HL; exact Hi).
    rewrite bident_nth by exact Hi.
    rewrite cmap_bits_nth by (rewrite HL; exact Hi).
    apply nth_ext with (d := false) (d' := false).
    + rewrite vecmat_length, NC, Z2Facts.unit_row_length. reflexivity.
    + intros j Hj. rewrite vecmat_length, NC in Hj.
      rewrite vecmat_nth by (rewrite NC; exact Hj).
      rewrite unit_row_nth by exact Hj.
      rewrite bcol_sympl_inv by exact Hj.
      pose proof (partner_lt n j Hj) as Hpj.
      unfold bget, brow_get. rewrite cmap_bits_nth by (rewrite HL; exact Hpj).
      destruct (HR i Hi) as [[Li _] _]. destruct (HR (partner j) Hpj) as [[Lj _] _].
      pose proof (acqb_bdot (fst (row m i)) (fst (row m (partner j)))) as HB.
      rewrite Li in HB. rewrite <- HB by (symmetry; exact Lj).
      pose proof (HA i (partner j) Hi Hpj) as HE.
      rewrite acq_acqb, expected_acq_partner in HE.
      destruct (acqb (fst (row m i)) (fst (row m (partner j)))), (Nat.eqb i j); cbn [zb] in HE;
        try reflexivity; discriminate HE.
Qed.

Theorem valid_bits_invertible : forall n m, valid_map n m -> exists ginv, z2inv (cmap_bits m) = Some ginv.
Proof.
  intros n m HV. pose proof (valid_bits_square n m HV) as SG.
  pose proof (sympl_inv_square (2 * n) (cmap_bits m)) as SC.
  apply (z2inv_complete (2 * n) (cmap_bits m) (sympl_inv (2 * n) (cmap_bits m)) SG SC).
  apply right_inv_left_inv; [exact SG | exact SC | apply valid_bits_right_inverse; exact HV].
Qed.

Theorem inverse_exists : forall n m, valid_map n m -> exists m', inverse m = Some m'.
Proof.
  intros n m HV. destruct (valid_bits_invertible n m HV) as [ginv E].
  unfold inverse. rewrite E. eexists. reflexivity.
Qed.

(* ------------------------------------------------------------------ 4. inverse_valid *)
(* transform1 by a valid map reflects the parity of the phase *)
Lemma even_odd_shift : forall p, Z.even p = false -> Z.even ((p + 1) mod 4) = true.
Proof.
  intros p E. rewrite Z.even_spec. apply Bool.not_true_iff_false in E. rewrite Z.even_spec in E.
  destruct (Z.Even_or_Odd p) as [Hev|[q Hq]]; [contradiction|].
  exists (((p + 1) mod 4) / 2). lia.
Qed.

Lemma transform_even_reflect : forall n m a, valid_map n m -> length (fst a) = n ->
  Z.even (snd (transform1 m a)) = true -> Z.even (snd a) = true.
Proof.
  intros n m [g p] HV La HE. cbn [fst snd] in *. destruct (Z.even p) eqn:E; [reflexivity|]. exfalso.
  pose proof (transform_herm n m (pscale 1 (g, p)) HV La (even_odd_shift p E)) as H.
  rewrite transform_scale in H. unfold pscale in H; cbn [snd] in H.
  remember (snd (transform1 m (g, p))) as s.
  apply Z.even_spec in HE. destruct HE as [q Hq]. apply Z.even_spec in H. destruct H as [q' Hq']. lia.
Qed.

Theorem inverse_valid : forall n m m', valid_map n m -> inverse m = Some m' -> valid_map n m'.
Proof.
  intros n m m' HV H. destruct (inverse_shape n m m' HV H) as [ginv [HZ [SI E]]].
  pose proof SI as [LI _].
  assert (Lm' : length m' = (2 * n)%nat) by (rewrite E, map_length; exact LI).
  assert (Rw : forall i, (i < 2 * n)%nat -> row m' i = inv_row n m (nth i ginv [])).
  { intros i Hi. unfold row. rewrite E. apply Z2Facts.nth_map_lt. rewrite LI. exact Hi. }
  assert (W : forall i, (i < 2 * n)%nat -> wf n (row m' i)).
  { intros i Hi. rewrite (Rw i Hi). apply wf_inv_row. apply square_row_length; assumption. }
  assert (T : forall i, (i < 2 * n)%nat -> transform1 m (row m' i) = (unit_str n i, 0)).
  { intros i Hi. rewrite (Rw i Hi). apply inverse_row_image; assumption. }
  split; [exact Lm'|]. split.
  - intros i Hi. split; [exact (W i Hi)|].
    apply even_range_hermP; [apply (W i Hi)|].
    apply (transform_even_reflect n m); [exact HV | apply (W i Hi) |]. rewrite (T i Hi). reflexivity.
  - intros i j Hi Hj.
    pose proof (transform_acq n m (row m' i) (row m' j) HV (proj1 (W i Hi)) (proj1 (W j Hj))) as HT.
    rewrite (T i Hi), (T j Hj) in HT. cbn [fst] in HT.
    pose proof (identity_valid n) as [_ [_ HA]]. specialize (HA i j Hi Hj).
    rewrite !row_identity in HA by assumption. cbn [fst] in HA.
    etransitivity; [symmetry; exact HT | exact HA].
Qed.

(* ------------------------------------------------------------------ 5. transform_injective *)
Lemma acqb_unit_str : forall n k g, length g = n -> (k < 2 * n)%nat ->
  acqb (unit_str n k) g = nth (partner k) (flat g) false.
Proof.
  intros n k g L Hk. rewrite acqb_bdot by (rewrite unit_str_length; symmetry; exact L).
  rewrite flat_unit_str, unit_str_length. rewrite bdot_unit by exact Hk.
  rewrite Z2Facts.nth_map_lt with (d' := 0%nat) by (rewrite seq_length; exact Hk).
  rewrite seq_nth by exact Hk. reflexivity.
Qed.

Lemma zb_inj : forall a b, zb a = zb b -> a = b.
Proof. intros [|] [|] H; try reflexivity; discriminate H. Qed.

Theorem transform_injective : forall n m a b, valid_map n m -> wf n a -> wf n b ->
  transform1 m a = transform1 m b -> a = b.
Proof.
  intros n m [ga pa] [gb pb] HV [La Ra] [Lb Rb] H. cbn [fst snd] in *.
  assert (EG : ga = gb).
  { apply flat_inj. apply nth_ext with (d := false) (d' := false).
    - rewrite !flat_length, La, Lb. reflexivity.
    - intros j Hj. rewrite flat_length, La in Hj.
      pose proof (partner_lt n j Hj) as Hp.
      rewrite <- (partner_invol j).
      rewrite <- (acqb_unit_str n (partner j) ga La Hp), <- (acqb_unit_str n (partner j) gb Lb Hp).
      apply zb_inj. rewrite <- !acq_acqb.
      pose proof (transform_acq n m (unit_str n (partner j), 0) (ga, pa) HV (unit_str_length n _) La) as H1.
      pose proof (transform_acq n m (unit_str n (partner j), 0) (gb, pb) HV (unit_str_length n _) Lb) as H2.
      cbn [fst] in H1, H2. rewrite <- H1, <- H2, H. reflexivity. }
  rewrite EG in *. f_equal.
  assert (Eab : (gb, pa) = pscale (pa - pb) (gb, pb)).
  { unfold pscale; cbn [fst snd]. f_equal. lia. }
  rewrite Eab, transform_scale in H. apply (f_equal snd) in H. unfold pscale in H; cbn [snd] in H.
  pose proof (transform_wf n m (gb, pb) HV Lb) as [_ R]. lia.
Qed.

(* ------------------------------------------------------------------ 6. inverse_right *)
(* a valid map that is absorbed on the left by a valid map is the identity *)
Lemma compose_cancel_r : forall n B m, valid_map n B -> valid_map n m -> compose B m = m -> B = identity_map n.
Proof.
  intros n B m HB HV H. pose proof HB as [LB [RB _]].
  apply (plist_ext (2 * n)); [exact LB | apply identity_map_length |].
  intros i Hi. rewrite row_identity by exact Hi.
  apply (transform_injective n m); [exact HV | apply (RB i Hi) | |].
  - split; cbn [fst snd]; [apply unit_str_length | lia].
  - rewrite (transform_unit n m i HV Hi).
    rewrite <- H at 2. unfold compose, pauli_transform. rewrite row_map by (rewrite LB; exact Hi). reflexivity.
Qed.

Theorem inverse_right : forall n m m', valid_map n m -> inverse m = Some m' -> compose m m' = identity_map n.
Proof.
  intros n m m' HV H. pose proof (inverse_valid n m m' HV H) as HV'.
  apply (compose_cancel_r n (compose m m') m); [apply compose_valid; assumption | exact HV |].
  rewrite (compose_assoc n) by assumption.
  rewrite (inverse_left n m m' HV H). apply compose_id_r. exact HV.
Qed.

(* ------------------------------------------------------------------ 7. group-theoretic consequences *)
Theorem inverse_unique : forall n m x, valid_map n m -> valid_map n x -> compose x m = identity_map n ->
  inverse m = Some x.
Proof.
  intros n m x HV HX H. destruct (inverse_exists n m HV) as [m' E]. rewrite E. f_equal.
  pose proof (inverse_valid n m m' HV E) as HV'.
  rewrite <- (compose_id_r n x HX). rewrite <- (inverse_right n m m' HV E).
  rewrite <- (compose_assoc n) by assumption. rewrite H. symmetry. apply compose_id_l. exact HV'.
Qed.

Theorem inverse_involutive : forall n m m', valid_map n m -> inverse m = Some m' -> inverse m' = Some m.
Proof.
  intros n m m' HV H. apply (inverse_unique n); [apply (inverse_valid n m); assumption | exact HV |].
  apply (inverse_right n); assumption.
Qed.

Theorem inverse_compose : forall n A B A' B', valid_map n A -> valid_map n B ->
  inverse A = Some A' -> inverse B = Some B' -> inverse (compose A B) = Some (compose B' A').
Proof.
  intros n A B A' B' HA HB EA EB.
  pose proof (inverse_valid n A A' HA EA) as HA'. pose proof (inverse_valid n B B' HB EB) as HB'.
  apply (inverse_unique n); [apply compose_valid; assumption | apply compose_valid; assumption |].
  rewrite (compose_assoc n B' A' (compose A B)) by (try assumption; apply compose_valid; assumption).
  rewrite <- (compose_assoc n A' A B) by assumption.
  rewrite (inverse_left n A A' HA EA). rewrite (compose_id_l n B HB).
  apply (inverse_left n B B' HB EB).
Qed.

Theorem inverse_identity : forall n, inverse (identity_map n) = Some (identity_map n).
Proof.
  intros n. pose proof (identity_valid n) as HI.
  apply (inverse_unique n); [exact HI | exact HI |]. apply compose_id_l. exact HI.
Qed.

Theorem transform_inverse_cancel : forall n m m' a, valid_map n m -> inverse m = Some m' -> wf n a ->
  transform1 m' (transform1 m a) = a /\ transform1 m (transform1 m' a) = a.
Proof.
  intros n m m' a HV H Wa. pose proof (inverse_valid n m m' HV H) as HV'. pose proof Wa as [La _].
  split.
  - rewrite <- (transform_compose n m m' a HV HV' La). rewrite (inverse_right n m m' HV H).
    apply transform_identity. exact Wa.
  - rewrite <- (transform_compose n m' m a HV' HV La). rewrite (inverse_left n m m' HV H).
    apply transform_identity. exact Wa.
Qed.
