(* Proofs/NamedGateFacts.v -- the tables of the named gates (Gen/Tables.v, regenerated from pyclifford/circuit.py) ARE conjugation by
   the textbook unitaries, as matrix identities in the ket semantics (amp) over exact Gaussian rationals.
   sqrt 2 is irrational, so the operators are UNNORMALISED:  V^dag V = s * 1 for a positive integer s.

   ORIENTATION (decided by computation, see orientation_decided_by_S below): with the library's convention for rotations
   (UnitaryFacts.rotate_is_conjugation), i.e.   V^dag P V = s * transform1 gate P,   every named gate is matched, where
       op_S = 1 + iZ  = (1+i) * diag(1,-i) = (1+i) * S^dag            (the sign +i is FORCED by this orientation),
   all other operators being Hermitian (H, X, Y, Z, CNOT: both orientations hold with the same operator).
   Equivalently (theorems *_txt):  U P U^dag = s * transform1 gate P  with  U = dag op_G ; for S this is
       op_S_txt = 1 - iZ = (1-i) * diag(1,i) = (1-i) * S              (the textbook phase gate). *)
From Coq Require Import ZArith List Bool Lia ZifyBool Arith.
From Coq Require Import QArith Qcanon.
From PC Require Import Gen.Kernels Gen.Tables Model.Base Model.Pauli Model.Ket Model.CMap Model.Spec Model.Poly Model.PolySem Model.Random
  Proofs.PauliFacts Proofs.GateFacts Proofs.Transform Proofs.PolyFacts Proofs.TraceFacts Proofs.PositiveFacts Proofs.ProjectorFacts
  Proofs.UnitaryFacts.
Import ListNotations.
Open Scope Z_scope.
Ltac Zify.zify_post_hook ::= Z.to_euclidean_division_equations.

(* ------------------------------------------------------------------ definitions (names fixed) *)
(* adjoint of a term  c * i^p * sigma[g]  is  conj c * i^(-p) * sigma[g]  (every sigma[g] is Hermitian in this representation) *)
Definition dag_term (t : term) : term := (cconj (fst t), (fst (snd t), (- snd (snd t)) mod 4)).
Definition dag (p : poly) : poly := map dag_term p.

Definition op_H : poly := [(c1, ([X1], 0)); (c1, ([Z1], 0))].                                   (* X + Z = sqrt2 * H,  s = 2 *)
Definition op_S : poly := [(c1, pid 1); (ci, ([Z1], 0))].                                       (* 1 + iZ = (1+i) S^dag, s = 2 *)
Definition op_S_txt : poly := [(c1, pid 1); (cneg ci, ([Z1], 0))].                              (* 1 - iZ = (1-i) S,     s = 2 *)
Definition op_X : poly := [(c1, ([X1], 0))].
Definition op_Y : poly := [(c1, ([Y1], 0))].
Definition op_Z : poly := [(c1, ([Z1], 0))].
(* 1 + Z_c + X_t - Z_c X_t = 2 CNOT(control c, target t),  s = 4 *)
Definition op_CNOT01 : poly := [(c1, pid 2); (c1, ([Z1; I1], 0)); (c1, ([I1; X1], 0)); (cneg c1, ([Z1; X1], 0))].   (* control 0, target 1 *)
Definition op_CNOT10 : poly := [(c1, pid 2); (c1, ([I1; Z1], 0)); (c1, ([X1; I1], 0)); (cneg c1, ([X1; Z1], 0))].   (* control 1, target 0 *)

(* ------------------------------------------------------------------ dag is the adjoint *)
Lemma cipow_neg_conj : forall p c, cipow ((- p) mod 4) (cconj c) = cconj (cipow p c).
Proof.
  intros p [a b]. unfold cipow. rewrite Zmod_mod.
  assert (C : (p mod 4 = 0 /\ (- p) mod 4 = 0) \/ (p mod 4 = 1 /\ (- p) mod 4 = 3) \/
              (p mod 4 = 2 /\ (- p) mod 4 = 2) \/ (p mod 4 = 3 /\ (- p) mod 4 = 1)) by lia.
  destruct C as [[Ea Eb]|[[Ea Eb]|[[Ea Eb]|[Ea Eb]]]]; rewrite Ea, Eb; cbn [Z.eqb Pos.eqb]; cjring.
Qed.

(* correctness on single terms: <k| t^dag |k'> = conj <k'| t |k> *)
Theorem dag_term_correct : forall n t k k', length (fst (snd t)) = n -> length k = n -> length k' = n ->
   amp_term (dag_term t) k' k = cconj (amp_term t k k').
Proof.
  intros n [c [g p]] k k' Hg Hk Hk'. cbn [fst snd] in Hg. unfold dag_term. cbn [fst snd].
  rewrite !amp_term_base, cconj_cmul, cipow_neg_conj.
  rewrite (base_hermitian g k k') by (rewrite Hg; assumption). reflexivity.
Qed.

Theorem amp_dag : forall n p k k', well_sized n p -> length k = n -> length k' = n ->
   amp (dag p) k' k = cconj (amp p k k').
Proof.
  intros n p k k' Wp Hk Hk'. unfold amp, dag. rewrite map_map, <- csum_map_cconj.
  apply csum_map_ext. intros t Ht. apply (dag_term_correct n); try assumption.
  exact (proj1 (Forall_forall _ p) Wp t Ht).
Qed.

Lemma well_sized_dag : forall n p, well_sized n p -> well_sized n (dag p).
Proof.
  intros n p Wp. unfold well_sized, dag in *. rewrite Forall_forall in *.
  intros t Ht. apply in_map_iff in Ht. destruct Ht as [u [E Hu]]. subst t. cbn [dag_term fst snd]. exact (Wp u Hu).
Qed.

(* a matrix element outside the n-qubit block vanishes *)
Lemma amp_length_zero : forall n p k k', well_sized n p -> length k = n -> length k' <> n -> amp p k k' = c0.
Proof.
  intros n p k k' Wp Hk Hk'. unfold amp. rewrite <- (csum_map_c0 p). apply csum_map_ext. intros t Ht.
  assert (Lt : length (fst (snd t)) = n) by (exact (proj1 (Forall_forall _ p) Wp t Ht)).
  rewrite amp_term_proj. destruct (ket_eqb (snd (act (snd t) k)) k') eqn:E; [|reflexivity].
  exfalso. apply ket_eqb_eq in E. apply Hk'. rewrite <- E.
  rewrite (act_length (snd t) k); [exact Lt | transitivity n; [exact Hk | symmetry; exact Lt]].
Qed.

(* (P Q)^dag = Q^dag P^dag *)
Theorem amp_dag_pmulp : forall n p q k k', well_sized n p -> well_sized n q -> length k = n ->
   amp (dag (pmulp p q)) k k' = amp (pmulp (dag q) (dag p)) k k'.
Proof.
  intros n p q k k' Wp Wq Hk.
  pose proof (well_sized_dag n p Wp) as Wdp. pose proof (well_sized_dag n q Wq) as Wdq.
  pose proof (well_sized_pmulp n p q Wp Wq) as Wpq.
  destruct (Nat.eq_dec (length k') n) as [Hk'|Hk'].
  - rewrite (amp_dag n (pmulp p q) k' k Wpq Hk' Hk).
    rewrite (amp_matrix_product n p q k' k Wp Wq Hk'), (amp_matrix_product n (dag q) (dag p) k k' Wdq Wdp Hk).
    rewrite <- csum_map_cconj. apply csum_map_ext. intros m Hm. apply all_kets_In in Hm.
    rewrite cconj_cmul, <- (amp_dag n q k' m Wq Hk' Hm), <- (amp_dag n p m k Wp Hm Hk). apply cmul_comm.
  - rewrite (amp_length_zero n _ k k' (well_sized_dag n _ Wpq) Hk Hk').
    rewrite (amp_length_zero n _ k k' (well_sized_pmulp n _ _ Wdq Wdp) Hk Hk'). reflexivity.
Qed.

(* ------------------------------------------------------------------ exhaustive checking: finitely many operators and kets *)
Definition all_paulis (n : nat) : list pauli := flat_map (fun g => map (fun p => (g, p)) [0; 1; 2; 3]) (all_strs n).
Definition sized_b (n : nat) (p : poly) : bool := forallb (fun t : term => Nat.eqb (length (fst (snd t))) n) p.
(* amp P = s * amp Q on the n-qubit block, and both are n-qubit polynomials *)
Definition poly_eq_chk (n : nat) (s : Z) (P Q : poly) : bool :=
  sized_b n P && sized_b n Q &&
  forallb (fun k => forallb (fun k' => ceqb (amp P k k') (cmul (zcoef s) (amp Q k k'))) (all_kets n)) (all_kets n).
Definition conj_chk (n : nat) (s : Z) (L R : pauli -> poly) : bool :=
  forallb (fun a => poly_eq_chk n s (L a) (R a)) (all_paulis n).

Lemma ceqb_eq : forall a b, ceqb a b = true -> a = b.
Proof.
  intros [a1 a2] [b1 b2] H. unfold ceqb in H. cbn [fst snd] in H. apply andb_true_iff in H. destruct H as [H1 H2].
  apply Qc_eq_bool_correct in H1. apply Qc_eq_bool_correct in H2. subst. reflexivity.
Qed.

Lemma sized_b_sound : forall n p, sized_b n p = true -> well_sized n p.
Proof.
  intros n p H. unfold sized_b in H. rewrite forallb_forall in H. unfold well_sized. apply Forall_forall.
  intros t Ht. apply Nat.eqb_eq. apply H. exact Ht.
Qed.

Lemma all_strs_In : forall n g, length g = n -> In g (all_strs n).
Proof.
  induction n as [|n IH]; intros g H.
  - destruct g; [left; reflexivity | discriminate H].
  - destruct g as [|s g]; [discriminate H|]. cbn [length] in H. injection H as H.
    cbn [all_strs]. apply in_flat_map. exists s. split.
    + destruct s as [[|] [|]]; cbn [In]; auto.
    + apply in_map. apply IH. exact H.
Qed.

Lemma all_paulis_In : forall n a, wf n a -> In a (all_paulis n).
Proof.
  intros n [g p] [Hg Hp]. cbn [fst snd] in Hg, Hp. unfold all_paulis. apply in_flat_map. exists g. split.
  - apply all_strs_In. exact Hg.
  - assert (C : p = 0 \/ p = 1 \/ p = 2 \/ p = 3) by lia.
    destruct C as [E|[E|[E|E]]]; subst p; cbn [map In]; auto.
Qed.

Lemma poly_eq_chk_sound : forall n s P Q, poly_eq_chk n s P Q = true ->
  forall k k', length k = n -> amp P k k' = cmul (zcoef s) (amp Q k k').
Proof.
  intros n s P Q H k k' Hk. unfold poly_eq_chk in H.
  apply andb_true_iff in H. destruct H as [H H3]. apply andb_true_iff in H. destruct H as [H1 H2].
  apply sized_b_sound in H1. apply sized_b_sound in H2.
  destruct (Nat.eq_dec (length k') n) as [Hk'|Hk'].
  - rewrite forallb_forall in H3. specialize (H3 k (proj2 (all_kets_In n k) Hk)).
    rewrite forallb_forall in H3. specialize (H3 k' (proj2 (all_kets_In n k') Hk')).
    apply ceqb_eq. exact H3.
  - rewrite (amp_length_zero n P k k' H1 Hk Hk'), (amp_length_zero n Q k k' H2 Hk Hk'), cmul_0_r. reflexivity.
Qed.

Lemma conj_chk_sound : forall n s L R, conj_chk n s L R = true ->
  forall a k k', wf n a -> length k = n -> amp (L a) k k' = cmul (zcoef s) (amp (R a) k k').
Proof.
  intros n s L R H a k k' Wa Hk. unfold conj_chk in H. rewrite forallb_forall in H.
  apply (poly_eq_chk_sound n s (L a) (R a)); [|exact Hk]. apply H. apply all_paulis_In. exact Wa.
Qed.

(* the two orientations *)
Definition lib_side (V : poly) (a : pauli) : poly := pmulp (dag V) (pmulp [(c1, a)] V).          (* V^dag a V *)
Definition txt_side (U : poly) (a : pauli) : poly := pmulp U (pmulp [(c1, a)] (dag U)).          (* U a U^dag *)
Definition img_side (m : cmap) (a : pauli) : poly := [(c1, transform1 m a)].

(* the sign in op_S is forced by the orientation: only S separates the two (all other named operators are Hermitian) *)
Lemma orientation_decided_by_S :
  conj_chk 1 2 (lib_side op_S) (img_side gate_S) = true /\ conj_chk 1 2 (txt_side op_S) (img_side gate_S) = false /\
  conj_chk 1 2 (lib_side op_S_txt) (img_side gate_S) = false /\ conj_chk 1 2 (txt_side op_S_txt) (img_side gate_S) = true.
Proof. vm_compute. repeat split; reflexivity. Qed.

(* ------------------------------------------------------------------ V^dag V = s *)
Ltac by_poly_chk n s := intros k0 k' Hk; apply (poly_eq_chk_sound n s); [vm_compute; reflexivity | exact Hk].

Theorem op_unitary_H : forall k0 k', length k0 = 1%nat -> amp (pmulp (dag op_H) op_H) k0 k' = cmul (zcoef 2) (amp (ident_poly 1) k0 k').
Proof. by_poly_chk 1%nat 2. Qed.
Theorem op_unitary_S : forall k0 k', length k0 = 1%nat -> amp (pmulp (dag op_S) op_S) k0 k' = cmul (zcoef 2) (amp (ident_poly 1) k0 k').
Proof. by_poly_chk 1%nat 2. Qed.
Theorem op_unitary_X : forall k0 k', length k0 = 1%nat -> amp (pmulp (dag op_X) op_X) k0 k' = cmul (zcoef 1) (amp (ident_poly 1) k0 k').
Proof. by_poly_chk 1%nat 1. Qed.
Theorem op_unitary_Y : forall k0 k', length k0 = 1%nat -> amp (pmulp (dag op_Y) op_Y) k0 k' = cmul (zcoef 1) (amp (ident_poly 1) k0 k').
Proof. by_poly_chk 1%nat 1. Qed.
Theorem op_unitary_Z : forall k0 k', length k0 = 1%nat -> amp (pmulp (dag op_Z) op_Z) k0 k' = cmul (zcoef 1) (amp (ident_poly 1) k0 k').
Proof. by_poly_chk 1%nat 1. Qed.
Theorem op_unitary_CNOT_asc : forall k0 k', length k0 = 2%nat -> amp (pmulp (dag op_CNOT01) op_CNOT01) k0 k' = cmul (zcoef 4) (amp (ident_poly 2) k0 k').
Proof. by_poly_chk 2%nat 4. Qed.
Theorem op_unitary_CNOT_desc : forall k0 k', length k0 = 2%nat -> amp (pmulp (dag op_CNOT10) op_CNOT10) k0 k' = cmul (zcoef 4) (amp (ident_poly 2) k0 k').
Proof. by_poly_chk 2%nat 4. Qed.

(* and V V^dag = s *)
Theorem op_counitary_H : forall k0 k', length k0 = 1%nat -> amp (pmulp op_H (dag op_H)) k0 k' = cmul (zcoef 2) (amp (ident_poly 1) k0 k').
Proof. by_poly_chk 1%nat 2. Qed.
Theorem op_counitary_S : forall k0 k', length k0 = 1%nat -> amp (pmulp op_S (dag op_S)) k0 k' = cmul (zcoef 2) (amp (ident_poly 1) k0 k').
Proof. by_poly_chk 1%nat 2. Qed.
Theorem op_counitary_X : forall k0 k', length k0 = 1%nat -> amp (pmulp op_X (dag op_X)) k0 k' = cmul (zcoef 1) (amp (ident_poly 1) k0 k').
Proof. by_poly_chk 1%nat 1. Qed.
Theorem op_counitary_Y : forall k0 k', length k0 = 1%nat -> amp (pmulp op_Y (dag op_Y)) k0 k' = cmul (zcoef 1) (amp (ident_poly 1) k0 k').
Proof. by_poly_chk 1%nat 1. Qed.
Theorem op_counitary_Z : forall k0 k', length k0 = 1%nat -> amp (pmulp op_Z (dag op_Z)) k0 k' = cmul (zcoef 1) (amp (ident_poly 1) k0 k').
Proof. by_poly_chk 1%nat 1. Qed.
Theorem op_counitary_CNOT_asc : forall k0 k', length k0 = 2%nat -> amp (pmulp op_CNOT01 (dag op_CNOT01)) k0 k' = cmul (zcoef 4) (amp (ident_poly 2) k0 k').
Proof. by_poly_chk 2%nat 4. Qed.
Theorem op_counitary_CNOT_desc : forall k0 k', length k0 = 2%nat -> amp (pmulp op_CNOT10 (dag op_CNOT10)) k0 k' = cmul (zcoef 4) (amp (ident_poly 2) k0 k').
Proof. by_poly_chk 2%nat 4. Qed.

(* ------------------------------------------------------------------ the tables are conjugation:  V^dag a V = s * transform1 gate a  *)
Ltac by_conj_chk n s V m :=
  intros a k0 k' Wa Hk; apply (conj_chk_sound n s (lib_side V) (img_side m)); [vm_compute; reflexivity | exact Wa | exact Hk].

Theorem table_is_conjugation_H : forall a k0 k', wf 1 a -> length k0 = 1%nat ->
   amp (pmulp (dag op_H) (pmulp [(c1, a)] op_H)) k0 k' = cmul (zcoef 2) (amp [(c1, transform1 gate_H a)] k0 k').
Proof. by_conj_chk 1%nat 2 op_H gate_H. Qed.
Theorem table_is_conjugation_S : forall a k0 k', wf 1 a -> length k0 = 1%nat ->
   amp (pmulp (dag op_S) (pmulp [(c1, a)] op_S)) k0 k' = cmul (zcoef 2) (amp [(c1, transform1 gate_S a)] k0 k').
Proof. by_conj_chk 1%nat 2 op_S gate_S. Qed.
Theorem table_is_conjugation_X : forall a k0 k', wf 1 a -> length k0 = 1%nat ->
   amp (pmulp (dag op_X) (pmulp [(c1, a)] op_X)) k0 k' = cmul (zcoef 1) (amp [(c1, transform1 gate_X a)] k0 k').
Proof. by_conj_chk 1%nat 1 op_X gate_X. Qed.
Theorem table_is_conjugation_Y : forall a k0 k', wf 1 a -> length k0 = 1%nat ->
   amp (pmulp (dag op_Y) (pmulp [(c1, a)] op_Y)) k0 k' = cmul (zcoef 1) (amp [(c1, transform1 gate_Y a)] k0 k').
Proof. by_conj_chk 1%nat 1 op_Y gate_Y. Qed.
Theorem table_is_conjugation_Z : forall a k0 k', wf 1 a -> length k0 = 1%nat ->
   amp (pmulp (dag op_Z) (pmulp [(c1, a)] op_Z)) k0 k' = cmul (zcoef 1) (amp [(c1, transform1 gate_Z a)] k0 k').
Proof. by_conj_chk 1%nat 1 op_Z gate_Z. Qed.
(* gate_CNOT_asc (control < target): site 0 = control, site 1 = target *)
Theorem table_is_conjugation_CNOT_asc : forall a k0 k', wf 2 a -> length k0 = 2%nat ->
   amp (pmulp (dag op_CNOT01) (pmulp [(c1, a)] op_CNOT01)) k0 k' = cmul (zcoef 4) (amp [(c1, transform1 gate_CNOT_asc a)] k0 k').
Proof. by_conj_chk 2%nat 4 op_CNOT01 gate_CNOT_asc. Qed.
(* gate_CNOT_desc (control > target; qubit tuple sorted ascending): site 0 = target, site 1 = control (GateFacts.table_CNOT_desc) *)
Theorem table_is_conjugation_CNOT_desc : forall a k0 k', wf 2 a -> length k0 = 2%nat ->
   amp (pmulp (dag op_CNOT10) (pmulp [(c1, a)] op_CNOT10)) k0 k' = cmul (zcoef 4) (amp [(c1, transform1 gate_CNOT_desc a)] k0 k').
Proof. by_conj_chk 2%nat 4 op_CNOT10 gate_CNOT_desc. Qed.

(* the two CNOT operators are not interchangeable *)
Lemma CNOT_operators_distinguished :
  conj_chk 2 4 (lib_side op_CNOT10) (img_side gate_CNOT_asc) = false /\ conj_chk 2 4 (lib_side op_CNOT01) (img_side gate_CNOT_desc) = false.
Proof. vm_compute. split; reflexivity. Qed.

(* ------------------------------------------------------------------ the other orientation:  U a U^dag = s * transform1 gate a  with the textbook S *)
Ltac by_conj_chk_txt n s U m :=
  intros a k0 k' Wa Hk; apply (conj_chk_sound n s (txt_side U) (img_side m)); [vm_compute; reflexivity | exact Wa | exact Hk].

Theorem op_unitary_S_txt : forall k0 k', length k0 = 1%nat -> amp (pmulp (dag op_S_txt) op_S_txt) k0 k' = cmul (zcoef 2) (amp (ident_poly 1) k0 k').
Proof. by_poly_chk 1%nat 2. Qed.
(* op_S_txt is the adjoint of op_S *)
Lemma op_S_txt_dag : forall k0 k', amp op_S_txt k0 k' = amp (dag op_S) k0 k'.
Proof.
  intros k0 k'. unfold op_S_txt, op_S, dag, dag_term, ci. cbn [map fst snd pid].
  replace (cconj c1) with c1 by cjring. replace (cconj (0%Qc, 1%Qc)) with (cneg (0%Qc, 1%Qc)) by cjring. reflexivity.
Qed.

Theorem table_is_conjugation_txt_H : forall a k0 k', wf 1 a -> length k0 = 1%nat ->
   amp (pmulp op_H (pmulp [(c1, a)] (dag op_H))) k0 k' = cmul (zcoef 2) (amp [(c1, transform1 gate_H a)] k0 k').
Proof. by_conj_chk_txt 1%nat 2 op_H gate_H. Qed.
Theorem table_is_conjugation_txt_S : forall a k0 k', wf 1 a -> length k0 = 1%nat ->
   amp (pmulp op_S_txt (pmulp [(c1, a)] (dag op_S_txt))) k0 k' = cmul (zcoef 2) (amp [(c1, transform1 gate_S a)] k0 k').
Proof. by_conj_chk_txt 1%nat 2 op_S_txt gate_S. Qed.
Theorem table_is_conjugation_txt_X : forall a k0 k', wf 1 a -> length k0 = 1%nat ->
   amp (pmulp op_X (pmulp [(c1, a)] (dag op_X))) k0 k' = cmul (zcoef 1) (amp [(c1, transform1 gate_X a)] k0 k').
Proof. by_conj_chk_txt 1%nat 1 op_X gate_X. Qed.
Theorem table_is_conjugation_txt_Y : forall a k0 k', wf 1 a -> length k0 = 1%nat ->
   amp (pmulp op_Y (pmulp [(c1, a)] (dag op_Y))) k0 k' = cmul (zcoef 1) (amp [(c1, transform1 gate_Y a)] k0 k').
Proof. by_conj_chk_txt 1%nat 1 op_Y gate_Y. Qed.
Theorem table_is_conjugation_txt_Z : forall a k0 k', wf 1 a -> length k0 = 1%nat ->
   amp (pmulp op_Z (pmulp [(c1, a)] (dag op_Z))) k0 k' = cmul (zcoef 1) (amp [(c1, transform1 gate_Z a)] k0 k').
Proof. by_conj_chk_txt 1%nat 1 op_Z gate_Z. Qed.
Theorem table_is_conjugation_txt_CNOT_asc : forall a k0 k', wf 2 a -> length k0 = 2%nat ->
   amp (pmulp op_CNOT01 (pmulp [(c1, a)] (dag op_CNOT01))) k0 k' = cmul (zcoef 4) (amp [(c1, transform1 gate_CNOT_asc a)] k0 k').
Proof. by_conj_chk_txt 2%nat 4 op_CNOT01 gate_CNOT_asc. Qed.
Theorem table_is_conjugation_txt_CNOT_desc : forall a k0 k', wf 2 a -> length k0 = 2%nat ->
   amp (pmulp op_CNOT10 (pmulp [(c1, a)] (dag op_CNOT10))) k0 k' = cmul (zcoef 4) (amp [(c1, transform1 gate_CNOT_desc a)] k0 k').
Proof. by_conj_chk_txt 2%nat 4 op_CNOT10 gate_CNOT_desc. Qed.

(* ------------------------------------------------------------------ the operators ARE the textbook matrices:  amp V [col] [row] *)
Ltac by_entries := apply ceqb_eq; vm_compute; reflexivity.

Theorem op_matrix_H : forall b b', amp op_H [b] [b'] = if b && b' then cneg c1 else c1.                       (* sqrt2 H = [[1,1],[1,-1]] *)
Proof. intros [|] [|]; by_entries. Qed.
Theorem op_matrix_S : forall b b', amp op_S [b] [b'] = cmul (cadd c1 ci) (if eqb b b' then (if b then cneg ci else c1) else c0).   (* (1+i) diag(1,-i) = (1+i) S^dag *)
Proof. intros [|] [|]; by_entries. Qed.
Theorem op_matrix_S_txt : forall b b', amp op_S_txt [b] [b'] = cmul (cadd c1 (cneg ci)) (if eqb b b' then (if b then ci else c1) else c0).   (* (1-i) diag(1,i) = (1-i) S *)
Proof. intros [|] [|]; by_entries. Qed.
Theorem op_matrix_X : forall b b', amp op_X [b] [b'] = if eqb b b' then c0 else c1.
Proof. intros [|] [|]; by_entries. Qed.
Theorem op_matrix_Y : forall b b', amp op_Y [b] [b'] = if eqb b b' then c0 else if b' then ci else cneg ci.    (* Y|0> = i|1>, Y|1> = -i|0> *)
Proof. intros [|] [|]; by_entries. Qed.
Theorem op_matrix_Z : forall b b', amp op_Z [b] [b'] = if eqb b b' then (if b then cneg c1 else c1) else c0.
Proof. intros [|] [|]; by_entries. Qed.
(* 2 * CNOT: |c,t> -> |c, t xor c> *)
Theorem op_matrix_CNOT01 : forall c t c' t', amp op_CNOT01 [c; t] [c'; t'] = if eqb c' c && eqb t' (xorb t c) then zcoef 2 else c0.
Proof. intros [|] [|] [|] [|]; by_entries. Qed.
Theorem op_matrix_CNOT10 : forall t c t' c', amp op_CNOT10 [t; c] [t'; c'] = if eqb c' c && eqb t' (xorb t c) then zcoef 2 else c0.
Proof. intros [|] [|] [|] [|]; by_entries. Qed.

(* ------------------------------------------------------------------ the 24 one-qubit tables: generated by H and S, hence conjugations by unitaries *)
Definition gate_of (b : bool) : cmap := if b then gate_H else gate_S.                          (* true = H, false = S *)
Definition op_of (b : bool) : poly := if b then op_H else op_S.
(* compose a b = a first, then b: the head of the word acts first *)
Definition word_map (w : list bool) : cmap := fold_left (fun m b => compose m (gate_of b)) w (identity_map 1).
Definition apply_word (w : list bool) (a : pauli) : pauli := fold_left (fun x b => transform1 (gate_of b) x) w a.
Fixpoint all_words_upto (n : nat) : list (list bool) :=
  match n with O => [[]] | S m => [] :: flat_map (fun w => [true :: w; false :: w]) (all_words_upto m) end.
(* V_1 V_2 ... V_K  and its adjoint  V_K^dag ... V_1^dag *)
Fixpoint word_op (w : list bool) : poly :=
  match w with [] => ident_poly 1 | b :: r => pmulp (op_of b) (word_op r) end.
Fixpoint word_op_dag (w : list bool) : poly :=
  match w with [] => ident_poly 1 | b :: r => pmulp (word_op_dag r) (dag (op_of b)) end.

(* every entry of gate_C_table is a composition of at most 6 copies of gate_H, gate_S *)
Theorem C_table_generated :
  forallb (fun t => existsb (fun w => cmap_eqb (word_map w) t) (all_words_upto 6)) gate_C_table = true.
Proof. vm_compute. reflexivity. Qed.

Lemma all_words_upto_length : forall n w, In w (all_words_upto n) -> (length w <= n)%nat.
Proof.
  induction n as [|n IH]; intros w H.
  - destruct H as [E|[]]. subst w. cbn [length]. lia.
  - cbn [all_words_upto] in H. destruct H as [E|H]; [subst w; cbn [length]; lia|].
    apply in_flat_map in H. destruct H as [v [Hv H]]. specialize (IH v Hv).
    destruct H as [E|[E|[]]]; subst w; cbn [length]; lia.
Qed.

Theorem C_table_words : forall i, (i < 24)%nat -> exists w, (length w <= 6)%nat /\ nth i gate_C_table [] = word_map w.
Proof.
  intros i Hi. pose proof C_table_generated as H. rewrite forallb_forall in H.
  specialize (H (nth i gate_C_table [])). rewrite existsb_exists in H.
  destruct H as [w [Hw E]]; [apply nth_In; rewrite C_count; exact Hi|].
  exists w. split; [apply all_words_upto_length; exact Hw | symmetry; apply cmap_eqb_eq; exact E].
Qed.

(* validity of the two generators (Prop level) *)
Lemma valid_map_b_sound : forall n m, valid_map_b m = true -> length m = (2 * n)%nat -> valid_map n m.
Proof.
  intros n m H HL. unfold valid_map_b in H.
  apply andb_true_iff in H. destruct H as [H H4]. apply andb_true_iff in H. destruct H as [H H3].
  apply andb_true_iff in H. destruct H as [H1 H2].
  rewrite forallb_forall in H1, H2, H3, H4. split; [exact HL|]. split.
  - intros i Hi. assert (HIn : In (row m i) m) by (unfold row; apply nth_In; lia).
    pose proof (H2 _ HIn) as E2. pose proof (H3 _ HIn) as E3. pose proof (H4 _ HIn) as E4.
    cbv beta in E2, E3, E4. apply Nat.eqb_eq in E3. apply andb_true_iff in E4. destruct E4 as [E4 E5].
    apply Z.leb_le in E4. apply Z.ltb_lt in E5.
    assert (Hh : forall x y : nat, (2 * x = 2 * y)%nat -> x = y) by (intros x y Hxy; lia).
    split; [split; [apply Hh; rewrite <- HL; exact E3 | split; assumption]|].
    unfold herm in E2. unfold hermP. apply Z.even_spec in E2. destruct E2 as [q E2]. lia.
  - intros i j Hi Hj. specialize (H1 i ltac:(apply in_seq; lia)). rewrite forallb_forall in H1.
    specialize (H1 j ltac:(apply in_seq; lia)). apply Z.eqb_eq in H1. exact H1.
Qed.

Lemma gate_of_valid : forall b, valid_map 1 (gate_of b).
Proof. intros [|]; apply valid_map_b_sound; reflexivity. Qed.

Lemma word_map_gen : forall w m a, valid_map 1 m -> wf 1 a ->
  transform1 (fold_left (fun m b => compose m (gate_of b)) w m) a = apply_word w (transform1 m a).
Proof.
  induction w as [|b w IH]; intros m a Hm Wa; [reflexivity|].
  cbn [fold_left]. rewrite (IH (compose m (gate_of b)) a (compose_valid 1 m (gate_of b) Hm (gate_of_valid b)) Wa).
  rewrite (transform_compose 1 m (gate_of b) a Hm (gate_of_valid b) (proj1 Wa)). reflexivity.
Qed.

(* the composed table acts as the generators one after the other *)
Theorem word_map_transform : forall w a, wf 1 a -> transform1 (word_map w) a = apply_word w a.
Proof.
  intros w a Wa. unfold word_map. rewrite (word_map_gen w (identity_map 1) a (identity_valid 1) Wa).
  rewrite (transform_identity 1 a Wa). reflexivity.
Qed.

Lemma word_map_valid : forall w, valid_map 1 (word_map w).
Proof.
  intros w. unfold word_map. generalize (identity_valid 1). generalize (identity_map 1).
  induction w as [|b w IH]; intros m Hm; [exact Hm|].
  cbn [fold_left]. apply IH. apply compose_valid; [exact Hm | apply gate_of_valid].
Qed.

Lemma well_sized_op_of : forall b, well_sized 1 (op_of b).
Proof. intros [|]; apply sized_b_sound; reflexivity. Qed.
Lemma well_sized_word_op : forall w, well_sized 1 (word_op w).
Proof.
  induction w as [|b w IH]; cbn [word_op]; [apply well_sized_ident|].
  apply well_sized_pmulp; [apply well_sized_op_of | exact IH].
Qed.
Lemma well_sized_word_op_dag : forall w, well_sized 1 (word_op_dag w).
Proof.
  induction w as [|b w IH]; cbn [word_op_dag]; [apply well_sized_ident|].
  apply well_sized_pmulp; [exact IH | apply well_sized_dag, well_sized_op_of].
Qed.

Lemma zcoef_2 : zcoef 2 = c2.
Proof. unfold zcoef, c2, cadd, c1. cbn [fst snd]. f_equal; apply Qc_is_canon; reflexivity. Qed.

Lemma gen_is_conjugation : forall b a k0 k', wf 1 a -> length k0 = 1%nat ->
  amp (pmulp (dag (op_of b)) (pmulp [(c1, a)] (op_of b))) k0 k' = cmul c2 (amp [(c1, transform1 (gate_of b) a)] k0 k').
Proof.
  intros [|] a k0 k' Wa Hk; cbn [op_of gate_of]; rewrite <- zcoef_2;
    [apply table_is_conjugation_H | apply table_is_conjugation_S]; assumption.
Qed.

(* (V_1...V_K)^dag a (V_1...V_K) = 2^K * (the word applied to a) *)
Theorem word_is_conjugation : forall w a k0 k', wf 1 a -> length k0 = 1%nat ->
   amp (pmulp (word_op_dag w) (pmulp [(c1, a)] (word_op w))) k0 k' = cmul (two_pow (length w)) (amp [(c1, apply_word w a)] k0 k').
Proof.
  induction w as [|b w IH]; intros a k0 k' Wa Hk.
  - cbn [word_op word_op_dag length apply_word fold_left]. change (two_pow 0) with c1. rewrite cmul_1_l.
    assert (W1 : well_sized 1 [(c1, a)]) by (apply well_sized_single; apply Wa).
    rewrite (amp_pmulp_ident_l 1) by ws. rewrite (amp_pmulp_ident_r 1) by ws. reflexivity.
  - cbn [word_op word_op_dag length]. rewrite two_pow_S_c2.
    change (apply_word (b :: w) a) with (apply_word w (transform1 (gate_of b) a)).
    pose proof (transform_wf 1 (gate_of b) a (gate_of_valid b) (proj1 Wa)) as Wr.
    apply (sandwich_step 1 (dag (op_of b)) (op_of b) (word_op_dag w) (word_op w)
             [(c1, a)] [(c1, transform1 (gate_of b) a)] [(c1, apply_word w (transform1 (gate_of b) a))] c2 (two_pow (length w))).
    + apply well_sized_dag, well_sized_op_of.
    + apply well_sized_op_of.
    + apply well_sized_word_op_dag.
    + apply well_sized_word_op.
    + apply well_sized_single, Wa.
    + apply well_sized_single, Wr.
    + intros m m' Hm. apply (gen_is_conjugation b a m m' Wa Hm).
    + intros m m' Hm. apply (IH (transform1 (gate_of b) a) m m' Wr Hm).
    + exact Hk.
Qed.

(* word_op_dag denotes the adjoint of word_op *)
Lemma amp_dag_ident : forall n k k', amp (dag (ident_poly n)) k k' = amp (ident_poly n) k k'.
Proof.
  intros n k k'. unfold ident_poly, dag, dag_term, pid. cbn [map fst snd].
  replace (cconj c1) with c1 by cjring. reflexivity.
Qed.

Theorem word_op_dag_correct : forall w k k', length k = 1%nat -> amp (dag (word_op w)) k k' = amp (word_op_dag w) k k'.
Proof.
  induction w as [|b w IH]; intros k k' Hk; cbn [word_op word_op_dag].
  - apply amp_dag_ident.
  - rewrite (amp_dag_pmulp 1 (op_of b) (word_op w) k k' (well_sized_op_of b) (well_sized_word_op w) Hk).
    apply (amp_pmulp_congr 1); try exact Hk.
    + apply well_sized_dag, well_sized_word_op.
    + apply well_sized_word_op_dag.
    + apply well_sized_dag, well_sized_op_of.
    + apply well_sized_dag, well_sized_op_of.
    + intros m m' Hm. apply IH. exact Hm.
    + intros m m' Hm. reflexivity.
Qed.

Theorem word_is_conjugation_dag : forall w a k0 k', wf 1 a -> length k0 = 1%nat ->
   amp (pmulp (dag (word_op w)) (pmulp [(c1, a)] (word_op w))) k0 k' = cmul (two_pow (length w)) (amp [(c1, apply_word w a)] k0 k').
Proof.
  intros w a k0 k' Wa Hk. rewrite <- (word_is_conjugation w a k0 k' Wa Hk).
  assert (W1 : well_sized 1 [(c1, a)]) by (apply well_sized_single; apply Wa).
  pose proof (well_sized_word_op w) as WV. pose proof (well_sized_word_op_dag w) as WVd.
  apply (amp_pmulp_congr 1); ws; try (apply well_sized_dag; exact WV).
  - intros m m' Hm. apply word_op_dag_correct. exact Hm.
  - intros m m' Hm. reflexivity.
Qed.

Theorem word_op_unitary : forall w k0 k', length k0 = 1%nat ->
   amp (pmulp (dag (word_op w)) (word_op w)) k0 k' = cmul (two_pow (length w)) (amp (ident_poly 1) k0 k').
Proof.
  intros w k0 k' Hk. pose proof (well_sized_word_op w) as WV.
  transitivity (amp (pmulp (dag (word_op w)) (pmulp (ident_poly 1) (word_op w))) k0 k').
  - apply (amp_pmulp_congr 1); ws; try (apply well_sized_dag; exact WV); [reflexivity|].
    intros m m' Hm. symmetry. apply (amp_pmulp_ident_l 1); ws.
  - unfold ident_poly. rewrite (word_is_conjugation_dag w (pid 1) k0 k' (wf_pid 1) Hk).
    rewrite <- (word_map_transform w (pid 1) (wf_pid 1)).
    rewrite (transform_pid 1 (word_map w) (word_map_valid w)). reflexivity.
Qed.

(* MAIN for the 24 tables: each entry of gate_C_table is a word of at most 6 letters in gate_H, gate_S (head acts first), and is
   conjugation  V^dag a V = 2^K * (entry applied to a)  by the product V = word_op w of the K = length w operators op_H, op_S,
   with V^dag V = 2^K *)
Theorem C_table_conjugations : forall i, (i < 24)%nat ->
  exists w, (length w <= 6)%nat /\ nth i gate_C_table [] = word_map w /\
    (forall k0 k', length k0 = 1%nat ->
       amp (pmulp (dag (word_op w)) (word_op w)) k0 k' = cmul (two_pow (length w)) (amp (ident_poly 1) k0 k')) /\
    (forall a k0 k', wf 1 a -> length k0 = 1%nat ->
       amp (pmulp (dag (word_op w)) (pmulp [(c1, a)] (word_op w))) k0 k'
       = cmul (two_pow (length w)) (amp [(c1, transform1 (nth i gate_C_table []) a)] k0 k')).
Proof.
  intros i Hi. destruct (C_table_words i Hi) as [w [Lw Ew]]. exists w.
  split; [exact Lw|]. split; [exact Ew|]. split.
  - intros k0 k' Hk. apply word_op_unitary. exact Hk.
  - intros a k0 k' Wa Hk. rewrite Ew, (word_map_transform w a Wa). apply word_is_conjugation_dag; assumption.
Qed.
