(* Proofs/UnitaryFacts.v -- a Clifford rotation IS conjugation by the (unnormalised) unitary V_G = 1 + iG in the ket semantics:
   V^dag V = 2,  V^dag a V = 2 * rotate1 G a;  sequences of rotations are conjugation by the product V_1 V_2 ... V_K;
   with a decomposition into rotations every Clifford map is implemented by a scaled unitary.
   All statements are about matrix elements (amp) of Pauli polynomials over exact Gaussian rationals. *)
From Coq Require Import ZArith List Bool Lia ZifyBool Arith.
From Coq Require Import QArith Qcanon.
From PC Require Import Gen.Kernels Model.Base Model.Pauli Model.Ket Model.CMap Model.Spec Model.Poly Model.PolySem
  Proofs.PauliFacts Proofs.Rotate Proofs.Transform Proofs.PolyFacts Proofs.TraceFacts Proofs.PositiveFacts Proofs.ProjectorFacts.
Import ListNotations.
Open Scope Z_scope.
Ltac Zify.zify_post_hook ::= Z.to_euclidean_division_equations.

(* ------------------------------------------------------------------ definitions (names fixed) *)
Definition ci : coef := (0%Qc, 1%Qc).
Definition rot_op (n : nat) (g : pauli) : poly := [(c1, pid n); (ci, g)].                    (* V = 1 + iG *)
Definition rot_op_dag (n : nat) (g : pauli) : poly := [(c1, pid n); (cneg ci, g)].           (* V^dag = 1 - iG  (G Hermitian) *)
Fixpoint rot_seq_op (n : nat) (gens : list pauli) : poly :=                                  (* V_1 V_2 ... V_K *)
  match gens with [] => ident_poly n | g :: rest => pmulp (rot_op n g) (rot_seq_op n rest) end.
Fixpoint rot_seq_op_dag (n : nat) (gens : list pauli) : poly :=                              (* V_K^dag ... V_1^dag *)
  match gens with [] => ident_poly n | g :: rest => pmulp (rot_seq_op_dag n rest) (rot_op_dag n g) end.
Definition rotate_seq1 (gens : list pauli) (a : pauli) : pauli := fold_left (fun x g => rotate1 g x) gens a.

(* ------------------------------------------------------------------ sizes *)
Lemma well_sized_pmulp : forall n p q, well_sized n p -> well_sized n q -> well_sized n (pmulp p q).
Proof.
  intros n p q Wp Wq. unfold well_sized in *. rewrite Forall_forall in *.
  intros t Ht. unfold pmulp in Ht. apply in_flat_map in Ht. destruct Ht as [s [Hs Ht]].
  apply in_map_iff in Ht. destruct Ht as [u [E Hu]]. subst t. cbn [fst snd].
  specialize (Wp s Hs). specialize (Wq u Hu). cbv beta in Wp, Wq.
  rewrite gxor_length; [exact Wp | transitivity n; [exact Wp | symmetry; exact Wq]].
Qed.

Lemma well_sized_single : forall n c (a : pauli), length (fst a) = n -> well_sized n [(c, a)].
Proof. intros n c a H. constructor; [exact H | constructor]. Qed.

Lemma well_sized_ident : forall n, well_sized n (ident_poly n).
Proof. intros n. apply well_sized_single. cbn [pid fst]. apply id_str_length. Qed.

Lemma well_sized_rot_op : forall n g, length (fst g) = n -> well_sized n (rot_op n g).
Proof.
  intros n g H. constructor; [cbn [pid fst snd]; apply id_str_length|]. apply well_sized_single. exact H.
Qed.

Lemma well_sized_rot_op_dag : forall n g, length (fst g) = n -> well_sized n (rot_op_dag n g).
Proof.
  intros n g H. constructor; [cbn [pid fst snd]; apply id_str_length|]. apply well_sized_single. exact H.
Qed.

Lemma well_sized_rot_seq_op : forall n gens, Forall (fun g => wf n g /\ hermP g) gens -> well_sized n (rot_seq_op n gens).
Proof.
  intros n gens H. induction H as [|g rest [[Lg _] _] _ IH]; cbn [rot_seq_op].
  - apply well_sized_ident.
  - apply well_sized_pmulp; [apply well_sized_rot_op; exact Lg | exact IH].
Qed.

Lemma well_sized_rot_seq_op_dag : forall n gens, Forall (fun g => wf n g /\ hermP g) gens -> well_sized n (rot_seq_op_dag n gens).
Proof.
  intros n gens H. induction H as [|g rest [[Lg _] _] _ IH]; cbn [rot_seq_op_dag].
  - apply well_sized_ident.
  - apply well_sized_pmulp; [exact IH | apply well_sized_rot_op_dag; exact Lg].
Qed.

Lemma well_sized_app : forall n p q, well_sized n p -> well_sized n q -> well_sized n (p ++ q).
Proof. intros n p q Wp Wq. unfold well_sized. apply Forall_app. split; assumption. Qed.

Ltac ws :=
  repeat first [ assumption
               | apply well_sized_pmulp
               | apply well_sized_ident
               | apply well_sized_app ].

(* ------------------------------------------------------------------ the operator algebra at the amp level:
   congruence (with scalars), associativity, units, right distributivity *)
Lemma coef_shuffle4 : forall c d x y : coef, cmul (cmul d x) (cmul c y) = cmul (cmul c d) (cmul x y).
Proof. intros c d x y. cring. Qed.

Lemma amp_pmulp_scale_congr : forall n c d p p' q q', well_sized n p -> well_sized n p' -> well_sized n q -> well_sized n q' ->
  (forall k k', length k = n -> amp p k k' = cmul c (amp p' k k')) ->
  (forall k k', length k = n -> amp q k k' = cmul d (amp q' k k')) ->
  forall k k', length k = n -> amp (pmulp p q) k k' = cmul (cmul c d) (amp (pmulp p' q') k k').
Proof.
  intros n c d p p' q q' Wp Wp' Wq Wq' Hp Hq k k' Hk.
  rewrite (amp_matrix_product n p q k k' Wp Wq Hk), (amp_matrix_product n p' q' k k' Wp' Wq' Hk).
  rewrite <- csum_map_cmul. apply csum_map_ext. intros m Hm. apply all_kets_In in Hm.
  rewrite (Hp m k' Hm), (Hq k m Hk). apply coef_shuffle4.
Qed.

Lemma amp_pmulp_congr : forall n p p' q q', well_sized n p -> well_sized n p' -> well_sized n q -> well_sized n q' ->
  (forall k k', length k = n -> amp p k k' = amp p' k k') ->
  (forall k k', length k = n -> amp q k k' = amp q' k k') ->
  forall k k', length k = n -> amp (pmulp p q) k k' = amp (pmulp p' q') k k'.
Proof.
  intros n p p' q q' Wp Wp' Wq Wq' Hp Hq k k' Hk.
  rewrite (amp_pmulp_scale_congr n c1 c1 p p' q q' Wp Wp' Wq Wq'); [rewrite !cmul_1_l; reflexivity | | | exact Hk].
  - intros m m' Hm. rewrite cmul_1_l. apply Hp. exact Hm.
  - intros m m' Hm. rewrite cmul_1_l. apply Hq. exact Hm.
Qed.

Lemma amp_pmulp_assoc : forall n p q r k k', well_sized n p -> well_sized n q -> well_sized n r -> length k = n ->
  amp (pmulp (pmulp p q) r) k k' = amp (pmulp p (pmulp q r)) k k'.
Proof.
  intros n p q r k k' Wp Wq Wr Hk.
  rewrite (amp_matrix_product n (pmulp p q) r k k' (well_sized_pmulp n p q Wp Wq) Wr Hk).
  rewrite (amp_matrix_product n p (pmulp q r) k k' Wp (well_sized_pmulp n q r Wq Wr) Hk).
  transitivity (csum (map (fun m => csum (map (fun m' => cmul (amp r k m) (cmul (amp q m m') (amp p m' k'))) (all_kets n))) (all_kets n))).
  { apply csum_map_ext. intros m Hm. apply all_kets_In in Hm.
    rewrite (amp_matrix_product n p q m k' Wp Wq Hm). rewrite csum_map_cmul. reflexivity. }
  rewrite (csum_swap (fun m' m => cmul (amp r k m) (cmul (amp q m m') (amp p m' k'))) (all_kets n) (all_kets n)).
  apply csum_map_ext. intros m' _.
  rewrite (amp_matrix_product n q r k m' Wq Wr Hk).
  rewrite (cmul_comm (csum _) (amp p m' k')), <- csum_map_cmul.
  apply csum_map_ext. intros m _. cring.
Qed.

Lemma amp_pmulp_ident_l : forall n p k k', well_sized n p -> length k = n -> amp (pmulp (ident_poly n) p) k k' = amp p k k'.
Proof.
  intros n p k k' Wp Hk. rewrite (amp_pmulp n _ p k k' (well_sized_ident n) Wp Hk), amp_after_proj.
  unfold amp at 2. apply csum_map_ext. intros t Ht.
  assert (Lt : length (fst (snd t)) = n) by (exact (proj1 (Forall_forall _ p) Wp t Ht)).
  rewrite amp_ident.
  - rewrite amp_term_proj. destruct (ket_eqb (snd (act (snd t) k)) k'); [apply cmul_1_r | apply cmul_0_r].
  - rewrite (act_length (snd t) k); [exact Lt | transitivity n; [exact Hk | symmetry; exact Lt]].
Qed.

Lemma amp_pmulp_ident_r : forall n p k k', well_sized n p -> length k = n -> amp (pmulp p (ident_poly n)) k k' = amp p k k'.
Proof.
  intros n p k k' Wp Hk. rewrite (amp_pmulp n p _ k k' Wp (well_sized_ident n) Hk), amp_after_proj.
  unfold ident_poly. cbn [map fst snd]. rewrite csum_cons, csum_nil, cadd_0_r.
  unfold act, pid. cbn [fst snd]. rewrite (act_str_id n k Hk). cbn [fst snd].
  rewrite cipow_0 by reflexivity. apply cmul_1_l.
Qed.

Lemma pmulp_app_l : forall p p' q, pmulp (p ++ p') q = pmulp p q ++ pmulp p' q.
Proof. intros p p' q. unfold pmulp. apply flat_map_app. Qed.

Lemma amp_pmulp_app_r : forall n p q q' k k', well_sized n p -> well_sized n q -> well_sized n q' -> length k = n ->
  amp (pmulp p (q ++ q')) k k' = cadd (amp (pmulp p q) k k') (amp (pmulp p q') k k').
Proof.
  intros n p q q' k k' Wp Wq Wq' Hk.
  rewrite (amp_pmulp n p (q ++ q') k k' Wp (well_sized_app n q q' Wq Wq') Hk).
  rewrite (amp_pmulp n p q k k' Wp Wq Hk), (amp_pmulp n p q' k k' Wp Wq' Hk).
  unfold amp_after. rewrite map_app. apply csum_app.
Qed.

(* ------------------------------------------------------------------ one rotation *)
Lemma tamp_pscale : forall k k' j a, tamp k k' (pscale j a) = cipow j (tamp k k' a).
Proof. intros k k' j [g p]. unfold tamp, pscale. cbn [fst snd]. apply amp_term_shift. Qed.

Lemma acq_flip_1 : forall g a : pauli, acqb (fst g) (fst a) = true -> acq (fst a) (fst g) = 1.
Proof. intros g a E. rewrite acq_acqb, acqb_sym, E. reflexivity. Qed.
Lemma acq_flip_0 : forall g a : pauli, acqb (fst g) (fst a) = false -> acq (fst a) (fst g) = 0.
Proof. intros g a E. rewrite acq_acqb, acqb_sym, E. reflexivity. Qed.

(* V^dag V = 2 *)
Theorem rot_op_unitary : forall n g k k', wf n g -> hermP g -> length k = n ->
   amp (pmulp (rot_op_dag n g) (rot_op n g)) k k' = cmul c2 (amp (ident_poly n) k k').
Proof.
  intros n g k k' Wg Hg _. unfold rot_op_dag, rot_op, ident_poly.
  rewrite !pmulp_cons, pmulp_nil_l. cbn [map app fst snd].
  rewrite (pmul_pid_l n (pid n) (wf_pid n)), (pmul_pid_l n g Wg), (pmul_pid_r n g Wg), (herm_square n g Wg Hg).
  rewrite !amp_cons, !amp_nil, !amp_term_tamp.
  generalize (tamp k k' (pid n)) (tamp k k' g). intros x y. unfold c2, ci. cring.
Qed.

(* V^dag (c a) V = 2 c (rotate1 g a) : holds at every pair of kets *)
Lemma conj_term : forall n g c a k k', wf n g -> hermP g -> wf n a ->
   amp (pmulp (rot_op_dag n g) (pmulp [(c, a)] (rot_op n g))) k k' = cmul c2 (amp [(c, rotate1 g a)] k k').
Proof.
  intros n g c a k k' Wg Hg Wa. unfold rot_op_dag, rot_op.
  rewrite !pmulp_cons, !pmulp_nil_l. cbn [map app fst snd].
  rewrite (pmul_pid_r n a Wa), (pmul_pid_l n a Wa), (pmul_pid_l n (pmul a g) (wf_pmul n a g Wa Wg)).
  rewrite !amp_cons, !amp_nil, !amp_term_tamp.
  rewrite rotate1_acqb. destruct (acqb (fst g) (fst a)) eqn:E.
  - rewrite (conj_anti n a g Wa Wg Hg (acq_flip_1 g a E)).
    rewrite (acq_spec_anti g a) by (rewrite acq_acqb, E; reflexivity).
    rewrite !tamp_pneg, tamp_pscale, (cipow_1 1) by reflexivity.
    generalize (tamp k k' a) (tamp k k' (pmul a g)). intros x y. unfold c2, ci. cring.
  - rewrite (conj_comm n a g Wa Wg Hg (acq_flip_0 g a E)).
    rewrite (acq_spec_comm g a) by (rewrite acq_acqb, E; reflexivity).
    generalize (tamp k k' a) (tamp k k' (pmul a g)). intros x y. unfold c2, ci. cring.
Qed.

(* the rotation of the code is conjugation by V:  V^dag a V = 2 * rotate1 g a *)
Theorem rotate_is_conjugation : forall n g a k k', wf n g -> hermP g -> wf n a -> length k = n ->
   amp (pmulp (rot_op_dag n g) (pmulp [(c1, a)] (rot_op n g))) k k' = cmul c2 (amp [(c1, rotate1 g a)] k k').
Proof. intros n g a k k' Wg Hg Wa _. apply (conj_term n g c1 a k k' Wg Hg Wa). Qed.

(* ------------------------------------------------------------------ linear extension to the whole operator algebra *)
Theorem rotate_poly_is_conjugation : forall n g p k k', wf n g -> hermP g -> well_sized n p -> Forall (fun t => 0 <= snd (snd t) < 4) p -> length k = n ->
   amp (pmulp (rot_op_dag n g) (pmulp p (rot_op n g))) k k' = cmul c2 (amp (map (fun t => (fst t, rotate1 g (snd t))) p) k k').
Proof.
  intros n g p k k' Wg Hg Wp Rp Hk.
  pose proof (well_sized_rot_op n g (proj1 Wg)) as WV.
  pose proof (well_sized_rot_op_dag n g (proj1 Wg)) as WVd.
  induction p as [|[c a] p IH].
  - cbn [map]. rewrite pmulp_nil_l.
    rewrite (amp_pmulp n _ [] k k' WVd (Forall_nil _) Hk). unfold amp_after. cbn [map].
    rewrite csum_nil, amp_nil, cmul_0_r. reflexivity.
  - inversion_clear Wp as [|? ? La Wp']. inversion_clear Rp as [|? ? Ra Rp']. cbn [fst snd] in La, Ra.
    change ((c, a) :: p) with ([(c, a)] ++ p). rewrite pmulp_app_l.
    rewrite (amp_pmulp_app_r n) by (ws; apply well_sized_single; exact La).
    rewrite (conj_term n g c a k k' Wg Hg (conj La Ra)), (IH Wp' Rp').
    cbn [app map fst snd]. rewrite <- cmul_cadd_distr_l. f_equal.
    rewrite (amp_cons (c, rotate1 g a) []), amp_nil, cadd_0_r. symmetry. apply amp_cons.
Qed.

(* ------------------------------------------------------------------ sequences of rotations *)
Lemma rotate1_pid : forall n g, rotate1 g (pid n) = pid n.
Proof. intros n g. rewrite rotate1_acqb. cbn [pid fst]. rewrite acqb_id_r. reflexivity. Qed.

Lemma rotate_seq1_pid : forall n gens, rotate_seq1 gens (pid n) = pid n.
Proof.
  intros n gens. unfold rotate_seq1. induction gens as [|g rest IH]; cbn [fold_left]; [reflexivity|].
  rewrite rotate1_pid. exact IH.
Qed.

Lemma rotate_seq1_cons : forall g rest a, rotate_seq1 (g :: rest) a = rotate_seq1 rest (rotate1 g a).
Proof. reflexivity. Qed.

Lemma two_pow_S_c2 : forall K, two_pow (S K) = cmul c2 (two_pow K).
Proof. intros K. rewrite two_pow_S, c2_mul. reflexivity. Qed.

(* Sd (Vd A V) S  with  Vd A V = c B  and  Sd B S = d T *)
Lemma sandwich_step : forall n Vd V Sd S A B T c d,
  well_sized n Vd -> well_sized n V -> well_sized n Sd -> well_sized n S -> well_sized n A -> well_sized n B ->
  (forall k k', length k = n -> amp (pmulp Vd (pmulp A V)) k k' = cmul c (amp B k k')) ->
  (forall k k', length k = n -> amp (pmulp Sd (pmulp B S)) k k' = cmul d (amp T k k')) ->
  forall k k', length k = n ->
    amp (pmulp (pmulp Sd Vd) (pmulp A (pmulp V S))) k k' = cmul (cmul c d) (amp T k k').
Proof.
  intros n Vd V Sd S A B T c d WVd WV WSd WS WA WB H1 H2 k k' Hk.
  rewrite (amp_pmulp_assoc n Sd Vd (pmulp A (pmulp V S)) k k') by ws.
  assert (E : forall m m', length m = n ->
            amp (pmulp Vd (pmulp A (pmulp V S))) m m' = cmul c (amp (pmulp B S) m m')).
  { intros m m' Hm.
    transitivity (amp (pmulp Vd (pmulp (pmulp A V) S)) m m').
    { apply (amp_pmulp_congr n); ws; [reflexivity|].
      intros j j' Hj. symmetry. apply (amp_pmulp_assoc n); ws. }
    rewrite <- (amp_pmulp_assoc n Vd (pmulp A V) S m m') by ws.
    rewrite (amp_pmulp_scale_congr n c c1 (pmulp Vd (pmulp A V)) B S S) by
      (ws; first [exact H1 | intros j j' _; rewrite cmul_1_l; reflexivity]).
    rewrite cmul_1_r. reflexivity. }
  rewrite (amp_pmulp_scale_congr n c1 c Sd Sd (pmulp Vd (pmulp A (pmulp V S))) (pmulp B S)) by
    (ws; first [exact E | intros j j' _; rewrite cmul_1_l; reflexivity]).
  rewrite (H2 k k' Hk), cmul_1_l. symmetry. apply cmul_assoc.
Qed.

(* rotate_seq1 applies g_1 first; the operator is V_1 V_2 ... V_K *)
Theorem rotate_seq_is_conjugation : forall n gens a k k', Forall (fun g => wf n g /\ hermP g) gens -> wf n a -> length k = n ->
   amp (pmulp (rot_seq_op_dag n gens) (pmulp [(c1, a)] (rot_seq_op n gens))) k k' = cmul (two_pow (length gens)) (amp [(c1, rotate_seq1 gens a)] k k').
Proof.
  intros n gens. induction gens as [|g rest IH]; intros a k k' HF Wa Hk.
  - cbn [rot_seq_op rot_seq_op_dag length]. change (two_pow 0) with c1. rewrite cmul_1_l.
    assert (W1 : well_sized n [(c1, a)]) by (apply well_sized_single; apply Wa).
    rewrite (amp_pmulp_ident_l n) by ws. rewrite (amp_pmulp_ident_r n) by ws. reflexivity.
  - inversion_clear HF as [|? ? [Wg Hg] HF'].
    cbn [rot_seq_op rot_seq_op_dag length]. rewrite rotate_seq1_cons, two_pow_S_c2.
    pose proof (rotate_wf n g a Wg Wa) as Wr.
    apply (sandwich_step n (rot_op_dag n g) (rot_op n g) (rot_seq_op_dag n rest) (rot_seq_op n rest)
             [(c1, a)] [(c1, rotate1 g a)] [(c1, rotate_seq1 rest (rotate1 g a))] c2 (two_pow (length rest))).
    + apply well_sized_rot_op_dag, Wg.
    + apply well_sized_rot_op, Wg.
    + apply well_sized_rot_seq_op_dag, HF'.
    + apply well_sized_rot_seq_op, HF'.
    + apply well_sized_single, Wa.
    + apply well_sized_single, Wr.
    + intros m m' Hm. apply (rotate_is_conjugation n g a m m' Wg Hg Wa Hm).
    + intros m m' Hm. apply (IH (rotate1 g a) m m' HF' Wr Hm).
    + exact Hk.
Qed.

Theorem rot_seq_unitary : forall n gens k k', Forall (fun g => wf n g /\ hermP g) gens -> length k = n ->
   amp (pmulp (rot_seq_op_dag n gens) (rot_seq_op n gens)) k k' = cmul (two_pow (length gens)) (amp (ident_poly n) k k').
Proof.
  intros n gens k k' HF Hk.
  pose proof (well_sized_rot_seq_op n gens HF) as WS. pose proof (well_sized_rot_seq_op_dag n gens HF) as WSd.
  transitivity (amp (pmulp (rot_seq_op_dag n gens) (pmulp (ident_poly n) (rot_seq_op n gens))) k k').
  - apply (amp_pmulp_congr n); ws; [reflexivity|].
    intros m m' Hm. symmetry. apply (amp_pmulp_ident_l n); ws.
  - unfold ident_poly. rewrite (rotate_seq_is_conjugation n gens (pid n) k k' HF (wf_pid n) Hk).
    rewrite rotate_seq1_pid. reflexivity.
Qed.

(* with the decomposition of a valid map into rotations (Proofs/GeneratedFacts.v) every valid Clifford map is implemented by a scaled unitary *)
Theorem map_unitary_from_decomposition : forall n m gens, Forall (fun g => wf n g /\ hermP g) gens -> (forall a, wf n a -> transform1 m a = rotate_seq1 gens a) ->
   exists V Vd K, (forall k k', length k = n -> amp (pmulp Vd V) k k' = cmul (two_pow K) (amp (ident_poly n) k k')) /\
                  (forall a k k', wf n a -> length k = n -> amp (pmulp Vd (pmulp [(c1, a)] V)) k k' = cmul (two_pow K) (amp [(c1, transform1 m a)] k k')).
Proof.
  intros n m gens HF HT.
  exists (rot_seq_op n gens), (rot_seq_op_dag n gens), (length gens). split.
  - intros k k' Hk. apply (rot_seq_unitary n gens k k' HF Hk).
  - intros a k k' Wa Hk. rewrite (HT a Wa). apply (rotate_seq_is_conjugation n gens a k k' HF Wa Hk).
Qed.
