(* Proofs/MeasureCircuitFacts.v -- circuits with measurement layers: the layered circuit built by [circ_build]
   runs exactly as the instruction-by-instruction program (gates never cross a measurement). *)
From Coq Require Import ZArith List Bool Lia ZifyBool Arith.
From PC Require Import Gen.Kernels Model.Base Model.Pauli Model.Ket Model.Z2 Model.CMap Model.Tableau Model.Circuit Model.Spec
  Proofs.PauliFacts Proofs.Rotate Proofs.CircuitFacts.
Import ListNotations.
Open Scope Z_scope.
Ltac Zify.zify_post_hook ::= Z.to_euclidean_division_equations.   (* lets lia decide goals with mod and / by constants *)

(* ------------------------------------------------------------------ statements' vocabulary *)
Fixpoint run_instrs (prog : list instr) (t : tableau) (coins : list Z) : option (tableau * list Z * Z) :=
  match prog with
  | [] => Some (t, [], 0)
  | IGate g :: rest =>
      match state_apply (gate_forward (tN t) g) t with
      | Some t' => run_instrs rest t' coins
      | None => None
      end
  | IMeasure qs :: rest =>
      let '(t', res, lp, coins') := mlayer_forward t qs coins in
      match run_instrs rest t' coins' with
      | Some (t'', res', lp') => Some (t'', res ++ res', lp + lp')
      | None => None
      end
  end.

Definition wf_state (n : nat) (t : tableau) : Prop := length (rows t) = (2 * n)%nat /\ Forall (wf n) (rows t).
(* the invariant actually preserved by measurements: the rank counter must stay in range, otherwise
   [install] copies the (empty) default row into the tableau *)
Definition wfs (n : nat) (t : tableau) : Prop := wf_state n t /\ (rk t <= n)%nat.
Definition bit_coins (coins : list Z) : Prop := Forall (fun c => c = 0 \/ c = 1) coins.

(* ------------------------------------------------------------------ rows, lengths *)
Lemma tN_len : forall n t, length (rows t) = (2 * n)%nat -> tN t = n.
Proof.
  intros n t H. unfold tN. rewrite H. rewrite Nat.mul_comm. apply Nat.div_mul. discriminate.
Qed.

Lemma prow_wf : forall n (l : plist) j, Forall (wf n) l -> (j < length l)%nat -> wf n (prow l j).
Proof.
  intros n l j HF Hj. rewrite Forall_forall in HF. apply HF. unfold prow. apply nth_In. exact Hj.
Qed.

Lemma set_str_len : forall l j g, length (set_str l j g) = length l.
Proof. intros. unfold set_str. apply upd_len. Qed.

Lemma set_str_wf : forall n l j g, Forall (wf n) l -> ((j < length l)%nat -> length g = n) -> Forall (wf n) (set_str l j g).
Proof.
  intros n l j g HF Hg. unfold set_str. apply Forall_upd; [exact HF|]. intros Hj.
  destruct (prow_wf n l j HF Hj) as [_ R]. split; cbn [fst snd]; [apply Hg; exact Hj | exact R].
Qed.

Lemma swap_str_len : forall l i j, length (swap_str l i j) = length l.
Proof. intros. unfold swap_str. rewrite !set_str_len. reflexivity. Qed.

Lemma swap_str_wf : forall n l i j, Forall (wf n) l -> ((0 < length l)%nat -> (i < length l)%nat /\ (j < length l)%nat) ->
  Forall (wf n) (swap_str l i j).
Proof.
  intros n l i j HF H. unfold swap_str. apply set_str_wf.
  - apply set_str_wf; [exact HF|]. intros Hi. apply (prow_wf n l j HF). apply H. lia.
  - rewrite set_str_len. intros Hj. apply (prow_wf n l i HF). apply H. lia.
Qed.

Lemma set_phase_len : forall l j p, length (set_phase l j p) = length l.
Proof. intros. unfold set_phase. apply upd_len. Qed.

Lemma set_phase_wf : forall n l j p, Forall (wf n) l -> 0 <= p < 4 -> Forall (wf n) (set_phase l j p).
Proof.
  intros n l j p HF Hp. unfold set_phase. apply Forall_upd; [exact HF|]. intros Hj.
  destruct (prow_wf n l j HF Hj) as [L _]. split; cbn [fst snd]; [exact L | exact Hp].
Qed.

(* ------------------------------------------------------------------ the scan keeps the shape of the rows *)
Definition sinv (n : nat) (s : scan) : Prop :=
  length (s_rows s) = (2 * n)%nat /\ Forall (wf n) (s_rows s) /\ ((0 < n)%nat -> (s_p s < 2 * n)%nat).

Lemma scan_step_inv : forall n r go s j, sinv n s -> (j < 2 * n)%nat -> sinv n (scan_step n r go s j).
Proof.
  intros n r go s j (HL & HF & HP) Hj. unfold scan_step.
  destruct (bz (acq (fst (prow (s_rows s) j)) go)); [|repeat split; assumption].
  destruct (s_update s).
  - repeat split; cbn [s_rows s_p]; [rewrite upd_len; exact HL | | exact HP].
    apply Forall_upd; [exact HF|]. intros _.
    assert (Hp : (s_p s < length (s_rows s))%nat) by (rewrite HL; apply HP; lia).
    rewrite <- HL in Hj.
    destruct (prow_wf n _ j HF Hj) as [Lj Rj]. destruct (prow_wf n _ (s_p s) HF Hp) as [Lp Rp].
    split; cbn [fst snd].
    + rewrite gxor_length; [exact Lj | rewrite Lj, Lp; reflexivity].
    + destruct (Nat.ltb j n); [unfold np_measure_update_phase; lia | exact Rj].
  - destruct (Nat.ltb j (n + r)); repeat split; cbn [s_rows s_p]; try assumption. intros _. exact Hj.
Qed.

Lemma scan_fold_inv : forall n r go order s, Forall (fun j => (j < 2 * n)%nat) order -> sinv n s ->
  sinv n (fold_left (scan_step n r go) order s).
Proof.
  induction order as [|j order IH]; intros s HO Hs; cbn [fold_left]; [exact Hs|].
  inversion_clear HO as [|? ? Hj HO']. apply IH; [exact HO'|]. apply scan_step_inv; assumption.
Qed.

Lemma order_measure_range : forall n r, (r <= n)%nat -> Forall (fun j => (j < 2 * n)%nat) (order_measure n r).
Proof.
  intros n r Hr. unfold order_measure. apply Forall_forall. intros j Hj.
  apply in_app_or in Hj. destruct Hj as [Hj|Hj]; [apply in_seq in Hj; lia|].
  apply in_app_or in Hj. destruct Hj as [Hj|Hj]; apply in_seq in Hj; lia.
Qed.

Lemma scan_over_inv : forall n r go l order, Forall (fun j => (j < 2 * n)%nat) order ->
  length l = (2 * n)%nat -> Forall (wf n) l -> sinv n (scan_over order n r go l).
Proof.
  intros n r go l order HO HL HF. unfold scan_over. apply scan_fold_inv; [exact HO|].
  repeat split; cbn [s_rows s_p]; try assumption. lia.
Qed.

(* ------------------------------------------------------------------ install *)
Lemma install_inv : forall n r go s, sinv n s -> (r <= n)%nat -> length go = n ->
  length (fst (fst (install n r go s))) = (2 * n)%nat /\ Forall (wf n) (fst (fst (install n r go s))) /\
  (snd (fst (install n r go s)) <= n)%nat.
Proof.
  intros n r go s (HL & HF & HP) Hr Hgo. unfold install.
  set (p := s_p s). set (q := ((p + n) mod (2 * n))%nat).
  set (l1 := set_str (s_rows s) q (fst (prow (s_rows s) p))). set (l2 := set_str l1 p go).
  assert (L1 : length l1 = (2 * n)%nat) by (unfold l1; rewrite set_str_len; exact HL).
  assert (L2 : length l2 = (2 * n)%nat) by (unfold l2; rewrite set_str_len; exact L1).
  assert (Q : (0 < n)%nat -> (q < 2 * n)%nat) by (intros Hn; unfold q; apply Nat.mod_upper_bound; lia).
  assert (F1 : Forall (wf n) l1).
  { unfold l1. apply set_str_wf; [exact HF|]. intros Hq. apply (prow_wf n _ p HF). rewrite HL. apply HP. lia. }
  assert (F2 : Forall (wf n) l2) by (unfold l2; apply set_str_wf; [exact F1 | intros _; exact Hgo]).
  destruct (s_extend s); [|cbn [fst snd]; repeat split; assumption].
  destruct (Nat.eqb p (r - 1)); [cbn [fst snd]; repeat split; try assumption; lia|].
  destruct (Nat.eqb q (r - 1)); cbn [fst snd].
  - repeat split; [rewrite swap_str_len; exact L2 | | lia].
    apply swap_str_wf; [exact F2|]. rewrite L2. intros Hn. split; [apply HP; lia | apply Q; lia].
  - repeat split; [rewrite !swap_str_len; exact L2 | | lia].
    apply swap_str_wf.
    + apply swap_str_wf; [exact F2|]. rewrite L2. intros Hn. split; [apply HP; lia | lia].
    + rewrite swap_str_len, L2. intros Hn. split; [apply Q; lia | apply Nat.mod_upper_bound; lia].
Qed.

(* ------------------------------------------------------------------ measure1 / measure / mlayer_forward keep the invariant *)
Lemma measure1_wfs : forall n t (o : pauli) coin, wfs n t -> length (fst o) = n -> (coin = 0 \/ coin = 1) ->
  wfs n (fst (fst (fst (measure1 t o coin)))).
Proof.
  intros n t o coin [[HL HF] Hr] Ho Hc. unfold measure1. cbv zeta. rewrite (tN_len n t HL).
  pose proof (scan_over_inv n (rk t) (fst o) (rows t) _ (order_measure_range n (rk t) Hr) HL HF) as SI.
  set (s := scan_over (order_measure n (rk t)) n (rk t) (fst o) (rows t)) in *.
  destruct (s_update s).
  - pose proof (install_inv n (rk t) (fst o) s SI Hr Ho) as (IL & IF & IR).
    destruct (install n (rk t) (fst o) s) as [[l r'] p]. cbn [fst snd] in *.
    repeat split; cbn [rows rk]; [rewrite set_phase_len; exact IL | | exact IR].
    apply set_phase_wf; [exact IF|]. unfold np_measure_coin_phase. lia.
  - cbn [fst snd]. destruct SI as (SL & SF & _). repeat split; cbn [rows rk]; assumption.
Qed.

Lemma bit_coins_tl : forall coins, bit_coins coins -> bit_coins (tl coins).
Proof. intros [|c coins] H; [exact H|]. inversion_clear H. assumption. Qed.

Lemma measure_wfs : forall n obs t coins, wfs n t -> Forall (fun o : pauli => length (fst o) = n) obs -> bit_coins coins ->
  wfs n (fst (fst (fst (measure t obs coins)))) /\ bit_coins (snd (measure t obs coins)).
Proof.
  intros n. induction obs as [|o obs IH]; intros t coins Ht HO HC; cbn [measure]; [split; assumption|].
  inversion_clear HO as [|? ? Ho HO'].
  set (c := match coins with c :: _ => c | [] => 0 end).
  assert (Hc : c = 0 \/ c = 1) by (unfold c; destruct coins as [|c0 cs]; [left; reflexivity | inversion_clear HC; assumption]).
  pose proof (measure1_wfs n t o c Ht Ho Hc) as H1.
  destruct (measure1 t o c) as [[[t1 out] lp] used]. cbn [fst snd] in H1.
  assert (HC' : bit_coins (if used then tl coins else coins)) by (destruct used; [apply bit_coins_tl|]; exact HC).
  specialize (IH t1 _ H1 HO' HC').
  destruct (measure t1 obs (if used then tl coins else coins)) as [[[t2 outs] lp2] cl]. cbn [fst snd] in *. exact IH.
Qed.

Lemma z_obs_length : forall n q, length (fst (z_obs n q)) = n.
Proof. intros. unfold z_obs. cbn [fst]. rewrite upd_len. unfold id_str. apply repeat_length. Qed.

Lemma mlayer_forward_wfs : forall n t qs coins, wfs n t -> bit_coins coins ->
  wfs n (fst (fst (fst (mlayer_forward t qs coins)))) /\ bit_coins (snd (mlayer_forward t qs coins)).
Proof.
  intros n t qs coins Ht HC. unfold mlayer_forward.
  assert (HO : Forall (fun o : pauli => length (fst o) = n) (map (z_obs (tN t)) qs)).
  { destruct Ht as [[HL _] _]. rewrite (tN_len n t HL). apply Forall_map. apply Forall_forall. intros q _. apply z_obs_length. }
  pose proof (measure_wfs n _ t coins Ht HO HC) as H.
  destruct (measure t (map (z_obs (tN t)) qs) coins) as [[[t' outs] lp] coins']. cbn [fst snd] in *. exact H.
Qed.

(* ------------------------------------------------------------------ structure: measurement layers stay in program order *)
Definition measured (prog : list instr) : list (list nat) :=
  flat_map (fun i => match i with IMeasure q => [q] | IGate _ => [] end) prog.
Definition mls (c : list clayer) : list (list nat) :=
  flat_map (fun x => match x with ML q => [q] | CL _ => [] end) c.

(* the maximal runs of gates between measurements (k measurements give k+1 runs, possibly empty), and the
   measured qubit lists in order *)
Fixpoint segments (prog : list instr) : list (list gate) * list (list nat) :=
  match prog with
  | [] => ([[]], [])
  | IGate g :: rest =>
      (match fst (segments rest) with seg :: segs => (g :: seg) :: segs | [] => [[g]] end, snd (segments rest))
  | IMeasure q :: rest => ([] :: fst (segments rest), q :: snd (segments rest))
  end.

Lemma segments_measured : forall prog, snd (segments prog) = measured prog.
Proof.
  induction prog as [|[g|q] prog IH]; cbn [segments snd]; [reflexivity | exact IH |].
  unfold measured. cbn [flat_map app]. f_equal. exact IH.
Qed.

Lemma segments_gates : forall prog, concat (fst (segments prog)) = gates_of prog.
Proof.
  induction prog as [|[g|q] prog IH]; cbn [segments fst]; [reflexivity | | exact IH].
  unfold gates_of in *. cbn [flat_map app]. rewrite <- IH.
  destruct (fst (segments prog)) as [|seg segs]; reflexivity.
Qed.

Lemma segments_count : forall prog, length (fst (segments prog)) = S (length (snd (segments prog))).
Proof.
  induction prog as [|[g|q] prog IH]; cbn [segments fst snd length]; [reflexivity | | rewrite IH; reflexivity].
  rewrite <- IH. destruct (fst (segments prog)) as [|seg segs]; [discriminate IH | reflexivity].
Qed.

Lemma mls_app : forall a b, mls (a ++ b) = mls a ++ mls b.
Proof. intros. unfold mls. apply flat_map_app. Qed.

Lemma mls_rev : forall c, mls (rev c) = rev (mls c).
Proof.
  induction c as [|x c IH]; [reflexivity|]. cbn [rev]. rewrite mls_app, IH.
  destruct x as [ly|q]; cbn [mls flat_map app]; [rewrite app_nil_r; reflexivity | reflexivity].
Qed.

Lemma mls_filter : forall c,
  map (fun x => match x with ML q => Some q | CL _ => None end) (filter (fun x => match x with ML _ => true | CL _ => false end) c)
  = map Some (mls c).
Proof.
  induction c as [|[ly|q] c IH]; cbn [filter map mls flat_map app]; [reflexivity | exact IH |].
  f_equal. exact IH.
Qed.

Lemma mls_layer_take : forall g rl, mls (layer_take rl g) = mls rl.
Proof.
  intros g. induction rl as [|[cur|q] rl IH]; [reflexivity | | reflexivity].
  destruct rl as [|[pl|q] rest]; [reflexivity | | reflexivity].
  rewrite layer_take_cons2. destruct (layer_indep pl g); [|reflexivity].
  change (mls (CL cur :: ?x)) with (mls x). exact IH.
Qed.

Lemma mls_circ_take : forall g rl, mls (circ_take rl g) = mls rl.
Proof.
  intros g rl. unfold circ_take. destruct rl as [|[last|q] rest]; try reflexivity.
  destruct (layer_indep last g); [apply mls_layer_take | reflexivity].
Qed.

Lemma mls_fold : forall prog rl, mls (fold_left bstep prog rl) = rev (measured prog) ++ mls rl.
Proof.
  induction prog as [|[g|q] prog IH]; intros rl; cbn [fold_left]; [reflexivity | |].
  - rewrite IH. cbn [bstep]. rewrite mls_circ_take. reflexivity.
  - rewrite IH. cbn [bstep]. unfold circ_take_measure, measured. cbn [flat_map rev app mls].
    rewrite <- app_assoc. reflexivity.
Qed.

Theorem build_measure_order : forall prog,
   map (fun x => match x with ML q => Some q | CL _ => None end) (filter (fun x => match x with ML _ => true | CL _ => false end) (circ_build prog))
   = map Some (flat_map (fun i => match i with IMeasure q => [q] | IGate _ => [] end) prog).
Proof.
  intros prog. rewrite mls_filter. f_equal. rewrite circ_build_eq, mls_rev, mls_fold.
  cbn [mls empty_layer flat_map app]. rewrite app_nil_r, rev_involutive. reflexivity.
Qed.

(* ------------------------------------------------------------------ gates keep the number of rows *)
Lemma gate_forward_length : forall n g l l', gate_forward n g l = Some l' -> length l' = length l.
Proof.
  intros n g l l' H. unfold gate_forward in H. destruct (gk g) as [gen|f b].
  - injection H as <-. unfold rotate_by, clifford_rotate. destruct (Nat.eqb (gate_n g) n); apply map_length.
  - destruct (opt_or_inv f b) as [m|]; [|discriminate H]. injection H as <-.
    unfold transform_by, pauli_transform. destruct (Nat.eqb (gate_n g) n); apply map_length.
Qed.

Lemma run_gates_length : forall n gs l l', run_gates n gs l = Some l' -> length l' = length l.
Proof.
  induction gs as [|h gs IH]; intros l l' H.
  - injection H as <-. reflexivity.
  - rewrite run_gates_cons in H. destruct (gate_forward n h l) as [l1|] eqn:E; [|discriminate H]. cbn [obind] in H.
    rewrite (IH l1 l' H). apply (gate_forward_length n h l l1 E).
Qed.

(* ------------------------------------------------------------------ accumulating semantics, one step per layer / instruction *)
Record mst := { m_t : tableau ; m_res : list Z ; m_lp : Z ; m_coins : list Z }.

Definition with_t (s : mst) (t : tableau) : mst := {| m_t := t; m_res := m_res s; m_lp := m_lp s; m_coins := m_coins s |}.

Definition mstep (s : mst) (qs : list nat) : mst :=
  let r := mlayer_forward (m_t s) qs (m_coins s) in
  {| m_t := fst (fst (fst r)); m_res := m_res s ++ snd (fst (fst r)); m_lp := m_lp s + snd (fst r); m_coins := snd r |}.

Definition gstep (g : gate) (s : mst) : option mst :=
  match state_apply (gate_forward (tN (m_t s)) g) (m_t s) with Some t' => Some (with_t s t') | None => None end.

Definition lstep (s : mst) (c : clayer) : option mst :=
  match c with
  | CL ly => match state_apply (layer_forward (tN (m_t s)) ly) (m_t s) with Some t' => Some (with_t s t') | None => None end
  | ML qs => Some (mstep s qs)
  end.

Definition istep (s : mst) (i : instr) : option mst :=
  match i with IGate g => gstep g s | IMeasure qs => Some (mstep s qs) end.

Definition acc (res : list Z) (lp : Z) (o : option (tableau * list Z * Z)) : option (tableau * list Z * Z) :=
  match o with Some (t', r', lp') => Some (t', res ++ r', lp + lp') | None => None end.
Definition out (o : option mst) : option (tableau * list Z * Z) :=
  match o with Some s => Some (m_t s, m_res s, m_lp s) | None => None end.

Lemma acc_acc : forall r1 l1 r2 l2 o, acc r1 l1 (acc r2 l2 o) = acc (r1 ++ r2) (l1 + l2) o.
Proof. intros. destruct o as [[[t r] l]|]; cbn [acc]; [|reflexivity]. rewrite app_assoc, Z.add_assoc. reflexivity. Qed.

Lemma acc_nil : forall o, acc [] 0 o = o.
Proof. intros [[[t r] l]|]; cbn [acc app]; [|reflexivity]. rewrite Z.add_0_l. reflexivity. Qed.

Lemma mcircuit_forward_steps : forall c s,
  out (opt_fold lstep c s) = acc (m_res s) (m_lp s) (mcircuit_forward c (m_t s) (m_coins s)).
Proof.
  induction c as [|[ly|qs] c IH]; intros s; cbn [opt_fold mcircuit_forward lstep].
  - cbn [out acc]. rewrite app_nil_r, Z.add_0_r. reflexivity.
  - destruct (state_apply (layer_forward (tN (m_t s)) ly) (m_t s)) as [t'|]; [|reflexivity].
    rewrite IH. reflexivity.
  - rewrite IH. unfold mstep. cbn [m_t m_res m_lp m_coins].
    destruct (mlayer_forward (m_t s) qs (m_coins s)) as [[[t' res] lp] coins']. cbn [fst snd].
    rewrite <- acc_acc. f_equal.
Qed.

Lemma run_instrs_steps : forall prog s,
  out (opt_fold istep prog s) = acc (m_res s) (m_lp s) (run_instrs prog (m_t s) (m_coins s)).
Proof.
  induction prog as [|[g|qs] prog IH]; intros s; cbn [opt_fold run_instrs istep].
  - cbn [out acc]. rewrite app_nil_r, Z.add_0_r. reflexivity.
  - unfold gstep. destruct (state_apply (gate_forward (tN (m_t s)) g) (m_t s)) as [t'|]; [|reflexivity].
    rewrite IH. reflexivity.
  - rewrite IH. unfold mstep. cbn [m_t m_res m_lp m_coins].
    destruct (mlayer_forward (m_t s) qs (m_coins s)) as [[[t' res] lp] coins']. cbn [fst snd].
    rewrite <- acc_acc. f_equal.
Qed.

(* ------------------------------------------------------------------ invariants along the run *)
Definition clay_ok (n : nat) (c : clayer) : Prop :=
  match c with CL ly => lmaps ly = None /\ Forall (gate_ok n) (lgates ly) | ML _ => True end.
Definition good (n : nat) (s : mst) : Prop := wfs n (m_t s) /\ bit_coins (m_coins s).

Lemma lay_ok_clay_ok : forall n c, lay_ok n c -> clay_ok n c.
Proof. intros n [ly|q] H; [exact H | destruct H]. Qed.

Lemma state_apply_gates_wfs : forall n gs t t', Forall (gate_ok n) gs -> wfs n t ->
  state_apply (run_gates n gs) t = Some t' -> wfs n t'.
Proof.
  intros n gs t t' HG [[HL HF] Hr] H. unfold state_apply in H.
  destruct (run_gates n gs (rows t)) as [l|] eqn:E; [|discriminate H]. injection H as <-.
  repeat split; cbn [rows rk]; [| | exact Hr].
  - rewrite (run_gates_length n gs _ _ E). exact HL.
  - apply (run_gates_wf n gs _ _ HG HF E).
Qed.

Lemma gstep_good : forall n g s s', gate_ok n g -> good n s -> gstep g s = Some s' -> good n s'.
Proof.
  intros n g s s' Hg [Ht HC] H. unfold gstep in H.
  destruct (state_apply (gate_forward (tN (m_t s)) g) (m_t s)) as [t'|] eqn:E; [|discriminate H]. injection H as <-.
  split; cbn [with_t m_t m_coins]; [|exact HC].
  apply (state_apply_gates_wfs n [g] (m_t s) t'); [constructor; [exact Hg | constructor] | exact Ht |].
  destruct Ht as [[HL _] _]. rewrite (tN_len n _ HL) in E. unfold state_apply in *. unfold run_gates. cbn [opt_fold].
  destruct (gate_forward n g (rows (m_t s))); exact E.
Qed.

Lemma mstep_good : forall n qs s, good n s -> good n (mstep s qs).
Proof.
  intros n qs s [Ht HC]. unfold good, mstep. cbn [m_t m_coins]. apply mlayer_forward_wfs; assumption.
Qed.

Lemma lstep_good : forall n c s s', clay_ok n c -> good n s -> lstep s c = Some s' -> good n s'.
Proof.
  intros n [ly|qs] s s' Hc Hs H; cbn [lstep] in H.
  - destruct Hc as [Hm Hgs]. destruct Hs as [Ht HC].
    destruct (state_apply (layer_forward (tN (m_t s)) ly) (m_t s)) as [t'|] eqn:E; [|discriminate H]. injection H as <-.
    split; cbn [with_t m_t m_coins]; [|exact HC].
    apply (state_apply_gates_wfs n (lgates ly) (m_t s) t' Hgs Ht).
    pose proof Ht as [[HL _] _]. rewrite (tN_len n _ HL) in E. unfold state_apply in *.
    rewrite (layer_forward_plain n ly _ Hm) in E. exact E.
  - injection H as <-. apply mstep_good. exact Hs.
Qed.

Lemma lsteps_good : forall n c s s', Forall (clay_ok n) c -> good n s -> opt_fold lstep c s = Some s' -> good n s'.
Proof.
  induction c as [|x c IH]; intros s s' HC Hs H; cbn [opt_fold] in H.
  - injection H as <-. exact Hs.
  - inversion_clear HC as [|? ? Hx HC']. destruct (lstep s x) as [s1|] eqn:E; [|discriminate H].
    apply (IH s1 s' HC' (lstep_good n x s s1 Hx Hs E) H).
Qed.

(* ------------------------------------------------------------------ a run of gate layers is the gate-only semantics on the rows *)
Lemma rsem_length : forall n rl l l', Forall (lay_ok n) rl -> rsem n rl l = Some l' -> length l' = length l.
Proof.
  induction rl as [|c rl IH]; intros l l' HI H.
  - rewrite rsem_nil in H. injection H as <-. reflexivity.
  - inversion_clear HI as [|? ? Hc HI']. destruct c as [ly|q]; [|destruct Hc]. destruct Hc as [Hm _].
    rewrite rsem_cons_CL in H. destruct (rsem n rl l) as [l1|] eqn:E; [|discriminate H]. cbn [obind] in H.
    rewrite (layer_forward_plain n ly l1 Hm) in H. rewrite (run_gates_length n _ _ _ H). apply (IH l l1 HI' E).
Qed.

Definition set_rows (s : mst) (l : plist) : mst := with_t s {| rows := l; rk := rk (m_t s) |}.

Lemma gate_layers_sem : forall n rl s, Forall (lay_ok n) rl -> wf_state n (m_t s) ->
  opt_fold lstep (rev rl) s = match rsem n rl (rows (m_t s)) with Some l => Some (set_rows s l) | None => None end.
Proof.
  intros n. induction rl as [|c rl IH]; intros s HI Hs.
  - rewrite rsem_nil. cbn [rev opt_fold]. destruct s as [[rw r] res lp coins]. reflexivity.
  - inversion_clear HI as [|? ? Hc HI']. destruct c as [ly|q]; [|destruct Hc].
    cbn [rev]. rewrite opt_fold_app, (IH s HI' Hs), rsem_cons_CL.
    destruct (rsem n rl (rows (m_t s))) as [l1|] eqn:E; cbn [obind]; [|reflexivity].
    cbn [opt_fold lstep]. unfold set_rows at 1 2. cbn [with_t m_t].
    assert (L1 : length l1 = (2 * n)%nat) by (rewrite (rsem_length n rl _ _ HI' E); apply Hs).
    rewrite (tN_len n {| rows := l1; rk := rk (m_t s) |} L1). unfold state_apply. cbn [rows rk].
    destruct (layer_forward n ly l1) as [l2|]; reflexivity.
Qed.

(* ------------------------------------------------------------------ take never looks past the last measurement layer *)
Definition is_CL (c : clayer) : Prop := match c with CL _ => True | ML _ => False end.
Definition no_CL_head (rl : list clayer) : Prop := match rl with CL _ :: _ => False | _ => True end.

Lemma layer_take_app : forall g A rest, Forall is_CL A -> no_CL_head rest -> layer_take (A ++ rest) g = layer_take A g ++ rest.
Proof.
  intros g. induction A as [|c A IH]; intros rest HA HR.
  - destruct rest as [|[ly|q] rest]; [reflexivity | destruct HR | reflexivity].
  - inversion_clear HA as [|? ? Hc HA']. destruct c as [cur|q]; [|destruct Hc].
    destruct A as [|[pl|q] A'].
    + destruct rest as [|[ly|q] rest]; [reflexivity | destruct HR | reflexivity].
    + change ((CL cur :: CL pl :: A') ++ rest) with (CL cur :: CL pl :: (A' ++ rest)). rewrite !layer_take_cons2.
      destruct (layer_indep pl g); [|reflexivity].
      change (CL pl :: A' ++ rest) with ((CL pl :: A') ++ rest). rewrite (IH rest HA' HR). reflexivity.
    + inversion_clear HA' as [|? ? Hq _]. destruct Hq.
Qed.

Lemma circ_take_app : forall g A rest, Forall is_CL A -> no_CL_head rest -> circ_take (A ++ rest) g = circ_take A g ++ rest.
Proof.
  intros g A rest HA HR. destruct A as [|c A].
  - destruct rest as [|[ly|q] rest]; [reflexivity | destruct HR | reflexivity].
  - pose proof HA as HA0. inversion_clear HA as [|? ? Hc HA']. destruct c as [last|q]; [|destruct Hc].
    change ((CL last :: A) ++ rest) with (CL last :: (A ++ rest)). unfold circ_take.
    destruct (layer_indep last g); [|reflexivity].
    change (CL last :: (A ++ rest)) with ((CL last :: A) ++ rest). apply layer_take_app; assumption.
Qed.

Lemma split_at_measure : forall n rl, Forall (clay_ok n) rl ->
  exists A rest, rl = A ++ rest /\ Forall (lay_ok n) A /\ Forall (clay_ok n) rest /\ no_CL_head rest.
Proof.
  induction rl as [|c rl IH]; intros H.
  - exists [], []. repeat split; constructor.
  - inversion_clear H as [|? ? Hc H']. destruct c as [ly|q].
    + destruct (IH H') as (A & rest & E & HA & HR & HH). exists (CL ly :: A), rest.
      repeat split; [rewrite E; reflexivity | constructor; [exact Hc | exact HA] | exact HR | exact HH].
    + exists [], (ML q :: rl). repeat split; [constructor | constructor; [exact I | exact H'] ].
Qed.

Lemma lay_ok_is_CL : forall n A, Forall (lay_ok n) A -> Forall is_CL A.
Proof. intros n A H. eapply Forall_impl; [|exact H]. intros [ly|q] Hc; [exact I | destruct Hc]. Qed.

(* ------------------------------------------------------------------ adding a gate composes its action after the whole run *)
Lemma take_msem : forall n g rl s, Forall (clay_ok n) rl -> gate_ok n g -> good n s ->
  opt_fold lstep (rev (circ_take rl g)) s = obind (opt_fold lstep (rev rl) s) (gstep g).
Proof.
  intros n g rl s HI Hg Hs.
  destruct (split_at_measure n rl HI) as (A & rest & -> & HA & HR & HH).
  rewrite (circ_take_app g A rest (lay_ok_is_CL n A HA) HH). rewrite !rev_app_distr, !opt_fold_app.
  destruct (opt_fold lstep (rev rest) s) as [s1|] eqn:E1; cbn [obind]; [|reflexivity].
  assert (G1 : good n s1) by (apply (lsteps_good n (rev rest) s s1); [apply Forall_rev; exact HR | exact Hs | exact E1]).
  pose proof G1 as [[W1 _] _].
  rewrite (gate_layers_sem n (circ_take A g) s1 (circ_take_ok n g A HA Hg) W1).
  rewrite (gate_layers_sem n A s1 HA W1).
  rewrite (circ_take_sem n g A (rows (m_t s1)) HA Hg (proj2 W1)).
  destruct (rsem n A (rows (m_t s1))) as [l1|] eqn:E; cbn [obind]; [|reflexivity].
  assert (L1 : length l1 = (2 * n)%nat) by (rewrite (rsem_length n A _ _ HA E); apply W1).
  unfold gstep, set_rows. cbn [with_t m_t m_res m_lp m_coins].
  rewrite (tN_len n {| rows := l1; rk := rk (m_t s1) |} L1). unfold state_apply. cbn [rows rk].
  destruct (gate_forward n g l1) as [l2|]; reflexivity.
Qed.

Lemma circ_take_clay_ok : forall n g rl, Forall (clay_ok n) rl -> gate_ok n g -> Forall (clay_ok n) (circ_take rl g).
Proof.
  intros n g rl HI Hg. destruct (split_at_measure n rl HI) as (A & rest & -> & HA & HR & HH).
  rewrite (circ_take_app g A rest (lay_ok_is_CL n A HA) HH). apply Forall_app. split; [|exact HR].
  eapply Forall_impl; [apply lay_ok_clay_ok | apply circ_take_ok; assumption].
Qed.

Lemma mbuild_ok : forall n prog rl, Forall (gate_ok n) (gates_of prog) -> Forall (clay_ok n) rl ->
  Forall (clay_ok n) (fold_left bstep prog rl).
Proof.
  induction prog as [|[g|q] prog IH]; intros rl HG HI; cbn [fold_left]; [exact HI | |].
  - unfold gates_of in HG. cbn [flat_map app] in HG. inversion_clear HG as [|? ? Hg HG'].
    apply IH; [exact HG'|]. cbn [bstep]. apply circ_take_clay_ok; assumption.
  - apply IH; [exact HG|]. cbn [bstep]. constructor; [exact I | exact HI].
Qed.

Lemma gates_of_snoc_measure : forall prog q, gates_of (prog ++ [IMeasure q]) = gates_of prog.
Proof. intros. unfold gates_of. rewrite flat_map_app. cbn [flat_map]. apply app_nil_r. Qed.

Theorem msem_build : forall n prog s, Forall (gate_ok n) (gates_of prog) -> good n s ->
  opt_fold lstep (circ_build prog) s = opt_fold istep prog s.
Proof.
  intros n prog. rewrite circ_build_eq. induction prog as [|i prog IH] using rev_ind; intros s HG Hs.
  - destruct s as [[rw r] res lp coins]. reflexivity.
  - rewrite fold_left_app. cbn [fold_left]. rewrite (opt_fold_app _ _ istep). cbn [opt_fold].
    destruct i as [g|q].
    + rewrite gates_of_snoc in HG. apply Forall_app in HG. destruct HG as [HG Hg]. inversion_clear Hg as [|? ? Hg' _].
      cbn [bstep]. rewrite (take_msem n g _ s (mbuild_ok n prog _ HG (Forall_impl _ (lay_ok_clay_ok n) (empty_ok n))) Hg' Hs).
      rewrite (IH s HG Hs). destruct (opt_fold istep prog s) as [s1|]; cbn [obind istep]; [|reflexivity].
      destruct (gstep g s1); reflexivity.
    + rewrite gates_of_snoc_measure in HG. cbn [bstep circ_take_measure rev]. rewrite opt_fold_app, (IH s HG Hs).
      destruct (opt_fold istep prog s) as [s1|]; reflexivity.
Qed.

(* semantics: the layered circuit with measurements equals the instruction-by-instruction run.
   Deviations from the requested statement: the rank counter is in range ([rk t <= n]) and the coins are bits. *)
Theorem mcircuit_sem_strong : forall n prog t coins, wf_state n t -> (rk t <= n)%nat -> bit_coins coins ->
   Forall (gate_ok n) (gates_of prog) ->
   mcircuit_forward (circ_build prog) t coins = run_instrs prog t coins.
Proof.
  intros n prog t coins Ht Hr HC HG.
  set (s := {| m_t := t; m_res := []; m_lp := 0; m_coins := coins |}).
  pose proof (mcircuit_forward_steps (circ_build prog) s) as H1. pose proof (run_instrs_steps prog s) as H2.
  cbn [s m_t m_res m_lp m_coins] in H1, H2. rewrite acc_nil in H1, H2. rewrite <- H1, <- H2. f_equal.
  apply (msem_build n); [exact HG|]. split; [split; assumption | exact HC].
Qed.

Theorem mcircuit_sem : forall n prog t coins, wf_state n t -> (rk t <= n)%nat -> Forall (fun c => c = 0 \/ c = 1) coins ->
   Forall (gate_ok n) (gates_of prog) ->
   (forall qs q, In (IMeasure qs) prog -> In q qs -> (q < n)%nat) ->
   mcircuit_forward (circ_build prog) t coins = run_instrs prog t coins.
Proof. intros n prog t coins Ht Hr HC HG _. apply (mcircuit_sem_strong n); assumption. Qed.

(* ------------------------------------------------------------------ results: one +1/-1 per measured qubit, in order *)
Lemma measure_outs_length : forall obs t coins, length (snd (fst (fst (measure t obs coins)))) = length obs.
Proof.
  induction obs as [|o obs IH]; intros t coins; cbn [measure]; [reflexivity|].
  destruct (measure1 t o match coins with c :: _ => c | [] => 0 end) as [[[t1 out1] lp] used].
  specialize (IH t1 (if used then tl coins else coins)).
  destruct (measure t1 obs (if used then tl coins else coins)) as [[[t2 outs] lp2] cl]. cbn [fst snd length] in *.
  rewrite IH. reflexivity.
Qed.

Lemma mlayer_forward_results : forall t qs coins,
  length (snd (fst (fst (mlayer_forward t qs coins)))) = length qs /\
  Forall (fun r => r = 1 \/ r = -1) (snd (fst (fst (mlayer_forward t qs coins)))).
Proof.
  intros t qs coins. unfold mlayer_forward.
  pose proof (measure_outs_length (map (z_obs (tN t)) qs) t coins) as H.
  destruct (measure t (map (z_obs (tN t)) qs) coins) as [[[t' outs] lp] coins']. cbn [fst snd] in *. split.
  - rewrite map_length, H, map_length. reflexivity.
  - apply Forall_map. apply Forall_forall. intros o _. unfold m1pow. destruct (Z.even o); [left | right]; reflexivity.
Qed.

Theorem run_instrs_results : forall prog t coins t' res lp, run_instrs prog t coins = Some (t', res, lp) ->
   length res = length (flat_map (fun i => match i with IMeasure q => q | IGate _ => [] end) prog) /\ Forall (fun r => r = 1 \/ r = -1) res.
Proof.
  induction prog as [|[g|qs] prog IH]; intros t coins t' res lp H; cbn [run_instrs] in H.
  - injection H as <- <- <-. split; [reflexivity | constructor].
  - destruct (state_apply (gate_forward (tN t) g) t) as [t1|]; [|discriminate H].
    cbn [flat_map app]. apply (IH t1 coins t' res lp H).
  - pose proof (mlayer_forward_results t qs coins) as [HL HF].
    destruct (mlayer_forward t qs coins) as [[[t1 res1] lp1] coins1]. cbn [fst snd] in HL, HF.
    destruct (run_instrs prog t1 coins1) as [[[t2 res2] lp2]|] eqn:E; [|discriminate H]. injection H as <- <- <-.
    destruct (IH t1 coins1 t2 res2 lp2 E) as [IL IF]. cbn [flat_map]. split.
    + rewrite !app_length, HL, IL. reflexivity.
    + apply Forall_app. split; assumption.
Qed.

(* ------------------------------------------------------------------ the final state of a run is again well formed *)
Lemma isteps_good : forall n prog s s', Forall (gate_ok n) (gates_of prog) -> good n s -> opt_fold istep prog s = Some s' -> good n s'.
Proof.
  induction prog as [|[g|q] prog IH]; intros s s' HG Hs H; cbn [opt_fold istep] in H.
  - injection H as <-. exact Hs.
  - unfold gates_of in HG. cbn [flat_map app] in HG. inversion_clear HG as [|? ? Hg HG'].
    destruct (gstep g s) as [s1|] eqn:E; [|discriminate H].
    apply (IH s1 s' HG' (gstep_good n g s s1 Hg Hs E) H).
  - apply (IH _ s' HG (mstep_good n q s Hs) H).
Qed.

Theorem run_instrs_wf : forall n prog t coins t' res lp, wf_state n t -> (rk t <= n)%nat -> Forall (fun c => c = 0 \/ c = 1) coins ->
   Forall (gate_ok n) (gates_of prog) -> run_instrs prog t coins = Some (t', res, lp) -> wf_state n t' /\ (rk t' <= n)%nat.
Proof.
  intros n prog t coins t' res lp Ht Hr HC HG H.
  set (s := {| m_t := t; m_res := []; m_lp := 0; m_coins := coins |}).
  pose proof (run_instrs_steps prog s) as H2. cbn [s m_t m_res m_lp m_coins] in H2. rewrite acc_nil, H in H2.
  destruct (opt_fold istep prog s) as [s'|] eqn:E; [|discriminate H2]. cbn [out] in H2. injection H2 as <- _ _.
  assert (G : good n s) by (split; [split; assumption | exact HC]).
  apply (isteps_good n prog s s' HG G E).
Qed.

(* ------------------------------------------------------------------ structure: the circuit is the concatenation of the segments'
   own layerings, separated by the measurement layers: no gate ever crosses a measurement *)
Fixpoint blocks (init : list clayer) (segs : list (list gate)) (ms : list (list nat)) : list clayer :=
  match segs with
  | [] => []
  | seg :: segs' =>
      rev (fold_left circ_take seg init) ++ match ms with q :: ms' => ML q :: blocks [] segs' ms' | [] => [] end
  end.

Lemma layer_take_is_CL : forall g rl, Forall is_CL rl -> Forall is_CL (layer_take rl g).
Proof.
  intros g. induction rl as [|c rl IH]; intros H; [exact H|].
  destruct c as [cur|q]; [|exact H]. inversion_clear H as [|? ? Hc H'].
  destruct rl as [|[pl|q] rest]; cbn [layer_take].
  - constructor; [exact I | constructor].
  - destruct (layer_indep pl g); constructor; try exact I; [apply IH; exact H' | exact H'].
  - constructor; [exact I | exact H'].
Qed.

Lemma circ_take_is_CL : forall g rl, Forall is_CL rl -> Forall is_CL (circ_take rl g).
Proof.
  intros g rl H. assert (HN : Forall is_CL (new_layer g :: rl)) by (constructor; [exact I | exact H]).
  unfold circ_take. destruct rl as [|[last|q] rest]; try exact HN.
  destruct (layer_indep last g); [apply layer_take_is_CL; exact H | exact HN].
Qed.

Lemma build_blocks : forall prog A rest, Forall is_CL A -> no_CL_head rest ->
  rev (fold_left bstep prog (A ++ rest)) = rev rest ++ blocks A (fst (segments prog)) (snd (segments prog)).
Proof.
  induction prog as [|[g|q] prog IH]; intros A rest HA HR; cbn [fold_left segments fst snd].
  - cbn [blocks fold_left]. rewrite rev_app_distr, app_nil_r. reflexivity.
  - cbn [bstep]. rewrite (circ_take_app g A rest HA HR). rewrite (IH _ rest (circ_take_is_CL g A HA) HR). f_equal.
    pose proof (segments_count prog) as HC. destruct (fst (segments prog)) as [|seg segs]; [discriminate HC | reflexivity].
  - cbn [bstep]. change (circ_take_measure (A ++ rest) q) with ([] ++ ML q :: A ++ rest).
    rewrite (IH [] (ML q :: A ++ rest) (Forall_nil _) I).
    cbn [blocks fold_left rev]. rewrite rev_app_distr, <- !app_assoc. reflexivity.
Qed.

Theorem build_segments : forall prog,
  circ_build prog = blocks [empty_layer] (fst (segments prog)) (snd (segments prog)).
Proof.
  intros prog. rewrite circ_build_eq.
  apply (build_blocks prog [empty_layer] []); [constructor; [exact I | constructor] | exact I].
Qed.
