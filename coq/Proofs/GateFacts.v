(* Proofs/GateFacts.v -- finite facts about the named-gate tables (regenerated from source every run). *)
From Coq Require Import ZArith List Bool Lia ZifyBool.
From PC Require Import Gen.Tables Model.Base Model.Pauli Model.CMap Model.Circuit.
Import ListNotations.
Open Scope Z_scope.

Definition X1 : site := (true, false).
Definition Y1 : site := (true, true).
Definition Z1 : site := (false, true).
Definition I1 : site := (false, false).

(* the standard conjugation tables (image of X, image of Z per qubit), written out by hand *)
Lemma table_H : gate_H = [([Z1], 0); ([X1], 0)].            Proof. reflexivity. Qed.   (* H swaps X and Z *)
Lemma table_S : gate_S = [([Y1], 0); ([Z1], 0)].            Proof. reflexivity. Qed.   (* S: X -> Y, Z -> Z *)
Lemma table_X : gate_X = [([X1], 0); ([Z1], 2)].            Proof. reflexivity. Qed.   (* X flips the sign of Z *)
Lemma table_Y : gate_Y = [([X1], 2); ([Z1], 2)].            Proof. reflexivity. Qed.   (* Y flips X and Z *)
Lemma table_Z : gate_Z = [([X1], 2); ([Z1], 0)].            Proof. reflexivity. Qed.   (* Z flips the sign of X *)
(* control = first listed qubit. asc: control is the lower index (site 0); desc: control is the higher index (site 1) *)
Lemma table_CNOT_asc : gate_CNOT_asc =
  [([X1; X1], 0); ([Z1; I1], 0); ([I1; X1], 0); ([Z1; Z1], 0)].   Proof. reflexivity. Qed.   (* Xc->XcXt, Zc->Zc, Xt->Xt, Zt->ZcZt *)
Lemma table_CNOT_desc : gate_CNOT_desc =
  [([X1; I1], 0); ([Z1; Z1], 0); ([X1; X1], 0); ([I1; Z1], 0)].   Proof. reflexivity. Qed.   (* site0 = target, site1 = control *)

Definition all_named : list cmap := [gate_H; gate_S; gate_X; gate_Y; gate_Z; gate_CNOT_asc; gate_CNOT_desc].

Lemma named_valid : forallb valid_map_b all_named = true.
Proof. vm_compute. reflexivity. Qed.

Lemma C_count : length gate_C_table = 24%nat.
Proof. reflexivity. Qed.
Lemma C_valid : forallb valid_map_b gate_C_table = true.
Proof. vm_compute. reflexivity. Qed.

Definition site_eqb (a b : site) : bool := eqb (fst a) (fst b) && eqb (snd a) (snd b).
Fixpoint str_eqb (a b : pstr) : bool :=
  match a, b with [], [] => true | x :: r, y :: s => site_eqb x y && str_eqb r s | _, _ => false end.
Definition pauli_eqb (a b : pauli) : bool := str_eqb (fst a) (fst b) && (snd a =? snd b).
Fixpoint cmap_eqb (a b : cmap) : bool :=
  match a, b with [], [] => true | x :: r, y :: s => pauli_eqb x y && cmap_eqb r s | _, _ => false end.

Lemma site_eqb_eq : forall a b, site_eqb a b = true -> a = b.
Proof. intros [[|] [|]] [[|] [|]]; cbn; intros H; try discriminate H; reflexivity. Qed.
Lemma str_eqb_eq : forall a b, str_eqb a b = true -> a = b.
Proof.
  induction a as [|x a IH]; intros [|y b] H; cbn in H; try discriminate H; [reflexivity|].
  apply andb_true_iff in H. destruct H as [H1 H2]. f_equal; [apply site_eqb_eq, H1 | apply IH, H2].
Qed.
Lemma pauli_eqb_eq : forall a b, pauli_eqb a b = true -> a = b.
Proof.
  intros [g p] [h q] H. unfold pauli_eqb in H; cbn [fst snd] in H. apply andb_true_iff in H. destruct H as [H1 H2].
  apply str_eqb_eq in H1. apply Z.eqb_eq in H2. subst. reflexivity.
Qed.
Lemma cmap_eqb_eq : forall a b, cmap_eqb a b = true -> a = b.
Proof.
  induction a as [|x a IH]; intros [|y b] H; cbn in H; try discriminate H; [reflexivity|].
  apply andb_true_iff in H. destruct H as [H1 H2]. f_equal; [apply pauli_eqb_eq, H1 | apply IH, H2].
Qed.
Lemma cmap_eqb_refl_false : forall a b, cmap_eqb a b = false -> a <> b.
Proof.
  intros a b H E. subst b. revert H. induction a as [|[g p] a IH]; cbn; [discriminate|].
  assert (pauli_eqb (g, p) (g, p) = true) as ->.
  { unfold pauli_eqb; cbn [fst snd]. rewrite Z.eqb_refl, andb_true_r.
    induction g as [|[[|] [|]] g IHg]; cbn; auto. }
  exact IH.
Qed.

(* pairwise distinct: 276 unordered pairs *)
Definition all_distinct (n : nat) (l : list cmap) : bool :=
  forallb (fun i => forallb (fun j => Nat.eqb i j || negb (cmap_eqb (nth i l []) (nth j l []))) (seq 0 n)) (seq 0 n).
Lemma C_distinct_b : all_distinct 24 gate_C_table = true.
Proof. vm_compute. reflexivity. Qed.
Lemma C_distinct : forall i j, (i < 24)%nat -> (j < 24)%nat -> i <> j -> nth i gate_C_table [] <> nth j gate_C_table [].
Proof.
  intros i j Hi Hj Hij. apply cmap_eqb_refl_false.
  pose proof C_distinct_b as H. unfold all_distinct in H.
  rewrite forallb_forall in H. specialize (H i ltac:(apply in_seq; lia)).
  rewrite forallb_forall in H. specialize (H j ltac:(apply in_seq; lia)).
  apply orb_true_iff in H. destruct H as [H|H].
  - apply Nat.eqb_eq in H. contradiction.
  - apply negb_true_iff in H. exact H.
Qed.

Definition memb (m : cmap) (l : list cmap) : bool := existsb (cmap_eqb m) l.
(* closed under composition (576 products) and inversion (24), and contains the identity *)
Lemma C_closed_compose : forallb (fun a => forallb (fun b => memb (compose a b) gate_C_table) gate_C_table) gate_C_table = true.
Proof. vm_compute. reflexivity. Qed.
Lemma C_closed_inverse :
  forallb (fun a => match inverse a with Some b => memb b gate_C_table && cmap_eqb (compose a b) (identity_map 1) && cmap_eqb (compose b a) (identity_map 1) | None => false end) gate_C_table = true.
Proof. vm_compute. reflexivity. Qed.
Lemma C_has_identity : memb (identity_map 1) gate_C_table = true.
Proof. vm_compute. reflexivity. Qed.
(* the named one-qubit gates are among the 24 *)
Lemma named_in_C : forallb (fun g => memb g gate_C_table) [gate_H; gate_S; gate_X; gate_Y; gate_Z] = true.
Proof. vm_compute. reflexivity. Qed.
(* inverses of all named gates exist and are two-sided *)
Lemma named_inverse :
  forallb (fun a => match inverse a with Some b => cmap_eqb (compose a b) (identity_map (length a / 2)) && cmap_eqb (compose b a) (identity_map (length a / 2)) | None => false end) all_named = true.
Proof. vm_compute. reflexivity. Qed.

(* guards of the constructors *)
Lemma named_guard_arity1 : forall nm qs, nm <> 5 -> length qs <> 1%nat -> named_gate nm qs = None.
Proof.
  intros nm qs H5 HL. unfold named_gate. destruct (nm =? 5) eqn:E; [apply Z.eqb_eq in E; contradiction|].
  destruct qs as [|q [|q' r]]; try reflexivity. cbn in HL. contradiction.
Qed.
Lemma named_guard_cnot : forall qs, length qs <> 2%nat -> named_gate 5 qs = None.
Proof. intros qs HL. unfold named_gate. cbn [Z.eqb]. destruct qs as [|a [|b [|c r]]]; try reflexivity. cbn in HL. contradiction. Qed.
(* index k of C(k) is encoded as gate name 100+k; names 0..5 are H,S,X,Y,Z,CNOT, hence the lower bound -94 of the encoding *)
Lemma C_guard_range : forall k q, (-94 <= k < 0 \/ 24 <= k) -> named_gate (100 + k) [q] = None.
Proof.
  intros k q H. unfold named_gate.
  destruct (100 + k =? 5) eqn:E5; [lia|]. destruct (100 + k =? 0) eqn:E0; [lia|]. destruct (100 + k =? 1) eqn:E1; [lia|].
  destruct (100 + k =? 2) eqn:E2; [lia|]. destruct (100 + k =? 3) eqn:E3; [lia|]. destruct (100 + k =? 4) eqn:E4; [lia|].
  destruct (100 <=? 100 + k) eqn:EL; [|reflexivity].
  replace (100 + k - 100) with k by lia.
  destruct (nth_error gate_C_table (Z.to_nat k)) eqn:EN; [|reflexivity].
  exfalso. assert (Z.to_nat k < length gate_C_table)%nat by (apply nth_error_Some; rewrite EN; discriminate).
  rewrite C_count in H0. lia.
Qed.
Lemma C_index : forall k q, 0 <= k < 24 -> exists t, named_gate (100 + k) [q] = Some {| gq := [q]; gk := GMap (Some t) None |} /\ nth_error gate_C_table (Z.to_nat k) = Some t.
Proof.
  intros k q H. unfold named_gate.
  destruct (100 + k =? 5) eqn:E5; [lia|]. destruct (100 + k =? 0) eqn:E0; [lia|]. destruct (100 + k =? 1) eqn:E1; [lia|].
  destruct (100 + k =? 2) eqn:E2; [lia|]. destruct (100 + k =? 3) eqn:E3; [lia|]. destruct (100 + k =? 4) eqn:E4; [lia|].
  destruct (100 <=? 100 + k) eqn:EL; [|lia].
  replace (100 + k - 100) with k by lia.
  destruct (nth_error gate_C_table (Z.to_nat k)) eqn:EN.
  - exists l. split; reflexivity.
  - exfalso. apply nth_error_None in EN. rewrite C_count in EN. lia.
Qed.
