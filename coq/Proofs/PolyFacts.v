(* Proofs/PolyFacts.v -- Pauli-polynomial arithmetic is a faithful operator algebra. *)
From Coq Require Import ZArith List Bool Lia ZifyBool Arith.
From Coq Require Import QArith Qcanon.
From PC Require Import Gen.Kernels Model.Base Model.Pauli Model.Ket Model.Spec Proofs.PauliFacts.
From PC Require Import Model.Poly Model.PolySem.
Import ListNotations.
Open Scope Z_scope.
Ltac Zify.zify_post_hook ::= Z.to_euclidean_division_equations.

(* ------------------------------------------------------------------ coefficient algebra *)
Ltac cring := unfold cadd, cmul, cneg, cmul_i, c0, c1; cbn [fst snd]; f_equal; ring.

Lemma cadd_comm : forall a b, cadd a b = cadd b a.
Proof. intros [ar ai] [br bi]; cring. Qed.
Lemma cadd_assoc : forall a b c, cadd (cadd a b) c = cadd a (cadd b c).
Proof. intros [ar ai] [br bi] [cr ci]; cring. Qed.
Lemma cadd_0_l : forall a, cadd c0 a = a.
Proof. intros [ar ai]; cring. Qed.
Lemma cadd_0_r : forall a, cadd a c0 = a.
Proof. intros [ar ai]; cring. Qed.
Lemma cmul_comm : forall a b, cmul a b = cmul b a.
Proof. intros [ar ai] [br bi]; cring. Qed.
Lemma cmul_assoc : forall a b c, cmul (cmul a b) c = cmul a (cmul b c).
Proof. intros [ar ai] [br bi] [cr ci]; cring. Qed.
Lemma cmul_cadd_distr_l : forall a b c, cmul a (cadd b c) = cadd (cmul a b) (cmul a c).
Proof. intros [ar ai] [br bi] [cr ci]; cring. Qed.
Lemma cmul_cadd_distr_r : forall a b c, cmul (cadd a b) c = cadd (cmul a c) (cmul b c).
Proof. intros [ar ai] [br bi] [cr ci]; cring. Qed.
Lemma cmul_0_l : forall a, cmul c0 a = c0.
Proof. intros [ar ai]; cring. Qed.
Lemma cmul_0_r : forall a, cmul a c0 = c0.
Proof. intros [ar ai]; cring. Qed.
Lemma cmul_1_l : forall a, cmul c1 a = a.
Proof. intros [ar ai]; cring. Qed.
Lemma cmul_1_r : forall a, cmul a c1 = a.
Proof. intros [ar ai]; cring. Qed.
Lemma cneg_cadd : forall a b, cneg (cadd a b) = cadd (cneg a) (cneg b).
Proof. intros [ar ai] [br bi]; cring. Qed.
Lemma cneg_0 : cneg c0 = c0.
Proof. cring. Qed.
Lemma cmul_cneg_l : forall a b, cmul (cneg a) b = cneg (cmul a b).
Proof. intros [ar ai] [br bi]; cring. Qed.
Lemma cmul_cneg_r : forall a b, cmul a (cneg b) = cneg (cmul a b).
Proof. intros [ar ai] [br bi]; cring. Qed.

Lemma cadd_cneg_r : forall a, cadd a (cneg a) = c0.
Proof. intros [ar ai]; cring. Qed.

Lemma cipow_0 : forall p a, p mod 4 = 0 -> cipow p a = a.
Proof. intros p a H; unfold cipow; rewrite H; reflexivity. Qed.
Lemma cipow_1 : forall p a, p mod 4 = 1 -> cipow p a = cmul_i a.
Proof. intros p a H; unfold cipow; rewrite H; reflexivity. Qed.
Lemma cipow_2 : forall p a, p mod 4 = 2 -> cipow p a = cneg a.
Proof. intros p a H; unfold cipow; rewrite H; reflexivity. Qed.
Lemma cipow_3 : forall p a, p mod 4 = 3 -> cipow p a = cneg (cmul_i a).
Proof. intros p a H; unfold cipow; rewrite H; reflexivity. Qed.

Lemma mod4_cases : forall p, p mod 4 = 0 \/ p mod 4 = 1 \/ p mod 4 = 2 \/ p mod 4 = 3.
Proof. intros; lia. Qed.

Ltac cipow_norm p :=
  let H := fresh "H" in
  destruct (mod4_cases p) as [H|[H|[H|H]]];
  [rewrite (cipow_0 p) by exact H | rewrite (cipow_1 p) by exact H
  | rewrite (cipow_2 p) by exact H | rewrite (cipow_3 p) by exact H].

Lemma cipow_add : forall p q a, cipow p (cipow q a) = cipow (p + q) a.
Proof.
  intros p q [ar ai].
  destruct (mod4_cases p) as [Hp|[Hp|[Hp|Hp]]]; destruct (mod4_cases q) as [Hq|[Hq|[Hq|Hq]]];
  first [ rewrite (cipow_0 p) by exact Hp | rewrite (cipow_1 p) by exact Hp
        | rewrite (cipow_2 p) by exact Hp | rewrite (cipow_3 p) by exact Hp ];
  first [ rewrite (cipow_0 q) by exact Hq | rewrite (cipow_1 q) by exact Hq
        | rewrite (cipow_2 q) by exact Hq | rewrite (cipow_3 q) by exact Hq ];
  first [ rewrite (cipow_0 (p+q)) by lia | rewrite (cipow_1 (p+q)) by lia
        | rewrite (cipow_2 (p+q)) by lia | rewrite (cipow_3 (p+q)) by lia ];
  cring.
Qed.

Lemma cipow_mod : forall p a, cipow (p mod 4) a = cipow p a.
Proof. intros; unfold cipow. rewrite Z.mod_mod by lia. reflexivity. Qed.

Lemma cipow_cmul : forall p a b, cipow p (cmul a b) = cmul (cipow p a) b.
Proof.
  intros p [ar ai] [br bi].
  destruct (mod4_cases p) as [Hp|[Hp|[Hp|Hp]]];
  first [ rewrite !(cipow_0 p) by exact Hp | rewrite !(cipow_1 p) by exact Hp
        | rewrite !(cipow_2 p) by exact Hp | rewrite !(cipow_3 p) by exact Hp ];
  cring.
Qed.

Lemma cipow_cmul_r : forall p a b, cipow p (cmul a b) = cmul a (cipow p b).
Proof. intros. rewrite (cmul_comm a b), cipow_cmul, cmul_comm. reflexivity. Qed.

Lemma cipow_cadd : forall p a b, cipow p (cadd a b) = cadd (cipow p a) (cipow p b).
Proof.
  intros p [ar ai] [br bi].
  destruct (mod4_cases p) as [Hp|[Hp|[Hp|Hp]]];
  first [ rewrite !(cipow_0 p) by exact Hp | rewrite !(cipow_1 p) by exact Hp
        | rewrite !(cipow_2 p) by exact Hp | rewrite !(cipow_3 p) by exact Hp ];
  cring.
Qed.

Lemma cipow_c0 : forall p, cipow p c0 = c0.
Proof.
  intros p.
  destruct (mod4_cases p) as [Hp|[Hp|[Hp|Hp]]];
  first [ rewrite !(cipow_0 p) by exact Hp | rewrite !(cipow_1 p) by exact Hp
        | rewrite !(cipow_2 p) by exact Hp | rewrite !(cipow_3 p) by exact Hp ];
  cring.
Qed.

Lemma cipow_cneg : forall p a, cipow p (cneg a) = cneg (cipow p a).
Proof.
  intros p [ar ai].
  destruct (mod4_cases p) as [Hp|[Hp|[Hp|Hp]]];
  first [ rewrite !(cipow_0 p) by exact Hp | rewrite !(cipow_1 p) by exact Hp
        | rewrite !(cipow_2 p) by exact Hp | rewrite !(cipow_3 p) by exact Hp ];
  cring.
Qed.

Lemma cipow_congr : forall p q a, p mod 4 = q mod 4 -> cipow p a = cipow q a.
Proof. intros p q a H. unfold cipow. rewrite H. reflexivity. Qed.

(* ------------------------------------------------------------------ sums *)
Lemma csum_app : forall l1 l2, csum (l1 ++ l2) = cadd (csum l1) (csum l2).
Proof.
  induction l1 as [|a l1 IH]; intros l2; cbn [app csum fold_right].
  - rewrite cadd_0_l. reflexivity.
  - change (fold_right cadd c0 (l1 ++ l2)) with (csum (l1 ++ l2)). rewrite IH.
    change (fold_right cadd c0 l1) with (csum l1). rewrite cadd_assoc. reflexivity.
Qed.
Lemma csum_cons : forall a l, csum (a :: l) = cadd a (csum l).
Proof. reflexivity. Qed.
Lemma csum_nil : csum [] = c0.
Proof. reflexivity. Qed.

Lemma csum_map_cadd : forall {A} (f g : A -> coef) l,
  csum (map (fun x => cadd (f x) (g x)) l) = cadd (csum (map f l)) (csum (map g l)).
Proof.
  intros A f g; induction l as [|a l IH]; cbn [map]; rewrite ?csum_cons, ?csum_nil.
  - rewrite cadd_0_l; reflexivity.
  - rewrite IH. rewrite !cadd_assoc. f_equal. rewrite <- !cadd_assoc. f_equal. apply cadd_comm.
Qed.
Lemma csum_map_cmul : forall {A} c (f : A -> coef) l,
  csum (map (fun x => cmul c (f x)) l) = cmul c (csum (map f l)).
Proof.
  intros A c f; induction l as [|a l IH]; cbn [map]; rewrite ?csum_cons, ?csum_nil.
  - rewrite cmul_0_r; reflexivity.
  - rewrite IH, cmul_cadd_distr_l. reflexivity.
Qed.
Lemma csum_map_cneg : forall {A} (f : A -> coef) l,
  csum (map (fun x => cneg (f x)) l) = cneg (csum (map f l)).
Proof.
  intros A f; induction l as [|a l IH]; cbn [map]; rewrite ?csum_cons, ?csum_nil.
  - rewrite cneg_0; reflexivity.
  - rewrite IH, cneg_cadd. reflexivity.
Qed.
Lemma csum_map_c0 : forall {A} (l : list A), csum (map (fun _ => c0) l) = c0.
Proof.
  intros A; induction l as [|a l IH]; cbn [map]; rewrite ?csum_cons, ?csum_nil; [reflexivity|].
  rewrite IH, cadd_0_l; reflexivity.
Qed.
Lemma csum_map_ext : forall {A} (f g : A -> coef) l, (forall x, In x l -> f x = g x) ->
  csum (map f l) = csum (map g l).
Proof. intros A f g l H. f_equal. apply map_ext_in. exact H. Qed.

(* ------------------------------------------------------------------ normal form of one term *)
Definition base (g : pstr) (k k' : ket) : coef :=
  if ket_eqb (snd (act_str g k)) k' then cipow (fst (act_str g k)) c1 else c0.

Lemma act_fst : forall g p k, fst (act (g, p) k) = (p + fst (act_str g k)) mod 4.
Proof. intros; unfold act; cbn [fst snd]. destruct (act_str g k); reflexivity. Qed.
Lemma act_snd : forall g p k, snd (act (g, p) k) = snd (act_str g k).
Proof. intros; unfold act; cbn [fst snd]. destruct (act_str g k); reflexivity. Qed.

Lemma amp_term_proj : forall t k k',
  amp_term t k k' = if ket_eqb (snd (act (snd t) k)) k' then cipow (fst (act (snd t) k)) (fst t) else c0.
Proof. intros; unfold amp_term. destruct (act (snd t) k); reflexivity. Qed.

Lemma cipow_split : forall p e c, cipow ((p + e) mod 4) c = cmul (cipow p c) (cipow e c1).
Proof.
  intros. rewrite cipow_mod. rewrite <- (cipow_cmul_r e (cipow p c) c1), cmul_1_r, cipow_add.
  f_equal. apply Z.add_comm.
Qed.

Lemma amp_term_base : forall c g p k k',
  amp_term (c, (g, p)) k k' = cmul (cipow p c) (base g k k').
Proof.
  intros. rewrite amp_term_proj. cbn [fst snd]. rewrite act_fst, act_snd. unfold base.
  destruct (ket_eqb (snd (act_str g k)) k').
  - apply cipow_split.
  - rewrite cmul_0_r. reflexivity.
Qed.

Lemma amp_term_base' : forall t k k',
  amp_term t k k' = cmul (cipow (snd (snd t)) (fst t)) (base (fst (snd t)) k k').
Proof. intros [c [g p]] k k'. apply amp_term_base. Qed.

Lemma amp_cons : forall t p k k', amp (t :: p) k k' = cadd (amp_term t k k') (amp p k k').
Proof. reflexivity. Qed.
Lemma amp_nil : forall k k', amp [] k k' = c0.
Proof. reflexivity. Qed.

(* ------------------------------------------------------------------ linearity *)
Theorem amp_app : forall p q k k', amp (p ++ q) k k' = cadd (amp p k k') (amp q k k').
Proof. intros. unfold amp. rewrite map_app. apply csum_app. Qed.

Theorem amp_pscal : forall c p k k', amp (pscal c p) k k' = cmul c (amp p k k').
Proof.
  intros. unfold amp, pscal. rewrite map_map. rewrite <- csum_map_cmul. apply csum_map_ext.
  intros [d [g ph]] _. cbn [fst snd]. rewrite !amp_term_base. rewrite cipow_cmul_r. apply cmul_assoc.
Qed.

Theorem amp_neg : forall p k k', amp (map (fun t => (cneg (fst t), snd t)) p) k k' = cneg (amp p k k').
Proof.
  intros. unfold amp. rewrite map_map. rewrite <- csum_map_cneg. apply csum_map_ext.
  intros [d [g ph]] _. cbn [fst snd]. rewrite !amp_term_base. rewrite cipow_cneg. apply cmul_cneg_l.
Qed.

(* ------------------------------------------------------------------ identity *)
Lemma ket_eqb_refl : forall k, ket_eqb k k = true.
Proof. induction k as [|b k IH]; [reflexivity|]. cbn [ket_eqb]. rewrite eqb_reflx, IH. reflexivity. Qed.
Lemma ket_eqb_eq : forall a b, ket_eqb a b = true -> a = b.
Proof.
  induction a as [|x a IH]; intros [|y b] H; cbn [ket_eqb] in H; try discriminate H; [reflexivity|].
  apply andb_true_iff in H. destruct H as [H1 H2]. apply eqb_prop in H1. rewrite H1, (IH b H2). reflexivity.
Qed.

Lemma act_str_id : forall n k, length k = n -> act_str (id_str n) k = (0, k).
Proof.
  induction n as [|n IH]; intros [|b k] H; try discriminate H.
  - reflexivity.
  - rewrite id_str_S, act_str_cons. rewrite IH by (cbn [length] in H; lia). cbn [fst snd].
    destruct b; reflexivity.
Qed.

Theorem amp_ident : forall n k k', length k = n -> amp (ident_poly n) k k' = if ket_eqb k k' then c1 else c0.
Proof.
  intros n k k' H. unfold ident_poly, pid. rewrite amp_cons, amp_nil, cadd_0_r, amp_term_base.
  unfold base. rewrite act_str_id by exact H. cbn [fst snd].
  destruct (ket_eqb k k'); [|apply cmul_0_r].
  rewrite !cipow_0 by reflexivity. apply cmul_1_l.
Qed.

(* ------------------------------------------------------------------ multiplicativity *)
Lemma amp_after_proj : forall p q k k',
  amp_after p q k k'
  = csum (map (fun t => cmul (cipow (fst (act (snd t) k)) (fst t)) (amp p (snd (act (snd t) k)) k')) q).
Proof.
  intros. unfold amp_after. f_equal. apply map_ext. intros t. destruct (act (snd t) k); reflexivity.
Qed.

Lemma amp_term_pmul : forall cs a ct b k k', length (fst a) = length (fst b) -> length k = length (fst a) ->
  amp_term (cmul cs ct, pmul a b) k k'
  = cmul (cipow (fst (act b k)) ct) (amp_term (cs, a) (snd (act b k)) k').
Proof.
  intros cs a ct b k k' H1 H2. rewrite !amp_term_proj. cbn [fst snd].
  rewrite (act_pmul a b k H1 H2). unfold act_comp.
  destruct (act b k) as [e1 k1]. cbn [fst snd]. destruct (act a k1) as [e2 k2]. cbn [fst snd].
  destruct (ket_eqb k2 k').
  - rewrite cipow_mod, <- cipow_add, cipow_cmul, cipow_cmul_r. apply cmul_comm.
  - rewrite cmul_0_r. reflexivity.
Qed.

Lemma pmulp_cons : forall s p q,
  pmulp (s :: p) q = map (fun t => (cmul (fst s) (fst t), pmul (snd s) (snd t))) q ++ pmulp p q.
Proof. reflexivity. Qed.

Theorem amp_pmulp : forall n p q k k', well_sized n p -> well_sized n q -> length k = n ->
   amp (pmulp p q) k k' = amp_after p q k k'.
Proof.
  intros n p q k k' Hp Hq Hk. rewrite amp_after_proj.
  induction p as [|s p IH].
  - change (pmulp [] q) with (@nil term). rewrite amp_nil.
    rewrite <- (csum_map_c0 q). apply csum_map_ext. intros t _. rewrite amp_nil, cmul_0_r. reflexivity.
  - inversion_clear Hp as [|? ? Hs Hp']. rewrite pmulp_cons, amp_app, (IH Hp').
    unfold amp at 1. rewrite map_map. rewrite <- csum_map_cadd. apply csum_map_ext.
    intros t Ht. cbn [fst snd]. rewrite amp_cons, cmul_cadd_distr_l. f_equal.
    unfold well_sized in Hq. rewrite Forall_forall in Hq. specialize (Hq t Ht).
    destruct s as [cs a]. cbn [fst snd] in *.
    apply amp_term_pmul.
    + transitivity n; [exact Hs | symmetry; exact Hq].
    + transitivity n; [exact Hk | symmetry; exact Hs].
Qed.

(* ------------------------------------------------------------------ aggregate / reduce *)
Lemma bits_cmp_eq : forall a b, bits_cmp a b = Eq -> a = b.
Proof.
  induction a as [|x a IH]; intros [|y b] H; cbn [bits_cmp] in H; try discriminate H; [reflexivity|].
  destruct x, y; try discriminate H; rewrite (IH b H); reflexivity.
Qed.
Lemma bits_cmp_refl : forall a, bits_cmp a a = Eq.
Proof. induction a as [|x a IH]; [reflexivity|]. cbn [bits_cmp]. destruct x; exact IH. Qed.
Lemma flat_inj : forall g h, flat g = flat h -> g = h.
Proof.
  induction g as [|[x z] g IH]; intros [|[x' z'] h] H; cbn [flat] in H; try discriminate H; [reflexivity|].
  injection H as H1 H2 H3. rewrite H1, H2, (IH h H3). reflexivity.
Qed.

Definition unagg (acc : list (pstr * coef)) : poly := map (fun gc => (snd gc, (fst gc, 0))) acc.
Lemma unagg_cons : forall h d r, unagg ((h, d) :: r) = (d, (h, 0)) :: unagg r.
Proof. reflexivity. Qed.

Lemma amp_term_cadd : forall c d a k k',
  amp_term (cadd c d, a) k k' = cadd (amp_term (c, a) k k') (amp_term (d, a) k k').
Proof.
  intros c d [g p] k k'. rewrite !amp_term_base, cipow_cadd. apply cmul_cadd_distr_r.
Qed.

Lemma amp_term_phase0 : forall c g p k k', amp_term (c, (g, p)) k k' = amp_term (cipow p c, (g, 0)) k k'.
Proof. intros. rewrite !amp_term_base. rewrite (cipow_0 0) by reflexivity. reflexivity. Qed.

Lemma amp_insert_term : forall g c acc k k',
  amp (unagg (insert_term g c acc)) k k' = cadd (amp (unagg acc) k k') (amp_term (c, (g, 0)) k k').
Proof.
  intros g c acc k k'. induction acc as [|[h d] r IH].
  - cbn [insert_term]. rewrite unagg_cons. change (unagg []) with (@nil term).
    rewrite amp_cons, amp_nil. apply cadd_comm.
  - cbn [insert_term]. destruct (bits_cmp (flat g) (flat h)) eqn:E.
    + apply bits_cmp_eq, flat_inj in E. subst h.
      rewrite !unagg_cons, !amp_cons, amp_term_cadd.
      rewrite !cadd_assoc. f_equal. apply cadd_comm.
    + rewrite (unagg_cons g c), amp_cons. apply cadd_comm.
    + rewrite !unagg_cons, !amp_cons, IH. rewrite cadd_assoc. reflexivity.
Qed.

Lemma amp_aggregate_gen : forall p acc k k',
  amp (unagg (fold_left (fun acc t => insert_term (fst (snd t)) (cipow (snd (snd t)) (fst t)) acc) p acc)) k k'
  = cadd (amp (unagg acc) k k') (amp p k k').
Proof.
  induction p as [|[c [g ph]] p IH]; intros acc k k'; cbn [fold_left].
  - rewrite amp_nil, cadd_0_r. reflexivity.
  - rewrite IH, amp_insert_term. cbn [fst snd]. rewrite amp_cons, <- amp_term_phase0, cadd_assoc. reflexivity.
Qed.

Theorem amp_aggregate : forall p k k',
   amp (map (fun gc => (snd gc, (fst gc, 0))) (aggregate p)) k k' = amp p k k'.
Proof.
  intros. unfold aggregate. change (amp (unagg (fold_left (fun acc t => insert_term (fst (snd t)) (cipow (snd (snd t)) (fst t)) acc) p [])) k k' = amp p k k').
  rewrite amp_aggregate_gen. change (unagg []) with (@nil term). rewrite amp_nil. apply cadd_0_l.
Qed.

Lemma amp_unagg_filter_split : forall (f : pstr * coef -> bool) l k k',
  amp (unagg l) k k' = cadd (amp (unagg (filter f l)) k k') (amp (unagg (filter (fun x => negb (f x)) l)) k k').
Proof.
  intros f l k k'. induction l as [|[h d] r IH].
  - cbn [filter]. change (unagg []) with (@nil term). rewrite amp_nil, cadd_0_l. reflexivity.
  - cbn [filter]. destruct (f (h, d)); cbn [negb]; rewrite !unagg_cons, !amp_cons, IH.
    + rewrite cadd_assoc. reflexivity.
    + rewrite <- !cadd_assoc. f_equal. apply cadd_comm.
Qed.

Theorem reduce_split : forall tol2 p k k',
   amp p k k' = cadd (amp (reduce tol2 p) k k')
                     (amp (map (fun gc => (snd gc, (fst gc, 0))) (filter (fun gc => negb (keep tol2 (snd gc))) (aggregate p))) k k').
Proof.
  intros. rewrite <- (amp_aggregate p k k'). unfold reduce.
  apply (amp_unagg_filter_split (fun gc => keep tol2 (snd gc)) (aggregate p) k k').
Qed.

Lemma Qcsqr_nonneg : forall a : Qc, (0 <= a * a)%Qc.
Proof.
  intros a. unfold Qcle, Qcmult. cbn [this Q2Qc]. rewrite !Qred_correct.
  destruct a as [[n d] Hc]. cbn [this]. unfold Qle, Qmult. cbn [Qnum Qden].
  rewrite Z.mul_0_l, Z.mul_1_r. apply Z.square_nonneg.
Qed.

Lemma cnorm2_le0 : forall c, (cnorm2 c <= 0)%Qc -> c = c0.
Proof.
  intros [a b] H. unfold cnorm2 in H. cbn [fst snd] in H.
  pose proof (Qcsqr_nonneg a) as Ha. pose proof (Qcsqr_nonneg b) as Hb.
  assert (Ea : (a * a)%Qc = 0%Qc).
  { apply Qcle_antisym; [|exact Ha]. eapply Qcle_trans; [|exact H].
    replace (a * a)%Qc with (a * a + 0)%Qc at 1 by ring. apply Qcplus_le_compat; [apply Qcle_refl | exact Hb]. }
  assert (Eb : (b * b)%Qc = 0%Qc).
  { apply Qcle_antisym; [|exact Hb]. eapply Qcle_trans; [|exact H].
    replace (b * b)%Qc with (0 + b * b)%Qc at 1 by ring. apply Qcplus_le_compat; [exact Ha | apply Qcle_refl]. }
  unfold c0. f_equal.
  - destruct (Qcmult_integral _ _ Ea); assumption.
  - destruct (Qcmult_integral _ _ Eb); assumption.
Qed.

Lemma Qcle_bool_le : forall a b, Qcle_bool a b = true -> (a <= b)%Qc.
Proof. intros a b H. unfold Qcle_bool in H. apply Qle_bool_iff in H. exact H. Qed.

Lemma amp_term_c0 : forall a k k', amp_term (c0, a) k k' = c0.
Proof. intros [g p] k k'. rewrite amp_term_base, cipow_c0. apply cmul_0_l. Qed.

Theorem reduce_exact : forall p k k', amp (reduce 0%Qc p) k k' = amp p k k'.
Proof.
  intros. rewrite (reduce_split 0%Qc p k k').
  assert (Z : forall l, amp (map (fun gc : pstr * coef => (snd gc, (fst gc, 0))) (filter (fun gc => negb (keep 0%Qc (snd gc))) l)) k k' = c0).
  { induction l as [|[h d] r IH]; [reflexivity|].
    cbn [filter snd]. destruct (keep 0%Qc d) eqn:E; cbn [negb]; [exact IH|].
    cbn [map fst snd]. rewrite amp_cons, IH, cadd_0_r.
    unfold keep in E. apply negb_false_iff in E. apply Qcle_bool_le, cnorm2_le0 in E. rewrite E.
    apply amp_term_c0. }
  rewrite Z, cadd_0_r. reflexivity.
Qed.

Theorem reduce_dropped_small : forall tol2 p gc,
  In gc (filter (fun gc => negb (keep tol2 (snd gc))) (aggregate p)) -> (cnorm2 (snd gc) <= tol2)%Qc.
Proof.
  intros tol2 p gc H. apply filter_In in H. destruct H as [_ H].
  unfold keep in H. rewrite negb_involutive in H. apply Qcle_bool_le. exact H.
Qed.

Theorem reduce_phases_zero : forall tol2 p t, In t (reduce tol2 p) -> snd (snd t) = 0.
Proof.
  intros tol2 p t H. unfold reduce in H. apply in_map_iff in H. destruct H as [gc [E _]].
  rewrite <- E. reflexivity.
Qed.

(* ------------------------------------------------------------------ rotations and maps *)
Lemma map2_termwise : forall (f : pauli -> pauli) (p : poly),
  map fst (map2 (fun (t : term) (a : pauli) => (fst t, a)) p (map f (map snd p))) = map fst p /\
  map snd (map2 (fun (t : term) (a : pauli) => (fst t, a)) p (map f (map snd p))) = map f (map snd p).
Proof.
  intros f. induction p as [|t p [IH1 IH2]]; [split; reflexivity|].
  cbn [map map2 fst snd]. rewrite IH1, IH2. split; reflexivity.
Qed.

Theorem poly_rotate_terms : forall gen m p,
  map fst (poly_rotate gen m p) = map fst p /\ map snd (poly_rotate gen m p) = rotate_by gen m (map snd p).
Proof.
  intros gen m p. unfold poly_rotate, rotate_by. destruct m as [mk|].
  - apply map2_termwise.
  - unfold clifford_rotate. apply map2_termwise.
Qed.

Theorem poly_transform_terms : forall mp m p,
  map fst (poly_transform mp m p) = map fst p /\ map snd (poly_transform mp m p) = transform_by mp m (map snd p).
Proof.
  intros mp m p. unfold poly_transform, transform_by. destruct m as [mk|].
  - apply map2_termwise.
  - unfold pauli_transform. apply map2_termwise.
Qed.

(* ------------------------------------------------------------------ dunder operations *)
Lemma csum_map_cipow : forall {A} j (f : A -> coef) l,
  csum (map (fun x => cipow j (f x)) l) = cipow j (csum (map f l)).
Proof.
  intros A j f; induction l as [|a l IH]; cbn [map]; rewrite ?csum_cons, ?csum_nil.
  - rewrite cipow_c0; reflexivity.
  - rewrite IH, cipow_cadd. reflexivity.
Qed.

Lemma amp_term_shift : forall c g p j k k',
  amp_term (c, (g, (p + j) mod 4)) k k' = cipow j (amp_term (c, (g, p)) k k').
Proof.
  intros. rewrite !amp_term_base, cipow_mod, Z.add_comm, <- cipow_add. symmetry. apply cipow_cmul.
Qed.

Lemma amp_list_shift : forall j (l : plist) k k',
  amp (list_poly (map (fun a : pauli => (fst a, (snd a + j) mod 4)) l)) k k' = cipow j (amp (list_poly l) k k').
Proof.
  intros. unfold amp, list_poly. rewrite !map_map. rewrite <- csum_map_cipow. apply csum_map_ext.
  intros [g p] _. cbn [fst snd]. apply amp_term_shift.
Qed.

Lemma cis_eq : forall re im c, cis re im c = true -> c = (Q2Qc (inject_Z re), Q2Qc (inject_Z im)).
Proof.
  intros re im [a b] H. unfold cis, ceqb in H. cbn [fst snd] in H. apply andb_true_iff in H. destruct H as [H1 H2].
  apply Qc_eq_bool_correct in H1. apply Qc_eq_bool_correct in H2. rewrite H1, H2. reflexivity.
Qed.

Lemma cmul_one : forall x, cmul (Q2Qc (inject_Z 1), Q2Qc (inject_Z 0)) x = x.
Proof. intros [a b]. change (Q2Qc (inject_Z 1)) with 1%Qc. change (Q2Qc (inject_Z 0)) with 0%Qc. cring. Qed.
Lemma cmul_i_eq : forall x, cmul (Q2Qc (inject_Z 0), Q2Qc (inject_Z 1)) x = cipow 1 x.
Proof. intros [a b]. change (Q2Qc (inject_Z 1)) with 1%Qc. change (Q2Qc (inject_Z 0)) with 0%Qc.
  rewrite cipow_1 by reflexivity. cring. Qed.
Lemma cmul_m1_eq : forall x, cmul (Q2Qc (inject_Z (-1)), Q2Qc (inject_Z 0)) x = cipow 2 x.
Proof. intros [a b]. change (Q2Qc (inject_Z (-1))) with (-(1))%Qc. change (Q2Qc (inject_Z 0)) with 0%Qc.
  rewrite cipow_2 by reflexivity. cring. Qed.
Lemma cmul_mi_eq : forall x, cmul (Q2Qc (inject_Z 0), Q2Qc (inject_Z (-1))) x = cipow 3 x.
Proof. intros [a b]. change (Q2Qc (inject_Z (-1))) with (-(1))%Qc. change (Q2Qc (inject_Z 0)) with 0%Qc.
  rewrite cipow_3 by reflexivity. cring. Qed.

Theorem o_neg_den : forall n o p, den n o = Some p ->
  exists q, den n (o_neg o) = Some q /\ forall k k', amp q k k' = cneg (amp p k k').
Proof.
  intros n o p H. destruct o as [a|c a|n' p'|l|c|]; cbn [den as_poly o_neg] in *; try discriminate H;
    injection H as <-; eexists; (split; [reflexivity|]); intros k k'.
  - change (mono_poly c1 (pneg a)) with (list_poly (map (fun a : pauli => (fst a, (snd a + 2) mod 4)) [a])).
    rewrite amp_list_shift. rewrite cipow_2 by reflexivity. reflexivity.
  - apply (amp_neg [(c, a)]).
  - apply amp_neg.
  - change (map pneg l) with (map (fun a : pauli => (fst a, (snd a + 2) mod 4)) l).
    rewrite amp_list_shift. rewrite cipow_2 by reflexivity. reflexivity.
  - rewrite amp_pscal. change [(cmul c c1, pid n)] with (pscal c (ident_poly n)). rewrite amp_pscal. apply cmul_cneg_l.
Qed.

Theorem o_rmul_den : forall n c o p, den n o = Some p -> o_rmul c o <> OErr ->
   exists q, den n (o_rmul c o) = Some q /\ forall k k', length k = n -> amp q k k' = cmul c (amp p k k').
Proof.
  intros n c o p H HE. destruct o as [a|d a|n' p'|l|d|]; cbn [den as_poly] in H; try discriminate H;
    injection H as <-; cbn [o_rmul] in *.
  - destruct (cis 1 0 c) eqn:E1; [|destruct (cis 0 1 c) eqn:E2; [|destruct (cis (-1) 0 c) eqn:E3; [|destruct (cis 0 (-1) c) eqn:E4]]];
      cbn [den as_poly]; eexists; (split; [reflexivity|]); intros k k' _.
    + rewrite (cis_eq _ _ _ E1), cmul_one. reflexivity.
    + rewrite (cis_eq _ _ _ E2), cmul_i_eq.
      exact (amp_list_shift 1 [a] k k').
    + rewrite (cis_eq _ _ _ E3), cmul_m1_eq.
      exact (amp_list_shift 2 [a] k k').
    + rewrite (cis_eq _ _ _ E4), cmul_mi_eq.
      exact (amp_list_shift 3 [a] k k').
    + apply (amp_pscal c [(c1, a)]).
  - cbn [den as_poly]. eexists; (split; [reflexivity|]); intros k k' _. apply (amp_pscal c [(d, a)]).
  - cbn [den as_poly]. eexists; (split; [reflexivity|]); intros k k' _. apply amp_pscal.
  - destruct (cis 1 0 c) eqn:E1; [|destruct (cis 0 1 c) eqn:E2; [|destruct (cis (-1) 0 c) eqn:E3; [|destruct (cis 0 (-1) c) eqn:E4]]];
      try (exfalso; apply HE; reflexivity);
      cbn [den as_poly]; eexists; (split; [reflexivity|]); intros k k' _.
    + rewrite (cis_eq _ _ _ E1), cmul_one. reflexivity.
    + rewrite (cis_eq _ _ _ E2), cmul_i_eq.
      exact (amp_list_shift 1 l k k').
    + rewrite (cis_eq _ _ _ E3), cmul_m1_eq.
      exact (amp_list_shift 2 l k k').
    + rewrite (cis_eq _ _ _ E4), cmul_mi_eq.
      exact (amp_list_shift 3 l k k').
  - cbn [den]. eexists; (split; [reflexivity|]); intros k k' _. rewrite amp_pscal. change [(cmul d c1, pid n)] with (pscal d (ident_poly n)). rewrite amp_pscal. apply cmul_assoc.
Qed.

Theorem o_matmul_den : forall n x y p q, den n x = Some p -> den n y = Some q -> well_sized n p -> well_sized n q ->
   o_matmul x y <> OErr ->
   exists r, den n (o_matmul x y) = Some r /\ forall k k', length k = n -> amp r k k' = amp_after p q k k'.
Proof.
  intros n x y p q Hx Hy Wp Wq HE.
  assert (G : forall p' q' n' , o_matmul x y = OPoly n' (pmulp p' q') -> p' = p -> q' = q ->
              exists r, den n (o_matmul x y) = Some r /\ forall k k', length k = n -> amp r k k' = amp_after p q k k').
  { intros p' q' n' E -> ->. rewrite E. cbn [den as_poly]. eexists; split; [reflexivity|].
    intros k k' Hk. apply (amp_pmulp n); assumption. }
  destruct x as [a|c a|nx px|lx|c|]; destruct y as [b|d b|ny py|ly|d|];
    cbn [den as_poly] in Hx, Hy; try discriminate Hx; try discriminate Hy;
    injection Hx as <-; injection Hy as <-;
    try (exfalso; apply HE; reflexivity);
    try (eapply G; reflexivity).
  cbn [o_matmul den as_poly]. eexists; split; [reflexivity|]. intros k k' Hk.
  rewrite <- (amp_pmulp n _ _ k k' Wp Wq Hk).
  unfold mono_poly. cbn [pmulp flat_map map app fst snd].
  change (np_batch_dot_phase (snd a) (snd b) (ipow (fst a) (fst b))) with (snd (pmul a b)).
  change (gxor (fst a) (fst b)) with (fst (pmul a b)).
  rewrite cmul_1_l. destruct (pmul a b); reflexivity.
Qed.

(* ------------------------------------------------------------------ aggregate output is strictly sorted *)
Lemma bits_cmp_lt_trans : forall a b c, bits_cmp a b = Lt -> bits_cmp b c = Lt -> bits_cmp a c = Lt.
Proof.
  induction a as [|x a IH]; intros [|y b] [|z c] H1 H2; cbn [bits_cmp] in *; try discriminate H1; try discriminate H2;
    try reflexivity.
  destruct x, y, z; try discriminate H1; try discriminate H2; try reflexivity; eapply IH; eassumption.
Qed.
Lemma bits_cmp_gt_lt : forall a b, bits_cmp a b = Gt -> bits_cmp b a = Lt.
Proof.
  induction a as [|x a IH]; intros [|y b] H; cbn [bits_cmp] in *; try discriminate H; try reflexivity.
  destruct x, y; try discriminate H; try reflexivity; apply IH; exact H.
Qed.

Fixpoint ssorted (l : list (pstr * coef)) : Prop :=
  match l with
  | [] => True
  | a :: r => Forall (fun b : pstr * coef => bits_cmp (flat (fst a)) (flat (fst b)) = Lt) r /\ ssorted r
  end.

Lemma insert_Forall : forall (P : list bool -> Prop) g c acc, P (flat g) ->
  Forall (fun b : pstr * coef => P (flat (fst b))) acc ->
  Forall (fun b : pstr * coef => P (flat (fst b))) (insert_term g c acc).
Proof.
  intros P g c acc Hg. induction acc as [|[h d] r IH]; intros HF; cbn [insert_term].
  - constructor; [exact Hg | constructor].
  - inversion_clear HF as [|? ? Hh Hr]. destruct (bits_cmp (flat g) (flat h)).
    + constructor; [exact Hh | exact Hr].
    + constructor; [exact Hg|]. constructor; [exact Hh | exact Hr].
    + constructor; [exact Hh | apply IH; exact Hr].
Qed.

Lemma insert_ssorted : forall g c acc, ssorted acc -> ssorted (insert_term g c acc).
Proof.
  intros g c acc. induction acc as [|[h d] r IH]; intros HS; cbn [insert_term].
  - split; [constructor | exact I].
  - destruct HS as [Fh Sr]. destruct (bits_cmp (flat g) (flat h)) eqn:E.
    + split; [exact Fh | exact Sr].
    + split; [|split; [exact Fh | exact Sr]].
      constructor; [exact E|]. cbn [fst] in *.
      eapply Forall_impl; [|exact Fh]. intros b Hb. cbn beta in Hb. eapply bits_cmp_lt_trans; [exact E | exact Hb].
    + split; [|apply IH; exact Sr]. cbn [fst] in *.
      apply (insert_Forall (fun x => bits_cmp (flat h) x = Lt)); [apply bits_cmp_gt_lt; exact E | exact Fh].
Qed.

Lemma fold_insert_ssorted : forall (p : poly) acc, ssorted acc ->
  ssorted (fold_left (fun acc t => insert_term (fst (snd t)) (cipow (snd (snd t)) (fst t)) acc) p acc).
Proof.
  induction p as [|t p IH]; intros acc HS; cbn [fold_left]; [exact HS|].
  apply IH. apply insert_ssorted. exact HS.
Qed.

Lemma ssorted_NoDup : forall l, ssorted l -> NoDup (map (fun gc : pstr * coef => flat (fst gc)) l).
Proof.
  induction l as [|a r IH]; intros HS; cbn [map]; [constructor|].
  destruct HS as [Fa Sr]. constructor; [|apply IH; exact Sr].
  intros HI. apply in_map_iff in HI. destruct HI as [b [Eb Hb]].
  rewrite Forall_forall in Fa. specialize (Fa b Hb). cbn beta in Fa. rewrite Eb, bits_cmp_refl in Fa. discriminate Fa.
Qed.

Theorem aggregate_sorted_distinct : forall p, NoDup (map (fun gc => flat (fst gc)) (aggregate p)).
Proof. intros p. apply ssorted_NoDup. unfold aggregate. apply fold_insert_ssorted. exact I. Qed.

(* ------------------------------------------------------------------ traces *)
Lemma fold_left_cadd : forall l a, fold_left cadd l a = cadd a (csum l).
Proof.
  induction l as [|x l IH]; intros a; cbn [fold_left].
  - rewrite csum_nil, cadd_0_r. reflexivity.
  - rewrite IH, csum_cons, cadd_assoc. reflexivity.
Qed.

Lemma csum_swap : forall {A B} (f : A -> B -> coef) (la : list A) (lb : list B),
  csum (map (fun b => csum (map (fun a => f a b) la)) lb) = csum (map (fun a => csum (map (fun b => f a b) lb)) la).
Proof.
  intros A B f la lb. induction la as [|a la IH].
  - cbn [map]. rewrite csum_nil. apply csum_map_c0.
  - cbn [map]. rewrite csum_cons, <- IH, <- csum_map_cadd. reflexivity.
Qed.

Definition tsummand (g : pstr) (c : coef) (k : ket) : coef :=
  if ket_eqb (snd (act_str g k)) k then cipow (fst (act_str g k)) c else c0.
Definition tsum (g : pstr) (c : coef) : coef := csum (map (tsummand g c) (all_kets (length g))).

Lemma tsummand_cons : forall x z g b k c,
  tsummand ((x, z) :: g) c (b :: k) = if x then c0 else tsummand g (cipow (2 * zb z * zb b) c) k.
Proof.
  intros. unfold tsummand. rewrite act_str_cons. cbn [fst snd ket_eqb]. unfold act_site. cbn [fst snd].
  destruct x.
  - destruct b; reflexivity.
  - assert (E : eqb (xorb b false) b = true) by (destruct b; reflexivity). rewrite E. cbn [andb].
    destruct (ket_eqb (snd (act_str g k)) k); [|reflexivity].
    rewrite cipow_add. apply cipow_congr. destruct z, b; cbn [zb]; lia.
Qed.

Lemma csum_map_ext2 : forall {A B} (f1 g1 : A -> coef) (f2 g2 : B -> coef) l1 l2,
  (forall x, f1 x = g1 x) -> (forall x, f2 x = g2 x) ->
  cadd (csum (map f1 l1)) (csum (map f2 l2)) = cadd (csum (map g1 l1)) (csum (map g2 l2)).
Proof. intros A B f1 g1 f2 g2 l1 l2 H1 H2. rewrite (map_ext _ _ H1), (map_ext _ _ H2). reflexivity. Qed.

Lemma tsum_cons : forall x z g c,
  tsum ((x, z) :: g) c = if x then c0 else cadd (tsum g c) (tsum g (cipow (2 * zb z) c)).
Proof.
  intros. unfold tsum. cbn [length all_kets]. rewrite map_app, csum_app, !map_map.
  etransitivity; [apply csum_map_ext2; intros k; apply tsummand_cons|]. cbv beta.
  destruct x.
  - rewrite csum_map_c0. apply cadd_0_l.
  - cbn [zb]. rewrite Z.mul_0_r, Z.mul_1_r. rewrite (cipow_0 0) by reflexivity. reflexivity.
Qed.

Lemma two_pow_S : forall n, two_pow (S n) = cadd (two_pow n) (two_pow n).
Proof.
  intros n. unfold two_pow, cadd. cbn [fst snd]. f_equal; try ring.
  apply Qc_is_canon. unfold Qcplus. cbn [this Q2Qc]. rewrite !Qred_correct.
  rewrite Nat2Z.inj_succ, Z.pow_succ_r by lia. rewrite <- inject_Z_plus.
  replace (2 * 2 ^ Z.of_nat n) with (2 ^ Z.of_nat n + 2 ^ Z.of_nat n) by lia. reflexivity.
Qed.

Lemma tsum_spec : forall g c, tsum g c = if is_id_str g then cmul c (two_pow (length g)) else c0.
Proof.
  induction g as [|[x z] g IH]; intros c.
  - unfold tsum, tsummand. cbn [length all_kets map act_str fst snd ket_eqb]. rewrite csum_cons, csum_nil.
    rewrite (cipow_0 0) by reflexivity.
    rewrite cadd_0_r. change (two_pow 0) with c1. rewrite cmul_1_r. reflexivity.
  - rewrite tsum_cons. cbn [is_id_str forallb nontrivial fst snd length].
    change (forallb (fun s : site => negb (nontrivial s)) g) with (is_id_str g).
    destruct x; cbn [orb negb andb]; [reflexivity|].
    rewrite !IH. destruct z; cbn [zb orb negb andb].
    + destruct (is_id_str g); [|apply cadd_0_l].
      rewrite cipow_2 by reflexivity. rewrite cmul_cneg_l. apply cadd_cneg_r.
    + rewrite Z.mul_0_r, (cipow_0 0) by reflexivity. destruct (is_id_str g); [|apply cadd_0_l].
      rewrite two_pow_S, cmul_cadd_distr_l. reflexivity.
Qed.

Lemma amp_term_diag : forall c g ph k, amp_term (c, (g, ph)) k k = tsummand g (cipow ph c) k.
Proof.
  intros. rewrite amp_term_proj. cbn [fst snd]. rewrite act_fst, act_snd. unfold tsummand.
  destruct (ket_eqb (snd (act_str g k)) k); [|reflexivity].
  rewrite cipow_mod, cipow_add. f_equal. apply Z.add_comm.
Qed.

Theorem trace_true_sem : forall n p, well_sized n p -> trace_true (OPoly n p) = Some (trace_sem n p).
Proof.
  intros n p W. unfold trace_true. cbn [as_poly]. f_equal.
  rewrite fold_left_cadd, cadd_0_l. unfold trace_sem, amp.
  rewrite (csum_swap (fun t k => amp_term t k k) p (all_kets n)).
  apply csum_map_ext. intros [c [g ph]] Ht. cbn [fst snd].
  unfold well_sized in W. rewrite Forall_forall in W. specialize (W _ Ht). cbn [fst snd] in W.
  rewrite (csum_map_ext _ (tsummand g (cipow ph c)) (all_kets n)) by (intros; apply amp_term_diag).
  rewrite <- W. change (csum (map (tsummand g (cipow ph c)) (all_kets (length g)))) with (tsum g (cipow ph c)).
  rewrite tsum_spec. destruct (is_id_str g); [|reflexivity]. apply cipow_cmul.
Qed.

(* ------------------------------------------------------------------ bonus: __add__ / __sub__ *)
Definition osize_ok (n : nat) (o : pobj) : Prop :=
  match as_poly o with Some (n', _) => n' = n | None => True end.

Theorem o_add_den : forall tol2 n x y p q,
  den n x = Some p -> den n y = Some q -> osize_ok n x -> osize_ok n y -> o_add tol2 x y <> OErr ->
  exists r d, den n (o_add tol2 x y) = Some r /\
              (forall gc, In gc d -> (cnorm2 (snd gc) <= tol2)%Qc) /\
              forall k k', cadd (amp p k k') (amp q k k')
                           = cadd (amp r k k') (amp (map (fun gc => (snd gc, (fst gc, 0))) d) k k').
Proof.
  intros tol2 n x y p q Hx Hy Sx Sy HE.
  destruct x as [a|c a|nx px|lx|c|]; destruct y as [b|d b|ny py|ly|d|];
    cbn [den as_poly] in Hx, Hy; try discriminate Hx; try discriminate Hy;
    injection Hx as <-; injection Hy as <-;
    try (exfalso; apply HE; reflexivity);
    unfold osize_ok in Sx, Sy; cbn [as_poly] in Sx, Sy; subst;
    cbn [o_add as_poly den].
  all: try (eexists; eexists; split; [reflexivity|]; split; cycle 1;
            [ intros k k'; etransitivity; [|apply reduce_split]; rewrite amp_app; first [reflexivity | apply cadd_comm]
            | intros gc Hgc; eapply reduce_dropped_small; exact Hgc ]).
  exists (pscal (cadd c d) (ident_poly n)), []. split; [reflexivity|]. split; [intros gc []|].
  intros k k'. change [(cmul c c1, pid n)] with (pscal c (ident_poly n)). change [(cmul d c1, pid n)] with (pscal d (ident_poly n)).
  rewrite !amp_pscal. change (amp (map _ []) k k') with c0. rewrite cadd_0_r.
  symmetry. apply cmul_cadd_distr_r.
Qed.

Corollary o_add_den_exact : forall n x y p q,
  den n x = Some p -> den n y = Some q -> osize_ok n x -> osize_ok n y -> o_add 0%Qc x y <> OErr ->
  exists r, den n (o_add 0%Qc x y) = Some r /\ forall k k', amp r k k' = cadd (amp p k k') (amp q k k').
Proof.
  intros n x y p q Hx Hy Sx Sy HE.
  destruct (o_add_den 0%Qc n x y p q Hx Hy Sx Sy HE) as [r [d [Hr [Hd Ha]]]].
  exists r. split; [exact Hr|]. intros k k'. rewrite Ha.
  assert (Z : amp (map (fun gc : pstr * coef => (snd gc, (fst gc, 0))) d) k k' = c0).
  { clear Ha. induction d as [|[h e] d IH]; [reflexivity|].
    cbn [map fst snd]. rewrite amp_cons, IH by (intros gc Hg; apply Hd; right; exact Hg).
    rewrite (cnorm2_le0 e (Hd (h, e) (or_introl eq_refl))). rewrite amp_term_c0. apply cadd_0_l. }
  rewrite Z, cadd_0_r. reflexivity.
Qed.

(* bonus: the implemented trace (which ignores phases) is the true trace when all phases are 0 mod 4,
   in particular on the output of reduce *)
Theorem trace_impl_phase0 : forall n p, Forall (fun t : term => snd (snd t) mod 4 = 0) p ->
  trace_impl (OPoly n p) = trace_true (OPoly n p).
Proof.
  intros n p H. unfold trace_impl, trace_true. cbn [as_poly]. f_equal. f_equal.
  apply map_ext_in. intros t Ht. rewrite Forall_forall in H. specialize (H t Ht).
  destruct (is_id_str (fst (snd t))); [|reflexivity]. rewrite cipow_0 by exact H. reflexivity.
Qed.

Corollary trace_impl_reduce : forall tol2 n p, well_sized n (reduce tol2 p) ->
  trace_impl (o_reduce tol2 (OPoly n p)) = Some (trace_sem n (reduce tol2 p)).
Proof.
  intros tol2 n p W. cbn [o_reduce]. rewrite trace_impl_phase0.
  - apply trace_true_sem. exact W.
  - rewrite Forall_forall. intros t Ht. rewrite (reduce_phases_zero tol2 p t Ht). reflexivity.
Qed.
