(* Proofs/Transform.v -- applying a Clifford map is a phase-exact homomorphism; maps compose. *)
From Coq Require Import ZArith List Bool Lia ZifyBool Arith.
From PC Require Import Gen.Kernels Model.Base Model.Pauli Model.Ket Model.Spec Proofs.PauliFacts.
Import ListNotations.
Open Scope Z_scope.
Ltac Zify.zify_post_hook ::= Z.to_euclidean_division_equations.

(* ------------------------------------------------------------------ wf / pscale toolkit *)
Lemma wf_norm : forall n a, wf n a -> (fst a, snd a mod 4) = a.
Proof. intros n [g p] [_ R]; cbn [fst snd] in *. f_equal. apply Z.mod_small; lia. Qed.

Lemma wf_pid : forall n, wf n (pid n).
Proof. intros n; split; cbn [pid fst snd]; [apply repeat_length | lia]. Qed.

Lemma wf_len_eq : forall n (a b : pauli), wf n a -> wf n b -> length (fst a) = length (fst b).
Proof. intros n a b [La _] [Lb _]. transitivity n; [exact La | symmetry; exact Lb]. Qed.

Lemma wf_pmul : forall n a b, wf n a -> wf n b -> wf n (pmul a b).
Proof.
  intros n a b Ha Hb. split.
  - rewrite pmul_fst, gxor_length; [apply Ha | eapply wf_len_eq; eauto].
  - apply pmul_range.
Qed.

Lemma wf_pscale : forall n k a, length (fst a) = n -> wf n (pscale k a).
Proof. intros n k a L; split; unfold pscale; cbn [fst snd]; [exact L | lia]. Qed.

Lemma pmul_assoc_wf : forall n a b c, wf n a -> wf n b -> wf n c -> pmul (pmul a b) c = pmul a (pmul b c).
Proof. intros n a b c Ha Hb Hc. apply pmul_assoc; eapply wf_len_eq; eauto. Qed.

Lemma pmul_pid_l : forall n a, wf n a -> pmul (pid n) a = a.
Proof. intros n a H. pose proof H as [L _]. rewrite <- L, pmul_id_l. eapply wf_norm; eauto. Qed.

Lemma pmul_pid_r : forall n a, wf n a -> pmul a (pid n) = a.
Proof. intros n a H. pose proof H as [L _]. rewrite <- L, pmul_id_r. eapply wf_norm; eauto. Qed.

Lemma pmul_pscale_l : forall k a b, pmul (pscale k a) b = pscale k (pmul a b).
Proof. intros k [ga pa] [gb pb]; unfold pmul, pscale, np_matmul_phase; cbn [fst snd]. f_equal. lia. Qed.

Lemma pmul_pscale_r : forall k a b, pmul a (pscale k b) = pscale k (pmul a b).
Proof. intros k [ga pa] [gb pb]; unfold pmul, pscale, np_matmul_phase; cbn [fst snd]. f_equal. lia. Qed.

Lemma pscale_pscale : forall j k a, pscale k (pscale j a) = pscale (j + k) a.
Proof. intros j k [g p]; unfold pscale; cbn [fst snd]. f_equal. lia. Qed.

Lemma pscale_cong : forall j k a, j mod 4 = k mod 4 -> pscale j a = pscale k a.
Proof. intros j k [g p] H; unfold pscale; cbn [fst snd]. f_equal. lia. Qed.

Lemma pscale_0 : forall n a, wf n a -> pscale 0 a = a.
Proof. intros n [g p] [_ R]; unfold pscale; cbn [fst snd] in *. f_equal. lia. Qed.

Lemma fst_pscale : forall k a, fst (pscale k a) = fst a.
Proof. reflexivity. Qed.

Lemma pshift_pscale : forall k a, pshift k a = pscale k a.
Proof. reflexivity. Qed.

(* ------------------------------------------------------------------ right-nested ordered product *)
Fixpoint rprod (n : nat) (sel : list bool) (rows : plist) : pauli :=
  match sel, rows with
  | b :: sel', r :: rows' => if b then pmul r (rprod n sel' rows') else rprod n sel' rows'
  | _, _ => pid n
  end.

Lemma wf_rprod : forall n sel rows, Forall (wf n) rows -> wf n (rprod n sel rows).
Proof.
  intros n sel; induction sel as [|b sel IH]; intros [|r rows] HF; cbn [rprod]; try apply wf_pid.
  inversion_clear HF as [|? ? Hr HF']. destruct b; [apply wf_pmul; auto | auto].
Qed.

Lemma combine_step_true : forall acc r, combine_step acc (true, r) = pmul acc r.
Proof. reflexivity. Qed.
Lemma combine_step_false : forall acc r, combine_step acc (false, r) = acc.
Proof. reflexivity. Qed.

Lemma fold_combine_rprod : forall n sel rows acc, Forall (wf n) rows -> wf n acc ->
  fold_left combine_step (combine sel rows) acc = pmul acc (rprod n sel rows).
Proof.
  intros n sel; induction sel as [|b sel IH]; intros [|r rows] acc HF Ha; cbn [combine fold_left rprod];
    try (symmetry; apply pmul_pid_r; exact Ha).
  inversion_clear HF as [|? ? Hr HF']. destruct b.
  - rewrite combine_step_true, IH by (auto using wf_pmul).
    apply (pmul_assoc_wf n); auto using wf_rprod.
  - rewrite combine_step_false. apply IH; auto.
Qed.

Lemma combine_row_rprod : forall n sel rows, Forall (wf n) rows -> combine_row n sel rows = rprod n sel rows.
Proof.
  intros. unfold combine_row. rewrite (fold_combine_rprod n) by (auto using wf_pid).
  apply pmul_pid_l. apply wf_rprod; auto.
Qed.

(* ------------------------------------------------------------------ transform1 through rprod *)
Definition rows_ok (n : nat) (m : plist) : Prop := Forall (wf n) m /\ width m = n.

Lemma valid_rows_wf : forall n m, valid_map n m -> Forall (wf n) m.
Proof.
  intros n m [HL [HR _]]. apply Forall_forall. intros x Hx.
  destruct (In_nth m x (pid 0) Hx) as [i [Hi E]]. rewrite HL in Hi.
  destruct (HR i Hi) as [W _]. unfold row in W. rewrite E in W. exact W.
Qed.

Lemma valid_rows_ok : forall n m, valid_map n m -> rows_ok n m.
Proof.
  intros n m H. split; [apply (valid_rows_wf n m H)|].
  destruct H as [HL [HR _]]. destruct m as [|r m].
  - cbn [length width] in *. lia.
  - cbn [width]. cbn [length] in HL. destruct (HR 0%nat ltac:(lia)) as [[W _] _]. exact W.
Qed.

Lemma transform1_rprod : forall n m a, rows_ok n m ->
  transform1 m a = pscale (snd a + p0 (fst a)) (rprod n (flat (fst a)) m).
Proof.
  intros n m a [HF HW]. unfold transform1. rewrite HW, (combine_row_rprod n) by exact HF.
  unfold pscale, np_transform_phase. f_equal. f_equal. lia.
Qed.

Theorem transform_scale : forall m k a, transform1 m (pscale k a) = pscale k (transform1 m a).
Proof.
  intros m k [g p]. unfold transform1, pscale, np_transform_phase; cbn [fst snd]. f_equal. lia.
Qed.

Lemma transform_wf_ok : forall n m a, rows_ok n m -> wf n (transform1 m a).
Proof.
  intros n m a H. rewrite (transform1_rprod n) by exact H. apply wf_pscale.
  apply wf_rprod. apply H.
Qed.

Theorem transform_wf : forall n m a, valid_map n m -> length (fst a) = n -> wf n (transform1 m a).
Proof. intros n m a H _. apply transform_wf_ok. apply valid_rows_ok; exact H. Qed.

Lemma flat_cons : forall x z g, flat ((x, z) :: g) = x :: z :: flat g.
Proof. reflexivity. Qed.

Lemma rprod_flat_id : forall n k rows, rprod n (flat (id_str k)) rows = pid n.
Proof.
  intros n k; induction k as [|k IH]; intros rows.
  - rewrite id_str_0. reflexivity.
  - rewrite id_str_S. unfold I_site. rewrite flat_cons.
    destruct rows as [|r1 [|r2 rows]]; cbn [rprod]; try reflexivity. apply IH.
Qed.

Lemma sum1_p0_id : forall k, sum1 p0_site (id_str k) = 0.
Proof.
  induction k as [|k IH]; [reflexivity|]. rewrite id_str_S. cbn [sum1]. rewrite IH. reflexivity.
Qed.

Lemma p0_id : forall k, p0 (id_str k) = 0.
Proof. intros; unfold p0. rewrite sum1_p0_id. reflexivity. Qed.

Lemma transform_pid_ok : forall n m, rows_ok n m -> transform1 m (pid n) = pid n.
Proof.
  intros n m H. rewrite (transform1_rprod n) by exact H.
  cbn [pid fst snd]. rewrite rprod_flat_id, p0_id. reflexivity.
Qed.

Theorem transform_pid : forall n m, valid_map n m -> transform1 m (pid n) = pid n.
Proof. intros n m H. apply transform_pid_ok. apply valid_rows_ok; exact H. Qed.

(* ------------------------------------------------------------------ product of two ordered products *)
Fixpoint sgn (n : nat) (c d : list bool) (rs : plist) : bool :=
  match c, d, rs with
  | b :: c', b' :: d', r :: rs' => xorb (b' && acqb (fst (rprod n c' rs')) (fst r)) (sgn n c' d' rs')
  | _, _, _ => false
  end.

Lemma pmul_comm_sc : forall a b, pmul a b = pscale (2 * zb (acqb (fst a) (fst b))) (pmul b a).
Proof. intros a b. rewrite pmul_swap, acq_acqb. reflexivity. Qed.

Lemma herm_square : forall n r, wf n r -> hermP r -> pmul r r = pid n.
Proof.
  intros n r [L _] H. rewrite pmul_square, L. unfold pid. f_equal.
  destruct H as [H|H]; rewrite H; reflexivity.
Qed.

Definition hrow (n : nat) (r : pauli) : Prop := wf n r /\ hermP r.

Lemma hrow_wf : forall n rs, Forall (hrow n) rs -> Forall (wf n) rs.
Proof. intros n rs H. eapply Forall_impl; [|exact H]. intros a [W _]; exact W. Qed.

Lemma rprod_mul : forall n c d rs, Forall (hrow n) rs -> length c = length d ->
  pmul (rprod n c rs) (rprod n d rs) = pscale (2 * zb (sgn n c d rs)) (rprod n (map2 xorb c d) rs).
Proof.
  intros n c; induction c as [|b c IH]; intros [|b' d] [|r rs] HF HL; try discriminate HL;
    cbn [rprod sgn map2];
    try (change (2 * zb false) with 0; rewrite (pmul_pid_l n), (pscale_0 n) by apply wf_pid; reflexivity).
  inversion_clear HF as [|? ? Hr HF']. destruct Hr as [Wr Hh].
  cbn [length] in HL. assert (HL' : length c = length d) by lia.
  specialize (IH d rs HF' HL').
  pose proof (hrow_wf n rs HF') as HW.
  pose proof (wf_rprod n c rs HW) as WA.
  pose proof (wf_rprod n d rs HW) as WB.
  pose proof (wf_rprod n (map2 xorb c d) rs HW) as WP.
  pose proof (pmul_comm_sc (rprod n c rs) r) as HC.
  set (A := rprod n c rs) in *. set (B := rprod n d rs) in *. set (P := rprod n (map2 xorb c d) rs) in *.
  set (q := acqb (fst A) (fst r)) in *. set (s := sgn n c d rs) in *.
  destruct b, b'; cbn [andb xorb].
  - rewrite (pmul_assoc_wf n r A (pmul r B)) by auto using wf_pmul.
    rewrite <- (pmul_assoc_wf n A r B) by auto.
    rewrite HC, pmul_pscale_l, pmul_pscale_r.
    rewrite (pmul_assoc_wf n r A B) by auto.
    rewrite <- (pmul_assoc_wf n r r (pmul A B)) by auto using wf_pmul.
    rewrite (herm_square n) by auto. rewrite IH, pmul_pscale_r, (pmul_pid_l n) by auto.
    rewrite !pscale_pscale. apply pscale_cong. destruct q, s; reflexivity.
  - rewrite (pmul_assoc_wf n r A B) by auto. rewrite IH, pmul_pscale_r. destruct s; reflexivity.
  - rewrite <- (pmul_assoc_wf n A r B) by auto. rewrite HC, pmul_pscale_l.
    rewrite (pmul_assoc_wf n r A B) by auto. rewrite IH, pmul_pscale_r, pscale_pscale.
    apply pscale_cong. destruct q, s; reflexivity.
  - rewrite IH. destruct s; reflexivity.
Qed.

(* ------------------------------------------------------------------ the paired (X_j, Z_j) structure of a valid map *)
Fixpoint paired_ok (n : nat) (rs : plist) : Prop :=
  match rs with
  | [] => True
  | mx :: mz :: rest =>
      hrow n mx /\ hrow n mz /\ acqb (fst mx) (fst mz) = true /\
      Forall (fun r => acqb (fst r) (fst mx) = false /\ acqb (fst r) (fst mz) = false) rest /\
      paired_ok n rest
  | _ => False
  end.

Lemma div2_SS : forall i, (S (S i) / 2 = S (i / 2))%nat.
Proof.
  intros i. replace (S (S i)) with (i + 1 * 2)%nat by lia. rewrite Nat.div_add by lia. lia.
Qed.

Lemma expected_acq_SS : forall i j, expected_acq (S (S i)) (S (S j)) = expected_acq i j.
Proof.
  intros i j. unfold expected_acq. rewrite !div2_SS.
  destruct (Nat.eqb_spec (S (i / 2)) (S (j / 2))), (Nat.eqb_spec (i / 2) (j / 2)),
    (Nat.eqb_spec (S (S i)) (S (S j))), (Nat.eqb_spec i j); cbn [andb negb]; try reflexivity; exfalso; lia.
Qed.
Lemma expected_acq_SS_0 : forall i, expected_acq (S (S i)) 0 = 0.
Proof. intros i. unfold expected_acq. rewrite div2_SS. reflexivity. Qed.
Lemma expected_acq_SS_1 : forall i, expected_acq (S (S i)) 1 = 0.
Proof. intros i. unfold expected_acq. rewrite div2_SS. reflexivity. Qed.

Lemma paired_of_indexed : forall n k rs, length rs = (2 * k)%nat ->
  (forall i, (i < 2 * k)%nat -> hrow n (nth i rs (pid 0))) ->
  (forall i j, (i < 2 * k)%nat -> (j < 2 * k)%nat ->
     acq (fst (nth i rs (pid 0))) (fst (nth j rs (pid 0))) = expected_acq i j) ->
  paired_ok n rs.
Proof.
  intros n k; induction k as [|k IH]; intros rs HL HR HA.
  - destruct rs; [exact I | discriminate HL].
  - destruct rs as [|mx [|mz rest]]; try (cbn [length] in HL; lia).
    cbn [paired_ok]. cbn [length] in HL.
    split; [exact (HR 0%nat ltac:(lia))|].
    split; [exact (HR 1%nat ltac:(lia))|].
    split.
    { pose proof (HA 0%nat 1%nat ltac:(lia) ltac:(lia)) as H. cbn [nth] in H.
      rewrite acq_acqb in H. destruct (acqb (fst mx) (fst mz)); [reflexivity | discriminate H]. }
    split.
    { apply Forall_forall. intros x Hx. destruct (In_nth rest x (pid 0) Hx) as [i [Hi E]].
      pose proof (HA (S (S i)) 0%nat ltac:(lia) ltac:(lia)) as H0.
      pose proof (HA (S (S i)) 1%nat ltac:(lia) ltac:(lia)) as H1.
      cbn [nth] in H0, H1. rewrite E in H0, H1.
      rewrite expected_acq_SS_0, acq_acqb in H0. rewrite expected_acq_SS_1, acq_acqb in H1.
      split; [destruct (acqb (fst x) (fst mx)) | destruct (acqb (fst x) (fst mz))]; try reflexivity; discriminate. }
    apply IH.
    + lia.
    + intros i Hi. exact (HR (S (S i)) ltac:(lia)).
    + intros i j Hi Hj. pose proof (HA (S (S i)) (S (S j)) ltac:(lia) ltac:(lia)) as H.
      rewrite expected_acq_SS in H. exact H.
Qed.

Lemma valid_paired : forall n m, valid_map n m -> paired_ok n m.
Proof.
  intros n m [HL [HR HA]]. apply (paired_of_indexed n n); [exact HL | | exact HA].
  intros i Hi. exact (HR i Hi).
Qed.

Lemma paired_hrow : forall n rs, paired_ok n rs -> Forall (hrow n) rs.
Proof.
  intros n. fix IH 1. intros [|mx [|mz rest]] H; cbn [paired_ok] in H; try contradiction.
  - constructor.
  - destruct H as [H1 [H2 [_ [_ H5]]]]. constructor; [exact H1|]. constructor; [exact H2|]. apply IH; exact H5.
Qed.

Lemma acqb_rprod_comm : forall n g c rs, Forall (wf n) rs ->
  Forall (fun r => acqb (fst r) g = false) rs -> acqb (fst (rprod n c rs)) g = false.
Proof.
  intros n g c; induction c as [|b c IH]; intros [|r rs] HW HF; cbn [rprod]; try apply acqb_id_l.
  inversion_clear HW as [|? ? Wr HW']. inversion_clear HF as [|? ? Hr HF'].
  destruct b; [|apply IH; assumption].
  rewrite pmul_fst, acqb_xor_l.
  - rewrite Hr, IH by assumption. reflexivity.
  - apply (wf_len_eq n); [exact Wr | apply wf_rprod; exact HW'].
Qed.

Fixpoint sgnp (g1 g2 : pstr) : bool :=
  match g1, g2 with s :: r1, t :: r2 => xorb (snd s && fst t) (sgnp r1 r2) | _, _ => false end.

Lemma paired_sgn : forall n g1 g2 rs, paired_ok n rs -> length g1 = length g2 ->
  length rs = (2 * length g1)%nat -> sgn n (flat g1) (flat g2) rs = sgnp g1 g2.
Proof.
  intros n g1; induction g1 as [|[x1 z1] g1 IH]; intros [|[x2 z2] g2] rs HP HL HR; try discriminate HL.
  - reflexivity.
  - cbn [length] in HL, HR. destruct rs as [|mx [|mz rest]]; try (cbn [length] in HR; lia).
    cbn [paired_ok] in HP. destruct HP as [Hx [Hz [Hxz [HF HP']]]].
    cbn [length] in HR.
    rewrite !flat_cons. cbn [sgn sgnp fst snd].
    rewrite (IH g2 rest HP') by lia.
    pose proof (hrow_wf n rest (paired_hrow n rest HP')) as HW.
    assert (Cx : acqb (fst (rprod n (flat g1) rest)) (fst mx) = false).
    { apply acqb_rprod_comm; [exact HW|]. eapply Forall_impl; [|exact HF]. intros a [H _]; exact H. }
    assert (Cz : acqb (fst (rprod n (flat g1) rest)) (fst mz) = false).
    { apply acqb_rprod_comm; [exact HW|]. eapply Forall_impl; [|exact HF]. intros a [_ H]; exact H. }
    rewrite Cz. cbn [rprod]. destruct z1.
    + rewrite pmul_fst, acqb_xor_l.
      2:{ apply (wf_len_eq n); [apply Hz | apply wf_rprod; exact HW]. }
      rewrite Cx, (acqb_sym (fst mz) (fst mx)), Hxz.
      destruct x2, z2, (sgnp g1 g2); reflexivity.
    + rewrite Cx. destruct x2, z2, (sgnp g1 g2); reflexivity.
Qed.

Lemma site_phase : forall s t,
  (p0_site (xor_site s t) + ipow_site s t) mod 4 = (p0_site s + p0_site t + 2 * zb (snd s && fst t)) mod 4.
Proof. intros [[|] [|]] [[|] [|]]; vm_compute; reflexivity. Qed.

Arguments p0_site : simpl never.

Lemma sum_phase : forall g1 g2, length g1 = length g2 ->
  (sum1 p0_site (gxor g1 g2) + sum2 ipow_site g1 g2) mod 4
  = (sum1 p0_site g1 + sum1 p0_site g2 + 2 * zb (sgnp g1 g2)) mod 4.
Proof.
  induction g1 as [|s g1 IH]; intros [|t g2] HL; try discriminate HL; [reflexivity|].
  cbn [length] in HL. specialize (IH g2 ltac:(lia)).
  cbn [gxor sum1 sum2 sgnp]. pose proof (site_phase s t) as H.
  destruct (snd s && fst t), (sgnp g1 g2); cbn [xorb zb] in *; lia.
Qed.

Lemma flat_gxor : forall g1 g2, flat (gxor g1 g2) = map2 xorb (flat g1) (flat g2).
Proof.
  induction g1 as [|[x1 z1] g1 IH]; intros [|[x2 z2] g2]; try reflexivity.
  cbn [gxor]. rewrite xor_site_spec. cbn [fst snd]. rewrite !flat_cons. cbn [map2]. rewrite IH. reflexivity.
Qed.

Lemma flat_length : forall g, length (flat g) = (2 * length g)%nat.
Proof. induction g as [|[x z] g IH]; [reflexivity|]. rewrite flat_cons. cbn [length]. lia. Qed.

(* ------------------------------------------------------------------ the homomorphism theorem *)
Theorem transform_hom : forall n m a b, valid_map n m -> length (fst a) = n -> length (fst b) = n ->
  transform1 m (pmul a b) = pmul (transform1 m a) (transform1 m b).
Proof.
  intros n m [ga pa] [gb pb] HV La Lb. cbn [fst snd] in *.
  pose proof (valid_rows_ok n m HV) as HO. pose proof (valid_paired n m HV) as HP.
  rewrite !(transform1_rprod n) by exact HO.
  rewrite pmul_pscale_l, pmul_pscale_r. cbn [fst snd].
  rewrite rprod_mul.
  2:{ apply paired_hrow; exact HP. }
  2:{ rewrite !flat_length. lia. }
  rewrite paired_sgn.
  2:{ exact HP. }
  2:{ lia. }
  2:{ destruct HV as [HL _]. lia. }
  rewrite pmul_fst, pmul_snd. cbn [fst snd]. rewrite flat_gxor, !pscale_pscale.
  apply pscale_cong. unfold p0, ipow. rewrite modulus_ps0, modulus_ipow.
  pose proof (sum_phase ga gb ltac:(lia)) as H.
  destruct (sgnp ga gb); cbn [zb] in *; lia.
Qed.

(* ------------------------------------------------------------------ unit strings *)
Lemma flat_unflat : forall k l, length l = (2 * k)%nat -> flat (unflat l) = l.
Proof.
  induction k as [|k IH]; intros l HL.
  - destruct l; [reflexivity | discriminate HL].
  - destruct l as [|x [|z l]]; try (cbn [length] in HL; lia).
    cbn [unflat]. rewrite flat_cons, IH; [reflexivity | cbn [length] in HL; lia].
Qed.

Lemma unflat_length : forall k l, length l = (2 * k)%nat -> length (unflat l) = k.
Proof.
  induction k as [|k IH]; intros l HL.
  - destruct l; [reflexivity | discriminate HL].
  - destruct l as [|x [|z l]]; try (cbn [length] in HL; lia).
    cbn [unflat length]. rewrite IH; [reflexivity | cbn [length] in HL; lia].
Qed.

Lemma unit_row_length : forall n k, length (unit_row n k) = n.
Proof. intros; unfold unit_row. rewrite map_length, seq_length. reflexivity. Qed.

Lemma unit_str_length : forall n k, length (unit_str n k) = n.
Proof. intros; unfold unit_str. apply unflat_length. apply unit_row_length. Qed.

Lemma flat_unit_str : forall n k, flat (unit_str n k) = unit_row (2 * n) k.
Proof. intros; unfold unit_str. apply (flat_unflat n). apply unit_row_length. Qed.

Lemma rprod_unit_lt : forall n k len rs s, (k < s)%nat ->
  rprod n (map (fun j => Nat.eqb k j) (seq s len)) rs = pid n.
Proof.
  intros n k len; induction len as [|len IH]; intros rs s Hk; [reflexivity|].
  cbn [seq map]. destruct rs as [|r rs]; [reflexivity|]. cbn [rprod].
  destruct (Nat.eqb_spec k s); [lia|]. apply IH. lia.
Qed.

Lemma rprod_unit : forall n rs s i, Forall (wf n) rs -> (i < length rs)%nat ->
  rprod n (map (fun j => Nat.eqb (s + i) j) (seq s (length rs))) rs = nth i rs (pid 0).
Proof.
  intros n rs; induction rs as [|r rs IH]; intros s i HW Hi; [cbn [length] in Hi; lia|].
  inversion_clear HW as [|? ? Wr HW']. cbn [length seq map rprod]. destruct i as [|i].
  - rewrite Nat.add_0_r, Nat.eqb_refl. replace (s + 0)%nat with s by lia.
    rewrite rprod_unit_lt by lia. cbn [nth]. apply pmul_pid_r; exact Wr.
  - destruct (Nat.eqb_spec (s + S i) s); [lia|]. cbn [nth].
    replace (s + S i)%nat with (S s + i)%nat by lia. apply IH; [exact HW' | cbn [length] in Hi; lia].
Qed.

Lemma p0_site_val : forall x z, p0_site (x, z) = zb (x && z).
Proof. intros [|] [|]; reflexivity. Qed.

Lemma sum1_p0_unit : forall k m s, sum1 p0_site (unflat (map (fun j => Nat.eqb k j) (seq s (2 * m)))) = 0.
Proof.
  intros k m; induction m as [|m IH]; intros s; [reflexivity|].
  replace (2 * S m)%nat with (S (S (2 * m))) by lia. cbn [seq map unflat sum1].
  rewrite IH, p0_site_val.
  destruct (Nat.eqb_spec k s), (Nat.eqb_spec k (S s)); try reflexivity. lia.
Qed.

Lemma p0_unit_str : forall n k, p0 (unit_str n k) = 0.
Proof. intros. unfold p0, unit_str, unit_row. rewrite sum1_p0_unit. reflexivity. Qed.

Lemma transform_unit_ok : forall n m k, rows_ok n m -> length m = (2 * n)%nat -> (k < 2 * n)%nat ->
  transform1 m (unit_str n k, 0) = nth k m (pid 0).
Proof.
  intros n m k HO HL Hk. rewrite (transform1_rprod n) by exact HO. cbn [fst snd].
  rewrite p0_unit_str, flat_unit_str. unfold unit_row. rewrite <- HL.
  change k with (0 + k)%nat at 1. rewrite rprod_unit; [| apply HO | lia].
  apply (pscale_0 n). destruct HO as [HF _]. rewrite Forall_forall in HF. apply HF. apply nth_In. lia.
Qed.

Theorem transform_unit : forall n m k, valid_map n m -> (k < 2 * n)%nat ->
  transform1 m (unit_str n k, 0) = row m k.
Proof.
  intros n m k HV Hk. unfold row. apply transform_unit_ok; [apply valid_rows_ok; exact HV | apply HV | exact Hk].
Qed.

(* ------------------------------------------------------------------ commutation and hermiticity are preserved *)
Theorem transform_acq : forall n m a b, valid_map n m -> length (fst a) = n -> length (fst b) = n ->
  acq (fst (transform1 m a)) (fst (transform1 m b)) = acq (fst a) (fst b).
Proof.
  intros n m a b HV La Lb.
  pose proof (transform_hom n m a b HV La Lb) as H1.
  pose proof (transform_hom n m b a HV Lb La) as H2.
  rewrite (pmul_swap a b), pshift_pscale, transform_scale, H2 in H1.
  rewrite (pmul_swap (transform1 m a) (transform1 m b)) in H1.
  pose proof (acq_01 (fst a) (fst b)) as R1.
  pose proof (acq_01 (fst (transform1 m a)) (fst (transform1 m b))) as R2.
  apply (f_equal snd) in H1. unfold pscale, pshift in H1; cbn [snd] in H1.
  assert (K : forall x A A', (A = 0 \/ A = 1) -> (A' = 0 \/ A' = 1) ->
            (x + 2 * A) mod 4 = (x + 2 * A') mod 4 -> A' = A) by (intros; lia).
  exact (K _ _ _ R1 R2 H1).
Qed.

Theorem transform_herm : forall n m a, valid_map n m -> length (fst a) = n -> Z.even (snd a) = true ->
  Z.even (snd (transform1 m a)) = true.
Proof.
  intros n m a HV La He.
  pose proof (transform_hom n m a a HV La La) as H.
  assert (E : (2 * snd a) mod 4 = 0).
  { apply Z.even_spec in He. destruct He as [q Hq]. rewrite Hq. lia. }
  assert (Ea : pmul a a = pid n).
  { rewrite pmul_square. unfold pid. f_equal; [f_equal; exact La | exact E]. }
  rewrite Ea, (transform_pid n m HV), (pmul_square (transform1 m a)) in H.
  apply (f_equal snd) in H. cbn [snd pid] in H.
  apply Z.even_spec. exists (snd (transform1 m a) / 2). lia.
Qed.

(* ------------------------------------------------------------------ recursive structure of the identity map *)
Definition cons_site (s : site) (a : pauli) : pauli := (s :: fst a, snd a).

Lemma map_eqb_lt : forall k m s, (k < s)%nat -> map (fun j => Nat.eqb k j) (seq s m) = repeat false m.
Proof.
  intros k m; induction m as [|m IH]; intros s Hk; [reflexivity|].
  cbn [seq map repeat]. destruct (Nat.eqb_spec k s); [lia|]. rewrite IH by lia. reflexivity.
Qed.

Lemma unflat_repeat_false : forall n, unflat (repeat false (2 * n)) = id_str n.
Proof.
  induction n as [|n IH]; [reflexivity|].
  replace (2 * S n)%nat with (S (S (2 * n))) by lia. cbn [repeat unflat]. rewrite IH. reflexivity.
Qed.

Lemma unit_str_S_0 : forall n, unit_str (S n) 0 = (true, false) :: id_str n.
Proof.
  intros n. unfold unit_str, unit_row. replace (2 * S n)%nat with (S (S (2 * n))) by lia.
  cbn [seq map unflat]. rewrite map_eqb_lt by lia. rewrite unflat_repeat_false. reflexivity.
Qed.

Lemma unit_str_S_1 : forall n, unit_str (S n) 1 = (false, true) :: id_str n.
Proof.
  intros n. unfold unit_str, unit_row. replace (2 * S n)%nat with (S (S (2 * n))) by lia.
  cbn [seq map unflat]. rewrite map_eqb_lt by lia. rewrite unflat_repeat_false. reflexivity.
Qed.

Lemma unit_str_S_SS : forall n k, unit_str (S n) (S (S k)) = I_site :: unit_str n k.
Proof.
  intros n k. unfold unit_str, unit_row. replace (2 * S n)%nat with (S (S (2 * n))) by lia.
  cbn [seq map unflat]. rewrite <- !seq_shift, !map_map. reflexivity.
Qed.

Lemma identity_map_S : forall n,
  identity_map (S n) = ((true, false) :: id_str n, 0) :: ((false, true) :: id_str n, 0)
                       :: map (cons_site I_site) (identity_map n).
Proof.
  intros n. unfold identity_map. replace (2 * S n)%nat with (S (S (2 * n))) by lia.
  cbn [seq map]. rewrite unit_str_S_0, unit_str_S_1. f_equal. f_equal.
  rewrite <- !seq_shift, !map_map. apply map_ext. intros k. rewrite unit_str_S_SS. reflexivity.
Qed.

Lemma nth_map_lt : forall (f : pauli -> pauli) l i d d', (i < length l)%nat ->
  nth i (map f l) d = f (nth i l d').
Proof.
  intros f l i d d' Hi. rewrite (nth_indep (map f l) d (f d')) by (rewrite map_length; exact Hi).
  apply map_nth.
Qed.

Lemma expected_acq_sym : forall i j, expected_acq i j = expected_acq j i.
Proof. intros i j. unfold expected_acq. rewrite (Nat.eqb_sym (i / 2)), (Nat.eqb_sym i j). reflexivity. Qed.

Lemma id_str_length : forall n, length (id_str n) = n.
Proof. intros; apply repeat_length. Qed.

Lemma acqb_cons : forall s t g1 g2, acqb (s :: g1) (t :: g2) = xorb (acqb_site s t) (acqb g1 g2).
Proof. reflexivity. Qed.

Theorem identity_valid : forall n, valid_map n (identity_map n).
Proof.
  induction n as [|n IH].
  - split; [reflexivity|]. split; intros; lia.
  - destruct IH as [HL [HR HA]]. rewrite identity_map_S.
    assert (RS : forall i, (i < 2 * n)%nat ->
              row (((true, false) :: id_str n, 0) :: ((false, true) :: id_str n, 0)
                   :: map (cons_site I_site) (identity_map n)) (S (S i))
              = cons_site I_site (row (identity_map n) i)).
    { intros i Hi. unfold row. cbn [nth]. apply nth_map_lt. rewrite HL. exact Hi. }
    split; [cbn [length]; rewrite map_length, HL; lia|]. split.
    + intros [|[|i]] Hi.
      * unfold row; cbn [nth]. split; [split|left]; cbn [fst snd length]; try rewrite id_str_length; try reflexivity; lia.
      * unfold row; cbn [nth]. split; [split|left]; cbn [fst snd length]; try rewrite id_str_length; try reflexivity; lia.
      * rewrite RS by lia. destruct (HR i ltac:(lia)) as [[W1 W2] Hh].
        split; [split|]; unfold cons_site; cbn [fst snd length]; [rewrite W1; reflexivity | exact W2 | exact Hh].
    + intros i j Hi Hj. rewrite acq_acqb.
      destruct i as [|[|i]], j as [|[|j]]; rewrite ?RS by lia; unfold row; cbn [nth cons_site fst snd];
        rewrite ?acqb_cons, ?acqb_id_l, ?acqb_id_r, ?acqb_self, ?expected_acq_SS_0, ?expected_acq_SS_1,
                ?(expected_acq_sym 0 (S (S _))), ?(expected_acq_sym 1 (S (S _))), ?expected_acq_SS_0, ?expected_acq_SS_1,
                ?expected_acq_SS;
        try reflexivity.
      rewrite <- (HA i j) by lia. rewrite acq_acqb, acqb_site_I_l, xorb_false_l. reflexivity.
Qed.

(* ------------------------------------------------------------------ the identity map acts trivially *)
Lemma pmul_cons_site_I : forall a b, pmul (cons_site I_site a) (cons_site I_site b) = cons_site I_site (pmul a b).
Proof.
  intros [ga pa] [gb pb]. reflexivity.
Qed.

Lemma rprod_cons_I : forall n c rs,
  rprod (S n) c (map (cons_site I_site) rs) = cons_site I_site (rprod n c rs).
Proof.
  intros n c; induction c as [|b c IH]; intros [|r rs]; cbn [map rprod]; try reflexivity.
  rewrite IH. destruct b; [apply pmul_cons_site_I | reflexivity].
Qed.

Lemma one_site_mul : forall n s t g q, length g = n ->
  pmul (s :: id_str n, 0) (t :: g, q) = (xor_site s t :: g, (q + ipow_site s t) mod 4).
Proof.
  intros n s t g q L. rewrite <- L. unfold pmul; cbn [fst snd gxor]. rewrite gxor_id_l. f_equal.
  unfold np_matmul_phase, ipow; rewrite modulus_ipow. cbn [sum2].
  pose proof (sum2_ipow_id_l (length g) g). lia.
Qed.

Lemma rprod_identity : forall n g, length g = n ->
  rprod n (flat g) (identity_map n) = (g, (- sum1 p0_site g) mod 4).
Proof.
  induction n as [|n IH]; intros [|[x z] g] HL; try discriminate HL; [reflexivity|].
  cbn [length] in HL. assert (HL' : length g = n) by lia.
  rewrite identity_map_S, flat_cons. cbn [rprod]. rewrite rprod_cons_I, (IH g HL').
  unfold cons_site; cbn [fst snd sum1].
  generalize (sum1 p0_site g); intros S.
  destruct x, z; rewrite ?(one_site_mul n) by exact HL';
    f_equal; try reflexivity;
    repeat match goal with
    | |- context [ipow_site ?a ?b] => let v := eval vm_compute in (ipow_site a b) in change (ipow_site a b) with v
    | |- context [p0_site ?a] => let v := eval vm_compute in (p0_site a) in change (p0_site a) with v
    end; lia.
Qed.

Theorem transform_identity : forall n a, wf n a -> transform1 (identity_map n) a = a.
Proof.
  intros n [g p] [L R]; cbn [fst snd] in *.
  rewrite (transform1_rprod n) by (apply valid_rows_ok, identity_valid).
  cbn [fst snd]. rewrite (rprod_identity n g L). unfold pscale, p0; cbn [fst snd]. rewrite modulus_ps0.
  f_equal. lia.
Qed.

(* ------------------------------------------------------------------ composition *)
Lemma rows_ok_map : forall n A B, rows_ok n A -> rows_ok n B -> rows_ok n (map (transform1 B) A).
Proof.
  intros n A B [FA WA] HB. split.
  - apply Forall_forall. intros x Hx. apply in_map_iff in Hx. destruct Hx as [r [E _]]. rewrite <- E.
    apply transform_wf_ok; exact HB.
  - destruct A as [|r A]; [exact WA|]. cbn [map width].
    apply (transform_wf_ok n B r HB).
Qed.

Lemma rprod_map_transform : forall n B c rs, valid_map n B -> Forall (wf n) rs ->
  rprod n c (map (transform1 B) rs) = transform1 B (rprod n c rs).
Proof.
  intros n B c; induction c as [|b c IH]; intros [|r rs] HV HW; cbn [map rprod];
    try (symmetry; apply transform_pid; exact HV).
  inversion_clear HW as [|? ? Wr HW']. rewrite (IH rs HV HW'). destruct b; [|reflexivity].
  symmetry. apply (transform_hom n); [exact HV | apply Wr | apply wf_rprod; exact HW'].
Qed.

Theorem transform_compose : forall n A B a, valid_map n A -> valid_map n B -> length (fst a) = n ->
  transform1 (compose A B) a = transform1 B (transform1 A a).
Proof.
  intros n A B a HA HB _. unfold compose, pauli_transform.
  pose proof (valid_rows_ok n A HA) as OA. pose proof (valid_rows_ok n B HB) as OB.
  rewrite (transform1_rprod n (map (transform1 B) A)) by (apply rows_ok_map; assumption).
  rewrite (rprod_map_transform n B) by (try exact HB; apply OA).
  rewrite <- transform_scale. rewrite <- (transform1_rprod n A a OA). reflexivity.
Qed.

Lemma row_map : forall (f : pauli -> pauli) m i, (i < length m)%nat -> row (map f m) i = f (row m i).
Proof. intros f m i Hi. unfold row. apply nth_map_lt. exact Hi. Qed.

Lemma hermP_even : forall a, hermP a -> Z.even (snd a) = true.
Proof. intros [g p] [H|H]; cbn [snd] in H; rewrite H; reflexivity. Qed.

Lemma even_range_hermP : forall a, 0 <= snd a < 4 -> Z.even (snd a) = true -> hermP a.
Proof. intros [g p] R E; cbn [snd] in *. apply Z.even_spec in E. destruct E as [q E]. unfold hermP; cbn [snd]. lia. Qed.

Theorem compose_valid : forall n A B, valid_map n A -> valid_map n B -> valid_map n (compose A B).
Proof.
  intros n A B HA HB. pose proof HA as [LA [RA AA]]. unfold compose, pauli_transform.
  split; [rewrite map_length; exact LA|]. split.
  - intros i Hi. rewrite row_map by (rewrite LA; exact Hi).
    destruct (RA i Hi) as [W Hh].
    pose proof (transform_wf n B (row A i) HB ltac:(apply W)) as WT.
    split; [exact WT|].
    assert (E : Z.even (snd (transform1 B (row A i))) = true).
    { apply (transform_herm n); [exact HB | apply W | apply hermP_even; exact Hh]. }
    apply even_range_hermP; [apply WT | exact E].
  - intros i j Hi Hj. rewrite !row_map by (rewrite LA; assumption).
    rewrite (transform_acq n); [apply AA; assumption | exact HB | apply (RA i Hi) | apply (RA j Hj)].
Qed.

Theorem compose_assoc : forall n A B C, valid_map n A -> valid_map n B -> valid_map n C ->
  compose (compose A B) C = compose A (compose B C).
Proof.
  intros n A B C HA HB HC. unfold compose at 1 2 3. unfold pauli_transform. rewrite map_map.
  apply map_ext_in. intros r Hr. symmetry. apply (transform_compose n); [exact HB | exact HC |].
  pose proof (valid_rows_wf n A HA) as F. rewrite Forall_forall in F. apply (F r Hr).
Qed.

Theorem compose_id_r : forall n A, valid_map n A -> compose A (identity_map n) = A.
Proof.
  intros n A HA. unfold compose, pauli_transform.
  transitivity (map (fun x : pauli => x) A); [|apply map_id].
  apply map_ext_in. intros r Hr. apply transform_identity.
  pose proof (valid_rows_wf n A HA) as F. rewrite Forall_forall in F. apply (F r Hr).
Qed.

Lemma map_nth_seq : forall (l : plist) d, map (fun k => nth k l d) (seq 0 (length l)) = l.
Proof.
  intros l d. induction l as [|a l IH]; [reflexivity|].
  cbn [length seq map nth]. f_equal. rewrite <- seq_shift, map_map. exact IH.
Qed.

Theorem compose_id_l : forall n A, valid_map n A -> compose (identity_map n) A = A.
Proof.
  intros n A HA. unfold compose, pauli_transform, identity_map. rewrite map_map.
  destruct HA as [LA HA'].
  transitivity (map (fun k => nth k A (pid 0)) (seq 0 (2 * n))); [|rewrite <- LA; apply map_nth_seq].
  apply map_ext_in. intros k Hk. apply in_seq in Hk.
  apply (transform_unit n A k); [split; [exact LA | exact HA'] | lia].
Qed.

