(* Proofs/RandomBijectionFacts.v -- random_clifford_from is a bijection from the accepted draw sequences
   (n anticommuting pairs, the j-th on n-j qubits) onto the symplectic tables on n qubits, for every n. *)
From Coq Require Import ZArith List Bool Lia ZifyBool Arith.
From PC Require Import Gen.Kernels Model.Base Model.Pauli Model.Ket Model.CMap Model.Spec Model.Diag Model.Random.
From PC Require Import Proofs.PauliFacts Proofs.Transform Proofs.DiagFacts Proofs.RandomCliffordFacts Proofs.GeneratedFacts.
Import ListNotations.
Open Scope Z_scope.

(* exactly n pairs, the j-th on n-j qubits, anticommuting *)
Definition draw_ok (n : nat) (pairs : list (pstr * pstr)) : Prop := length pairs = n /\ pairs_ok n pairs.

(* ------------------------------------------------------------------ helpers *)
(* a rotation sequence acts injectively on row lists of the right width *)
Lemma map_apply_gens_inj : forall w gens (l1 l2 : list pstr),
  Forall (fun x : pstr => length x = w) gens ->
  Forall (fun r : pstr => length r = w) l1 -> Forall (fun r : pstr => length r = w) l2 ->
  map (apply_gens gens) l1 = map (apply_gens gens) l2 -> l1 = l2.
Proof.
  intros w gens l1 l2 HG H1 H2 HE.
  assert (HI : forall l, Forall (fun r : pstr => length r = w) l ->
               map (apply_gens (rev gens)) (map (apply_gens gens) l) = l).
  { intros l Hl. rewrite map_map. rewrite <- (map_id l) at 2. apply map_ext_in. intros a Ha.
    apply apply_gens_rev_inv. rewrite Forall_forall in Hl. rewrite (Hl a Ha). exact HG. }
  rewrite <- (HI l1 H1), <- (HI l2 H2), HE. reflexivity.
Qed.

Lemma map_cons_inj : forall (s : site) (l1 l2 : list pstr),
  map (fun r => s :: r) l1 = map (fun r => s :: r) l2 -> l1 = l2.
Proof.
  intros s. induction l1 as [|a l1 IH]; intros [|b l2] H; try discriminate H; [reflexivity|].
  cbn [map] in H. injection H as Hab Hl. subst b. f_equal. apply IH. exact Hl.
Qed.

(* the facts about the first level used by both directions *)
Lemma level_facts : forall m (g1 g2 : pstr), length g1 = S (S m) -> length g2 = S (S m) -> acq g1 g2 = 1 ->
  let R := fst (fst (diagonalize2 g1 g2 0)) in
  let a' := snd (fst (diagonalize2 g1 g2 0)) in
  let b' := snd (diagonalize2 g1 g2 0) in
  Forall (fun x : pstr => length x = S (S m)) R /\
  apply_gens R g1 = a' /\ apply_gens R g2 = b' /\
  a' = site1 (S m) (false, true) /\ (exists z, b' = site1 (S m) (true, z)).
Proof.
  intros m g1 g2 H1 H2 HA R a' b'.
  assert (Hi : (0 < length g1)%nat) by (rewrite H1; lia).
  assert (HL : length g2 = length g1) by (rewrite H1, H2; reflexivity).
  pose proof (diag2_gens_length g1 g2 0%nat Hi HL) as HG. rewrite H1 in HG.
  destruct (diag2_proj g1 g2 Hi HL HA) as [D1 [D2 [D3 [D4 D5]]]].
  fold R in HG, D1, D2. fold a' in D1, D3. fold b' in D2, D4, D5.
  rewrite H1, z_at_0_site1 in D3.
  assert (Lb' : length b' = S (S m)).
  { rewrite <- D2. rewrite apply_gens_length; [exact H2|]. rewrite H2. exact HG. }
  pose proof (onsite0_shape (S m) b' Lb' D4) as Eb'.
  destruct (sget b' 0) as [x z] eqn:Es. cbn [fst] in D5. subst x.
  split; [exact HG|]. split; [exact D1|]. split; [exact D2|]. split; [exact D3|]. exists z. exact Eb'.
Qed.

Lemma site1_length : forall n s, length (site1 n s) = S n.
Proof. intros n s. unfold site1. cbn [length]. rewrite id_str_length. reflexivity. Qed.

(* ------------------------------------------------------------------ injectivity *)
Theorem random_clifford_injective : forall n p q, draw_ok n p -> draw_ok n q ->
  random_clifford_from n p = random_clifford_from n q -> p = q.
Proof.
  induction n as [|m IH]; intros p q [Lp Hp] [Lq Hq] HE.
  - destruct p; [|discriminate Lp]. destruct q; [|discriminate Lq]. reflexivity.
  - destruct p as [|[g1 g2] rest]; [discriminate Lp|]. destruct q as [|[h1 h2] rest']; [discriminate Lq|].
    cbn [length] in Lp, Lq. injection Lp as Lp. injection Lq as Lq.
    destruct (random_clifford_first_pair (S m) g1 g2 rest ltac:(lia) Hp) as [P1 P2].
    destruct (random_clifford_first_pair (S m) h1 h2 rest' ltac:(lia) Hq) as [Q1 Q2].
    rewrite HE in P1, P2. rewrite Q1 in P1. rewrite Q2 in P2. subst h1 h2.
    f_equal.
    destruct m as [|m].
    + destruct rest; [|discriminate Lp]. destruct rest'; [|discriminate Lq]. reflexivity.
    + destruct Hp as [[H1 [H2 HA]] Hrest]. destruct Hq as [_ Hrest']. cbn [fst snd] in *.
      destruct (level_facts m g1 g2 H1 H2 HA) as [HG [D1 [D2 [D3 [z D4]]]]].
      rewrite !random_clifford_SS in HE.
      destruct (random_clifford_shape (S m) rest ltac:(lia) Hrest) as [_ HF1].
      destruct (random_clifford_shape (S m) rest' ltac:(lia) Hrest') as [_ HF2].
      assert (HW : forall sub, Forall (fun r : pstr => length r = S m) sub ->
                 Forall (fun r : pstr => length r = S (S m))
                   (snd (fst (diagonalize2 g1 g2 0)) :: snd (diagonalize2 g1 g2 0) :: map (fun r => I_site :: r) sub)).
      { intros sub Hs. constructor; [rewrite D3; apply site1_length|].
        constructor; [rewrite D4; apply site1_length|].
        apply Forall_map. eapply Forall_impl; [|exact Hs]. intros r Lr. cbn [length]. rewrite Lr. reflexivity. }
      apply (map_apply_gens_inj (S (S m))) in HE; [|apply Forall_rev; exact HG|apply HW; exact HF1|apply HW; exact HF2].
      injection HE as HE. apply map_cons_inj in HE.
      apply IH; [split; assumption|split; assumption|exact HE].
Qed.

(* ------------------------------------------------------------------ surjectivity *)
(* rows commuting with two anticommuting one-site operators on qubit 0 are trivial there *)
Lemma commute_site0_pad2 : forall n s t (r : pstr), length r = S n -> acqb_site s t = true ->
  acqb (site1 n s) r = false -> acqb (site1 n t) r = false -> r = pad (tl r).
Proof.
  intros n [sx sz] [tx tz] [|[x z] u] HL Hst HX HZ; [discriminate HL|]. unfold site1, pad in *. cbn [tl].
  rewrite acqb_cons, acqb_id_l, xorb_false_r in HX, HZ.
  destruct sx, sz, tx, tz, x, z; try discriminate Hst; try discriminate HX; try discriminate HZ; reflexivity.
Qed.

Lemma sym_rows_peel2 : forall n s t rest,
  sym_rows (S n) (S n) (site1 n s :: site1 n t :: rest) ->
  exists rest2, rest = map pad rest2 /\ sym_rows n n rest2.
Proof.
  intros n s t rest [HL [HF HS]]. cbn [length] in HL.
  assert (HLr : length rest = (2 * n)%nat) by lia.
  inversion_clear HF as [|? ? _ HF1]. inversion_clear HF1 as [|? ? _ HFr].
  assert (Hst : acqb_site s t = true).
  { pose proof (HS 0%nat 1%nat ltac:(lia) ltac:(lia)) as H. cbn [nth] in H.
    rewrite acq_acqb in H. unfold site1 in H. rewrite acqb_cons, acqb_id_l, xorb_false_r in H.
    destruct (acqb_site s t); [reflexivity|discriminate H]. }
  assert (HP : forall r, In r rest -> r = pad (tl r)).
  { intros r Hr. destruct (In_nth rest r [] Hr) as [i [Hi E]].
    rewrite Forall_forall in HFr.
    pose proof (HS 0%nat (S (S i)) ltac:(lia) ltac:(lia)) as H0.
    pose proof (HS 1%nat (S (S i)) ltac:(lia) ltac:(lia)) as H1.
    cbn [nth] in H0, H1. rewrite E in H0, H1.
    rewrite expected_acq_0_SS, acq_acqb in H0. rewrite expected_acq_1_SS, acq_acqb in H1.
    apply (commute_site0_pad2 n s t); [apply HFr; exact Hr | exact Hst | |].
    - destruct (acqb (site1 n s) r); [discriminate H0 | reflexivity].
    - destruct (acqb (site1 n t) r); [discriminate H1 | reflexivity]. }
  assert (HE : rest = map pad (map (@tl site) rest)).
  { rewrite map_map. rewrite <- (map_id rest) at 1. apply map_ext_in. exact HP. }
  assert (HL2 : length (map (@tl site) rest) = (2 * n)%nat) by (rewrite map_length; exact HLr).
  remember (map (@tl site) rest) as rest2 eqn:ER.
  exists rest2. split; [exact HE|].
  split; [exact HL2|]. split.
  - rewrite Forall_forall in *. intros u Hu. rewrite ER in Hu. apply in_map_iff in Hu. destruct Hu as [r [E Hr]]. subst u.
    pose proof (HFr r Hr) as Lr. rewrite (HP r Hr) in Lr. unfold pad in Lr. cbn [length] in Lr. lia.
  - intros i j Hi Hj.
    pose proof (HS (S (S i)) (S (S j)) ltac:(lia) ltac:(lia)) as H. cbn [nth] in H.
    rewrite expected_acq_SS in H. rewrite <- H. rewrite HE.
    rewrite !nth_map_nil by (eapply Nat.lt_le_trans; [eassumption | apply Nat.eq_le_incl; symmetry; exact HL2]).
    unfold pad. rewrite !acq_acqb, acqb_cons, acqb_site_I_l, xorb_false_l. reflexivity.
Qed.

Lemma random_clifford_surjective_S : forall m rows, sym_rows (S m) (S m) rows ->
  exists p, draw_ok (S m) p /\ random_clifford_from (S m) p = rows.
Proof.
  induction m as [|m IH]; intros rows HSym.
  - pose proof HSym as [HL [HF HS]].
    destruct rows as [|a [|b [|c rest]]]; try (cbn [length] in HL; lia).
    inversion_clear HF as [|? ? La HF1]. inversion_clear HF1 as [|? ? Lb _].
    assert (HA : acq a b = 1) by (exact (HS 0%nat 1%nat ltac:(lia) ltac:(lia))).
    exists [(a, b)]. split; [|reflexivity].
    split; [reflexivity|]. cbn [pairs_ok]. split; [|exact I]. split; [exact La|]. split; [exact Lb|exact HA].
  - pose proof HSym as [HL [HF HS]].
    destruct rows as [|a [|b rest]]; try (cbn [length] in HL; lia).
    pose proof HF as HF0. inversion_clear HF0 as [|? ? La HF1]. inversion_clear HF1 as [|? ? Lb _].
    assert (HA : acq a b = 1) by (exact (HS 0%nat 1%nat ltac:(lia) ltac:(lia))).
    destruct (level_facts m a b La Lb HA) as [HG [D1 [D2 [D3 [z D4]]]]].
    pose proof (sym_rows_gens (S (S m)) (S (S m)) _ _ HSym HG) as HSym1.
    cbn [map] in HSym1. rewrite D1, D2 in HSym1.
    pose proof HSym1 as HSym1'. rewrite D3, D4 in HSym1'.
    destruct (sym_rows_peel2 (S m) _ _ _ HSym1') as [rest2 [E2 HSym2]].
    destruct (IH rest2 HSym2) as [p2 [[Lp2 Hp2] HR2]].
    exists ((a, b) :: p2). split.
    + split; [cbn [length]; rewrite Lp2; reflexivity|].
      split; [|exact Hp2]. split; [exact La|]. split; [exact Lb|exact HA].
    + rewrite random_clifford_SS, HR2.
      transitivity (map (apply_gens (rev (fst (fst (diagonalize2 a b 0)))))
                (map (apply_gens (fst (fst (diagonalize2 a b 0)))) (a :: b :: rest))).
      { apply f_equal. cbn [map]. rewrite D1, D2, E2. reflexivity. }
      rewrite map_map. rewrite <- (map_id (a :: b :: rest)) at 2. apply map_ext_in. intros r Hr.
      apply apply_gens_rev_inv. rewrite Forall_forall in HF. rewrite (HF r Hr). exact HG.
Qed.

Theorem random_clifford_surjective : forall n rows, (1 <= n)%nat -> sym_rows n n rows ->
  exists p, draw_ok n p /\ random_clifford_from n p = rows.
Proof.
  intros [|m] rows Hn HSym; [lia|]. apply random_clifford_surjective_S. exact HSym.
Qed.

(* ------------------------------------------------------------------ corollaries *)
Corollary random_clifford_bijection : forall n, (1 <= n)%nat ->
   (forall rows, sym_rows n n rows -> exists! p, draw_ok n p /\ random_clifford_from n p = rows).
Proof.
  intros n Hn rows HSym. destruct (random_clifford_surjective n rows Hn HSym) as [p [Hp HR]].
  exists p. split; [split; assumption|].
  intros q [Hq HRq]. apply (random_clifford_injective n); [exact Hp|exact Hq|]. rewrite HR, HRq. reflexivity.
Qed.

Corollary random_clifford_NoDup : forall n ps, Forall (draw_ok n) ps -> NoDup ps ->
  NoDup (map (random_clifford_from n) ps).
Proof.
  intros n ps HF HN. induction HN as [|p ps Hnin HN IH]; [constructor|].
  inversion_clear HF as [|? ? Hp HF']. cbn [map]. constructor; [|apply IH; exact HF'].
  intros Hin. apply in_map_iff in Hin. destruct Hin as [q [HE Hq]].
  rewrite Forall_forall in HF'. assert (q = p) by (apply (random_clifford_injective n); [apply HF'; exact Hq|exact Hp|exact HE]).
  subst q. exact (Hnin Hq).
Qed.

(* the range statement packaged with the bijection: outputs of accepted draws are symplectic tables *)
Corollary random_clifford_range : forall n p, (1 <= n)%nat -> draw_ok n p -> sym_rows n n (random_clifford_from n p).
Proof.
  intros [|m] p Hn [_ Hp]; [lia|]. apply random_clifford_sym. exact Hp.
Qed.

(* ------------------------------------------------------------------ small-instance checks *)
Example surj_check_2 :
  let rows := random_clifford_from 2 [([(true, true); (false, true)], [(false, true); (false, true)]);
                                      ([(true, true)], [(false, true)])] in
  symplectic_b rows = true /\
  let '(R, a', b') := diagonalize2 (nth 0 rows []) (nth 1 rows []) 0 in
  map (apply_gens (rev R)) (map (apply_gens R) rows) = rows /\
  map (apply_gens R) rows = [a'; b'; [I_site; (true, true)]; [I_site; (false, true)]].
Proof. vm_compute. split; [reflexivity|]. split; reflexivity. Qed.
