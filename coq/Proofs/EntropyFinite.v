(* Proofs/EntropyFinite.v -- the pure-state branch of stabilizer_entropy (half the GF(2) rank of the commutation matrix of the region-restricted crossing
   stabilizers) equals the reference formula |A| - L + rank(generators restricted to the complement), decided by complete enumeration for N <= 3:
   every list of N commuting independent Pauli strings (every generating set of every pure stabilizer state, all orders) x every region. *)
From Coq Require Import ZArith List Bool.
From PC Require Import Model.Base Model.Pauli Model.Z2 Model.CMap Model.Tableau Model.Entropy Model.Diag Model.Random.
Import ListNotations.
Open Scope Z_scope.

Fixpoint all_masks (n : nat) : list (list bool) :=
  match n with O => [[]] | S m => map (cons false) (all_masks m) ++ map (cons true) (all_masks m) end.

(* all lists of k strings on n qubits that commute with each other *)
Fixpoint commuting_lists (n k : nat) : list (list pstr) :=
  match k with
  | O => [[]]
  | S k' => flat_map (fun l => flat_map (fun g => if forallb (fun h => acq g h =? 0) l then [g :: l] else []) (all_strs n)) (commuting_lists n k')
  end.
Definition pure_generating_sets (n : nat) : list (list pstr) :=
  filter (fun l => Nat.eqb (z2rank (map flat l)) n) (commuting_lists n n).

Definition pure_branch_agrees (n : nat) : bool :=
  forallb (fun gs => forallb (fun m => entropy_of n gs m =? entropy_ref gs m) (all_masks n)) (pure_generating_sets n).

Lemma pure_sets_count : length (pure_generating_sets 1) = 3%nat /\ length (pure_generating_sets 2) = 90%nat.
Proof. vm_compute. split; reflexivity. Qed.
Lemma pure_branch_1 : pure_branch_agrees 1 = true. Proof. vm_compute. reflexivity. Qed.
Lemma pure_branch_2 : pure_branch_agrees 2 = true. Proof. vm_compute. reflexivity. Qed.
Lemma pure_branch_3 : pure_branch_agrees 3 = true. Proof. vm_compute. reflexivity. Qed.

(* region and complement have equal entropy for pure states (N <= 3), through the code's own formula *)
Definition complement_symmetric (n : nat) : bool :=
  forallb (fun gs => forallb (fun m => entropy_of n gs m =? entropy_of n gs (map negb m)) (all_masks n)) (pure_generating_sets n).
Lemma complement_1 : complement_symmetric 1 = true. Proof. vm_compute. reflexivity. Qed.
Lemma complement_2 : complement_symmetric 2 = true. Proof. vm_compute. reflexivity. Qed.
Lemma complement_3 : complement_symmetric 3 = true. Proof. vm_compute. reflexivity. Qed.
