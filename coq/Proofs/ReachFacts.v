(* Proofs/ReachFacts.v -- every state reachable through the public operations satisfies the tableau
   invariant; constructors; stabilizer_state. *)
From Coq Require Import ZArith List Bool Lia ZifyBool Arith.
From PC Require Import Gen.Kernels Model.Base Model.Pauli Model.Ket Model.CMap Model.Tableau Model.Circuit Model.Spec
  Proofs.PauliFacts Proofs.Transform Proofs.CircuitFacts Proofs.MaskFacts Proofs.CompileFacts Proofs.TableauInv.
Import ListNotations.
Open Scope Z_scope.
Ltac Zify.zify_post_hook ::= Z.to_euclidean_division_equations.

(* ------------------------------------------------------------------ consequences of the invariant *)
Theorem ok_active_commute : forall n t i j, tableau_ok n t -> (i < n)%nat -> (j < n)%nat ->
  acq (fst (row (rows t) i)) (fst (row (rows t) j)) = 0.
Proof.
  intros n t i j [_ [_ [_ [_ H]]]] Hi Hj. rewrite H by lia. unfold tab_expected_acq.
  destruct (Nat.eqb_spec (i + n) j); [lia|]. destruct (Nat.eqb_spec (j + n) i); [lia|]. reflexivity.
Qed.

Theorem ok_active_count : forall n t, tableau_ok n t -> length (stabilizers t) = (n - rk t)%nat.
Proof.
  intros n t [HL [Hr _]]. unfold stabilizers. rewrite (tN_ok n t HL).
  rewrite firstn_length, skipn_length, HL. lia.
Qed.

(* ------------------------------------------------------------------ one_state *)
Lemma row_map_in : forall (f : pauli -> pauli) l i, (i < length l)%nat -> row (map f l) i = f (row l i).
Proof.
  intros f l i H. unfold row. rewrite (nth_indep _ (pid 0) (f (pid 0))) by (rewrite map_length; exact H).
  apply map_nth.
Qed.

Theorem one_state_ok : forall n, tableau_ok n {| rows := map (fun a => (fst a, 2)) (rows (zero_state n)); rk := 0 |}.
Proof.
  intros n. destruct (zero_state_ok n) as [HL [Hr [Hlen [Hh Hacq]]]].
  unfold tableau_ok. cbn [rows rk]. split; [rewrite map_length; exact HL|]. split; [lia|].
  split; [|split].
  - intros i Hi. rewrite row_map_in by (rewrite HL; exact Hi). cbn [fst]. apply Hlen; exact Hi.
  - intros i Hi. rewrite row_map_in by (rewrite HL; exact Hi). right. reflexivity.
  - intros i j Hi Hj. rewrite !row_map_in by (rewrite HL; assumption). cbn [fst]. apply Hacq; assumption.
Qed.

(* ------------------------------------------------------------------ the alphabet of public state-changing operations *)
Inductive sop :=
| SRotate (gen : pauli) (m : option (list bool))
| STransform (mp : cmap) (m : option (list bool))
| SGateF (g : gate) | SGateB (g : gate)
| SMeasure (obs : plist) (coins : list Z)
| SMeasureLayer (qs : list nat) (coins : list Z)
| SPostselect (p : pauli) (res : Z)
| SCopy
| SRoundTrip.

Definition sstep (n : nat) (t : tableau) (o : sop) : option tableau :=
  match o with
  | SRotate gen m => Some {| rows := rotate_by gen m (rows t); rk := rk t |}
  | STransform mp m => Some {| rows := transform_by mp m (rows t); rk := rk t |}
  | SGateF g => state_apply (gate_forward n g) t
  | SGateB g => state_apply (gate_backward n g) t
  | SMeasure obs coins => Some (fst (fst (fst (measure t obs coins))))
  | SMeasureLayer qs coins => Some (fst (fst (fst (mlayer_forward t qs coins))))
  | SPostselect p res => match postselect t p res with Some (t', _) => Some t' | None => None end
  | SCopy => Some t
  | SRoundTrip => Some (to_state (to_map t) (rk t))
  end.

(* number of qubits an operator must have to be used with mask [m] on an n-qubit register *)
Definition msize (n : nat) (m : option (list bool)) : nat :=
  match m with None => n | Some mk => count_true mk end.
Definition mask_len_ok (n : nat) (m : option (list bool)) : Prop :=
  match m with None => True | Some mk => length mk = n end.
Definition coin_ok (c : Z) : Prop := c = 0 \/ c = 1.

Definition sop_ok (n : nat) (o : sop) : Prop :=
  match o with
  | SRotate gen m => mask_len_ok n m /\ wf (msize n m) gen /\ hermP gen
  | STransform mp m => mask_len_ok n m /\ valid_map (msize n m) mp
  | SGateF g => gate_proper n g
  | SGateB g => gate_proper n g
  | SMeasure obs coins => Forall (fun o => length (fst o) = n) obs /\ Forall coin_ok coins
  | SMeasureLayer qs coins => Forall (fun q => (q < n)%nat) qs /\ Forall coin_ok coins
  | SPostselect p res => length (fst p) = n /\ hermP p /\ (res = 0 \/ res = 1)
  | SCopy => True
  | SRoundTrip => True
  end.

Lemma tableau_rows_wf : forall n t, tableau_ok n t -> Forall (wf n) (rows t).
Proof.
  intros n t [HL [_ [Hlen [Hh _]]]]. apply Forall_forall. intros a Ha.
  destruct (In_nth _ _ (pid 0) Ha) as [i [Hi E]]. rewrite HL in Hi.
  specialize (Hlen i Hi). specialize (Hh i Hi). unfold row in Hlen, Hh. rewrite E in Hlen, Hh.
  apply herm_wf; assumption.
Qed.

Lemma z_obs_length : forall n q, length (fst (z_obs n q)) = n.
Proof. intros. unfold z_obs. cbn [fst]. rewrite length_upd. unfold id_str. apply repeat_length. Qed.

Theorem sstep_ok : forall n t o t', tableau_ok n t -> sop_ok n o -> sstep n t o = Some t' -> tableau_ok n t'.
Proof.
  intros n t o t' Hok Ho H. destruct o as [gen m|mp m|g|g|obs coins|qs coins|p res| |]; cbn [sstep sop_ok] in *.
  - injection H as <-. destruct Ho as [Hm [Hw Hh]]. destruct m as [mk|]; cbn [rotate_by msize mask_len_ok] in *.
    + apply (rotate_masked_tableau_ok n (count_true mk)); auto.
    + apply rotate_tableau_ok; assumption.
  - injection H as <-. destruct Ho as [Hm Hv]. destruct m as [mk|]; cbn [transform_by msize mask_len_ok] in *.
    + apply (transform_masked_tableau_ok n (count_true mk)); auto.
    + apply transform_tableau_ok; assumption.
  - pose proof (tableau_rows_wf n t Hok) as Hwf.
    destruct (gate_compile_ok n g Ho) as (fm & bm & HC & Vf & Vb & _).
    unfold state_apply in H. rewrite (gate_forward_tm n g fm bm (rows t) Ho HC Hwf) in H. injection H as <-.
    apply (transform_masked_tableau_ok n (length (gq g))); auto.
    + apply gmask_length.
    + apply gmask_count. apply gate_proper_ok; exact Ho.
  - pose proof (tableau_rows_wf n t Hok) as Hwf.
    destruct (gate_compile_ok n g Ho) as (fm & bm & HC & Vf & Vb & _).
    unfold state_apply in H. rewrite (gate_backward_tm n g fm bm (rows t) Ho HC Hwf) in H. injection H as <-.
    apply (transform_masked_tableau_ok n (length (gq g))); auto.
    + apply gmask_length.
    + apply gmask_count. apply gate_proper_ok; exact Ho.
  - injection H as <-. destruct Ho as [H1 H2].
    pose proof (measure_ok n obs t coins Hok H1 H2) as M.
    destruct (measure t obs coins) as [[[t1 outs] lp] rest]. cbn [fst]. apply M.
  - injection H as <-. destruct Ho as [H1 H2]. pose proof Hok as [HL _].
    unfold mlayer_forward. rewrite (tN_ok n t HL). cbv zeta.
    assert (Hobs : Forall (fun o => length (fst o) = n) (map (z_obs n) qs)).
    { apply Forall_forall. intros a Ha. apply in_map_iff in Ha. destruct Ha as [q [<- _]]. apply z_obs_length. }
    pose proof (measure_ok n (map (z_obs n) qs) t coins Hok Hobs H2) as M.
    destruct (measure t (map (z_obs n) qs) coins) as [[[t1 outs] lp] rest]. cbn [fst]. apply M.
  - destruct Ho as [H1 [H2 H3]]. unfold postselect in H.
    destruct (Nat.eqb_spec (rk t) 0) as [E|E]; [|discriminate H].
    set (o := (fst p, (snd p + res * 2) mod 4)) in *.
    assert (Ho1 : length (fst o) = n) by exact H1.
    assert (Ho2 : hermP o).
    { unfold hermP, o. cbn [snd]. unfold hermP in H2. destruct H2 as [K|K]; destruct H3 as [R|R]; rewrite K, R;
        [left|right|right|left]; reflexivity. }
    pose proof (postselect1_ok n t o Hok E Ho1 Ho2) as P.
    destruct (postselect1 t o) as [t1 pr]. injection H as <-. exact P.
  - injection H as <-. exact Hok.
  - injection H as <-. apply to_state_ok; [apply to_map_valid; exact Hok | apply Hok].
Qed.

Theorem reachable_ok : forall n t ops t', tableau_ok n t -> Forall (sop_ok n) ops ->
   fold_left (fun acc o => match acc with Some s => sstep n s o | None => None end) ops (Some t) = Some t' ->
   tableau_ok n t'.
Proof.
  intros n t ops. revert t. induction ops as [|o ops IH]; intros t t' Hok HF H; cbn [fold_left] in H.
  - injection H as <-. exact Hok.
  - inversion_clear HF as [|? ? Ho HF']. destruct (sstep n t o) as [t1|] eqn:E.
    + apply (IH t1 t'); [|exact HF'|exact H]. apply (sstep_ok n t o t1); assumption.
    + exfalso. clear - H. induction ops as [|o' ops IH]; cbn [fold_left] in H; [discriminate H|auto].
Qed.

(* ------------------------------------------------------------------ stabilizer_state keeps the invariant *)
Lemma set_phase_overflow : forall l j p, (length l <= j)%nat -> set_phase l j p = l.
Proof. intros. unfold set_phase. apply upd_overflow. assumption. Qed.

Lemma set_phases_from_ok : forall n ps l j, strs_ok n l -> phs_ok n l -> Forall (fun p => p = 0 \/ p = 2) ps ->
  strs_ok n (set_phases_from l j ps) /\ phs_ok n (set_phases_from l j ps).
Proof.
  intros n. induction ps as [|p ps IH]; intros l j Hs Hp HF; cbn [set_phases_from]; [auto|].
  inversion_clear HF as [|? ? Hp0 HF'].
  destruct (Nat.lt_ge_cases j (2 * n)) as [Hj|Hj].
  - destruct (set_phase_ok n l j p Hs Hp Hj Hp0) as [Q1 Q2]. apply IH; assumption.
  - rewrite set_phase_overflow by (destruct Hs as [HL _]; rewrite HL; exact Hj). apply IH; assumption.
Qed.

Theorem stabilizer_state_ok : forall n stabs t, Forall (fun a => length (fst a) = n /\ hermP a) stabs ->
   stabilizer_state n stabs = Some t -> tableau_ok n t.
Proof.
  intros n stabs t HF H. unfold stabilizer_state in H.
  destruct (all_commute _); [|discriminate H]. injection H as <-.
  assert (Hgos : Forall (fun g => length g = n) (rev (map fst stabs))).
  { apply Forall_rev. apply Forall_forall. intros g Hg. apply in_map_iff in Hg. destruct Hg as [a [<- Ha]].
    rewrite Forall_forall in HF. apply (HF a Ha). }
  pose proof (project_ok n _ (mixed_state n) (mixed_state_ok n) Hgos) as Hok.
  apply tableau_ok_iff in Hok. destruct Hok as [Hs [Hp Hr]].
  assert (Hps : Forall (fun p => p = 0 \/ p = 2) (map snd stabs)).
  { apply Forall_forall. intros p Hp'. apply in_map_iff in Hp'. destruct Hp' as [a [<- Ha]].
    rewrite Forall_forall in HF. apply (HF a Ha). }
  apply tableau_ok_iff. cbn [rows rk].
  destruct (set_phases_from_ok n _ _ (rk (project (mixed_state n) (rev (map fst stabs)))) Hs Hp Hps) as [Q1 Q2].
  auto.
Qed.

Theorem stabilizer_state_rejects : forall n stabs,
  (exists a b, In a stabs /\ In b stabs /\ acq (fst a) (fst b) = 1) -> stabilizer_state n stabs = None.
Proof.
  intros n stabs [a [b [Ha [Hb E]]]]. unfold stabilizer_state.
  destruct (all_commute _) eqn:C; [|reflexivity]. exfalso.
  unfold all_commute in C. rewrite forallb_forall in C.
  specialize (C (fst a) (in_map fst _ _ Ha)). rewrite forallb_forall in C.
  specialize (C (fst b) (in_map fst _ _ Hb)). rewrite E in C. discriminate C.
Qed.

(* ------------------------------------------------------------------ non-degeneracy: a string commuting with all 2n rows is the identity *)
Lemma tableau_nondeg : forall n t g, tableau_ok n t -> length g = n ->
  (forall j, (j < 2 * n)%nat -> acqb (fst (prow (rows t) j)) g = false) -> g = id_str n.
Proof.
  intros n t g Hok Lg Hc. pose proof Hok as [HL _].
  pose proof (to_map_valid n t Hok) as HV. set (m := to_map t) in *.
  destruct (InverseFacts.inverse_exists n m HV) as [m' HI].
  pose proof (InverseFacts.inverse_valid n m m' HV HI) as HV'.
  pose proof (InverseFacts.inverse_right n m m' HV HI) as HR.
  assert (Hrows : forall k, (k < 2 * n)%nat -> transform1 m' (row m k) = (unit_str n k, 0)).
  { intros k Hk. unfold compose, pauli_transform in HR.
    rewrite <- (InverseFacts.row_identity n k Hk), <- HR.
    symmetry. apply row_map_in. destruct HV as [HLm _]. rewrite HLm. exact Hk. }
  assert (Hm : forall k, (k < 2 * n)%nat -> acqb (fst (row m k)) g = false).
  { intros k Hk. destruct (midx_cover n k Hk) as [q [e [Hq E]]]. rewrite E. unfold m, to_map.
    rewrite (row_state_to_map n) by assumption. apply Hc. apply pidx_lt; exact Hq. }
  assert (Hmlen : forall k, (k < 2 * n)%nat -> length (fst (row m k)) = n).
  { intros k Hk. destruct HV as [_ [HR' _]]. apply (HR' k Hk). }
  set (a' := transform1 m' (g, 0)).
  assert (Wa : wf n a') by (apply transform_wf; [exact HV' | exact Lg]).
  destruct Wa as [La Ra].
  assert (Hbits : forall k, (k < 2 * n)%nat -> acqb (unit_str n k) (fst a') = false).
  { intros k Hk. apply zb_inj. rewrite <- acq_acqb.
    pose proof (transform_acq n m' (row m k) (g, 0) HV' (Hmlen k Hk) Lg) as T.
    rewrite (Hrows k Hk) in T. cbn [fst] in T. fold a' in T. rewrite T, acq_acqb. f_equal. exact (Hm k Hk). }
  assert (Hid : fst a' = id_str n).
  { apply InverseFacts.flat_inj. apply nth_ext with (d := false) (d' := false).
    - rewrite !flat_length, La. unfold id_str. rewrite repeat_length. reflexivity.
    - intros j Hj. rewrite flat_length, La in Hj.
      pose proof (InverseFacts.partner_lt n j Hj) as Hp.
      rewrite InverseFacts.flat_id_str_nth.
      rewrite <- (InverseFacts.partner_invol j).
      rewrite <- (InverseFacts.acqb_unit_str n (InverseFacts.partner j) (fst a') La Hp).
      apply Hbits. exact Hp. }
  assert (E : transform1 m' (g, 0) = transform1 m' (id_str n, snd a')).
  { assert (E1 : (id_str n, snd a') = pscale (snd a') (pid n)).
    { unfold pscale, pid. cbn [fst snd]. f_equal. lia. }
    rewrite E1, transform_scale, (transform_pid n m' HV'), <- E1. fold a'.
    rewrite <- Hid. destruct a'; reflexivity. }
  apply (InverseFacts.transform_injective n m' _ _ HV') in E.
  - injection E as E _. exact E.
  - split; cbn [fst snd]; [exact Lg | lia].
  - split; cbn [fst snd]; [unfold id_str; apply repeat_length | exact Ra].
Qed.

(* ------------------------------------------------------------------ one projection that extends the stabilizer group *)
Local Open Scope nat_scope.

Lemma fst_prow_l2 : forall l p q go f k, p < length l -> q < length l ->
  fst (prow (set_str (set_str l q f) p go) k) = if k =? p then go else if k =? q then f else fst (prow l k).
Proof.
  intros l p q go f k Hp Hq. rewrite fst_prow_set_str by (rewrite length_set_str; exact Hp).
  destruct (k =? p); [reflexivity|]. rewrite fst_prow_set_str by exact Hq. reflexivity.
Qed.

Lemma project1_extend : forall n t go, tableau_ok n t -> length go = n ->
  (forall j, rk t <= j -> j < n -> anti go (rows t) j = false) ->
  ~ (forall j, j < 2 * n -> j < n + rk t -> anti go (rows t) j = false) ->
  1 <= rk t /\ rk (project1 t go) = rk t - 1 /\
  fst (prow (rows (project1 t go)) (rk t - 1)) = go /\
  forall j, rk t <= j -> j < n -> fst (prow (rows (project1 t go)) j) = fst (prow (rows t) j).
Proof.
  intros n t go Hok Hgo Hact Hex. pose proof Hok as [HL [Hr _]].
  unfold project1. rewrite (tN_ok n t HL). cbv zeta.
  pose proof (scan_char n (rk t) go (rows t) (order_plain n) (ord_ok_plain n (rk t)) HL) as C. cbv zeta in C.
  set (s := scan_over (order_plain n) n (rk t) go (rows t)) in *.
  set (r := rk t) in *. set (l := rows t) in *.
  destruct C as [[_ [_ C]]|[C0 [C1 [C2 [C3 [C4 [C5 [C6 _]]]]]]]].
  { exfalso. apply Hex. exact C. }
  rewrite C0. set (p := s_p s) in *. set (ls := s_rows s) in *.
  assert (Hpna : ~ (r <= p /\ p < n)).
  { intros [A B]. rewrite (Hact p A B) in C3. discriminate C3. }
  assert (Hext : s_extend s = true).
  { rewrite C4. destruct (Nat.leb_spec r p); destruct (Nat.ltb_spec p n); cbn [andb negb]; try reflexivity. lia. }
  assert (Hr1 : 1 <= r) by lia.
  assert (Hls : forall j, r <= j -> j < n -> prow ls j = prow l j).
  { intros j A B. rewrite C6 by lia. rewrite (Hact j A B). reflexivity. }
  assert (HLs : length ls = 2 * n) by (rewrite C5; exact HL).
  unfold install. cbv zeta. rewrite Hext. fold p. fold ls.
  change ((p + n) mod (2 * n)) with (partner n p).
  change ((r - 1 + n) mod (2 * n)) with (partner n (r - 1)).
  set (q := partner n p).
  assert (Hq : q < 2 * n) by (apply partner_lt; exact C2).
  assert (Hqs : (p < r /\ q = p + n) \/ (n <= p /\ q = p - n)).
  { unfold q. destruct (partner_spec n p C2) as [[A B]|[A B]]; [left|right]; split; auto; lia. }
  set (l2 := set_str (set_str ls q (fst (prow ls p))) p go).
  assert (HL2 : length l2 = 2 * n) by (unfold l2; rewrite !length_set_str; exact HLs).
  assert (F2 : forall k, fst (prow l2 k) = if k =? p then go else if k =? q then fst (prow ls p) else fst (prow ls k)).
  { intros k. unfold l2. apply fst_prow_l2; rewrite HLs; assumption. }
  assert (F2a : forall j, r <= j -> j < n -> fst (prow l2 j) = fst (prow l j)).
  { intros j A B. rewrite F2. destruct (Nat.eqb_spec j p); [lia|]. destruct (Nat.eqb_spec j q); [lia|].
    rewrite Hls by assumption. reflexivity. }
  assert (F2p : fst (prow l2 p) = go).
  { rewrite F2, Nat.eqb_refl. reflexivity. }
  split; [exact Hr1|].
  destruct (Nat.eqb_spec p (r - 1)) as [E1|E1].
  - cbn [rows rk]. split; [reflexivity|]. split.
    + rewrite <- E1. exact F2p.
    + exact F2a.
  - destruct (Nat.eqb_spec q (r - 1)) as [E2|E2].
    + cbn [rows rk]. split; [reflexivity|]. split.
      * rewrite fst_prow_swap_str by (rewrite HL2; assumption). unfold tr.
        rewrite <- E2, Nat.eqb_refl. exact F2p.
      * intros j A B. rewrite fst_prow_swap_str by (rewrite HL2; assumption). unfold tr.
        destruct (Nat.eqb_spec j q); [lia|]. destruct (Nat.eqb_spec j p); [lia|]. apply F2a; assumption.
    + cbn [rows rk]. split; [reflexivity|].
      assert (Hs' : partner n (r - 1) = r - 1 + n).
      { destruct (partner_spec n (r - 1)) as [[A B]|[A B]]; lia. }
      rewrite Hs'.
      assert (Hsw : forall k, fst (prow (swap_str (swap_str l2 p (r - 1)) q (r - 1 + n)) k)
                              = fst (prow l2 (tr p (r - 1) (tr q (r - 1 + n) k)))).
      { intros k. rewrite fst_prow_swap_str by (rewrite length_swap_str, HL2; lia).
        apply fst_prow_swap_str; rewrite HL2; lia. }
      split.
      * rewrite Hsw. unfold tr.
        destruct (Nat.eqb_spec (r - 1) (r - 1 + n)); [lia|]. destruct (Nat.eqb_spec (r - 1) q); [lia|].
        rewrite Nat.eqb_refl. exact F2p.
      * intros j A B. rewrite Hsw. unfold tr.
        destruct (Nat.eqb_spec j (r - 1 + n)); [lia|]. destruct (Nat.eqb_spec j q); [lia|].
        destruct (Nat.eqb_spec j (r - 1)); [lia|]. destruct (Nat.eqb_spec j p); [lia|]. apply F2a; assumption.
Qed.

(* ------------------------------------------------------------------ a string commuting with rows 0..n+r-1 is a product of active rows *)
Lemma prow_wf : forall n t k, tableau_ok n t -> k < 2 * n -> wf n (prow (rows t) k).
Proof.
  intros n t k [_ [_ [Hlen [Hh _]]]] Hk. apply herm_wf; [exact (Hlen k Hk) | exact (Hh k Hk)].
Qed.

Lemma rows_wf_map : forall n t ks, tableau_ok n t -> (forall k, In k ks -> k < 2 * n) ->
  Forall (wf n) (map (prow (rows t)) ks).
Proof.
  intros n t ks Hok H. apply Forall_forall. intros a Ha. apply in_map_iff in Ha. destruct Ha as [k [<- Hk]].
  apply prow_wf; auto.
Qed.

Lemma acqb_rprod_rows : forall n t (f : nat -> bool) j ks, tableau_ok n t -> j < 2 * n ->
  (forall k, In k ks -> k < 2 * n) -> NoDup ks ->
  acqb (fst (prow (rows t) j)) (fst (rprod n (map f ks) (map (prow (rows t)) ks)))
  = existsb (Nat.eqb (partner n j)) ks && f (partner n j).
Proof.
  intros n t f j ks Hok Hj. pose proof Hok as Hok'. apply tableau_ok_iff in Hok'. destruct Hok' as [[_ [_ HB]] _].
  induction ks as [|k ks IH]; intros Hks ND.
  - cbn [map rprod existsb andb pid fst]. apply acqb_id_r.
  - inversion_clear ND as [|? ? Hk ND'].
    assert (Hks' : forall k', In k' ks -> k' < 2 * n) by (intros k' H'; apply Hks; right; exact H').
    assert (Hk2 : k < 2 * n) by (apply Hks; left; reflexivity).
    specialize (IH Hks' ND'). cbn [map rprod existsb].
    pose proof (prow_wf n t k Hok Hk2) as Wk.
    pose proof (wf_rprod n (map f ks) _ (rows_wf_map n t ks Hok Hks')) as WP.
    destruct (Nat.eqb_spec (partner n j) k) as [E|E].
    + cbn [orb andb]. rewrite E in *. rewrite (existsb_eqb_notIn k ks Hk) in IH. cbn [andb] in IH.
      destruct (f k).
      * rewrite pmul_fst, acqb_xor_r by (apply (wf_len_eq n); assumption).
        rewrite IH, xorb_false_r. rewrite HB by assumption. rewrite E. apply Nat.eqb_refl.
      * exact IH.
    + cbn [orb]. destruct (f k).
      * rewrite pmul_fst, acqb_xor_r by (apply (wf_len_eq n); assumption).
        rewrite IH. rewrite HB by assumption.
        destruct (Nat.eqb_spec k (partner n j)) as [E'|E']; [exfalso; apply E; symmetry; exact E'|].
        apply xorb_false_l.
      * exact IH.
Qed.

Lemma gxor_eq_id : forall a b, length a = length b -> gxor a b = id_str (length a) -> a = b.
Proof.
  intros a b HL H.
  assert (E : gxor (gxor a b) b = a).
  { rewrite gxor_assoc, gxor_self, <- HL. apply gxor_id_r. }
  rewrite H, HL, gxor_id_l in E. symmetry. exact E.
Qed.

Lemma no_anti_in_span : forall n t go, tableau_ok n t -> length go = n ->
  (forall j, j < 2 * n -> j < n + rk t -> anti go (rows t) j = false) ->
  go = fst (rprod n (map (fun k => anti go (rows t) (k + n)) (seq (rk t) (n - rk t)))
                    (map (prow (rows t)) (seq (rk t) (n - rk t)))).
Proof.
  intros n t go Hok Hgo Hna. pose proof Hok as [_ [Hr _]].
  set (r := rk t) in *.
  set (f := fun k => anti go (rows t) (k + n)). set (ks := seq r (n - r)).
  assert (Hks : forall k, In k ks -> k < 2 * n).
  { intros k Hk. apply in_seq in Hk. lia. }
  pose proof (wf_rprod n (map f ks) _ (rows_wf_map n t ks Hok Hks)) as [LP _].
  set (P := rprod n (map f ks) (map (prow (rows t)) ks)) in *.
  assert (HLg : length go = length (fst P)) by (rewrite LP; exact Hgo).
  apply gxor_eq_id; [exact HLg|]. rewrite Hgo.
  apply (tableau_nondeg n t); [exact Hok | rewrite gxor_length; assumption |].
  intros j Hj. rewrite acqb_xor_r by exact HLg.
  assert (EA : acqb (fst (prow (rows t) j)) go = anti go (rows t) j).
  { unfold anti. rewrite bz_acq. reflexivity. }
  rewrite EA. unfold P.
  rewrite (acqb_rprod_rows n t f j ks Hok Hj Hks) by (apply seq_NoDup).
  destruct (partner_spec n j Hj) as [[A B]|[A B]]; rewrite B.
  - rewrite existsb_eqb_notIn by (unfold ks; rewrite in_seq; lia). cbn [andb].
    rewrite Hna by lia. reflexivity.
  - destruct (Nat.lt_ge_cases j (n + r)) as [Lt|Ge].
    + rewrite existsb_eqb_notIn by (unfold ks; rewrite in_seq; lia). cbn [andb].
      rewrite Hna by lia. reflexivity.
    + assert (Ein : existsb (Nat.eqb (j - n)) ks = true).
      { apply existsb_eqb_In. unfold ks. rewrite in_seq. lia. }
      rewrite Ein. cbn [andb]. unfold f. replace (j - n + n) with j by lia. apply xorb_nilpotent.
Qed.

(* ------------------------------------------------------------------ projecting an independent commuting list on the mixed state *)
Definition indep_list (n : nat) (stabs : plist) : Prop :=
  forall sel, length sel = length stabs -> fst (combine_row n sel stabs) = id_str n ->
              sel = repeat false (length stabs).

Lemma indep_tail : forall n a stabs, indep_list n (a :: stabs) -> indep_list n stabs.
Proof.
  intros n a stabs H sel HL HE.
  assert (K : false :: sel = repeat false (length (a :: stabs))).
  { apply H; [cbn [length]; rewrite HL; reflexivity|]. exact HE. }
  cbn [length repeat] in K. injection K as K. exact K.
Qed.

Lemma rprod_fst_ext : forall n sel (r1 r2 : plist), map fst r1 = map fst r2 ->
  fst (rprod n sel r1) = fst (rprod n sel r2).
Proof.
  intros n. induction sel as [|b sel IH]; intros [|a r1] [|a' r2] H; try discriminate H; try reflexivity.
  cbn [map] in H. injection H as H1 H2. cbn [rprod]. destruct b.
  - rewrite !pmul_fst. rewrite (IH r1 r2 H2). f_equal. exact H1.
  - apply IH. exact H2.
Qed.

Lemma stabs_wf : forall n (stabs : plist), Forall (fun a => length (fst a) = n /\ hermP a) stabs -> Forall (wf n) stabs.
Proof.
  intros n stabs H. eapply Forall_impl; [|exact H]. intros a [A B]. apply herm_wf; assumption.
Qed.

Lemma project_snoc : forall t gs g, project t (gs ++ [g]) = project1 (project t gs) g.
Proof. intros. unfold project. rewrite fold_left_app. reflexivity. Qed.

Lemma project_rows : forall n (stabs : plist), Forall (fun a => length (fst a) = n /\ hermP a) stabs ->
  length stabs <= n ->
  (forall a b, In a stabs -> In b stabs -> acqb (fst a) (fst b) = false) ->
  indep_list n stabs ->
  let t := project (mixed_state n) (rev (map fst stabs)) in
  tableau_ok n t /\ rk t = n - length stabs /\
  map (fun j => fst (prow (rows t) j)) (seq (rk t) (n - rk t)) = map fst stabs.
Proof.
  intros n. induction stabs as [|a stabs IH]; intros HF HL HC HI; cbv zeta.
  - cbn [map rev length]. unfold project. cbn [fold_left]. split; [apply mixed_state_ok|].
    unfold mixed_state, to_state. cbn [rk rows]. split; [lia|]. rewrite Nat.sub_diag. reflexivity.
  - cbn [map rev]. rewrite project_snoc.
    inversion_clear HF as [|? ? [Ha1 Ha2] HF']. cbn [length] in HL.
    assert (HC' : forall u v, In u stabs -> In v stabs -> acqb (fst u) (fst v) = false).
    { intros u v Hu Hv. apply HC; right; assumption. }
    specialize (IH HF' ltac:(lia) HC' (indep_tail n a stabs HI)). cbv zeta in IH.
    set (t0 := project (mixed_state n) (rev (map fst stabs))) in *.
    destruct IH as [Hok [Hrk Hmap]].
    set (go := fst a).
    assert (Hgo : length go = n) by exact Ha1.
    assert (Hact : forall j, rk t0 <= j -> j < n -> anti go (rows t0) j = false).
    { intros j A B. unfold anti. rewrite bz_acq.
      assert (Hin : In (fst (prow (rows t0) j)) (map fst stabs)).
      { rewrite <- Hmap. apply (in_map (fun j => fst (prow (rows t0) j))). apply in_seq. lia. }
      apply in_map_iff in Hin. destruct Hin as [b [Eb Hb]]. rewrite <- Eb.
      apply HC; [right; exact Hb | left; reflexivity]. }
    assert (Hex : ~ (forall j, j < 2 * n -> j < n + rk t0 -> anti go (rows t0) j = false)).
    { intros Hna. pose proof (no_anti_in_span n t0 go Hok Hgo Hna) as S.
      set (c := map (fun k => anti go (rows t0) (k + n)) (seq (rk t0) (n - rk t0))) in *.
      assert (Lc : length c = length stabs).
      { unfold c. rewrite map_length, seq_length. lia. }
      assert (E1 : fst (rprod n c (map (prow (rows t0)) (seq (rk t0) (n - rk t0)))) = fst (rprod n c stabs)).
      { apply rprod_fst_ext. rewrite map_map. exact Hmap. }
      assert (K : true :: c = repeat false (length (a :: stabs))).
      { apply HI; [cbn [length]; rewrite Lc; reflexivity|].
        rewrite (combine_row_rprod n) by (apply stabs_wf; constructor; [split|]; assumption).
        cbn [rprod]. rewrite pmul_fst, <- E1, <- S. fold go. rewrite gxor_self, Hgo. reflexivity. }
      cbn [length repeat] in K. discriminate K. }
    destruct (project1_extend n t0 go Hok Hgo Hact Hex) as [P1 [P2 [P3 P4]]].
    split; [apply project1_ok; assumption|]. split; [rewrite P2, Hrk; cbn [length]; lia|].
    rewrite P2.
    replace (n - (rk t0 - 1)) with (S (n - rk t0)) by lia. cbn [seq map].
    rewrite P3. f_equal.
    replace (S (rk t0 - 1)) with (rk t0) by lia.
    rewrite <- Hmap. apply map_ext_in. intros j Hj. apply in_seq in Hj. apply P4; lia.
Qed.

(* ------------------------------------------------------------------ reading the active rows back *)
Lemma firstn_skipn_prow : forall (l : plist) r m, r + m <= length l ->
  firstn m (skipn r l) = map (prow l) (seq r m).
Proof.
  induction l as [|a l IH]; intros r m H.
  - cbn [length] in H. assert (r = 0) by lia. assert (m = 0) by lia. subst. reflexivity.
  - destruct r as [|r].
    + cbn [skipn]. destruct m as [|m]; [reflexivity|].
      cbn [firstn seq map]. f_equal. rewrite <- seq_shift, map_map.
      change l with (skipn 0 l) at 1. rewrite IH by (cbn [length] in H; lia).
      apply map_ext. intros k. reflexivity.
    + cbn [skipn]. rewrite IH by (cbn [length] in H; lia).
      rewrite <- (seq_shift m r), map_map. apply map_ext. intros k. reflexivity.
Qed.

Lemma length_set_phases_from : forall ps l j, length (set_phases_from l j ps) = length l.
Proof. induction ps as [|p ps IH]; intros l j; cbn [set_phases_from]; [reflexivity|]. rewrite IH. apply length_set_phase. Qed.

Lemma set_phases_from_below : forall ps l j k, k < j -> prow (set_phases_from l j ps) k = prow l k.
Proof.
  induction ps as [|p ps IH]; intros l j k H; cbn [set_phases_from]; [reflexivity|].
  rewrite IH by lia. unfold set_phase. apply prow_upd_neq. lia.
Qed.

Lemma set_phases_from_rows : forall ps l j (gs : list pstr), j + length ps <= length l ->
  map (fun k => fst (prow l k)) (seq j (length ps)) = gs ->
  map (prow (set_phases_from l j ps)) (seq j (length ps)) = combine gs ps.
Proof.
  induction ps as [|p ps IH]; intros l j gs HL Hg.
  - cbn [length seq map] in *. subst gs. reflexivity.
  - cbn [length seq map] in *. destruct gs as [|g gs]; [discriminate Hg|]. injection Hg as Hg1 Hg2.
    cbn [set_phases_from combine]. f_equal.
    + rewrite set_phases_from_below by lia. unfold set_phase, prow. rewrite nth_upd_eq by lia.
      f_equal. exact Hg1.
    + apply IH; [rewrite length_set_phase; lia|].
      rewrite <- Hg2. apply map_ext. intros k. apply fst_prow_set_phase.
Qed.

Lemma combine_fst_snd : forall (stabs : plist), combine (map fst stabs) (map snd stabs) = stabs.
Proof. induction stabs as [|[g p] stabs IH]; [reflexivity|]. cbn [map combine fst snd]. rewrite IH. reflexivity. Qed.

Lemma all_commute_spec : forall gs, all_commute gs = true ->
  forall a b, In a gs -> In b gs -> acqb a b = false.
Proof.
  intros gs H a b Ha Hb. unfold all_commute in H. rewrite forallb_forall in H.
  specialize (H a Ha). rewrite forallb_forall in H. specialize (H b Hb).
  apply Z.eqb_eq in H. rewrite acq_acqb in H. destruct (acqb a b); [discriminate H|reflexivity].
Qed.

Theorem stabilizer_state_rows : forall n stabs t, Forall (fun a => length (fst a) = n /\ hermP a) stabs ->
   (length stabs <= n)%nat -> stabilizer_state n stabs = Some t ->
   (forall sel, length sel = length stabs -> fst (combine_row n sel stabs) = id_str n -> sel = repeat false (length stabs)) ->
   rk t = (n - length stabs)%nat /\ firstn (length stabs) (skipn (rk t) (rows t)) = stabs.
Proof.
  intros n stabs t HF HL H HI.
  change (@length pauli stabs <= n) in HL.
  change (rk t = n - @length pauli stabs /\ firstn (@length pauli stabs) (skipn (rk t) (rows t)) = stabs).
  unfold stabilizer_state in H.
  destruct (all_commute _) eqn:C; [|discriminate H]. injection H as <-. cbn [rk rows].
  assert (HC : forall a b, In a stabs -> In b stabs -> acqb (fst a) (fst b) = false).
  { intros a b Ha Hb. apply (all_commute_spec _ C); apply in_map; assumption. }
  pose proof (project_rows n stabs HF HL HC HI) as P. cbv zeta in P.
  set (t0 := project _ _) in *.
  destruct P as [Hok [Hrk Hmap]]. split; [exact Hrk|].
  pose proof Hok as [HL0 _].
  assert (E : n - rk t0 = @length pauli stabs) by lia.
  rewrite firstn_skipn_prow by (rewrite length_set_phases_from, HL0; lia).
  rewrite E in Hmap.
  assert (Lps : length (map (@snd pstr Z) stabs) = @length pauli stabs) by apply map_length.
  rewrite <- Lps in Hmap |- * at 1.
  rewrite (set_phases_from_rows _ _ _ (map fst stabs)); [apply combine_fst_snd | rewrite HL0; lia | exact Hmap].
Qed.
