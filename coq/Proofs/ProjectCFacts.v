(* Proofs/ProjectCFacts.v -- the code-faithful projection [project_c] (strings combined and moved, phase array
   left in place) and [stabilizer_state_c] have the same properties as [project] / [stabilizer_state]. *)
From Coq Require Import ZArith List Bool Lia ZifyBool Arith.
From PC Require Import Gen.Kernels Model.Base Model.Pauli Model.Ket Model.CMap Model.Tableau Model.Circuit Model.Spec
  Proofs.PauliFacts Proofs.TableauInv Proofs.ReachFacts.
Import ListNotations.
Open Scope Z_scope.
Ltac Zify.zify_post_hook ::= Z.to_euclidean_division_equations.

(* ------------------------------------------------------------------ keep_phases *)
Lemma keep_phases_fst : forall (old new : plist), length new = length old ->
  map (@fst pstr Z) (keep_phases old new) = map (@fst pstr Z) new.
Proof.
  induction old as [|o old IH]; intros [|a new] H; try discriminate H; [reflexivity|].
  cbn [keep_phases map2 map fst]. f_equal. apply IH. cbn [length] in H. injection H as H. exact H.
Qed.

Lemma keep_phases_snd : forall (old new : plist), length new = length old ->
  map (@snd pstr Z) (keep_phases old new) = map (@snd pstr Z) old.
Proof.
  induction old as [|o old IH]; intros [|a new] H; try discriminate H; [reflexivity|].
  cbn [keep_phases map2 map snd]. f_equal. apply IH. cbn [length] in H. injection H as H. exact H.
Qed.

Lemma keep_phases_length : forall (old new : plist), length new = length old ->
  length (keep_phases old new) = length old.
Proof.
  intros old new H. rewrite <- (map_length (@snd pstr Z)), keep_phases_snd by exact H. apply map_length.
Qed.

Lemma fst_prow_map : forall (l : plist) k, fst (prow l k) = nth k (map (@fst pstr Z) l) (fst (pid 0)).
Proof. intros l k. unfold prow. symmetry. apply (map_nth (@fst pstr Z)). Qed.

Lemma snd_prow_map : forall (l : plist) k, snd (prow l k) = nth k (map (@snd pstr Z) l) (snd (pid 0)).
Proof. intros l k. unfold prow. symmetry. apply (map_nth (@snd pstr Z)). Qed.

Lemma map_fst_prow_ext : forall (l l' : plist), length l = length l' ->
  (forall k, fst (prow l k) = fst (prow l' k)) -> map (@fst pstr Z) l = map (@fst pstr Z) l'.
Proof.
  intros l l' HL H. apply nth_ext with (d := fst (pid 0)) (d' := fst (pid 0)).
  - rewrite !map_length. exact HL.
  - intros k _. rewrite <- !fst_prow_map. apply H.
Qed.

Lemma fst_prow_keep : forall (old new : plist) k, length new = length old ->
  fst (prow (keep_phases old new) k) = fst (prow new k).
Proof. intros old new k H. rewrite !fst_prow_map, keep_phases_fst by exact H. reflexivity. Qed.

Lemma snd_prow_keep : forall (old new : plist) k, length new = length old ->
  snd (prow (keep_phases old new) k) = snd (prow old k).
Proof. intros old new k H. rewrite !snd_prow_map, keep_phases_snd by exact H. reflexivity. Qed.

(* ------------------------------------------------------------------ project_c versus project *)
Theorem project_c_strings : forall t gos, length (rows (project t gos)) = length (rows t) ->
   map fst (rows (project_c t gos)) = map fst (rows (project t gos)) /\ map snd (rows (project_c t gos)) = map snd (rows t) /\ rk (project_c t gos) = rk (project t gos).
Proof.
  intros t gos H. unfold project_c. cbn [rows rk]. split; [|split].
  - apply keep_phases_fst. exact H.
  - apply keep_phases_snd. exact H.
  - reflexivity.
Qed.

Lemma strs_ok_fst_ext : forall n (l l' : plist), strs_ok n l -> length l' = length l ->
  (forall k, fst (prow l' k) = fst (prow l k)) -> strs_ok n l'.
Proof.
  intros n l l' [H1 [H2 H3]] HL H. split; [|split].
  - rewrite HL. exact H1.
  - intros i Hi. rewrite H. apply H2. exact Hi.
  - intros i j Hi Hj. rewrite !H. apply H3; assumption.
Qed.

Theorem project_c_ok : forall n gos t, tableau_ok n t -> Forall (fun g => length g = n) gos -> tableau_ok n (project_c t gos).
Proof.
  intros n gos t Hok HF.
  pose proof (project_ok n gos t Hok HF) as Hp.
  assert (HL : length (rows (project t gos)) = length (rows t)).
  { destruct Hok as [A _]. destruct Hp as [B _]. rewrite A, B. reflexivity. }
  apply tableau_ok_iff in Hok. apply tableau_ok_iff in Hp.
  destruct Hok as [S0 [P0 R0]]. destruct Hp as [S1 [P1 R1]].
  apply tableau_ok_iff. unfold project_c. cbn [rows rk]. split; [|split].
  - apply (strs_ok_fst_ext n (rows (project t gos))); [exact S1 | |].
    + rewrite keep_phases_length by exact HL. symmetry. exact HL.
    + intros k. apply fst_prow_keep. exact HL.
  - apply (phs_ok_ext n (rows t)); [|exact P0]. intros k. apply snd_prow_keep. exact HL.
  - exact R1.
Qed.

(* ------------------------------------------------------------------ stabilizer_state_c *)
Lemma gos_of_stabs : forall n (stabs : plist), Forall (fun a => length (fst a) = n /\ hermP a) stabs ->
  Forall (fun g : pstr => length g = n) (rev (map (@fst pstr Z) stabs)).
Proof.
  intros n stabs HF. apply Forall_rev. apply Forall_forall. intros g Hg. apply in_map_iff in Hg.
  destruct Hg as [a [<- Ha]]. rewrite Forall_forall in HF. apply (HF a Ha).
Qed.

Lemma phases_of_stabs : forall n (stabs : plist), Forall (fun a => length (fst a) = n /\ hermP a) stabs ->
  Forall (fun p => p = 0 \/ p = 2) (map (@snd pstr Z) stabs).
Proof.
  intros n stabs HF. apply Forall_forall. intros p Hp'. apply in_map_iff in Hp'. destruct Hp' as [a [<- Ha]].
  rewrite Forall_forall in HF. apply (HF a Ha).
Qed.

Theorem stabilizer_state_c_ok : forall n stabs t, Forall (fun a => length (fst a) = n /\ hermP a) stabs -> stabilizer_state_c n stabs = Some t -> tableau_ok n t.
Proof.
  intros n stabs t HF H. unfold stabilizer_state_c in H.
  destruct (all_commute _); [|discriminate H]. injection H as <-.
  pose proof (project_c_ok n _ (mixed_state n) (mixed_state_ok n) (gos_of_stabs n stabs HF)) as Hok.
  apply tableau_ok_iff in Hok. destruct Hok as [Hs [Hp Hr]].
  apply tableau_ok_iff. cbn [rows rk].
  destruct (set_phases_from_ok n _ _ (rk (project_c (mixed_state n) (rev (map fst stabs)))) Hs Hp (phases_of_stabs n stabs HF))
    as [Q1 Q2].
  auto.
Qed.

Lemma project_c_mixed_len : forall n (stabs : plist), Forall (fun a => length (fst a) = n /\ hermP a) stabs ->
  length (rows (project (mixed_state n) (rev (map (@fst pstr Z) stabs)))) = length (rows (mixed_state n)).
Proof.
  intros n stabs HF.
  pose proof (project_ok n _ (mixed_state n) (mixed_state_ok n) (gos_of_stabs n stabs HF)) as [A _].
  pose proof (mixed_state_ok n) as [B _]. rewrite A, B. reflexivity.
Qed.

Theorem stabilizer_state_c_rows : forall n stabs t, Forall (fun a => length (fst a) = n /\ hermP a) stabs ->
   (length stabs <= n)%nat -> stabilizer_state_c n stabs = Some t ->
   (forall sel, length sel = length stabs -> fst (combine_row n sel stabs) = id_str n -> sel = repeat false (length stabs)) ->
   rk t = (n - length stabs)%nat /\ firstn (length stabs) (skipn (rk t) (rows t)) = stabs.
Proof.
  intros n stabs t HF HL H HI.
  change (@length pauli stabs <= n)%nat in HL.
  change (rk t = (n - @length pauli stabs)%nat /\ firstn (@length pauli stabs) (skipn (rk t) (rows t)) = stabs).
  unfold stabilizer_state_c in H.
  destruct (all_commute _) eqn:C; [|discriminate H]. injection H as <-. cbn [rk rows].
  assert (HC : forall a b, In a stabs -> In b stabs -> acqb (fst a) (fst b) = false).
  { intros a b Ha Hb. apply (all_commute_spec _ C); apply in_map; assumption. }
  pose proof (project_rows n stabs HF HL HC HI) as P. cbv zeta in P.
  pose proof (project_c_mixed_len n stabs HF) as HLen.
  pose proof (project_c_ok n _ (mixed_state n) (mixed_state_ok n) (gos_of_stabs n stabs HF)) as Hokc.
  unfold project_c in *. cbn [rows rk] in *.
  set (t0 := project _ _) in *.
  destruct P as [Hok [Hrk Hmap]]. split; [exact Hrk|].
  destruct Hokc as [HL0 _]. cbn [rows] in HL0.
  assert (E : (n - rk t0)%nat = @length pauli stabs) by lia.
  change (map_to_state (identity_map n)) with (rows (mixed_state n)).
  rewrite firstn_skipn_prow by (rewrite length_set_phases_from, HL0; lia).
  rewrite E in Hmap.
  assert (Lps : length (map (@snd pstr Z) stabs) = @length pauli stabs) by apply map_length.
  rewrite <- Lps in Hmap |- * at 1.
  rewrite (set_phases_from_rows _ _ _ (map fst stabs)); [apply combine_fst_snd | rewrite HL0; lia |].
  etransitivity; [|exact Hmap]. apply map_ext. intros k. apply fst_prow_keep. exact HLen.
Qed.

Theorem stabilizer_state_c_rejects : forall n stabs, (exists a b, In a stabs /\ In b stabs /\ acq (fst a) (fst b) = 1) -> stabilizer_state_c n stabs = None.
Proof.
  intros n stabs [a [b [Ha [Hb E]]]]. unfold stabilizer_state_c.
  destruct (all_commute _) eqn:C; [|reflexivity]. exfalso.
  unfold all_commute in C. rewrite forallb_forall in C.
  specialize (C (fst a) (in_map fst _ _ Ha)). rewrite forallb_forall in C.
  specialize (C (fst b) (in_map fst _ _ Hb)). rewrite E in C. discriminate C.
Qed.

(* ------------------------------------------------------------------ both versions denote the same state *)
Lemma fst_prow_set_phases_from : forall ps (l : plist) j k, fst (prow (set_phases_from l j ps) k) = fst (prow l k).
Proof.
  induction ps as [|p ps IH]; intros l j k; cbn [set_phases_from]; [reflexivity|].
  rewrite IH. apply fst_prow_set_phase.
Qed.

Lemma map_fst_set_phases_from : forall ps (l : plist) j,
  map (@fst pstr Z) (set_phases_from l j ps) = map (@fst pstr Z) l.
Proof.
  intros ps l j. apply map_fst_prow_ext.
  - apply length_set_phases_from.
  - intros k. apply fst_prow_set_phases_from.
Qed.

Theorem stabilizer_state_c_same : forall n stabs t tc, Forall (fun a => length (fst a) = n /\ hermP a) stabs -> (length stabs <= n)%nat ->
   stabilizer_state n stabs = Some t -> stabilizer_state_c n stabs = Some tc ->
   rk tc = rk t /\ map fst (rows tc) = map fst (rows t).
Proof.
  intros n stabs t tc HF _ H Hc. unfold stabilizer_state in H. unfold stabilizer_state_c in Hc.
  destruct (all_commute _); [|discriminate H]. injection H as <-. injection Hc as <-.
  pose proof (project_c_mixed_len n stabs HF) as HLen.
  unfold project_c. cbn [rows rk]. split; [reflexivity|].
  rewrite !map_fst_set_phases_from. apply keep_phases_fst. exact HLen.
Qed.

(* bonus: under the independence hypothesis the active rows (strings AND phases) coincide as well *)
Corollary stabilizer_state_c_same_active : forall n stabs t tc, Forall (fun a => length (fst a) = n /\ hermP a) stabs -> (length stabs <= n)%nat ->
   stabilizer_state n stabs = Some t -> stabilizer_state_c n stabs = Some tc ->
   (forall sel, length sel = length stabs -> fst (combine_row n sel stabs) = id_str n -> sel = repeat false (length stabs)) ->
   firstn (length stabs) (skipn (rk tc) (rows tc)) = firstn (length stabs) (skipn (rk t) (rows t)).
Proof.
  intros n stabs t tc HF HL H Hc HI.
  destruct (stabilizer_state_rows n stabs t HF HL H HI) as [_ A].
  destruct (stabilizer_state_c_rows n stabs tc HF HL Hc HI) as [_ B].
  etransitivity; [exact B|]. symmetry. exact A.
Qed.
