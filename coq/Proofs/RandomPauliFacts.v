(* Proofs/RandomPauliFacts.v -- random_pauli_map (utils.random_pauli / stabilizer.random_pauli_map after the draw):
   the block-diagonal table of accepted one-qubit pairs is symplectic, gives a valid Clifford map with any signs,
   is the tensor product of the drawn one-qubit maps, and draws -> tables is a bijection onto the block tables. *)
From Coq Require Import ZArith List Bool Lia ZifyBool Arith.
From PC Require Import Gen.Kernels Model.Base Model.Pauli Model.Ket Model.Spec Proofs.PauliFacts.
From PC Require Import Model.Diag Model.Random Proofs.RandomFacts Proofs.MaskFacts.
Import ListNotations.
Open Scope Z_scope.
Ltac Zify.zify_post_hook ::= Z.to_euclidean_division_equations.

Definition pair1_ok (p : pstr * pstr) : Prop :=
  length (fst p) = 1%nat /\ length (snd p) = 1%nat /\ acq (fst p) (snd p) = 1.     (* an accepted one-qubit draw *)

(* ------------------------------------------------------------------ the table as a recursion over the draws *)
Definition pad (n i : nat) (a : pstr) : pstr := repeat I_site i ++ a ++ repeat I_site (n - i - 1).

Fixpoint blocks (n s : nat) (pairs : list (pstr * pstr)) : list pstr :=
  match pairs with
  | [] => []
  | (a, b) :: rest => pad n s a :: pad n s b :: blocks n (S s) rest
  end.

Lemma blocks_gen : forall n pairs s,
  flat_map (fun ip : nat * (pstr * pstr) =>
              let '(i, (a, b)) := ip in
              [repeat I_site i ++ a ++ repeat I_site (n - i - 1);
               repeat I_site i ++ b ++ repeat I_site (n - i - 1)])
           (combine (seq s (length pairs)) pairs) = blocks n s pairs.
Proof.
  intros n. induction pairs as [|[a b] pairs IH]; intros s; [reflexivity|].
  cbn [length seq combine flat_map blocks app]. rewrite IH. reflexivity.
Qed.

Lemma random_pauli_blocks : forall pairs, random_pauli_from pairs = blocks (length pairs) 0 pairs.
Proof. intros pairs. unfold random_pauli_from. apply blocks_gen. Qed.

Lemma blocks_nth : forall n pairs s i a b, nth_error pairs i = Some (a, b) ->
  nth (2 * i) (blocks n s pairs) [] = pad n (s + i) a /\
  nth (2 * i + 1) (blocks n s pairs) [] = pad n (s + i) b.
Proof.
  intros n. induction pairs as [|[a0 b0] pairs IH]; intros s [|i] a b H; cbn [nth_error] in H; try discriminate H.
  - injection H as -> ->. rewrite Nat.add_0_r. cbn [blocks Nat.mul Nat.add nth]. split; reflexivity.
  - replace (2 * S i)%nat with (S (S (2 * i))) by lia.
    replace (S (S (2 * i)) + 1)%nat with (S (S (2 * i + 1))) by lia.
    cbn [blocks nth]. replace (s + S i)%nat with (S s + i)%nat by lia. apply IH. exact H.
Qed.

Lemma blocks_inj : forall n p q s, blocks n s p = blocks n s q -> p = q.
Proof.
  intros n. induction p as [|[a b] p IH]; intros [|[a' b'] q] s H; cbn [blocks] in H; try discriminate H; [reflexivity|].
  injection H as Ha Hb Hr. unfold pad in Ha, Hb.
  apply app_inv_head, app_inv_tail in Ha. apply app_inv_head, app_inv_tail in Hb.
  rewrite Ha, Hb, (IH q (S s) Hr). reflexivity.
Qed.

(* ------------------------------------------------------------------ symplectic form of one-site strings *)
Lemma acqb_site_I_r : forall s, acqb_site s I_site = false.
Proof. intros s. rewrite acqb_site_sym. apply acqb_site_I_l. Qed.

Lemma acqb_single : forall k s m g,
  acqb (repeat I_site k ++ s :: repeat I_site m) g = acqb_site s (nth k g I_site).
Proof.
  induction k as [|k IH]; intros s m [|t g]; cbn [repeat app acqb nth].
  - rewrite acqb_site_I_r. reflexivity.
  - change (repeat I_site m) with (id_str m). rewrite acqb_id_l. apply xorb_false_r.
  - rewrite acqb_site_I_r. reflexivity.
  - rewrite acqb_site_I_l, IH. apply xorb_false_l.
Qed.

Lemma nth_pad : forall n l t k, nth k (pad n l [t]) I_site = if Nat.eqb k l then t else I_site.
Proof.
  intros n l t k. unfold pad. destruct (Nat.eqb_spec k l) as [E|E].
  - rewrite E. rewrite app_nth2; rewrite repeat_length; [|lia]. rewrite Nat.sub_diag. reflexivity.
  - destruct (Nat.lt_ge_cases k l) as [H|H].
    + rewrite app_nth1 by (rewrite repeat_length; exact H). apply nth_repeat.
    + rewrite app_nth2; rewrite repeat_length; [|lia].
      destruct (k - l)%nat as [|d] eqn:D; [lia|]. cbn [app nth]. apply nth_repeat.
Qed.

Lemma acq_pad : forall n k l x y, length x = 1%nat -> length y = 1%nat ->
  acq (pad n k x) (pad n l y) = if Nat.eqb k l then acq x y else 0.
Proof.
  intros n k l [|s [|s' x]] [|t [|t' y]] Hx Hy; try discriminate Hx; try discriminate Hy.
  rewrite !acq_acqb. unfold pad at 1. cbn [app]. rewrite acqb_single, nth_pad.
  destruct (Nat.eqb k l).
  - cbn [acqb]. rewrite xorb_false_r. reflexivity.
  - rewrite acqb_site_I_r. reflexivity.
Qed.

Lemma acq_sym : forall g1 g2, acq g1 g2 = acq g2 g1.
Proof. intros. rewrite !acq_acqb, acqb_sym. reflexivity. Qed.

Lemma acq_self : forall g, acq g g = 0.
Proof. intros. rewrite acq_acqb, acqb_self. reflexivity. Qed.

(* ------------------------------------------------------------------ row i of the table *)
Definition sel (i : nat) (p : pstr * pstr) : pstr := if Nat.eqb (i mod 2) 0 then fst p else snd p.

Lemma half_lt : forall i n, (i < 2 * n)%nat -> (i / 2 < n)%nat.
Proof. intros i n H. apply Nat.div_lt_upper_bound; lia. Qed.

Lemma half_cases : forall i, (i = 2 * (i / 2) /\ i mod 2 = 0)%nat \/ (i = 2 * (i / 2) + 1 /\ i mod 2 = 1)%nat.
Proof.
  intros i. pose proof (Nat.div_mod i 2 ltac:(lia)) as D. pose proof (Nat.mod_upper_bound i 2 ltac:(lia)) as U. lia.
Qed.

Lemma random_pauli_row_i : forall pairs i, (i < 2 * length pairs)%nat ->
  nth i (random_pauli_from pairs) [] = pad (length pairs) (i / 2) (sel i (nth (i / 2) pairs ([], []))).
Proof.
  intros pairs i Hi. assert (Hq : (i / 2 < length pairs)%nat) by (apply half_lt; exact Hi).
  pose proof (nth_error_nth' pairs ([], []) Hq) as E.
  destruct (nth (i / 2) pairs ([], [])) as [a b].
  destruct (blocks_nth (length pairs) pairs 0 (i / 2) a b E) as [H0 H1].
  rewrite random_pauli_blocks. unfold sel. cbn [fst snd Nat.add] in *.
  destruct (half_cases i) as [[C M]|[C M]]; rewrite M; cbn [Nat.eqb]; rewrite C at 1; assumption.
Qed.

Lemma pair1_ok_nth : forall pairs q, Forall pair1_ok pairs -> (q < length pairs)%nat -> pair1_ok (nth q pairs ([], [])).
Proof. intros pairs q F Hq. rewrite Forall_forall in F. apply F. apply nth_In. exact Hq. Qed.

Lemma sel_length : forall i p, pair1_ok p -> length (sel i p) = 1%nat.
Proof. intros i p [H1 [H2 _]]. unfold sel. destruct (Nat.eqb (i mod 2) 0); assumption. Qed.

(* ------------------------------------------------------------------ 1. canonical commutation relations, row widths *)
Theorem random_pauli_symplectic : forall pairs i j, Forall pair1_ok pairs -> (i < 2 * length pairs)%nat -> (j < 2 * length pairs)%nat ->
  acq (nth i (random_pauli_from pairs) []) (nth j (random_pauli_from pairs) []) = expected_acq i j.
Proof.
  intros pairs i j F Hi Hj.
  rewrite (random_pauli_row_i pairs i Hi), (random_pauli_row_i pairs j Hj).
  assert (Pi : pair1_ok (nth (i / 2) pairs ([], []))) by (apply pair1_ok_nth; [exact F | apply half_lt; assumption]).
  assert (Pj : pair1_ok (nth (j / 2) pairs ([], []))) by (apply pair1_ok_nth; [exact F | apply half_lt; assumption]).
  rewrite acq_pad by (apply sel_length; assumption).
  unfold expected_acq. destruct (Nat.eqb_spec (i / 2) (j / 2)) as [E|E]; [|reflexivity].
  rewrite <- E. destruct Pi as [_ [_ A]]. cbn [andb].
  destruct (Nat.eqb_spec i j) as [EI|EI]; cbn [negb].
  - rewrite EI. apply acq_self.
  - unfold sel. pose proof (half_cases i) as Ci. pose proof (half_cases j) as Cj.
    destruct (Nat.eqb_spec (i mod 2) 0) as [Mi|Mi]; destruct (Nat.eqb_spec (j mod 2) 0) as [Mj|Mj]; try lia;
      first [exact A | rewrite acq_sym; exact A].
Qed.

Theorem random_pauli_row_length : forall pairs r, Forall pair1_ok pairs -> In r (random_pauli_from pairs) -> length r = length pairs.
Proof.
  intros pairs r F Hin. destruct (In_nth _ _ [] Hin) as [i [Hi E]].
  rewrite random_pauli_rows in Hi. rewrite <- E.
  change (@length site (@nth pstr i (random_pauli_from pairs) []) = length pairs).
  rewrite (random_pauli_row_i pairs i Hi).
  assert (Pi : pair1_ok (nth (i / 2) pairs ([], []))) by (apply pair1_ok_nth; [exact F | apply half_lt; assumption]).
  unfold pad. rewrite !app_length, !repeat_length, (sel_length i _ Pi).
  pose proof (half_lt i _ Hi) as Hq. lia.
Qed.

(* ------------------------------------------------------------------ 2. a valid Clifford map with any signs *)
Lemma row_combine : forall pairs phases i, length phases = (2 * length pairs)%nat ->
  row (combine (random_pauli_from pairs) phases) i = (nth i (random_pauli_from pairs) [], nth i phases 0).
Proof.
  intros pairs phases i HL. unfold row. change (pid 0) with (@nil site, 0).
  apply combine_nth. rewrite random_pauli_rows. symmetry. exact HL.
Qed.

Theorem random_pauli_map_valid : forall pairs phases, Forall pair1_ok pairs -> length phases = (2 * length pairs)%nat -> Forall (fun p => p = 0 \/ p = 2) phases ->
  valid_map (length pairs) (combine (random_pauli_from pairs) phases).
Proof.
  intros pairs phases F HL HP. unfold valid_map. split; [|split].
  - change (length (combine (random_pauli_from pairs) phases) = (2 * length pairs)%nat).
    rewrite combine_length, random_pauli_rows, HL. apply Nat.min_id.
  - intros i Hi. rewrite (row_combine pairs phases i HL). unfold wf, hermP. cbn [fst snd].
    assert (PH : nth i phases 0 = 0 \/ nth i phases 0 = 2).
    { rewrite Forall_forall in HP. apply HP. apply nth_In. rewrite HL. exact Hi. }
    split; [split|].
    + apply (random_pauli_row_length pairs _ F). apply nth_In. rewrite random_pauli_rows. exact Hi.
    + lia.
    + exact PH.
  - intros i j Hi Hj. rewrite !(row_combine pairs phases _ HL). cbn [fst].
    apply random_pauli_symplectic; assumption.
Qed.

(* ------------------------------------------------------------------ 3. tensor product of the one-qubit maps *)
Theorem random_pauli_block : forall pairs i a b, nth_error pairs i = Some (a, b) -> Forall pair1_ok pairs ->
  nth (2 * i) (random_pauli_from pairs) [] = repeat I_site i ++ a ++ repeat I_site (length pairs - i - 1) /\
  nth (2 * i + 1) (random_pauli_from pairs) [] = repeat I_site i ++ b ++ repeat I_site (length pairs - i - 1).
Proof.
  intros pairs i a b E _. rewrite random_pauli_blocks.
  exact (blocks_nth (length pairs) pairs 0 i a b E).
Qed.

(* ------------------------------------------------------------------ 4. draws -> tables is a bijection onto the block tables *)
(* injectivity needs no hypothesis on the draws at all *)
Lemma random_pauli_injective_gen : forall p q, random_pauli_from p = random_pauli_from q -> p = q.
Proof.
  intros p q H. assert (L : length p = length q).
  { pose proof (f_equal (@length pstr) H) as HL. rewrite !random_pauli_rows in HL. lia. }
  rewrite !random_pauli_blocks, L in H. exact (blocks_inj _ _ _ _ H).
Qed.

Theorem random_pauli_injective : forall p q, Forall pair1_ok p -> Forall pair1_ok q -> random_pauli_from p = random_pauli_from q -> p = q.
Proof. intros p q _ _. apply random_pauli_injective_gen. Qed.

Lemma blocks_onto : forall N k s rows, length rows = (2 * k)%nat ->
  (forall i, (i < k)%nat -> exists a b, pair1_ok (a, b) /\
     nth (2 * i) rows [] = pad N (s + i) a /\ nth (2 * i + 1) rows [] = pad N (s + i) b) ->
  exists pairs, Forall pair1_ok pairs /\ length pairs = k /\ blocks N s pairs = rows.
Proof.
  intros N. induction k as [|k IH]; intros s rows HL H.
  - exists []. destruct rows; [|discriminate HL]. repeat split. constructor.
  - destruct rows as [|r0 [|r1 rest]]; try (cbn [length] in HL; lia).
    destruct (H 0%nat ltac:(lia)) as [a [b [Pab [E0 E1]]]].
    cbn [Nat.mul Nat.add nth] in E0, E1. rewrite Nat.add_0_r in E0, E1.
    destruct (IH (S s) rest) as [pairs [F [L E]]].
    + cbn [length] in HL. lia.
    + intros i Hi. destruct (H (S i) ltac:(lia)) as [a' [b' [P' [E0' E1']]]].
      exists a', b'. split; [exact P'|].
      replace (2 * S i)%nat with (S (S (2 * i))) in E0', E1' by lia.
      replace (S (S (2 * i)) + 1)%nat with (S (S (2 * i + 1))) in E1' by lia.
      cbn [nth] in E0', E1'. replace (s + S i)%nat with (S s + i)%nat in E0', E1' by lia.
      split; assumption.
    + exists ((a, b) :: pairs). split; [constructor; assumption|]. split; [cbn [length]; lia|].
      cbn [blocks]. rewrite E, E0, E1. reflexivity.
Qed.

Theorem random_pauli_onto_block_tables : forall n rows, length rows = (2 * n)%nat ->
  (forall i, (i < n)%nat -> exists a b, pair1_ok (a, b) /\ nth (2 * i) rows [] = repeat I_site i ++ a ++ repeat I_site (n - i - 1) /\ nth (2 * i + 1) rows [] = repeat I_site i ++ b ++ repeat I_site (n - i - 1)) ->
  exists pairs, Forall pair1_ok pairs /\ length pairs = n /\ random_pauli_from pairs = rows.
Proof.
  intros n rows HL H. destruct (blocks_onto n n 0 rows HL H) as [pairs [F [L E]]].
  exists pairs. split; [exact F|]. split; [exact L|]. rewrite random_pauli_blocks, L. exact E.
Qed.

(* ------------------------------------------------------------------ 5. the one-qubit factor *)
Theorem one_qubit_pairs_count : length (filter (fun p : pstr * pstr => Z.eqb (acq (fst p) (snd p)) 1) (list_prod (all_strs 1) (all_strs 1))) = 6%nat.
Proof. vm_compute. reflexivity. Qed.

(* ------------------------------------------------------------------ 6. the state of such a map *)
Theorem random_pauli_state_valid : forall pairs phases r, Forall pair1_ok pairs -> length phases = (2 * length pairs)%nat -> Forall (fun p => p = 0 \/ p = 2) phases -> (r <= length pairs)%nat ->
  tableau_ok (length pairs) (to_state (combine (random_pauli_from pairs) phases) r).
Proof.
  intros pairs phases r F HL HP Hr. apply to_state_ok; [|exact Hr].
  apply random_pauli_map_valid; assumption.
Qed.

Print Assumptions random_pauli_symplectic.
Print Assumptions random_pauli_row_length.
Print Assumptions random_pauli_map_valid.
Print Assumptions random_pauli_block.
Print Assumptions random_pauli_injective.
Print Assumptions random_pauli_injective_gen.
Print Assumptions random_pauli_onto_block_tables.
Print Assumptions one_qubit_pairs_count.
Print Assumptions random_pauli_state_valid.
