(* Proofs/CompileFacts.v -- composing and compiling circuits keep the action; backward is the exact inverse of forward. *)
From Coq Require Import ZArith List Bool Lia ZifyBool Arith.
From PC Require Import Gen.Kernels Model.Base Model.Pauli Model.Ket Model.Z2 Model.CMap Model.Circuit Model.Spec
  Proofs.PauliFacts Proofs.Rotate Proofs.Transform Proofs.CircuitFacts Proofs.MaskFacts Proofs.InverseFacts.
Import ListNotations.
Open Scope Z_scope.
Ltac Zify.zify_post_hook ::= Z.to_euclidean_division_equations.

(* ------------------------------------------------------------------ vocabulary *)
Definition gate_proper (n : nat) (g : gate) : Prop :=
  gate_ok n g /\
  match gk g with
  | GGen gen => wf (length (gq g)) gen /\ hermP gen
  | GMap (Some f) None => valid_map (length (gq g)) f
  | GMap None (Some b) => valid_map (length (gq g)) b
  | GMap (Some f) (Some b) => valid_map (length (gq g)) f /\ inverse f = Some b
  | GMap None None => False
  end.
Definition layer_ok (n : nat) (ly : layer) : Prop :=
  lmaps ly = None /\ Forall (gate_proper n) (lgates ly) /\
  ForallOrdPairs (fun g h => gate_indep g h = true) (lgates ly).

Lemma gate_proper_ok : forall n g, gate_proper n g -> gate_ok n g.
Proof. intros n g [H _]. exact H. Qed.

Lemma Forall_proper_ok : forall n gs, Forall (gate_proper n) gs -> Forall (gate_ok n) gs.
Proof. intros n gs H. eapply Forall_impl; [|exact H]. apply gate_proper_ok. Qed.

(* ------------------------------------------------------------------ C09: composing circuits *)
Lemma gates_of_app : forall p1 p2, gates_of (p1 ++ p2) = gates_of p1 ++ gates_of p2.
Proof. intros. unfold gates_of. apply flat_map_app. Qed.

Lemma no_measure_app : forall p1 p2, no_measure p1 -> no_measure p2 -> no_measure (p1 ++ p2).
Proof. intros p1 p2 H1 H2. unfold no_measure. apply Forall_app. split; assumption. Qed.

Theorem compose_sem : forall n p1 p2 l, no_measure p1 -> no_measure p2 ->
  Forall (gate_ok n) (gates_of p1) -> Forall (gate_ok n) (gates_of p2) -> Forall (wf n) l ->
  circuit_forward n (only_layers (circ_build (p1 ++ p2))) l
  = match circuit_forward n (only_layers (circ_build p1)) l with
    | Some l' => circuit_forward n (only_layers (circ_build p2)) l' | None => None end.
Proof.
  intros n p1 p2 l M1 M2 G1 G2 Hl.
  rewrite (program_sem n (p1 ++ p2) l) by
    (first [exact Hl | apply no_measure_app; assumption | rewrite gates_of_app; apply Forall_app; split; assumption]).
  rewrite (program_sem n p1 l M1 G1 Hl). rewrite gates_of_app. unfold run_gates at 1. rewrite opt_fold_app.
  fold (run_gates n (gates_of p1) l).
  destruct (run_gates n (gates_of p1) l) as [l'|] eqn:E; cbn [obind]; [|reflexivity].
  symmetry. apply program_sem; try assumption. apply (run_gates_wf n _ l l' G1 Hl E).
Qed.

(* ------------------------------------------------------------------ compiling a proper gate *)
Lemma rotation_inverse : forall k gen, wf k gen -> hermP gen ->
  inverse (rotation_map gen) = Some (rotation_map (pneg gen)).
Proof.
  intros k gen W H.
  pose proof (wf_pneg k gen W) as W'. pose proof (hermP_pneg gen H) as H'.
  apply (inverse_unique k); [apply rotation_map_valid; assumption | apply rotation_map_valid; assumption |].
  unfold compose, pauli_transform. unfold rotation_map at 2. unfold clifford_rotate.
  change (length (fst (pneg gen))) with (length (fst gen)).
  destruct W as [Lg Rg]. rewrite Lg. rewrite map_map.
  transitivity (map (fun a : pauli => a) (identity_map k)); [|apply map_id].
  apply map_ext_in. intros a Ha.
  assert (Wa : wf k a).
  { pose proof (valid_rows_wf k _ (identity_valid k)) as F. rewrite Forall_forall in F. apply F, Ha. }
  rewrite (rotation_map_acts k); [apply (rotate_inverse_neg k) | | | apply rotate_wf]; try assumption; split; assumption.
Qed.

Theorem gate_compile_ok : forall n g, gate_proper n g -> exists f b, gate_compile g = Some (f, b) /\
  valid_map (length (gq g)) f /\ valid_map (length (gq g)) b /\ inverse f = Some b.
Proof.
  intros n g [Hok HP]. unfold gate_compile. destruct (gk g) as [gen|[f|] [b|]]; cbn [opt_or_inv].
  - destruct HP as [W H]. exists (rotation_map gen), (rotation_map (pneg gen)).
    split; [reflexivity|]. split; [apply rotation_map_valid; assumption|].
    split; [apply rotation_map_valid; [apply wf_pneg; exact W | apply hermP_pneg; exact H]|].
    apply (rotation_inverse _ gen W H).
  - destruct HP as [V I]. exists f, b. split; [reflexivity|]. split; [exact V|]. split; [|exact I].
    apply (inverse_valid _ f b V I).
  - destruct (inverse_exists _ f HP) as [b I]. rewrite I. exists f, b. split; [reflexivity|].
    split; [exact HP|]. split; [|exact I]. apply (inverse_valid _ f b HP I).
  - destruct (inverse_exists _ b HP) as [f I]. rewrite I. exists f, b. split; [reflexivity|].
    split; [apply (inverse_valid _ b f HP I)|]. split; [exact HP|]. apply (inverse_involutive _ b f HP I).
  - destruct HP.
Qed.

(* ------------------------------------------------------------------ masks of gates *)
Lemma count_true_repeat_false : forall n, count_true (repeat false n) = 0%nat.
Proof. induction n as [|n IH]; [reflexivity|]. cbn [repeat]. rewrite count_true_cons_f. exact IH. Qed.

Lemma count_true_upd : forall m q, nth q m false = false -> (q < length m)%nat ->
  count_true (upd m q true) = S (count_true m).
Proof.
  induction m as [|b m IH]; intros [|q] Hn Hq; cbn [length] in Hq; try lia; cbn [upd nth] in *.
  - rewrite Hn. rewrite count_true_cons_t, count_true_cons_f. reflexivity.
  - destruct b; rewrite ?count_true_cons_t, ?count_true_cons_f; rewrite IH by (try exact Hn; lia); reflexivity.
Qed.

Lemma count_true_mask_of : forall qs n, NoDup qs -> Forall (fun q => (q < n)%nat) qs ->
  count_true (mask_of qs n) = length qs.
Proof.
  induction qs as [|q qs IH]; intros n ND HF; cbn [mask_of length].
  - apply count_true_repeat_false.
  - inversion_clear ND as [|? ? Hq ND']. inversion_clear HF as [|? ? Hqn HF'].
    rewrite count_true_upd; [rewrite IH by assumption; reflexivity | | rewrite mask_of_length; exact Hqn].
    destruct (nth q (mask_of qs n) false) eqn:E; [|reflexivity].
    exfalso. apply Hq. apply (mask_of_nth qs n q Hqn). exact E.
Qed.

Lemma gmask_length : forall g n, length (gmask g n) = n.
Proof. intros. apply mask_of_length. Qed.

Lemma gmask_count : forall n g, gate_ok n g -> count_true (gmask g n) = length (gq g).
Proof. intros n g (ND & RG & _). apply count_true_mask_of; assumption. Qed.

Lemma gather_scatter_same : forall (A : Type) (m : list bool) (x s : list A),
  length x = length m -> length s = count_true m -> gather m (scatter m x s) = s.
Proof.
  induction m as [|[|] m IH]; intros [|a x] s Hx Hs; try discriminate Hx.
  - rewrite count_true_nil in Hs. destruct s; [reflexivity | discriminate Hs].
  - rewrite count_true_cons_t in Hs. destruct s as [|t s]; [discriminate Hs|].
    cbn [scatter gather]. f_equal. apply IH; cbn [length] in *; lia.
  - rewrite count_true_cons_f in Hs. cbn [scatter gather]. apply IH; cbn [length] in *; lia.
Qed.

Lemma scatter_scatter_gather : forall (A : Type) (m : list bool) (x s : list A),
  scatter m (scatter m x s) (gather m x) = x.
Proof.
  induction m as [|[|] m IH]; intros [|a x] s; try reflexivity.
  - destruct s as [|t s]; cbn [scatter gather]; f_equal; apply IH.
  - cbn [scatter gather]. f_equal. apply IH.
Qed.

(* the masked transforms by mutually inverse maps cancel *)
Lemma tm_cancel1 : forall N k mk fm bm a, length mk = N -> count_true mk = k ->
  valid_map k fm -> valid_map k bm -> (forall c, wf k c -> transform1 bm (transform1 fm c) = c) -> wf N a ->
  transform1_masked bm mk (transform1_masked fm mk a) = a.
Proof.
  intros N k mk fm bm [x p] Hm Hc Vf Vb HC Wa.
  pose proof (gathered_wf N k mk (x, p) Hm Hc Wa) as Wg. cbn [fst snd] in Wg.
  destruct Wa as [Lx Rp]. cbn [fst snd] in Lx, Rp.
  unfold transform1_masked. cbn [fst snd].
  pose proof (HC _ Wg) as E.
  assert (Wr : wf k (transform1 fm (gather mk x, p))) by (apply (transform_wf k fm _ Vf); apply Wg).
  destruct (transform1 fm (gather mk x, p)) as [rx rp]. destruct Wr as [Lr _]. cbn [fst snd] in *.
  rewrite gather_scatter_same; [| len | len].
  change (@pair (list site) Z rx rp) with (@pair pstr Z rx rp). rewrite E. cbn [fst snd]. rewrite scatter_scatter_gather. reflexivity.
Qed.

Lemma tm_cancel : forall N k mk fm bm a, length mk = N -> count_true mk = k ->
  valid_map k fm -> valid_map k bm -> inverse fm = Some bm -> wf N a ->
  transform1_masked bm mk (transform1_masked fm mk a) = a /\ transform1_masked fm mk (transform1_masked bm mk a) = a.
Proof.
  intros N k mk fm bm a Hm Hc Vf Vb I Wa. split.
  - apply (tm_cancel1 N k); try assumption. intros c Wc. apply (transform_inverse_cancel k fm bm c Vf I Wc).
  - apply (tm_cancel1 N k); try assumption. intros c Wc. apply (transform_inverse_cancel k fm bm c Vf I Wc).
Qed.

(* ------------------------------------------------------------------ the reversed gate: backward g = forward (ginv g) *)
Definition ginv (g : gate) : gate :=
  {| gq := gq g; gk := match gk g with GGen gen => GGen (pneg gen) | GMap f b => GMap b f end |}.

Lemma ginv_ok : forall n g, gate_ok n g -> gate_ok n (ginv g).
Proof.
  intros n g (ND & RG & SH). unfold gate_ok, ginv; cbn [gq gk]. split; [exact ND|]. split; [exact RG|].
  destruct (gk g) as [gen|f b].
  - exact SH.
  - intros m [H|H]; apply SH; [right|left]; exact H.
Qed.

Lemma ginv_proper : forall n g, gate_proper n g -> gate_proper n (ginv g).
Proof.
  intros n g [Hok HP]. split; [apply ginv_ok; exact Hok|]. unfold ginv; cbn [gq gk].
  destruct (gk g) as [gen|[f|] [b|]].
  - destruct HP as [W H]. split; [apply wf_pneg; exact W | apply hermP_pneg; exact H].
  - destruct HP as [V I]. split; [apply (inverse_valid _ f b V I) | apply (inverse_involutive _ f b V I)].
  - exact HP.
  - exact HP.
  - exact HP.
Qed.

Lemma gate_backward_ginv : forall n g l, gate_ok n g -> Forall (wf n) l ->
  gate_backward n g l = gate_forward n (ginv g) l.
Proof.
  intros n g l Hok Hl. destruct (gk g) as [gen|f b] eqn:EK.
  - unfold gate_backward, gate_forward, ginv, gate_n. cbn [gk gq]. rewrite EK. reflexivity.
  - rewrite (gate_forward_masked n (ginv g) l (ginv_ok n g Hok) Hl).
    unfold gate_backward, gate_kernel, ginv. cbn [gk gq]. rewrite EK.
    destruct (opt_or_inv b f); reflexivity.
Qed.

Lemma gate_forward_tm : forall n g fm bm l, gate_proper n g -> gate_compile g = Some (fm, bm) -> Forall (wf n) l ->
  gate_forward n g l = Some (map (transform1_masked fm (gmask g n)) l).
Proof.
  intros n g fm bm l [Hok HP] HC Hl. rewrite gate_forward_masked by assumption.
  unfold gate_kernel. unfold gate_compile in HC. destruct (gk g) as [gen|f b].
  - injection HC as <- <-. f_equal. apply map_ext_in. intros a Ha. destruct HP as [W H].
    rewrite Forall_forall in Hl. specialize (Hl a Ha).
    unfold masked, transform1_masked. cbv zeta.
    rewrite (rotation_map_acts (length (gq g)) gen _ W H); [reflexivity|].
    apply (gathered_wf n); [apply gmask_length | apply gmask_count; exact Hok | exact Hl].
  - destruct (opt_or_inv f b) as [m|]; [|discriminate HC]. destruct (opt_or_inv b f) as [m'|]; [|discriminate HC].
    injection HC as <- <-. reflexivity.
Qed.

Lemma compile_ginv : forall g fm bm, gate_compile g = Some (fm, bm) -> exists x, gate_compile (ginv g) = Some (bm, x).
Proof.
  intros g fm bm HC. unfold gate_compile, ginv in *. cbn [gk]. destruct (gk g) as [gen|f b].
  - injection HC as <- <-. eexists. reflexivity.
  - destruct (opt_or_inv f b) as [m|]; [|discriminate HC]. destruct (opt_or_inv b f) as [m'|]; [|discriminate HC].
    injection HC as <- <-. eexists. reflexivity.
Qed.

Lemma gate_backward_tm : forall n g fm bm l, gate_proper n g -> gate_compile g = Some (fm, bm) -> Forall (wf n) l ->
  gate_backward n g l = Some (map (transform1_masked bm (gmask g n)) l).
Proof.
  intros n g fm bm l HP HC Hl. rewrite gate_backward_ginv by (try exact Hl; apply gate_proper_ok; exact HP).
  destruct (compile_ginv g fm bm HC) as [x Hx].
  exact (gate_forward_tm n (ginv g) bm x l (ginv_proper n g HP) Hx Hl).
Qed.

Lemma gate_backward_wf : forall n g l l', gate_ok n g -> Forall (wf n) l -> gate_backward n g l = Some l' -> Forall (wf n) l'.
Proof.
  intros n g l l' Hok Hl H. rewrite gate_backward_ginv in H by assumption.
  apply (gate_forward_wf n (ginv g) l l' (ginv_ok n g Hok) Hl H).
Qed.

Lemma map_cancel : forall (F G : pauli -> pauli) n l, Forall (wf n) l -> (forall a, wf n a -> G (F a) = a) ->
  map G (map F l) = l.
Proof.
  intros F G n l Hl H. rewrite map_map. transitivity (map (fun a : pauli => a) l); [|apply map_id].
  apply map_ext_in. intros a Ha. rewrite Forall_forall in Hl. apply H, Hl, Ha.
Qed.

(* ------------------------------------------------------------------ C10 for one gate *)
Theorem gate_backward_forward : forall n g l l', gate_proper n g -> Forall (wf n) l ->
  gate_forward n g l = Some l' -> gate_backward n g l' = Some l.
Proof.
  intros n g l l' HP Hl HF. pose proof (gate_proper_ok n g HP) as Hok.
  destruct (gate_compile_ok n g HP) as (fm & bm & HC & Vf & Vb & I).
  pose proof (gate_forward_wf n g l l' Hok Hl HF) as Hl'.
  rewrite (gate_backward_tm n g fm bm l' HP HC Hl').
  rewrite (gate_forward_tm n g fm bm l HP HC Hl) in HF. injection HF as <-.
  f_equal. apply (map_cancel _ _ n); [exact Hl|]. intros a Wa.
  exact (proj1 (tm_cancel n (length (gq g)) (gmask g n) fm bm a (gmask_length g n) (gmask_count n g Hok) Vf Vb I Wa)).
Qed.

Theorem gate_forward_backward : forall n g l l', gate_proper n g -> Forall (wf n) l ->
  gate_backward n g l = Some l' -> gate_forward n g l' = Some l.
Proof.
  intros n g l l' HP Hl HF. pose proof (gate_proper_ok n g HP) as Hok.
  destruct (gate_compile_ok n g HP) as (fm & bm & HC & Vf & Vb & I).
  pose proof (gate_backward_wf n g l l' Hok Hl HF) as Hl'.
  rewrite (gate_forward_tm n g fm bm l' HP HC Hl').
  rewrite (gate_backward_tm n g fm bm l HP HC Hl) in HF. injection HF as <-.
  f_equal. apply (map_cancel _ _ n); [exact Hl|]. intros a Wa.
  exact (proj2 (tm_cancel n (length (gq g)) (gmask g n) fm bm a (gmask_length g n) (gmask_count n g Hok) Vf Vb I Wa)).
Qed.

(* ------------------------------------------------------------------ circ_build keeps the layer invariant *)
Definition lay_ok' (n : nat) (c : clayer) : Prop :=
  match c with CL ly => layer_ok n ly | ML _ => False end.

Lemma FOP_snoc : forall (A : Type) (R : A -> A -> Prop) l x,
  ForallOrdPairs R l -> Forall (fun a => R a x) l -> ForallOrdPairs R (l ++ [x]).
Proof.
  intros A R l x H. induction H as [|a l Ha Hl IH]; intros HF; cbn [app].
  - constructor; constructor.
  - inversion_clear HF as [|? ? Hax HF']. constructor.
    + apply Forall_app. split; [exact Ha | constructor; [exact Hax | constructor]].
    + apply IH. exact HF'.
Qed.

Lemma layer_add_ok' : forall n cur g, layer_ok n cur -> gate_proper n g -> layer_indep cur g = true ->
  layer_ok n (layer_add cur g).
Proof.
  intros n cur g (Hm & HG & HP) Hg HI. split; [exact Hm|]. cbn [layer_add lgates]. split.
  - apply Forall_app. split; [exact HG | constructor; [exact Hg | constructor]].
  - apply FOP_snoc; [exact HP|]. unfold layer_indep in HI. rewrite forallb_forall in HI.
    apply Forall_forall. exact HI.
Qed.

Lemma layer_take_ok' : forall n g rl, Forall (lay_ok' n) rl -> gate_proper n g ->
  match rl with CL cur :: _ => layer_indep cur g = true | _ => False end ->
  Forall (lay_ok' n) (layer_take rl g).
Proof.
  intros n g. induction rl as [|c rl IH]; intros HI Hg Hhead; [destruct Hhead|].
  destruct c as [cur|q]; [|destruct Hhead].
  inversion_clear HI as [|? ? Hc HI'].
  destruct rl as [|[pl|q] rest].
  - cbn [layer_take]. constructor; [apply layer_add_ok'; assumption | constructor].
  - rewrite layer_take_cons2. destruct (layer_indep pl g) eqn:EP.
    + constructor; [exact Hc | apply IH; [exact HI' | exact Hg | reflexivity]].
    + constructor; [apply layer_add_ok'; assumption | exact HI'].
  - cbn [layer_take]. constructor; [apply layer_add_ok'; assumption | exact HI'].
Qed.

Lemma circ_take_ok' : forall n g rl, Forall (lay_ok' n) rl -> gate_proper n g -> Forall (lay_ok' n) (circ_take rl g).
Proof.
  intros n g rl HI Hg.
  assert (HN : Forall (lay_ok' n) (new_layer g :: rl)).
  { constructor; [|exact HI]. split; [reflexivity|]. cbn [lgates]. split.
    - constructor; [exact Hg | constructor].
    - constructor; constructor. }
  unfold circ_take. destruct rl as [|[last|q] rest]; try exact HN.
  destruct (layer_indep last g) eqn:E; [apply layer_take_ok'; assumption | exact HN].
Qed.

Lemma build_ok' : forall n prog rl, no_measure prog -> Forall (gate_proper n) (gates_of prog) -> Forall (lay_ok' n) rl ->
  Forall (lay_ok' n) (fold_left bstep prog rl).
Proof.
  induction prog as [|i prog IH]; intros rl HM HG HI; cbn [fold_left]; [exact HI|].
  inversion_clear HM as [|? ? Hi HM']. destruct i as [g|q]; [|destruct Hi].
  unfold gates_of in HG. cbn [flat_map app] in HG. inversion_clear HG as [|? ? Hg HG'].
  apply IH; [exact HM' | exact HG' |]. cbn [bstep]. apply circ_take_ok'; assumption.
Qed.

Lemma only_layers_ok : forall n rl, Forall (lay_ok' n) rl -> Forall (layer_ok n) (only_layers rl).
Proof.
  intros n rl H. induction H as [|c rl Hc _ IH]; [constructor|].
  destruct c as [ly|q]; [|destruct Hc]. unfold only_layers. cbn [flat_map app]. constructor; [exact Hc | exact IH].
Qed.

Theorem build_layers_ok : forall n prog, no_measure prog -> Forall (gate_proper n) (gates_of prog) ->
  Forall (layer_ok n) (only_layers (circ_build prog)).
Proof.
  intros n prog HM HG. rewrite circ_build_eq. apply only_layers_ok. apply Forall_rev.
  apply build_ok'; [exact HM | exact HG |].
  constructor; [|constructor]. split; [reflexivity|]. cbn [lgates]. split; constructor.
Qed.

(* ------------------------------------------------------------------ C10 for layers: disjoint gates can be undone in the same order *)
Definition run_back (n : nat) (gs : list gate) (l : plist) : option plist :=
  opt_fold (fun acc g => gate_backward n g acc) gs l.

Lemma run_back_ginv : forall n gs l, Forall (gate_ok n) gs -> Forall (wf n) l ->
  run_back n gs l = run_gates n (map ginv gs) l.
Proof.
  induction gs as [|g gs IH]; intros l HG Hl; [reflexivity|].
  inversion_clear HG as [|? ? Hg HG']. unfold run_back, run_gates. cbn [map opt_fold].
  rewrite gate_backward_ginv by assumption.
  destruct (gate_forward n (ginv g) l) as [l1|] eqn:E; [|reflexivity].
  apply IH; [exact HG'|]. apply (gate_forward_wf n (ginv g) l l1 (ginv_ok n g Hg) Hl E).
Qed.

Lemma disjointb_sym : forall a b, disjointb a b = true -> disjointb b a = true.
Proof.
  intros a b H. unfold disjointb. apply forallb_forall. intros x Hx.
  destruct (existsb (Nat.eqb x) a) eqn:E; [|reflexivity].
  apply existsb_exists in E. destruct E as [y [Hy Exy]]. apply Nat.eqb_eq in Exy. subst y.
  exfalso. apply (disjointb_spec a b x H Hy Hx).
Qed.

Section RunInverse.
  Variable n : nat.
  Variable R : gate -> gate -> Prop.
  Hypothesis HR : forall g h, R g h -> gq h = gq g /\ gate_ok n g /\ gate_ok n h /\
    forall l l', Forall (wf n) l -> gate_forward n g l = Some l' -> gate_forward n h l' = Some l.

  Lemma rel_ok_l : forall gs hs, Forall2 R gs hs -> Forall (gate_ok n) gs.
  Proof. intros gs hs H. induction H as [|g h gs hs Hgh _ IH]; constructor; [apply (HR g h Hgh) | exact IH]. Qed.
  Lemma rel_ok_r : forall gs hs, Forall2 R gs hs -> Forall (gate_ok n) hs.
  Proof. intros gs hs H. induction H as [|g h gs hs Hgh _ IH]; constructor; [apply (HR g h Hgh) | exact IH]. Qed.

  Lemma rel_indep : forall g h gs hs, gq h = gq g -> Forall2 R gs hs -> Forall (fun x => gate_indep g x = true) gs ->
    forallb (fun h' => gate_indep h' h) hs = true.
  Proof.
    intros g h gs hs EQ H. induction H as [|g' h' gs hs Hgh _ IH]; intros HF; [reflexivity|].
    inversion_clear HF as [|? ? Hi HF']. cbn [forallb]. rewrite (IH HF'), andb_true_r.
    destruct (HR g' h' Hgh) as (EQ' & _). unfold gate_indep in *. rewrite EQ, EQ'. apply disjointb_sym. exact Hi.
  Qed.

  Lemma run_inverse : forall gs hs, Forall2 R gs hs -> ForallOrdPairs (fun g h => gate_indep g h = true) gs ->
    forall l l', Forall (wf n) l -> run_gates n gs l = Some l' -> run_gates n hs l' = Some l.
  Proof.
    intros gs hs H2. induction H2 as [|g h gs hs Hgh H2 IH]; intros HP l l' Hl H.
    - injection H as <-. reflexivity.
    - inversion_clear HP as [|? ? Hg HP']. destruct (HR g h Hgh) as (EQ & Og & Oh & INV).
      rewrite run_gates_cons in H. destruct (gate_forward n g l) as [l1|] eqn:E1; [|discriminate H]. cbn [obind] in H.
      pose proof (gate_forward_wf n g l l1 Og Hl E1) as Hl1.
      pose proof (run_gates_wf n gs l1 l' (rel_ok_l gs hs H2) Hl1 H) as Hl'.
      rewrite run_gates_cons.
      rewrite (gates_slide n h hs l' Oh (rel_ok_r gs hs H2) (rel_indep g h gs hs EQ H2 Hg) Hl').
      rewrite (IH HP' l1 l' Hl1 H). cbn [obind]. apply (INV l l1 Hl E1).
  Qed.
End RunInverse.

Lemma FOP_map_ginv : forall gs, ForallOrdPairs (fun g h => gate_indep g h = true) gs ->
  ForallOrdPairs (fun g h => gate_indep g h = true) (map ginv gs).
Proof.
  intros gs H. induction H as [|g gs Hg _ IH]; cbn [map]; constructor; [|exact IH].
  apply Forall_map. exact Hg.
Qed.

Lemma run_gates_back : forall n gs l l', Forall (gate_proper n) gs ->
  ForallOrdPairs (fun g h => gate_indep g h = true) gs -> Forall (wf n) l ->
  run_gates n gs l = Some l' -> run_back n gs l' = Some l.
Proof.
  intros n gs l l' HG HP Hl H. pose proof (Forall_proper_ok n gs HG) as HO.
  rewrite run_back_ginv; [|exact HO | apply (run_gates_wf n gs l l' HO Hl H)].
  apply (run_inverse n (fun g h => gate_proper n g /\ h = ginv g)) with (gs := gs) (l := l); try assumption.
  - intros g h [Pg ->]. pose proof (gate_proper_ok n g Pg) as Og.
    split; [reflexivity|]. split; [exact Og|]. split; [apply ginv_ok; exact Og|].
    intros x x' Hx E. rewrite <- gate_backward_ginv; [|exact Og | apply (gate_forward_wf n g x x' Og Hx E)].
    apply gate_backward_forward; assumption.
  - clear -HG. induction HG as [|g gs Hg _ IH]; cbn [map]; constructor; [split; [exact Hg | reflexivity] | exact IH].
Qed.

Lemma run_back_gates : forall n gs l l', Forall (gate_proper n) gs ->
  ForallOrdPairs (fun g h => gate_indep g h = true) gs -> Forall (wf n) l ->
  run_back n gs l = Some l' -> run_gates n gs l' = Some l.
Proof.
  intros n gs l l' HG HP Hl H. pose proof (Forall_proper_ok n gs HG) as HO.
  rewrite run_back_ginv in H by assumption.
  apply (run_inverse n (fun g h => gate_proper n h /\ g = ginv h)) with (gs := map ginv gs) (l := l); try assumption.
  - intros g h [Ph ->]. pose proof (gate_proper_ok n h Ph) as Oh.
    split; [reflexivity|]. split; [apply ginv_ok; exact Oh|]. split; [exact Oh|].
    intros x x' Hx E. rewrite <- gate_backward_ginv in E by assumption.
    apply gate_forward_backward with (l := x); assumption.
  - clear -HG. induction HG as [|g gs Hg _ IH]; cbn [map]; constructor; [split; [exact Hg | reflexivity] | exact IH].
  - apply FOP_map_ginv. exact HP.
Qed.

Lemma run_back_wf : forall n gs l l', Forall (gate_ok n) gs -> Forall (wf n) l -> run_back n gs l = Some l' -> Forall (wf n) l'.
Proof.
  intros n gs l l' HO Hl H. rewrite run_back_ginv in H by assumption.
  apply (run_gates_wf n (map ginv gs) l l'); [|exact Hl | exact H].
  apply Forall_map. eapply Forall_impl; [|exact HO]. apply ginv_ok.
Qed.

Lemma layer_backward_plain : forall n ly l, lmaps ly = None -> layer_backward n ly l = run_back n (lgates ly) l.
Proof. intros n ly l H. unfold layer_backward. rewrite H. reflexivity. Qed.

Theorem layer_backward_forward : forall n ly l l', layer_ok n ly -> Forall (wf n) l ->
  layer_forward n ly l = Some l' -> layer_backward n ly l' = Some l.
Proof.
  intros n ly l l' (Hm & HG & HP) Hl H. rewrite layer_forward_plain in H by exact Hm.
  rewrite layer_backward_plain by exact Hm. apply run_gates_back; assumption.
Qed.

Theorem layer_forward_backward : forall n ly l l', layer_ok n ly -> Forall (wf n) l ->
  layer_backward n ly l = Some l' -> layer_forward n ly l' = Some l.
Proof.
  intros n ly l l' (Hm & HG & HP) Hl H. rewrite layer_backward_plain in H by exact Hm.
  rewrite layer_forward_plain by exact Hm. apply run_back_gates; assumption.
Qed.

Lemma layer_forward_wf : forall n ly l l', layer_ok n ly -> Forall (wf n) l -> layer_forward n ly l = Some l' -> Forall (wf n) l'.
Proof.
  intros n ly l l' (Hm & HG & HP) Hl H. rewrite layer_forward_plain in H by exact Hm.
  apply (run_gates_wf n _ l l' (Forall_proper_ok n _ HG) Hl H).
Qed.

Lemma layer_backward_wf : forall n ly l l', layer_ok n ly -> Forall (wf n) l -> layer_backward n ly l = Some l' -> Forall (wf n) l'.
Proof.
  intros n ly l l' (Hm & HG & HP) Hl H. rewrite layer_backward_plain in H by exact Hm.
  apply (run_back_wf n _ l l' (Forall_proper_ok n _ HG) Hl H).
Qed.

(* ------------------------------------------------------------------ C10 for circuits *)
Lemma circuit_forward_cons : forall n ly c l,
  circuit_forward n (ly :: c) l = obind (layer_forward n ly l) (circuit_forward n c).
Proof. reflexivity. Qed.

Lemma circuit_backward_cons : forall n ly c l,
  circuit_backward n (ly :: c) l = obind (circuit_backward n c l) (layer_backward n ly).
Proof.
  intros. unfold circuit_backward. cbn [rev]. rewrite opt_fold_app.
  destruct (opt_fold _ (rev c) l) as [l1|]; cbn [obind opt_fold]; [|reflexivity].
  destruct (layer_backward n ly l1); reflexivity.
Qed.

Lemma circuit_forward_wf : forall n c l l', Forall (layer_ok n) c -> Forall (wf n) l ->
  circuit_forward n c l = Some l' -> Forall (wf n) l'.
Proof.
  induction c as [|ly c IH]; intros l l' HC Hl H.
  - injection H as <-. exact Hl.
  - inversion_clear HC as [|? ? Hly HC']. rewrite circuit_forward_cons in H.
    destruct (layer_forward n ly l) as [l1|] eqn:E; [|discriminate H]. cbn [obind] in H.
    apply (IH l1 l' HC' (layer_forward_wf n ly l l1 Hly Hl E) H).
Qed.

Lemma circuit_backward_wf : forall n c l l', Forall (layer_ok n) c -> Forall (wf n) l ->
  circuit_backward n c l = Some l' -> Forall (wf n) l'.
Proof.
  induction c as [|ly c IH]; intros l l' HC Hl H.
  - injection H as <-. exact Hl.
  - inversion_clear HC as [|? ? Hly HC']. rewrite circuit_backward_cons in H.
    destruct (circuit_backward n c l) as [l1|] eqn:E; [|discriminate H]. cbn [obind] in H.
    apply (layer_backward_wf n ly l1 l' Hly (IH l l1 HC' Hl E) H).
Qed.

Theorem circuit_backward_forward : forall n c l l', Forall (layer_ok n) c -> Forall (wf n) l ->
  circuit_forward n c l = Some l' -> circuit_backward n c l' = Some l.
Proof.
  induction c as [|ly c IH]; intros l l' HC Hl H.
  - injection H as <-. reflexivity.
  - inversion_clear HC as [|? ? Hly HC']. rewrite circuit_forward_cons in H.
    destruct (layer_forward n ly l) as [l1|] eqn:E; [|discriminate H]. cbn [obind] in H.
    rewrite circuit_backward_cons.
    rewrite (IH l1 l' HC' (layer_forward_wf n ly l l1 Hly Hl E) H). cbn [obind].
    apply (layer_backward_forward n ly l l1 Hly Hl E).
Qed.

Theorem circuit_forward_backward : forall n c l l', Forall (layer_ok n) c -> Forall (wf n) l ->
  circuit_backward n c l = Some l' -> circuit_forward n c l' = Some l.
Proof.
  induction c as [|ly c IH]; intros l l' HC Hl H.
  - injection H as <-. reflexivity.
  - inversion_clear HC as [|? ? Hly HC']. rewrite circuit_backward_cons in H.
    destruct (circuit_backward n c l) as [l1|] eqn:E; [|discriminate H]. cbn [obind] in H.
    pose proof (circuit_backward_wf n c l l1 HC' Hl E) as Hl1.
    rewrite circuit_forward_cons. rewrite (layer_forward_backward n ly l1 l' Hly Hl1 H). cbn [obind].
    apply (IH l l1 HC' Hl E).
Qed.

(* ------------------------------------------------------------------ a proper gate acts as its embedded compiled map *)
Lemma pauli_transform_wf : forall n m l, valid_map n m -> Forall (wf n) l -> Forall (wf n) (pauli_transform m l).
Proof.
  intros n m l V Hl. unfold pauli_transform. apply Forall_map. eapply Forall_impl; [|exact Hl].
  intros a Wa. apply (transform_wf n m a V). apply Wa.
Qed.

Lemma pauli_transform_compose : forall n A B l, valid_map n A -> valid_map n B -> Forall (wf n) l ->
  pauli_transform (compose A B) l = pauli_transform B (pauli_transform A l).
Proof.
  intros n A B l VA VB Hl. unfold pauli_transform. rewrite map_map. apply map_ext_in. intros a Ha.
  rewrite Forall_forall in Hl. apply (transform_compose n A B a VA VB). apply (Hl a Ha).
Qed.

Lemma pauli_transform_identity : forall n l, Forall (wf n) l -> pauli_transform (identity_map n) l = l.
Proof.
  intros n l Hl. unfold pauli_transform. transitivity (map (fun a : pauli => a) l); [|apply map_id].
  apply map_ext_in. intros a Ha. rewrite Forall_forall in Hl. apply transform_identity. apply (Hl a Ha).
Qed.

Lemma tm_list_embed : forall n k mk m l, length mk = n -> count_true mk = k -> valid_map k m -> Forall (wf n) l ->
  map (transform1_masked m mk) l = pauli_transform (embed (identity_map n) m mk) l.
Proof.
  intros n k mk m l Hm Hc V Hl. unfold pauli_transform. apply map_ext_in. intros a Ha.
  rewrite Forall_forall in Hl. apply (transform_masked_embed n k mk m a Hm Hc V). apply (Hl a Ha).
Qed.

Theorem gate_forward_is_embedded_map : forall n g f b l, gate_proper n g -> gate_compile g = Some (f, b) -> Forall (wf n) l ->
  gate_forward n g l = Some (pauli_transform (embed (identity_map n) f (gmask g n)) l).
Proof.
  intros n g f b l HP HC Hl. pose proof (gate_proper_ok n g HP) as Hok.
  destruct (gate_compile_ok n g HP) as (fm & bm & HC' & Vf & Vb & I).
  rewrite HC in HC'. injection HC' as <- <-.
  rewrite (gate_forward_tm n g f b l HP HC Hl). f_equal.
  apply (tm_list_embed n (length (gq g))); [apply gmask_length | apply gmask_count; exact Hok | exact Vf | exact Hl].
Qed.

Lemma gate_backward_is_embedded_map : forall n g f b l, gate_proper n g -> gate_compile g = Some (f, b) -> Forall (wf n) l ->
  gate_backward n g l = Some (pauli_transform (embed (identity_map n) b (gmask g n)) l).
Proof.
  intros n g f b l HP HC Hl. pose proof (gate_proper_ok n g HP) as Hok.
  destruct (gate_compile_ok n g HP) as (fm & bm & HC' & Vf & Vb & I).
  rewrite HC in HC'. injection HC' as <- <-.
  rewrite (gate_backward_tm n g f b l HP HC Hl). f_equal.
  apply (tm_list_embed n (length (gq g))); [apply gmask_length | apply gmask_count; exact Hok | exact Vb | exact Hl].
Qed.

(* ------------------------------------------------------------------ embedding into a table whose masked rows are still free *)
(* the rows of the qubits in V are the unit rows, and the other rows are the identity on V *)
Definition rows_free (N : nat) (V : list bool) (acc : cmap) : Prop :=
  gather (mask2 V) acc = gather (mask2 V) (identity_map N) /\
  Forall (fun b : pauli => gather V (fst b) = id_str (count_true V)) (gather (map negb (mask2 V)) acc).

Lemma masked_fix : forall K m a, K (gather m (fst a), snd a) = (gather m (fst a), snd a) -> masked K m a = a.
Proof.
  intros K m [x p] H. unfold masked. cbn [fst snd] in *. rewrite H. cbn [fst snd]. rewrite scatter_gather. reflexivity.
Qed.

Lemma tm_fix : forall k mk fm (b : pauli), valid_map k fm -> gather mk (fst b) = id_str k -> 0 <= snd b < 4 ->
  transform1_masked fm mk b = b.
Proof.
  intros k mk fm [x p] V H R. cbn [fst snd] in *. rewrite transform1_masked_eq. apply masked_fix. cbn [fst snd].
  rewrite H.
  transitivity (transform1 fm (pscale p (pid k))).
  - f_equal. unfold pscale, pid. cbn [fst snd]. f_equal. lia.
  - rewrite transform_scale, (transform_pid k fm V). unfold pscale, pid. cbn [fst snd]. f_equal. lia.
Qed.

Lemma mdisj_mask2 : forall m1 m2, mdisj m1 m2 = true -> mdisj (mask2 m1) (mask2 m2) = true.
Proof.
  induction m1 as [|a m1 IH]; intros [|b m2] H; rewrite ?mask2_nil, ?mask2_cons; try reflexivity.
  cbn [mdisj] in *. apply andb_true_iff in H. destruct H as [Hab H]. rewrite Hab, (IH m2 H). reflexivity.
Qed.

Lemma gather_incl_disj : forall (A : Type) (m1 m2 : list bool) (l : list A) k, length m1 = length m2 ->
  mdisj m1 m2 = true -> In k (gather m2 l) -> In k (gather (map negb m1) l).
Proof.
  induction m1 as [|a m1 IH]; intros [|b m2] l k HL HD Hk; try discriminate HL.
  - destruct Hk.
  - destruct l as [|x l]; [destruct b; destruct Hk|].
    cbn [mdisj] in HD. apply andb_true_iff in HD. destruct HD as [Hab HD]. cbn [length] in HL.
    destruct a, b; try discriminate Hab; cbn [map negb gather] in *.
    + apply (IH m2 l k); [lia | exact HD | exact Hk].
    + destruct Hk as [E|Hk]; [left; exact E | right; apply (IH m2 l k); [lia | exact HD | exact Hk]].
    + right. apply (IH m2 l k); [lia | exact HD | exact Hk].
Qed.

Lemma free_id : forall N V, length V = N -> rows_free N V (identity_map N).
Proof.
  intros N V HV. split; [reflexivity|]. unfold identity_map. rewrite gather_map. apply Forall_map.
  apply Forall_forall. intros k Hk. cbn [fst]. apply (gather_unit_unmasked N _ V k HV eq_refl Hk).
Qed.

Lemma free_step : forall N k V mk fm acc, length V = N -> length mk = N -> count_true mk = k -> valid_map k fm ->
  mdisj mk V = true -> rows_free N V acc -> rows_free N V (map (transform1_masked fm mk) acc).
Proof.
  intros N k V mk fm acc HV Hm Hc Vf HD [H1 H2]. split.
  - rewrite gather_map, H1. unfold identity_map. rewrite !gather_map, map_map. apply map_ext_in. intros j Hj.
    apply (tm_fix k); cbn [fst snd]; [exact Vf | | lia].
    apply (gather_unit_unmasked N k mk j Hm Hc).
    apply (gather_incl_disj _ (mask2 mk) (mask2 V)); [rewrite !mask2_length, Hm, HV; reflexivity | apply mdisj_mask2; exact HD | exact Hj].
  - rewrite gather_map. apply Forall_map. eapply Forall_impl; [|exact H2]. intros b Hb. cbv beta in *.
    rewrite tm_fst. rewrite gather_scatter_disj by exact HD. exact Hb.
Qed.

Lemma embed_rows : forall N n mk m, length mk = N -> count_true mk = n -> valid_map n m ->
  Forall2 (fun b s : pauli => (scatter mk (fst b) (fst s), snd s) = transform1_masked m mk b)
    (gather (mask2 mk) (identity_map N)) m.
Proof.
  intros N n mk m Hm Hc HV.
  pose proof (masked_idx_length N mk Hm) as HL. rewrite Hc in HL.
  unfold identity_map. rewrite gather_map.
  set (L := gather (mask2 mk) (seq 0 (2 * N))) in *.
  set (U := fun k : nat => (unit_str N k, 0)).
  apply (Forall2_of_nth _ _ _ _ _ (U 0%nat) (pid 0)).
  - rewrite map_length, HL. symmetry. apply HV.
  - intros j Hj. rewrite map_length, HL in Hj. rewrite (map_nth U).
    pose proof (gather_unit_masked N n mk j Hm Hc Hj) as E. fold L in E.
    unfold U, transform1_masked. cbn [fst snd]. rewrite E.
    set (r := transform1 m _).
    assert (Er : r = nth j m (pid 0)) by (apply (transform_unit n m j HV Hj)).
    rewrite Er. reflexivity.
Qed.

Lemma embed_free : forall N k mk fm acc, length mk = N -> count_true mk = k -> valid_map k fm ->
  length acc = (2 * N)%nat -> Forall (wf N) acc -> rows_free N mk acc ->
  embed acc fm mk = map (transform1_masked fm mk) acc.
Proof.
  intros N k mk fm acc Hm Hc Vf HL HW [H1 H2]. unfold embed. apply scatter_map2_gather.
  - rewrite mask2_length, Hm. exact HL.
  - rewrite Forall_forall in *. intros b Hb. apply (tm_fix k); [exact Vf | rewrite <- Hc; apply (H2 b Hb) |].
    apply (HW b). apply (gather_In _ b _ _ Hb).
  - rewrite H1. apply (embed_rows N k); assumption.
Qed.

Lemma embed_compose : forall N k mk fm acc, length mk = N -> count_true mk = k -> valid_map k fm ->
  valid_map N acc -> rows_free N mk acc ->
  embed acc fm mk = compose acc (embed (identity_map N) fm mk).
Proof.
  intros N k mk fm acc Hm Hc Vf VA HF. pose proof (valid_rows_wf N acc VA) as HW.
  rewrite (embed_free N k mk fm acc Hm Hc Vf (proj1 VA) HW HF).
  unfold compose. apply (tm_list_embed N k); assumption.
Qed.

(* ------------------------------------------------------------------ C09: compiling a layer *)
Definition cstep (n : nat) (acc : cmap * cmap) (g : gate) : option (cmap * cmap) :=
  match gate_compile g with
  | Some (fm, bm) => Some (embed (fst acc) fm (gmask g n), embed (snd acc) bm (gmask g n))
  | None => None
  end.

Lemma layer_compile_unfold : forall n ly, layer_compile n ly =
  match opt_fold (cstep n) (lgates ly) (identity_map n, identity_map n) with
  | Some fb => Some {| lgates := lgates ly; lmaps := Some fb |}
  | None => None
  end.
Proof. reflexivity. Qed.

Definition gfree (n : nat) (gs : list gate) (acc : cmap) : Prop :=
  Forall (fun g => rows_free n (gmask g n) acc) gs.

Lemma run_back_cons : forall n h gs l, run_back n (h :: gs) l = obind (gate_backward n h l) (run_back n gs).
Proof. reflexivity. Qed.

Lemma layer_fold_sem : forall n gs accF accB F B, Forall (gate_proper n) gs ->
  ForallOrdPairs (fun g h => gate_indep g h = true) gs ->
  valid_map n accF -> valid_map n accB -> gfree n gs accF -> gfree n gs accB ->
  opt_fold (cstep n) gs (accF, accB) = Some (F, B) ->
  valid_map n F /\ valid_map n B /\
  (forall l, Forall (wf n) l -> run_gates n gs (pauli_transform accF l) = Some (pauli_transform F l)) /\
  (forall l, Forall (wf n) l -> run_back n gs (pauli_transform accB l) = Some (pauli_transform B l)).
Proof.
  induction gs as [|g gs IH]; intros accF accB F B HG HP VF VB FF FB H.
  - injection H as <- <-. split; [exact VF|]. split; [exact VB|]. split; intros; reflexivity.
  - inversion_clear HG as [|? ? Pg HG']. inversion_clear HP as [|? ? Ig HP'].
    inversion_clear FF as [|? ? Fg FF']. inversion_clear FB as [|? ? Bg FB'].
    pose proof (gate_proper_ok n g Pg) as Og.
    destruct (gate_compile_ok n g Pg) as (fm & bm & HC & Vf & Vb & I).
    cbn [opt_fold] in H. unfold cstep at 1 in H. rewrite HC in H. cbn [fst snd] in H.
    assert (Hm : length (gmask g n) = n) by apply gmask_length.
    assert (Hc : count_true (gmask g n) = length (gq g)) by (apply gmask_count; exact Og).
    pose proof (embed_valid n _ (gmask g n) fm Hm Hc Vf) as VEf.
    pose proof (embed_valid n _ (gmask g n) bm Hm Hc Vb) as VEb.
    pose proof (embed_free n _ (gmask g n) fm accF Hm Hc Vf (proj1 VF) (valid_rows_wf n accF VF) Fg) as E1f.
    pose proof (embed_free n _ (gmask g n) bm accB Hm Hc Vb (proj1 VB) (valid_rows_wf n accB VB) Bg) as E1b.
    pose proof (embed_compose n _ (gmask g n) fm accF Hm Hc Vf VF Fg) as E2f.
    pose proof (embed_compose n _ (gmask g n) bm accB Hm Hc Vb VB Bg) as E2b.
    assert (FF2 : gfree n gs (embed accF fm (gmask g n))).
    { rewrite E1f. unfold gfree in *. rewrite Forall_forall in *. intros h Hh.
      apply (free_step n (length (gq g))); try assumption; [apply gmask_length | | apply FF'; exact Hh].
      apply gmask_disjoint. apply Ig. exact Hh. }
    assert (FB2 : gfree n gs (embed accB bm (gmask g n))).
    { rewrite E1b. unfold gfree in *. rewrite Forall_forall in *. intros h Hh.
      apply (free_step n (length (gq g))); try assumption; [apply gmask_length | | apply FB'; exact Hh].
      apply gmask_disjoint. apply Ig. exact Hh. }
    assert (VF2 : valid_map n (embed accF fm (gmask g n))) by (rewrite E2f; apply compose_valid; assumption).
    assert (VB2 : valid_map n (embed accB bm (gmask g n))) by (rewrite E2b; apply compose_valid; assumption).
    destruct (IH _ _ F B HG' HP' VF2 VB2 FF2 FB2 H) as (VF' & VB' & SF & SB).
    split; [exact VF'|]. split; [exact VB'|]. split.
    + intros l Hl. rewrite run_gates_cons.
      rewrite (gate_forward_is_embedded_map n g fm bm _ Pg HC) by (apply pauli_transform_wf; assumption).
      cbn [obind]. rewrite <- (pauli_transform_compose n accF _ l VF VEf Hl). rewrite <- E2f. apply SF; exact Hl.
    + intros l Hl. rewrite run_back_cons.
      rewrite (gate_backward_is_embedded_map n g fm bm _ Pg HC) by (apply pauli_transform_wf; assumption).
      cbn [obind]. rewrite <- (pauli_transform_compose n accB _ l VB VEb Hl). rewrite <- E2b. apply SB; exact Hl.
Qed.

(* everything about a compiled layer *)
Lemma layer_compile_spec : forall n ly ly', layer_ok n ly -> layer_compile n ly = Some ly' ->
  exists F B, ly' = {| lgates := lgates ly; lmaps := Some (F, B) |} /\
    valid_map n F /\ valid_map n B /\ inverse F = Some B /\
    (forall l, Forall (wf n) l -> layer_forward n ly l = Some (pauli_transform F l)) /\
    (forall l, Forall (wf n) l -> layer_backward n ly l = Some (pauli_transform B l)).
Proof.
  intros n ly ly' Hly H. pose proof Hly as (Hm & HG & HP). rewrite layer_compile_unfold in H.
  destruct (opt_fold (cstep n) (lgates ly) (identity_map n, identity_map n)) as [[F B]|] eqn:E; [|discriminate H].
  injection H as <-. exists F, B. split; [reflexivity|].
  assert (FI : gfree n (lgates ly) (identity_map n)).
  { unfold gfree. apply Forall_forall. intros g _. apply free_id. apply gmask_length. }
  destruct (layer_fold_sem n (lgates ly) _ _ F B HG HP (identity_valid n) (identity_valid n) FI FI E) as (VF & VB & SF & SB).
  assert (SF' : forall l, Forall (wf n) l -> layer_forward n ly l = Some (pauli_transform F l)).
  { intros l Hl. rewrite layer_forward_plain by exact Hm. rewrite <- (SF l Hl), pauli_transform_identity by exact Hl. reflexivity. }
  assert (SB' : forall l, Forall (wf n) l -> layer_backward n ly l = Some (pauli_transform B l)).
  { intros l Hl. rewrite layer_backward_plain by exact Hm. rewrite <- (SB l Hl), pauli_transform_identity by exact Hl. reflexivity. }
  split; [exact VF|]. split; [exact VB|]. split; [|split; assumption].
  apply (inverse_unique n F B VF VB).
  pose proof (valid_rows_wf n _ (identity_valid n)) as WI.
  pose proof (SB' _ WI) as HB. fold (compose (identity_map n) B) in HB. rewrite (compose_id_l n B VB) in HB.
  pose proof (layer_forward_backward n ly _ _ Hly WI HB) as HF.
  rewrite (SF' B (valid_rows_wf n B VB)) in HF. injection HF as HF. exact HF.
Qed.

Theorem layer_compile_sem : forall n ly ly' l, layer_ok n ly -> Forall (wf n) l ->
  layer_compile n ly = Some ly' -> layer_forward n ly' l = layer_forward n ly l.
Proof.
  intros n ly ly' l Hly Hl H. destruct (layer_compile_spec n ly ly' Hly H) as (F & B & -> & VF & VB & I & SF & SB).
  rewrite (SF l Hl). reflexivity.
Qed.

(* ------------------------------------------------------------------ C09 / C10: compiling a circuit *)
Definition ccstep (n : nat) (acc : list layer * (cmap * cmap)) (ly : layer) : option (list layer * (cmap * cmap)) :=
  match layer_compile n ly with
  | Some ly' =>
      match lmaps ly' with
      | Some (f, b) => Some (fst acc ++ [ly'], (compose (fst (snd acc)) f, compose b (snd (snd acc))))
      | None => None
      end
  | None => None
  end.

Lemma circuit_compile_unfold : forall n c, circuit_compile n c =
  match opt_fold (ccstep n) c ([], (identity_map n, identity_map n)) with Some r => Some r | None => None end.
Proof. reflexivity. Qed.

Lemma circuit_fold_sem : forall n c cs af ab cs' f b, Forall (layer_ok n) c ->
  valid_map n af -> valid_map n ab -> inverse af = Some ab ->
  opt_fold (ccstep n) c (cs, (af, ab)) = Some (cs', (f, b)) ->
  exists c'', cs' = cs ++ c'' /\ valid_map n f /\ valid_map n b /\ inverse f = Some b /\
    (forall l, Forall (wf n) l -> circuit_forward n c (pauli_transform af l) = Some (pauli_transform f l)) /\
    (forall l, Forall (wf n) l -> circuit_forward n c'' l = circuit_forward n c l).
Proof.
  induction c as [|ly c IH]; intros cs af ab cs' f b HC Vf Vb I H.
  - injection H as <- <- <-. exists []. rewrite app_nil_r.
    split; [reflexivity|]. split; [exact Vf|]. split; [exact Vb|]. split; [exact I|]. split; intros; reflexivity.
  - inversion_clear HC as [|? ? Hly HC']. cbn [opt_fold] in H. unfold ccstep at 1 in H.
    destruct (layer_compile n ly) as [ly'|] eqn:EL; [|discriminate H].
    destruct (layer_compile_spec n ly ly' Hly EL) as (F & B & -> & VF & VB & IFB & SF & SB).
    cbn [lmaps fst snd] in H.
    destruct (IH _ _ _ cs' f b HC' (compose_valid n af F Vf VF) (compose_valid n B ab VB Vb)
                (inverse_compose n af F ab B Vf VF I IFB) H) as (c3 & -> & Vf' & Vb' & I' & S1 & S2).
    exists ({| lgates := lgates ly; lmaps := Some (F, B) |} :: c3).
    split; [rewrite <- app_assoc; reflexivity|]. split; [exact Vf'|]. split; [exact Vb'|]. split; [exact I'|]. split.
    + intros l Hl. rewrite circuit_forward_cons.
      rewrite (SF _ (pauli_transform_wf n af l Vf Hl)). cbn [obind].
      rewrite <- (pauli_transform_compose n af F l Vf VF Hl). apply S1. exact Hl.
    + intros l Hl. rewrite !circuit_forward_cons. rewrite (SF l Hl).
      unfold layer_forward at 1. cbn [lmaps]. unfold transform_by. cbn [obind].
      apply S2. apply (pauli_transform_wf n F l VF Hl).
Qed.

Lemma circuit_compile_spec : forall n c c' f b, Forall (layer_ok n) c -> circuit_compile n c = Some (c', (f, b)) ->
  valid_map n f /\ valid_map n b /\ inverse f = Some b /\
  (forall l, Forall (wf n) l -> circuit_forward n c l = Some (pauli_transform f l)) /\
  (forall l, Forall (wf n) l -> circuit_forward n c' l = circuit_forward n c l).
Proof.
  intros n c c' f b HC H. rewrite circuit_compile_unfold in H.
  destruct (opt_fold (ccstep n) c ([], (identity_map n, identity_map n))) as [[cs [f' b']]|] eqn:E; [|discriminate H].
  injection H as -> -> ->.
  destruct (circuit_fold_sem n c [] _ _ c' f b HC (identity_valid n) (identity_valid n) (inverse_identity n) E)
    as (c2 & -> & Vf & Vb & I & S1 & S2).
  split; [exact Vf|]. split; [exact Vb|]. split; [exact I|]. split.
  - intros l Hl. rewrite <- (S1 l Hl), pauli_transform_identity by exact Hl. reflexivity.
  - intros l Hl. cbn [app]. apply S2. exact Hl.
Qed.

Theorem circuit_compile_sem : forall n c c' f b l, Forall (layer_ok n) c -> Forall (wf n) l ->
  circuit_compile n c = Some (c', (f, b)) ->
  Some (transform_by f None l) = circuit_forward n c l /\ circuit_forward n c' l = circuit_forward n c l.
Proof.
  intros n c c' f b l HC Hl H. destruct (circuit_compile_spec n c c' f b HC H) as (Vf & Vb & I & S1 & S2).
  split; [symmetry; apply S1; exact Hl | apply S2; exact Hl].
Qed.

Theorem compiled_backward_is_inverse : forall n c c' f b, Forall (layer_ok n) c -> circuit_compile n c = Some (c', (f, b)) ->
  valid_map n f /\ valid_map n b /\ inverse f = Some b.
Proof.
  intros n c c' f b HC H. destruct (circuit_compile_spec n c c' f b HC H) as (Vf & Vb & I & _).
  split; [exact Vf|]. split; [exact Vb | exact I].
Qed.

Theorem compiled_roundtrip : forall n c c' f b l, Forall (layer_ok n) c -> Forall (wf n) l -> circuit_compile n c = Some (c', (f, b)) ->
  transform_by b None (transform_by f None l) = l /\ transform_by f None (transform_by b None l) = l.
Proof.
  intros n c c' f b l HC Hl H. destruct (compiled_backward_is_inverse n c c' f b HC H) as (Vf & Vb & I).
  unfold transform_by, pauli_transform. split.
  - apply (map_cancel _ _ n); [exact Hl|]. intros a Wa. apply (transform_inverse_cancel n f b a Vf I Wa).
  - apply (map_cancel _ _ n); [exact Hl|]. intros a Wa. apply (transform_inverse_cancel n f b a Vf I Wa).
Qed.
