(* Proofs/MaskFacts.v -- masks / embedding, rotation maps, map <-> state duality, row-wise Clifford updates
   keep the tableau invariant. *)
From Coq Require Import ZArith List Bool Lia ZifyBool Arith.
From PC Require Import Gen.Kernels Model.Base Model.Pauli Model.Ket Model.CMap Model.Tableau Model.Spec
  Proofs.PauliFacts Proofs.Rotate Proofs.Transform.
Import ListNotations.
Open Scope Z_scope.
Ltac Zify.zify_post_hook ::= Z.to_euclidean_division_equations.

(* ------------------------------------------------------------------ list toolkit: evens / odds / interleave *)
Lemma list_ind2 : forall A (P : list A -> Prop),
  P [] -> (forall a, P [a]) -> (forall a b l, P l -> P (a :: b :: l)) -> forall l, P l.
Proof. intros A P H0 H1 H2. fix IH 1. intros [|a [|b l]]; [exact H0 | exact (H1 a) | exact (H2 a b l (IH l))]. Qed.

Lemma evens_odds_length : forall A n (l : list A), length l = (2 * n)%nat ->
  length (evens l) = n /\ length (odds l) = n.
Proof.
  intros A; induction n as [|n IH]; intros l HL.
  - destruct l; [split; reflexivity | discriminate HL].
  - destruct l as [|a [|b l]]; try (cbn [length] in HL; lia).
    cbn [evens odds length]. destruct (IH l) as [H1 H2]; [cbn [length] in HL; lia|]. split; lia.
Qed.

Lemma interleave_evens_odds : forall A n (l : list A), length l = (2 * n)%nat ->
  interleave (evens l) (odds l) = l.
Proof.
  intros A; induction n as [|n IH]; intros l HL.
  - destruct l; [reflexivity | discriminate HL].
  - destruct l as [|a [|b l]]; try (cbn [length] in HL; lia).
    cbn [evens odds interleave]. rewrite IH; [reflexivity | cbn [length] in HL; lia].
Qed.

Lemma evens_interleave : forall A (a b : list A), length a = length b -> evens (interleave a b) = a.
Proof.
  intros A; induction a as [|x a IH]; intros [|y b] HL; try discriminate HL; [reflexivity|].
  cbn [interleave evens]. rewrite IH; [reflexivity | cbn [length] in HL; lia].
Qed.

Lemma odds_interleave : forall A (a b : list A), length a = length b -> odds (interleave a b) = b.
Proof.
  intros A; induction a as [|x a IH]; intros [|y b] HL; try discriminate HL; [reflexivity|].
  cbn [interleave odds]. rewrite IH; [reflexivity | cbn [length] in HL; lia].
Qed.

Lemma div2_double : forall n, (2 * n / 2 = n)%nat.
Proof. intros n. rewrite Nat.mul_comm. apply Nat.div_mul. lia. Qed.

Lemma div2_double1 : forall n, ((2 * n + 1) / 2 = n)%nat.
Proof.
  intros n. replace (2 * n + 1)%nat with (n * 2 + 1)%nat by lia.
  rewrite Nat.div_add_l by lia. change (1 / 2)%nat with 0%nat. lia.
Qed.

Lemma firstn_app_exact : forall A n (a b : list A), length a = n -> firstn n (a ++ b) = a.
Proof.
  intros A n a b H. rewrite firstn_app, H, Nat.sub_diag. cbn [firstn]. rewrite app_nil_r.
  rewrite <- H. apply firstn_all.
Qed.

Lemma skipn_app_exact : forall A n (a b : list A), length a = n -> skipn n (a ++ b) = b.
Proof.
  intros A n a b H. rewrite skipn_app, H, Nat.sub_diag. cbn [skipn]. rewrite <- H, skipn_all. reflexivity.
Qed.

(* ------------------------------------------------------------------ map <-> state *)
Theorem state_to_map_to_state : forall n m, length m = (2 * n)%nat -> state_to_map (map_to_state m) = m.
Proof.
  intros n m HL. destruct (evens_odds_length _ n m HL) as [HE HO].
  unfold state_to_map, map_to_state. rewrite app_length, HE, HO.
  replace (n + n)%nat with (2 * n)%nat by lia. rewrite div2_double.
  rewrite skipn_app_exact, firstn_app_exact by assumption.
  apply (interleave_evens_odds _ n). exact HL.
Qed.

Theorem map_to_state_to_map : forall n l, length l = (2 * n)%nat -> map_to_state (state_to_map l) = l.
Proof.
  intros n l HL. unfold state_to_map, map_to_state. rewrite HL, div2_double.
  assert (H1 : length (skipn n l) = length (firstn n l)).
  { rewrite skipn_length, firstn_length, HL. lia. }
  rewrite odds_interleave, evens_interleave by exact H1.
  apply firstn_skipn.
Qed.

Lemma map_evens : forall A B (f : A -> B) l, map f (evens l) = evens (map f l).
Proof.
  intros A B f l. induction l as [| a | a b l IH] using list_ind2; try reflexivity.
  cbn [evens map]. rewrite IH. reflexivity.
Qed.

Lemma map_odds : forall A B (f : A -> B) l, map f (odds l) = odds (map f l).
Proof.
  intros A B f l. induction l as [| a | a b l IH] using list_ind2; try reflexivity.
  cbn [odds map]. rewrite IH. reflexivity.
Qed.

Theorem to_state_is_transformed_zero : forall n m r, valid_map n m ->
  rows (to_state m r) = pauli_transform m (rows (zero_state n)).
Proof.
  intros n m r HV. unfold zero_state, to_state. cbn [rows]. unfold map_to_state, pauli_transform.
  rewrite map_app, map_odds, map_evens.
  change (map (transform1 m) (identity_map n)) with (compose (identity_map n) m).
  rewrite (compose_id_l n m HV). reflexivity.
Qed.

(* ------------------------------------------------------------------ generic: row-wise application of a function that
   preserves well-formedness, Hermiticity and the commutation form *)
Lemma herm_wf : forall n (a : pauli), length (fst a) = n -> hermP a -> wf n a.
Proof. intros n [g p] L [H|H]; cbn [fst snd] in *; split; cbn [fst snd]; try exact L; lia. Qed.

Lemma hom_valid : forall n (F : pauli -> pauli),
  (forall a, wf n a -> hermP a -> wf n (F a) /\ hermP (F a)) ->
  (forall a b, wf n a -> wf n b -> acq (fst (F a)) (fst (F b)) = acq (fst a) (fst b)) ->
  forall m, valid_map n m -> valid_map n (map F m).
Proof.
  intros n F HW HA m [LA [RA AA]].
  split; [rewrite map_length; exact LA|]. split.
  - intros i Hi. rewrite row_map by (rewrite LA; exact Hi). destruct (RA i Hi) as [W Hh]. apply HW; assumption.
  - intros i j Hi Hj. rewrite !row_map by (rewrite LA; assumption).
    rewrite HA; [apply AA; assumption | apply (RA i Hi) | apply (RA j Hj)].
Qed.

Lemma map_tableau_ok : forall n (F : pauli -> pauli) t,
  (forall a, wf n a -> hermP a -> wf n (F a) /\ hermP (F a)) ->
  (forall a b, wf n a -> wf n b -> acq (fst (F a)) (fst (F b)) = acq (fst a) (fst b)) ->
  tableau_ok n t -> tableau_ok n {| rows := map F (rows t); rk := rk t |}.
Proof.
  intros n F t HW HA [HL [Hr [Hlen [Hh Hacq]]]]. unfold tableau_ok. cbn [rows rk].
  assert (W : forall i, (i < 2 * n)%nat -> wf n (row (rows t) i)).
  { intros i Hi. apply herm_wf; [apply Hlen; exact Hi | apply Hh; exact Hi]. }
  split; [rewrite map_length; exact HL|]. split; [exact Hr|]. split; [|split].
  - intros i Hi. rewrite row_map by (rewrite HL; exact Hi). apply (HW _ (W i Hi) (Hh i Hi)).
  - intros i Hi. rewrite row_map by (rewrite HL; exact Hi). apply (HW _ (W i Hi) (Hh i Hi)).
  - intros i j Hi Hj. rewrite !row_map by (rewrite HL; assumption).
    rewrite HA; [apply Hacq; assumption | apply W; exact Hi | apply W; exact Hj].
Qed.

Lemma rprod_map_hom : forall n (F : pauli -> pauli), F (pid n) = pid n ->
  (forall a b, wf n a -> wf n b -> F (pmul a b) = pmul (F a) (F b)) ->
  forall c rs, Forall (wf n) rs -> rprod n c (map F rs) = F (rprod n c rs).
Proof.
  intros n F Hid Hhom c; induction c as [|b c IH]; intros [|r rs] HW; cbn [map rprod]; try (symmetry; exact Hid).
  inversion_clear HW as [|? ? Wr HW']. rewrite (IH rs HW'). destruct b; [|reflexivity].
  symmetry. apply Hhom; [exact Wr | apply wf_rprod; exact HW'].
Qed.

(* a phase-exact homomorphism is the transform by the list of its values on the generators *)
Lemma hom_acts : forall n (F : pauli -> pauli), F (pid n) = pid n ->
  (forall a b, wf n a -> wf n b -> F (pmul a b) = pmul (F a) (F b)) ->
  (forall k a, F (pscale k a) = pscale k (F a)) ->
  (forall a, wf n a -> wf n (F a)) ->
  forall a, wf n a -> transform1 (map F (identity_map n)) a = F a.
Proof.
  intros n F Hid Hhom Hsc Hwf a Wa.
  pose proof (valid_rows_ok n _ (identity_valid n)) as OI.
  assert (OF : rows_ok n (map F (identity_map n))).
  { destruct OI as [FI WI]. split.
    - apply Forall_map. eapply Forall_impl; [|exact FI]. intros x Hx. apply Hwf; exact Hx.
    - destruct (identity_map n) as [|r A] eqn:E; [exact WI|]. cbn [map width].
      inversion_clear FI as [|? ? Wr _]. apply (Hwf r Wr). }
  rewrite (transform1_rprod n _ a OF), (rprod_map_hom n F Hid Hhom) by apply OI.
  rewrite <- Hsc, <- (transform1_rprod n _ a OI). f_equal. apply transform_identity; exact Wa.
Qed.

(* ------------------------------------------------------------------ rotation maps *)
Theorem rotation_map_valid : forall n gen, wf n gen -> hermP gen -> valid_map n (rotation_map gen).
Proof.
  intros n gen Hg HH. pose proof Hg as [Lg Rg]. unfold rotation_map, clifford_rotate.
  replace (length (fst gen)) with n by (symmetry; exact Lg).
  apply hom_valid; [| | apply identity_valid].
  - intros a Wa Ha. split; [apply rotate_wf | apply (rotate_herm n)]; assumption.
  - intros a b Wa Wb. apply (rotate_acq n); [exact Lg | apply Wa | apply Wb].
Qed.

Lemma rotate_pid : forall n gen, rotate1 gen (pid n) = pid n.
Proof. intros n gen. apply rotate_commute. rewrite acq_acqb. cbn [pid fst]. rewrite acqb_id_r. reflexivity. Qed.

Theorem rotation_map_acts : forall n gen a, wf n gen -> hermP gen -> wf n a ->
  transform1 (rotation_map gen) a = rotate1 gen a.
Proof.
  intros n gen a Hg HH Wa. pose proof Hg as [Lg Rg]. unfold rotation_map, clifford_rotate.
  replace (length (fst gen)) with n by (symmetry; exact Lg).
  apply (hom_acts n (rotate1 gen)).
  - apply rotate_pid.
  - intros x y Wx Wy. apply (rotate_hom n); assumption.
  - intros k x. apply rotate_scale.
  - intros x Wx. apply rotate_wf; assumption.
  - exact Wa.
Qed.

(* ------------------------------------------------------------------ row-wise Clifford updates of a tableau *)
Theorem rotate_tableau_ok : forall n t gen, tableau_ok n t -> wf n gen -> hermP gen ->
  tableau_ok n {| rows := clifford_rotate gen (rows t); rk := rk t |}.
Proof.
  intros n t gen Ht Hg HH. unfold clifford_rotate. apply map_tableau_ok; [| | exact Ht].
  - intros a Wa Ha. split; [apply rotate_wf | apply (rotate_herm n)]; assumption.
  - intros a b Wa Wb. apply (rotate_acq n); [apply Hg | apply Wa | apply Wb].
Qed.

Lemma transform_keeps : forall n m, valid_map n m ->
  forall a, wf n a -> hermP a -> wf n (transform1 m a) /\ hermP (transform1 m a).
Proof.
  intros n m HV a Wa Ha.
  pose proof (transform_wf n m a HV ltac:(apply Wa)) as WT. split; [exact WT|].
  apply even_range_hermP; [apply WT|].
  apply (transform_herm n); [exact HV | apply Wa | apply hermP_even; exact Ha].
Qed.

Theorem transform_tableau_ok : forall n t m, tableau_ok n t -> valid_map n m ->
  tableau_ok n {| rows := pauli_transform m (rows t); rk := rk t |}.
Proof.
  intros n t m Ht HV. unfold pauli_transform. apply map_tableau_ok; [| | exact Ht].
  - apply transform_keeps; exact HV.
  - intros a b Wa Wb. apply (transform_acq n); [exact HV | apply Wa | apply Wb].
Qed.

(* ------------------------------------------------------------------ re-indexing between map order and tableau order *)
Lemma nth_evens : forall A (l : list A) i d, nth i (evens l) d = nth (2 * i) l d.
Proof.
  intros A l. induction l as [| a | a b l IH] using list_ind2; intros i d.
  - rewrite !nth_overflow by (cbn [evens length]; lia). reflexivity.
  - destruct i as [|i]; [reflexivity|]. rewrite !nth_overflow by (cbn [evens length]; lia). reflexivity.
  - destruct i as [|i]; [reflexivity|]. replace (2 * S i)%nat with (S (S (2 * i))) by lia.
    cbn [evens nth]. apply IH.
Qed.

Lemma nth_odds : forall A (l : list A) i d, nth i (odds l) d = nth (2 * i + 1) l d.
Proof.
  intros A l. induction l as [| a | a b l IH] using list_ind2; intros i d.
  - rewrite !nth_overflow by (cbn [odds length]; lia). reflexivity.
  - rewrite !nth_overflow by (cbn [odds length]; lia). reflexivity.
  - destruct i as [|i]; [reflexivity|]. replace (2 * S i + 1)%nat with (S (S (2 * i + 1))) by lia.
    cbn [odds nth]. apply IH.
Qed.

(* tableau index of the image of Z_q (e = true) / X_q (e = false), and its index in the map *)
Definition pidx (n q : nat) (e : bool) : nat := if e then q else (n + q)%nat.
Definition midx (q : nat) (e : bool) : nat := if e then (2 * q + 1)%nat else (2 * q)%nat.

Lemma pidx_cover : forall n i, (i < 2 * n)%nat -> exists q e, (q < n)%nat /\ i = pidx n q e.
Proof.
  intros n i Hi. destruct (Nat.lt_ge_cases i n) as [H|H].
  - exists i, true. split; [exact H | reflexivity].
  - exists (i - n)%nat, false. split; [lia | unfold pidx; lia].
Qed.

Lemma midx_cover : forall n i, (i < 2 * n)%nat -> exists q e, (q < n)%nat /\ i = midx q e.
Proof.
  intros n i Hi. destruct (Nat.Even_or_Odd i) as [[q E]|[q E]].
  - exists q, false. split; [lia | exact E].
  - exists q, true. split; [lia | exact E].
Qed.

Lemma pidx_lt : forall n q e, (q < n)%nat -> (pidx n q e < 2 * n)%nat.
Proof. intros n q [|] H; unfold pidx; lia. Qed.
Lemma midx_lt : forall n q e, (q < n)%nat -> (midx q e < 2 * n)%nat.
Proof. intros n q [|] H; unfold midx; lia. Qed.

Lemma expected_tab : forall n q e q' e', (q < n)%nat -> (q' < n)%nat ->
  tab_expected_acq n (pidx n q e) (pidx n q' e') = expected_acq (midx q e) (midx q' e').
Proof.
  intros n q e q' e' H H'. unfold tab_expected_acq, expected_acq, pidx, midx.
  destruct e, e'; rewrite ?div2_double, ?div2_double1;
    repeat match goal with |- context [Nat.eqb ?a ?b] => destruct (Nat.eqb_spec a b) end;
    cbn [andb orb negb]; try reflexivity; exfalso; lia.
Qed.

Lemma row_map_to_state : forall n (m : plist) q e, length m = (2 * n)%nat -> (q < n)%nat ->
  row (map_to_state m) (pidx n q e) = row m (midx q e).
Proof.
  intros n m q e HL Hq. destruct (evens_odds_length _ n m HL) as [HE HO].
  unfold row, map_to_state, pidx, midx. destruct e.
  - rewrite app_nth1 by (rewrite HO; exact Hq). apply nth_odds.
  - rewrite app_nth2 by (rewrite HO; lia). rewrite HO.
    replace (n + q - n)%nat with q by lia. apply nth_evens.
Qed.

Lemma interleave_length : forall A (a b : list A), length a = length b ->
  length (interleave a b) = (2 * length a)%nat.
Proof.
  intros A; induction a as [|x a IH]; intros [|y b] HL; try discriminate HL; [reflexivity|].
  cbn [interleave length]. rewrite IH by (cbn [length] in HL; lia). lia.
Qed.

Lemma state_to_map_length : forall n (l : plist), length l = (2 * n)%nat -> length (state_to_map l) = (2 * n)%nat.
Proof.
  intros n l HL. unfold state_to_map. rewrite HL, div2_double.
  rewrite interleave_length; rewrite skipn_length, ?firstn_length, HL; lia.
Qed.

Lemma row_state_to_map : forall n (l : plist) q e, length l = (2 * n)%nat -> (q < n)%nat ->
  row (state_to_map l) (midx q e) = row l (pidx n q e).
Proof.
  intros n l q e HL Hq.
  rewrite <- (row_map_to_state n (state_to_map l) q e (state_to_map_length n l HL) Hq).
  rewrite (map_to_state_to_map n l HL). reflexivity.
Qed.

Theorem to_state_ok : forall n m r, valid_map n m -> (r <= n)%nat -> tableau_ok n (to_state m r).
Proof.
  intros n m r [HL [HR HA]] Hr. unfold to_state, tableau_ok. cbn [rows rk].
  destruct (evens_odds_length _ n m HL) as [HE HO].
  split; [unfold map_to_state; rewrite app_length, HE, HO; lia|].
  split; [exact Hr|]. split; [|split].
  - intros i Hi. destruct (pidx_cover n i Hi) as [q [e [Hq E]]]. rewrite E, (row_map_to_state n) by assumption.
    apply (HR (midx q e) (midx_lt n q e Hq)).
  - intros i Hi. destruct (pidx_cover n i Hi) as [q [e [Hq E]]]. rewrite E, (row_map_to_state n) by assumption.
    apply (HR (midx q e) (midx_lt n q e Hq)).
  - intros i j Hi Hj. destruct (pidx_cover n i Hi) as [q [e [Hq E]]]. destruct (pidx_cover n j Hj) as [q' [e' [Hq' E']]].
    rewrite E, E', !(row_map_to_state n) by assumption.
    rewrite HA by (apply midx_lt; assumption). symmetry. apply expected_tab; assumption.
Qed.

Theorem to_map_valid : forall n t, tableau_ok n t -> valid_map n (to_map t).
Proof.
  intros n t [HL [Hr [Hlen [Hh Hacq]]]]. unfold to_map, valid_map.
  split; [apply state_to_map_length; exact HL|]. split.
  - intros i Hi. destruct (midx_cover n i Hi) as [q [e [Hq E]]]. rewrite E, (row_state_to_map n) by assumption.
    pose proof (pidx_lt n q e Hq) as Hp. split; [apply herm_wf; [apply Hlen | apply Hh] | apply Hh]; exact Hp.
  - intros i j Hi Hj. destruct (midx_cover n i Hi) as [q [e [Hq E]]]. destruct (midx_cover n j Hj) as [q' [e' [Hq' E']]].
    rewrite E, E', !(row_state_to_map n) by assumption.
    rewrite Hacq by (apply pidx_lt; assumption). apply expected_tab; assumption.
Qed.

(* ------------------------------------------------------------------ masked rotation on a tableau *)
Lemma lift_wf : forall N k mk gen, length mk = N -> wf k gen -> wf N (lift mk gen).
Proof.
  intros N k mk gen Hm [L R]. split; [rewrite lift_fst, lift_str_length; exact Hm | rewrite lift_snd; exact R].
Qed.

Theorem rotate_masked_tableau_ok : forall N k t gen mk, tableau_ok N t -> length mk = N -> count_true mk = k ->
  wf k gen -> hermP gen ->
  tableau_ok N {| rows := map (rotate1_masked gen mk) (rows t); rk := rk t |}.
Proof.
  intros N k t gen mk Ht Hm Hc Hg HH.
  pose proof (lift_wf N k mk gen Hm Hg) as Wl.
  assert (Hl : hermP (lift mk gen)) by exact HH.
  assert (E : forall a, wf N a -> rotate1_masked gen mk a = rotate1 (lift mk gen) a).
  { intros a Wa. apply (rotate_masked_lift N); [exact Hm | rewrite Hc; symmetry; apply Hg | apply Wa]. }
  apply map_tableau_ok; [| | exact Ht].
  - intros a Wa Ha. rewrite (E a Wa). split; [apply rotate_wf | apply (rotate_herm N)]; assumption.
  - intros a b Wa Wb. rewrite (E a Wa), (E b Wb). apply (rotate_acq N); [apply Wl | apply Wa | apply Wb].
Qed.

(* ------------------------------------------------------------------ mask toolkit *)
Lemma gather_length : forall A (mk : list bool) (x : list A), length x = length mk ->
  length (gather mk x) = count_true mk.
Proof.
  intros A; induction mk as [|[|] mk IH]; intros [|s x] H; try discriminate H; try reflexivity.
  - cbn [gather length]. rewrite count_true_cons_t. f_equal. apply IH. cbn [length] in H; lia.
  - cbn [gather]. rewrite count_true_cons_f. apply IH. cbn [length] in H; lia.
Qed.

Lemma scatter_length : forall A (mk : list bool) (x sub : list A), length (scatter mk x sub) = length x.
Proof.
  intros A; induction mk as [|[|] mk IH]; intros [|s x] sub; try reflexivity; cbn [scatter].
  - destruct sub; cbn [length]; f_equal; apply IH.
  - cbn [length]; f_equal; apply IH.
Qed.

Lemma gather_gxor : forall mk x y, length x = length y ->
  gather mk (gxor x y) = gxor (gather mk x) (gather mk y).
Proof.
  induction mk as [|[|] mk IH]; intros [|s x] [|t y] H; try discriminate H; try reflexivity;
    cbn [gxor gather]; rewrite IH by (cbn [length] in H; lia); reflexivity.
Qed.

Lemma scatter_gxor : forall mk x y fa fb, length x = length mk -> length y = length mk ->
  length fa = count_true mk -> length fb = count_true mk ->
  gxor (scatter mk x fa) (scatter mk y fb) = scatter mk (gxor x y) (gxor fa fb).
Proof.
  induction mk as [|[|] mk IH]; intros [|s x] [|t y] fa fb Hx Hy Ha Hb; try discriminate Hx; try discriminate Hy.
  - reflexivity.
  - rewrite count_true_cons_t in Ha, Hb. destruct fa as [|u fa], fb as [|v fb]; try discriminate Ha; try discriminate Hb.
    cbn [scatter gxor]. f_equal. cbn [length] in *. apply IH; lia.
  - rewrite count_true_cons_f in Ha, Hb. cbn [scatter gxor]. f_equal. cbn [length] in *. apply IH; lia.
Qed.

Lemma ipow_scatter : forall mk x y fa fb, length x = length mk -> length y = length mk ->
  length fa = count_true mk -> length fb = count_true mk ->
  sum2 ipow_site (scatter mk x fa) (scatter mk y fb) + sum2 ipow_site (gather mk x) (gather mk y)
  = sum2 ipow_site fa fb + sum2 ipow_site x y.
Proof.
  induction mk as [|[|] mk IH]; intros [|s x] [|t y] fa fb Hx Hy Ha Hb; try discriminate Hx; try discriminate Hy.
  - destruct fa, fb; try discriminate Ha; try discriminate Hb. reflexivity.
  - rewrite count_true_cons_t in Ha, Hb. destruct fa as [|u fa], fb as [|v fb]; try discriminate Ha; try discriminate Hb.
    cbn [scatter gather sum2]. cbn [length] in *. specialize (IH x y fa fb ltac:(lia) ltac:(lia) ltac:(lia) ltac:(lia)). lia.
  - rewrite count_true_cons_f in Ha, Hb. cbn [scatter gather sum2]. cbn [length] in *.
    specialize (IH x y fa fb ltac:(lia) ltac:(lia) ltac:(lia) ltac:(lia)). lia.
Qed.

Lemma gather_id : forall mk, gather mk (id_str (length mk)) = id_str (count_true mk).
Proof.
  induction mk as [|[|] mk IH]; cbn [length]; rewrite ?id_str_S; [reflexivity| |]; cbn [gather].
  - rewrite count_true_cons_t, id_str_S, IH. reflexivity.
  - rewrite count_true_cons_f. exact IH.
Qed.

Lemma gather_map : forall A B (f : A -> B) mk l, gather mk (map f l) = map f (gather mk l).
Proof.
  intros A B f; induction mk as [|[|] mk IH]; intros [|a l]; try reflexivity; cbn [map gather]; rewrite IH; reflexivity.
Qed.

Lemma gather_In : forall A (k : A) mk l, In k (gather mk l) -> In k l.
Proof.
  intros A k; induction mk as [|[|] mk IH]; intros [|a l] H; cbn [gather] in H; try (exfalso; exact H).
  - destruct H as [H|H]; [left; exact H | right; apply IH; exact H].
  - right; apply IH; exact H.
Qed.

Lemma NoDup_gather : forall A mk (l : list A), NoDup l -> NoDup (gather mk l).
Proof.
  intros A; induction mk as [|[|] mk IH]; intros [|a l] ND; cbn [gather]; try constructor;
    inversion_clear ND as [|? ? Hn ND'].
  - intros H. apply Hn. eapply gather_In; exact H.
  - apply IH; exact ND'.
  - apply IH; exact ND'.
Qed.

Lemma gather_neg_disjoint : forall A (k : A) mk l, NoDup l -> In k (gather (map negb mk) l) -> ~ In k (gather mk l).
Proof.
  intros A k; induction mk as [|[|] mk IH]; intros [|a l] ND Hn Hp; cbn [map negb gather] in Hn, Hp;
    try (exfalso; exact Hp); inversion_clear ND as [|? ? Ha ND'].
  - destruct Hp as [E|Hp].
    + apply Ha. rewrite E. eapply gather_In; exact Hn.
    + exact (IH l ND' Hn Hp).
  - destruct Hn as [E|Hn].
    + apply Ha. rewrite E. eapply gather_In; exact Hp.
    + exact (IH l ND' Hn Hp).
Qed.

Lemma mask2_cons : forall b mk, mask2 (b :: mk) = b :: b :: mask2 mk.
Proof. reflexivity. Qed.
Lemma mask2_nil : mask2 [] = [].
Proof. reflexivity. Qed.
Arguments mask2 : simpl never.

Lemma count_true_mask2 : forall mk, count_true (mask2 mk) = (2 * count_true mk)%nat.
Proof.
  induction mk as [|[|] mk IH]; rewrite ?mask2_nil, ?mask2_cons; [reflexivity| |].
  - rewrite !count_true_cons_t, IH. lia.
  - rewrite !count_true_cons_f, IH. reflexivity.
Qed.

Lemma mask2_length : forall mk, length (mask2 mk) = (2 * length mk)%nat.
Proof. induction mk as [|b mk IH]; [reflexivity|]. rewrite mask2_cons. cbn [length]. rewrite IH. lia. Qed.

Lemma gather_unflat : forall mk l, length l = (2 * length mk)%nat ->
  gather mk (unflat l) = unflat (gather (mask2 mk) l).
Proof.
  induction mk as [|[|] mk IH]; intros l HL.
  - reflexivity.
  - destruct l as [|x [|z l]]; try (cbn [length] in HL; lia).
    rewrite mask2_cons. cbn [unflat gather]. rewrite IH by (cbn [length] in HL; lia). reflexivity.
  - destruct l as [|x [|z l]]; try (cbn [length] in HL; lia).
    rewrite mask2_cons. cbn [unflat gather]. apply IH. cbn [length] in HL; lia.
Qed.

Lemma map_eqb_notin : forall k L, ~ In k L -> map (Nat.eqb k) L = repeat false (length L).
Proof.
  intros k; induction L as [|a L IH]; intros H; [reflexivity|]. cbn [map length repeat].
  destruct (Nat.eqb_spec k a) as [E|E]; [exfalso; apply H; left; symmetry; exact E|].
  rewrite IH; [reflexivity|]. intros HI; apply H; right; exact HI.
Qed.

Lemma map_eqb_nth : forall L s j, NoDup L -> (j < length L)%nat ->
  map (Nat.eqb (nth j L 0%nat)) L = map (Nat.eqb (s + j)) (seq s (length L)).
Proof.
  induction L as [|a L IH]; intros s j ND Hj; [cbn [length] in Hj; lia|].
  inversion_clear ND as [|? ? Ha ND']. cbn [length seq map]. destruct j as [|j].
  - cbn [nth]. rewrite Nat.add_0_r, !Nat.eqb_refl. rewrite map_eqb_notin by exact Ha.
    rewrite map_eqb_lt by lia. reflexivity.
  - cbn [nth]. cbn [length] in Hj.
    destruct (Nat.eqb_spec (nth j L 0%nat) a) as [E|E].
    { exfalso. apply Ha. rewrite <- E. apply nth_In. lia. }
    destruct (Nat.eqb_spec (s + S j) s) as [E'|E']; [lia|].
    replace (s + S j)%nat with (S s + j)%nat by lia. rewrite (IH (S s) j ND') by lia. reflexivity.
Qed.

(* ------------------------------------------------------------------ the masked transform is a phase-exact homomorphism *)
Lemma tm_fst : forall m mk a,
  fst (transform1_masked m mk a) = scatter mk (fst a) (fst (transform1 m (gather mk (fst a), snd a))).
Proof. reflexivity. Qed.
Lemma tm_snd : forall m mk a,
  snd (transform1_masked m mk a) = snd (transform1 m (gather mk (fst a), snd a)).
Proof. reflexivity. Qed.

Lemma gathered_wf : forall N n mk (a : pauli), length mk = N -> count_true mk = n -> wf N a ->
  wf n (gather mk (fst a), snd a).
Proof.
  intros N n mk [x p] Hm Hc [L R]. cbn [fst snd] in *. split; cbn [fst snd]; [|exact R].
  rewrite gather_length; [exact Hc | len].
Qed.

Lemma tm_wf : forall N n mk m a, length mk = N -> count_true mk = n -> valid_map n m -> wf N a ->
  wf N (transform1_masked m mk a).
Proof.
  intros N n mk m a Hm Hc HV Wa. pose proof (gathered_wf N n mk a Hm Hc Wa) as Wg. split.
  - rewrite tm_fst, scatter_length. apply Wa.
  - rewrite tm_snd. apply (transform_wf n m _ HV). apply Wg.
Qed.

Lemma tm_herm : forall N n mk m a, length mk = N -> count_true mk = n -> valid_map n m -> wf N a -> hermP a ->
  hermP (transform1_masked m mk a).
Proof.
  intros N n mk m a Hm Hc HV Wa Ha. pose proof (gathered_wf N n mk a Hm Hc Wa) as Wg.
  change (hermP (transform1 m (gather mk (fst a), snd a))).
  apply (transform_keeps n m HV _ Wg). exact Ha.
Qed.

Lemma tm_scale : forall m mk k a, transform1_masked m mk (pscale k a) = pscale k (transform1_masked m mk a).
Proof.
  intros m mk k a.
  change (transform1_masked m mk (pscale k a))
    with (let r := transform1 m (pscale k (gather mk (fst a), snd a)) in (scatter mk (fst a) (fst r), snd r)).
  cbv zeta. rewrite transform_scale. reflexivity.
Qed.

Lemma tm_pid : forall N n mk m, length mk = N -> count_true mk = n -> valid_map n m ->
  transform1_masked m mk (pid N) = pid N.
Proof.
  intros N n mk m Hm Hc HV. unfold transform1_masked. cbn [pid fst snd].
  rewrite <- Hm, gather_id, Hc. change (id_str n, 0) with (pid n). rewrite (transform_pid n m HV).
  cbn [pid fst snd]. rewrite <- Hc, <- gather_id, scatter_gather. reflexivity.
Qed.

Lemma tm_hom : forall N n mk m a b, length mk = N -> count_true mk = n -> valid_map n m -> wf N a -> wf N b ->
  transform1_masked m mk (pmul a b) = pmul (transform1_masked m mk a) (transform1_masked m mk b).
Proof.
  intros N n mk m [x pa] [y pb] Hm Hc HV [Lx Ra] [Ly Rb]. cbn [fst snd] in *.
  assert (Hx : length x = length mk) by len.
  assert (Hy : length y = length mk) by len.
  change (pmul (x, pa) (y, pb)) with (gxor x y, np_matmul_phase pa pb (ipow x y)).
  unfold transform1_masked. cbn [fst snd].
  set (gx := gather mk x). set (gy := gather mk y).
  assert (Lgx : length gx = n) by (unfold gx; rewrite gather_length; assumption).
  assert (Lgy : length gy = n) by (unfold gy; rewrite gather_length; assumption).
  set (ra := transform1 m (gx, pa)). set (rb := transform1 m (gy, pb)).
  assert (Wra : wf n ra) by (apply (transform_wf n m _ HV); exact Lgx).
  assert (Wrb : wf n rb) by (apply (transform_wf n m _ HV); exact Lgy).
  assert (Er : transform1 m (gather mk (gxor x y), np_matmul_phase pa pb (ipow x y))
               = pscale (ipow x y - ipow gx gy) (pmul ra rb)).
  { rewrite gather_gxor by len. fold gx gy.
    transitivity (transform1 m (pscale (ipow x y - ipow gx gy) (pmul (gx, pa) (gy, pb)))).
    - f_equal. unfold pscale, pmul, np_matmul_phase. cbn [fst snd]. f_equal. lia.
    - rewrite transform_scale, (transform_hom n m _ _ HV) by assumption. reflexivity. }
  rewrite Er.
  assert (La : length (fst ra) = count_true mk) by (destruct Wra; len).
  assert (Lb : length (fst rb) = count_true mk) by (destruct Wrb; len).
  apply pauli_eq.
  - rewrite fst_pscale, !pmul_fst. cbn [fst]. symmetry. apply scatter_gxor; assumption.
  - rewrite pscale_snd, !pmul_snd. cbn [fst snd].
    pose proof (ipow_scatter mk x y (fst ra) (fst rb) Hx Hy La Lb) as HS. fold gx gy in HS.
    unfold ipow. rewrite modulus_ipow. lia.
Qed.

Lemma hom_acq : forall n (F : pauli -> pauli),
  (forall a b, wf n a -> wf n b -> F (pmul a b) = pmul (F a) (F b)) ->
  (forall k a, F (pscale k a) = pscale k (F a)) ->
  forall a b, wf n a -> wf n b -> acq (fst (F a)) (fst (F b)) = acq (fst a) (fst b).
Proof.
  intros n F Hhom Hsc a b Wa Wb.
  pose proof (Hhom a b Wa Wb) as H1. pose proof (Hhom b a Wb Wa) as H2.
  rewrite (pmul_swap a b), Transform.pshift_pscale, Hsc, H2 in H1.
  rewrite (pmul_swap (F a) (F b)) in H1.
  pose proof (acq_01 (fst a) (fst b)) as R1.
  pose proof (acq_01 (fst (F a)) (fst (F b))) as R2.
  apply (f_equal snd) in H1. unfold pscale, pshift in H1; cbn [snd] in H1.
  assert (K : forall x A A', (A = 0 \/ A = 1) -> (A' = 0 \/ A' = 1) ->
            (x + 2 * A) mod 4 = (x + 2 * A') mod 4 -> A' = A) by (intros; lia).
  exact (K _ _ _ R1 R2 H1).
Qed.

Lemma tm_acq : forall N n mk m a b, length mk = N -> count_true mk = n -> valid_map n m -> wf N a -> wf N b ->
  acq (fst (transform1_masked m mk a)) (fst (transform1_masked m mk b)) = acq (fst a) (fst b).
Proof.
  intros N n mk m a b Hm Hc HV. apply (hom_acq N (transform1_masked m mk)).
  - intros x y Wx Wy. apply (tm_hom N n); assumption.
  - intros k x. apply tm_scale.
Qed.

Theorem transform_masked_tableau_ok : forall N k t m mk, tableau_ok N t -> length mk = N -> count_true mk = k ->
  valid_map k m -> tableau_ok N {| rows := map (transform1_masked m mk) (rows t); rk := rk t |}.
Proof.
  intros N k t m mk Ht Hm Hc HV. apply map_tableau_ok; [| | exact Ht].
  - intros a Wa Ha. split; [apply (tm_wf N k) | apply (tm_herm N k)]; assumption.
  - intros a b Wa Wb. apply (tm_acq N k); assumption.
Qed.

Theorem transform_masked_outside : forall N n mk m a, length mk = N -> count_true mk = n -> length (fst a) = N ->
  gather (map negb mk) (fst (transform1_masked m mk a)) = gather (map negb mk) (fst a).
Proof.
  intros N n mk m a _ _ _. rewrite tm_fst. apply gather_neg_scatter.
Qed.

(* ------------------------------------------------------------------ the embedded map lists the masked transforms of the generators *)
Lemma scatter_map2_gather : forall A B (G : A -> A) (f : A -> B -> A) (m2 : list bool) (Bs : list A) (S : list B),
  length Bs = length m2 ->
  Forall (fun b => G b = b) (gather (map negb m2) Bs) ->
  Forall2 (fun b s => f b s = G b) (gather m2 Bs) S ->
  scatter m2 Bs (map2 f (gather m2 Bs) S) = map G Bs.
Proof.
  intros A B G f; induction m2 as [|[|] m2 IH]; intros [|b Bs] S HL HF H2; try discriminate HL.
  - reflexivity.
  - cbn [gather map negb] in HF, H2. cbn [gather].
    inversion H2 as [|b' s l1 S' Hb H2' E1 E2]. cbn [map2 scatter map]. f_equal; [exact Hb|].
    apply IH; [cbn [length] in HL; lia | exact HF | exact H2'].
  - cbn [gather map negb] in HF, H2. cbn [gather scatter map].
    inversion_clear HF as [|? ? Hb HF']. f_equal; [symmetry; exact Hb|].
    apply IH; [cbn [length] in HL; lia | exact HF' | exact H2].
Qed.

Lemma Forall2_of_nth : forall A B (R : A -> B -> Prop) (l1 : list A) (l2 : list B) d1 d2,
  length l1 = length l2 -> (forall j, (j < length l1)%nat -> R (nth j l1 d1) (nth j l2 d2)) -> Forall2 R l1 l2.
Proof.
  intros A B R; induction l1 as [|a l1 IH]; intros [|b l2] d1 d2 HL H; try discriminate HL; constructor.
  - apply (H 0%nat). cbn [length]. lia.
  - apply (IH l2 d1 d2); [cbn [length] in HL; lia|]. intros j Hj. apply (H (S j)). cbn [length]. lia.
Qed.

Lemma gather_unit_str : forall N mk k, length mk = N ->
  gather mk (unit_str N k) = unflat (map (Nat.eqb k) (gather (mask2 mk) (seq 0 (2 * N)))).
Proof.
  intros N mk k Hm. unfold unit_str, unit_row.
  rewrite gather_unflat by (rewrite map_length, seq_length, Hm; reflexivity).
  rewrite gather_map. reflexivity.
Qed.

Lemma masked_idx_length : forall N mk, length mk = N ->
  length (gather (mask2 mk) (seq 0 (2 * N))) = (2 * count_true mk)%nat.
Proof.
  intros N mk Hm. rewrite gather_length by (rewrite seq_length, mask2_length, Hm; reflexivity).
  apply count_true_mask2.
Qed.

Lemma gather_unit_masked : forall N n mk j, length mk = N -> count_true mk = n -> (j < 2 * n)%nat ->
  gather mk (unit_str N (nth j (gather (mask2 mk) (seq 0 (2 * N))) 0%nat)) = unit_str n j.
Proof.
  intros N n mk j Hm Hc Hj. rewrite (gather_unit_str N mk _ Hm).
  pose proof (masked_idx_length N mk Hm) as HL. rewrite Hc in HL.
  rewrite (map_eqb_nth _ 0%nat j).
  - rewrite HL. reflexivity.
  - apply NoDup_gather. apply seq_NoDup.
  - rewrite HL. exact Hj.
Qed.

Lemma gather_unit_unmasked : forall N n mk k, length mk = N -> count_true mk = n ->
  In k (gather (map negb (mask2 mk)) (seq 0 (2 * N))) ->
  gather mk (unit_str N k) = id_str n.
Proof.
  intros N n mk k Hm Hc Hk. rewrite (gather_unit_str N mk _ Hm).
  pose proof (masked_idx_length N mk Hm) as HL. rewrite Hc in HL.
  rewrite map_eqb_notin by (apply gather_neg_disjoint; [apply seq_NoDup | exact Hk]).
  rewrite HL. apply unflat_repeat_false.
Qed.

Lemma embed_is_map : forall N n mk m, length mk = N -> count_true mk = n -> valid_map n m ->
  embed (identity_map N) m mk = map (transform1_masked m mk) (identity_map N).
Proof.
  intros N n mk m Hm Hc HV. unfold embed.
  set (f := fun brow srow : pauli => (scatter mk (fst brow) (fst srow), snd srow)).
  pose proof (masked_idx_length N mk Hm) as HL. rewrite Hc in HL.
  apply scatter_map2_gather.
  - unfold identity_map. rewrite map_length, seq_length, mask2_length, Hm. reflexivity.
  - unfold identity_map. rewrite gather_map. apply Forall_map. apply Forall_forall. intros k Hk.
    pose proof (gather_unit_unmasked N n mk k Hm Hc Hk) as E.
    unfold transform1_masked. cbn [fst snd]. rewrite E.
    change (id_str n, 0) with (pid n). rewrite (transform_pid n m HV). cbn [pid fst snd].
    rewrite <- E, scatter_gather. reflexivity.
  - unfold identity_map. rewrite gather_map.
    set (L := gather (mask2 mk) (seq 0 (2 * N))) in *.
    set (U := fun k : nat => (unit_str N k, 0)).
    apply (Forall2_of_nth _ _ _ _ _ (U 0%nat) (pid 0)).
    + rewrite map_length, HL. symmetry. apply HV.
    + intros j Hj. rewrite map_length, HL in Hj. rewrite (map_nth U).
      pose proof (gather_unit_masked N n mk j Hm Hc Hj) as E. fold L in E.
      unfold U, f, transform1_masked. cbn [fst snd]. rewrite E.
      set (r := transform1 m _).
      assert (Er : r = nth j m (pid 0)) by (apply (transform_unit n m j HV Hj)).
      rewrite Er. reflexivity.
Qed.

(* ------------------------------------------------------------------ embedding *)
Theorem embed_valid : forall N n mk m, length mk = N -> count_true mk = n -> valid_map n m ->
  valid_map N (embed (identity_map N) m mk).
Proof.
  intros N n mk m Hm Hc HV. rewrite (embed_is_map N n mk m Hm Hc HV).
  apply hom_valid; [| | apply identity_valid].
  - intros a Wa Ha. split; [apply (tm_wf N n) | apply (tm_herm N n)]; assumption.
  - intros a b Wa Wb. apply (tm_acq N n); assumption.
Qed.

Theorem transform_masked_embed : forall N n mk m a, length mk = N -> count_true mk = n -> valid_map n m -> wf N a ->
  transform1_masked m mk a = transform1 (embed (identity_map N) m mk) a.
Proof.
  intros N n mk m a Hm Hc HV Wa. rewrite (embed_is_map N n mk m Hm Hc HV). symmetry.
  apply (hom_acts N (transform1_masked m mk)).
  - apply (tm_pid N n); assumption.
  - intros x y Wx Wy. apply (tm_hom N n); assumption.
  - intros k x. apply tm_scale.
  - intros x Wx. apply (tm_wf N n); assumption.
  - exact Wa.
Qed.
