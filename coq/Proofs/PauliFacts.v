(* Proofs/PauliFacts.v -- algebra of the Pauli kernels: per-site tables (finite, by computation over the
   GENERATED summands), then list-level laws by induction. *)
From Coq Require Import ZArith List Bool Lia ZifyBool.
From PC Require Import Gen.Kernels Model.Base Model.Pauli Model.Ket.
Import ListNotations.
Open Scope Z_scope.
Ltac Zify.zify_post_hook ::= Z.to_euclidean_division_equations.

(* ------------------------------------------------------------------ per-site tables *)
Lemma bitadd_xorb : forall a b, bitadd a b = xorb a b.
Proof. intros [|] [|]; vm_compute; reflexivity. Qed.

Lemma xor_site_spec : forall a b, xor_site a b = (xorb (fst a) (fst b), xorb (snd a) (snd b)).
Proof. intros [a1 a2] [b1 b2]; unfold xor_site; cbn [fst snd]; rewrite !bitadd_xorb; reflexivity. Qed.

Definition acqb_site (a b : site) : bool := xorb (snd a && fst b) (fst a && snd b).

Lemma acq_site_table : forall a b, acq_site a b mod 2 = zb (acqb_site a b).
Proof. intros [[|] [|]] [[|] [|]]; vm_compute; reflexivity. Qed.

Lemma modulus_acq : np_acq_modulus = 2. Proof. reflexivity. Qed.
Lemma modulus_ipow : np_ipow_modulus = 4. Proof. reflexivity. Qed.
Lemma modulus_ps0 : np_ps0_modulus = 4. Proof. reflexivity. Qed.

(* the product law of one site against the 2x2 matrices' action:
   sigma[s] sigma[t] |k> = i^(ipow_site s t) sigma[s xor t] |k> *)
Lemma site_mul : forall s t k,
  snd (act_site s (snd (act_site t k))) = snd (act_site (xor_site s t) k) /\
  (ipow_site s t + fst (act_site (xor_site s t) k)) mod 4
  = (fst (act_site t k) + fst (act_site s (snd (act_site t k)))) mod 4.
Proof. intros [[|] [|]] [[|] [|]] [|]; vm_compute; split; reflexivity. Qed.

(* the action really is the textbook matrix: column k of mat_site s has its only nonzero entry in row k' *)
Lemma act_site_is_matrix : forall s k r,
  mat_site s r k = (if eqb r (snd (act_site s k)) then Some (fst (act_site s k) mod 4) else None).
Proof. intros [[|] [|]] [|] [|]; vm_compute; reflexivity. Qed.

Lemma ipow_site_swap : forall s t, (ipow_site s t - ipow_site t s) mod 4 = (2 * zb (acqb_site s t)) mod 4.
Proof. intros [[|] [|]] [[|] [|]]; vm_compute; reflexivity. Qed.

Lemma ipow_site_cocycle : forall a b c,
  (ipow_site a b + ipow_site (xor_site a b) c) mod 4 = (ipow_site b c + ipow_site a (xor_site b c)) mod 4.
Proof. intros [[|] [|]] [[|] [|]] [[|] [|]]; vm_compute; reflexivity. Qed.

Lemma ipow_site_self : forall s, ipow_site s s mod 4 = 0.
Proof. intros [[|] [|]]; vm_compute; reflexivity. Qed.

Lemma xor_site_self : forall s, xor_site s s = I_site.
Proof. intros [[|] [|]]; vm_compute; reflexivity. Qed.

Lemma xor_site_comm : forall s t, xor_site s t = xor_site t s.
Proof. intros [[|] [|]] [[|] [|]]; vm_compute; reflexivity. Qed.

Lemma xor_site_assoc : forall a b c, xor_site (xor_site a b) c = xor_site a (xor_site b c).
Proof. intros [[|] [|]] [[|] [|]] [[|] [|]]; vm_compute; reflexivity. Qed.

Lemma xor_site_I_l : forall s, xor_site I_site s = s.
Proof. intros [[|] [|]]; vm_compute; reflexivity. Qed.
Lemma xor_site_I_r : forall s, xor_site s I_site = s.
Proof. intros [[|] [|]]; vm_compute; reflexivity. Qed.

Lemma ipow_site_I_l : forall s, ipow_site I_site s mod 4 = 0.
Proof. intros [[|] [|]]; vm_compute; reflexivity. Qed.
Lemma ipow_site_I_r : forall s, ipow_site s I_site mod 4 = 0.
Proof. intros [[|] [|]]; vm_compute; reflexivity. Qed.

Lemma acqb_site_sym : forall s t, acqb_site s t = acqb_site t s.
Proof. intros [[|] [|]] [[|] [|]]; reflexivity. Qed.
Lemma acqb_site_xor_l : forall a b c, acqb_site (xor_site a b) c = xorb (acqb_site a c) (acqb_site b c).
Proof. intros [[|] [|]] [[|] [|]] [[|] [|]]; vm_compute; reflexivity. Qed.
Lemma acqb_site_self : forall s, acqb_site s s = false.
Proof. intros [[|] [|]]; reflexivity. Qed.
Lemma acqb_site_I_l : forall s, acqb_site I_site s = false.
Proof. intros [[|] [|]]; reflexivity. Qed.

Arguments xor_site : simpl never.
Arguments acq_site : simpl never.
Arguments ipow_site : simpl never.
Arguments acqb_site : simpl never.
Arguments act_site : simpl never.
Arguments Z.mul : simpl never.
Arguments Z.add : simpl never.
Lemma id_str_S : forall n, id_str (S n) = I_site :: id_str n.
Proof. reflexivity. Qed.
Lemma id_str_0 : id_str 0 = [].
Proof. reflexivity. Qed.
Arguments id_str : simpl never.
(* ------------------------------------------------------------------ list level *)
Lemma gxor_length : forall g1 g2, length g1 = length g2 -> length (gxor g1 g2) = length g1.
Proof.
  induction g1 as [|a g1 IH]; intros [|b g2] H; simpl in *; try discriminate; try reflexivity.
  f_equal. apply IH. lia.
Qed.

Lemma gxor_comm : forall g1 g2, gxor g1 g2 = gxor g2 g1.
Proof.
  induction g1 as [|a g1 IH]; intros [|b g2]; simpl; auto.
  rewrite xor_site_comm, IH. reflexivity.
Qed.

Lemma gxor_assoc : forall a b c, gxor (gxor a b) c = gxor a (gxor b c).
Proof.
  induction a as [|x a IH]; intros [|y b] [|z c]; simpl; auto.
  rewrite xor_site_assoc, IH. reflexivity.
Qed.

Lemma gxor_self : forall g, gxor g g = id_str (length g).
Proof. induction g as [|a g IH]; simpl; try reflexivity. rewrite id_str_S, xor_site_self, IH. reflexivity. Qed.

Lemma gxor_id_l : forall g, gxor (id_str (length g)) g = g.
Proof. induction g as [|a g IH]; [reflexivity|]. cbn [length]. rewrite id_str_S. cbn [gxor]. rewrite xor_site_I_l, IH. reflexivity. Qed.
Lemma gxor_id_r : forall g, gxor g (id_str (length g)) = g.
Proof. intros; rewrite gxor_comm; apply gxor_id_l. Qed.

(* boolean symplectic form *)
Fixpoint acqb (g1 g2 : pstr) : bool :=
  match g1, g2 with a :: r1, b :: r2 => xorb (acqb_site a b) (acqb r1 r2) | _, _ => false end.

Lemma zb_xorb_mod2 : forall a b, (zb a + zb b) mod 2 = zb (xorb a b).
Proof. intros [|] [|]; reflexivity. Qed.

Lemma sum2_acq_mod2 : forall g1 g2, sum2 acq_site g1 g2 mod 2 = zb (acqb g1 g2).
Proof.
  induction g1 as [|a g1 IH]; intros [|b g2]; simpl; try reflexivity.
  rewrite <- zb_xorb_mod2, <- IH, <- acq_site_table. lia.
Qed.

Lemma acq_acqb : forall g1 g2, acq g1 g2 = zb (acqb g1 g2).
Proof. intros; unfold acq; rewrite modulus_acq; apply sum2_acq_mod2. Qed.

Lemma acq_01 : forall g1 g2, acq g1 g2 = 0 \/ acq g1 g2 = 1.
Proof. intros; rewrite acq_acqb; destruct (acqb g1 g2); auto. Qed.

Lemma acqb_sym : forall g1 g2, acqb g1 g2 = acqb g2 g1.
Proof. induction g1 as [|a g1 IH]; intros [|b g2]; simpl; auto. rewrite acqb_site_sym, IH; reflexivity. Qed.

Lemma acqb_xor_l : forall a b c, length a = length b -> acqb (gxor a b) c = xorb (acqb a c) (acqb b c).
Proof.
  induction a as [|x a IH]; intros [|y b] [|z c] H; simpl in *; try discriminate; auto.
  rewrite acqb_site_xor_l, IH by lia.
  destruct (acqb_site x z), (acqb_site y z), (acqb a c), (acqb b c); reflexivity.
Qed.

Lemma acqb_xor_r : forall a b c, length b = length c -> acqb a (gxor b c) = xorb (acqb a b) (acqb a c).
Proof. intros. rewrite acqb_sym, acqb_xor_l by assumption. rewrite (acqb_sym b a), (acqb_sym c a). reflexivity. Qed.

Lemma acqb_self : forall g, acqb g g = false.
Proof. induction g as [|a g IH]; simpl; try reflexivity. rewrite acqb_site_self, IH; reflexivity. Qed.

Lemma acqb_id_l : forall n g, acqb (id_str n) g = false.
Proof. induction n as [|n IH]; intros [|a g]; rewrite ?id_str_S, ?id_str_0; cbn [acqb]; try reflexivity. rewrite acqb_site_I_l, IH; reflexivity. Qed.
Lemma acqb_id_r : forall n g, acqb g (id_str n) = false.
Proof. intros; rewrite acqb_sym; apply acqb_id_l. Qed.

(* ipow laws at list level, as congruences mod 4 on the raw sums *)
Lemma sum2_ipow_swap : forall g1 g2,
  (sum2 ipow_site g1 g2 - sum2 ipow_site g2 g1) mod 4 = (2 * zb (acqb g1 g2)) mod 4.
Proof.
  induction g1 as [|a g1 IH]; intros [|b g2]; simpl; try reflexivity.
  specialize (IH g2). pose proof (ipow_site_swap a b) as H.
  destruct (acqb_site a b), (acqb g1 g2); simpl in *; lia.
Qed.

Lemma sum2_ipow_cocycle : forall a b c, length a = length b -> length b = length c ->
  (sum2 ipow_site a b + sum2 ipow_site (gxor a b) c) mod 4
  = (sum2 ipow_site b c + sum2 ipow_site a (gxor b c)) mod 4.
Proof.
  induction a as [|x a IH]; intros [|y b] [|z c] H1 H2; simpl in *; try discriminate; try reflexivity.
  specialize (IH b c ltac:(lia) ltac:(lia)). pose proof (ipow_site_cocycle x y z). lia.
Qed.

Lemma sum2_ipow_self : forall g, sum2 ipow_site g g mod 4 = 0.
Proof. induction g as [|a g IH]; simpl; try reflexivity. pose proof (ipow_site_self a). lia. Qed.

Lemma sum2_ipow_id_l : forall n g, sum2 ipow_site (id_str n) g mod 4 = 0.
Proof. induction n as [|n IH]; intros [|a g]; rewrite ?id_str_S, ?id_str_0; cbn [sum2]; try reflexivity. specialize (IH g). pose proof (ipow_site_I_l a). lia. Qed.
Lemma sum2_ipow_id_r : forall n g, sum2 ipow_site g (id_str n) mod 4 = 0.
Proof. induction n as [|n IH]; intros [|a g]; rewrite ?id_str_S, ?id_str_0; cbn [sum2]; try reflexivity. specialize (IH g). pose proof (ipow_site_I_r a). lia. Qed.

Lemma ipow_range : forall g1 g2, 0 <= ipow g1 g2 < 4.
Proof. intros; unfold ipow; rewrite modulus_ipow; lia. Qed.

(* ------------------------------------------------------------------ pmul *)
Lemma pmul_fst : forall a b, fst (pmul a b) = gxor (fst a) (fst b).
Proof. reflexivity. Qed.
Lemma pmul_snd : forall a b, snd (pmul a b) = (snd a + snd b + ipow (fst a) (fst b)) mod 4.
Proof. reflexivity. Qed.
Lemma pmul_range : forall a b, 0 <= snd (pmul a b) < 4.
Proof. intros; rewrite pmul_snd; lia. Qed.

Lemma pmul_assoc : forall a b c, length (fst a) = length (fst b) -> length (fst b) = length (fst c) ->
  pmul (pmul a b) c = pmul a (pmul b c).
Proof.
  intros [ga pa] [gb pb] [gc pc] H1 H2; cbn [fst snd] in *.
  unfold pmul; cbn [fst snd]. f_equal. { apply gxor_assoc. }
  unfold np_matmul_phase, ipow. rewrite modulus_ipow.
  pose proof (sum2_ipow_cocycle ga gb gc H1 H2). lia.
Qed.

(* anticommutation indicator: a.b = (-1)^acq b.a *)
Lemma pmul_swap : forall a b,
  pmul a b = pshift (2 * acq (fst a) (fst b)) (pmul b a).
Proof.
  intros [ga pa] [gb pb]; unfold pmul, pshift; cbn [fst snd]. f_equal. { apply gxor_comm. }
  unfold np_matmul_phase, ipow. rewrite modulus_ipow, acq_acqb.
  pose proof (sum2_ipow_swap ga gb). destruct (acqb ga gb); simpl in *; lia.
Qed.

Lemma pmul_square : forall a, pmul a a = (id_str (length (fst a)), (2 * snd a) mod 4).
Proof.
  intros [g p]; unfold pmul; cbn [fst snd]. f_equal. { apply gxor_self. }
  unfold np_matmul_phase, ipow. rewrite modulus_ipow. pose proof (sum2_ipow_self g). lia.
Qed.

Lemma pmul_id_l : forall a, pmul (pid (length (fst a))) a = (fst a, snd a mod 4).
Proof.
  intros [g p]; unfold pmul, pid; cbn [fst snd]. f_equal. { apply gxor_id_l. }
  unfold np_matmul_phase, ipow. rewrite modulus_ipow. pose proof (sum2_ipow_id_l (length g) g). lia.
Qed.
Lemma pmul_id_r : forall a, pmul a (pid (length (fst a))) = (fst a, snd a mod 4).
Proof.
  intros [g p]; unfold pmul, pid; cbn [fst snd]. f_equal. { apply gxor_id_r. }
  unfold np_matmul_phase, ipow. rewrite modulus_ipow. pose proof (sum2_ipow_id_r (length g) g). lia.
Qed.

(* ------------------------------------------------------------------ ket semantics *)
Lemma act_str_cons : forall s g b k,
  act_str (s :: g) (b :: k)
  = (fst (act_site s b) + fst (act_str g k), snd (act_site s b) :: snd (act_str g k)).
Proof.
  intros. cbn [act_str]. destruct (act_site s b) as [e b']. destruct (act_str g k) as [e' k'']. reflexivity.
Qed.

Lemma act_str_length : forall g k, length k = length g -> length (snd (act_str g k)) = length g.
Proof.
  induction g as [|s g IH]; intros [|b k] H; try discriminate H; try reflexivity.
  rewrite act_str_cons. cbn [snd length]. f_equal. apply IH. simpl in H. lia.
Qed.

Lemma act_str_mul : forall g1 g2 k, length g1 = length g2 -> length k = length g1 ->
  snd (act_str (gxor g1 g2) k) = snd (act_str g1 (snd (act_str g2 k))) /\
  (sum2 ipow_site g1 g2 + fst (act_str (gxor g1 g2) k)) mod 4
  = (fst (act_str g2 k) + fst (act_str g1 (snd (act_str g2 k)))) mod 4.
Proof.
  induction g1 as [|s g1 IH]; intros [|t g2] [|b k] H1 H2; try discriminate H1; try discriminate H2.
  - split; reflexivity.
  - cbn [length] in H1, H2.
    specialize (IH g2 k ltac:(lia) ltac:(lia)). destruct IH as [IK IE].
    pose proof (site_mul s t b) as [HK HE].
    cbn [gxor sum2]. rewrite !act_str_cons. cbn [fst snd]. rewrite !act_str_cons. cbn [fst snd].
    split.
    + rewrite HK, IK. reflexivity.
    + lia.
Qed.

(* THE root theorem: the product returned denotes the matrix product *)
Theorem act_pmul : forall a b k, length (fst a) = length (fst b) -> length k = length (fst a) ->
  act (pmul a b) k = act_comp (act a) (act b) k.
Proof.
  intros [ga pa] [gb pb] k H1 H2; cbn [fst snd] in *.
  unfold act_comp, act, pmul; cbn [fst snd].
  pose proof (act_str_mul ga gb k H1 H2) as [HK HE].
  destruct (act_str gb k) as [e1 k1] eqn:E1. cbn [fst snd] in *.
  destruct (act_str ga k1) as [e2 k2] eqn:E2. cbn [fst snd] in *.
  destruct (act_str (gxor ga gb) k) as [e3 k3] eqn:E3. cbn [fst snd] in *.
  subst k3. f_equal.
  unfold np_matmul_phase, ipow. rewrite modulus_ipow. lia.
Qed.

(* ------------------------------------------------------------------ chains of products *)
Fixpoint act_list (l : plist) (k : ket) : Z * ket :=
  match l with [] => (0, k) | a :: r => act_comp (act a) (act_list r) k end.

Lemma act_length : forall a k, length k = length (fst a) -> length (snd (act a k)) = length (fst a).
Proof.
  intros [g p] k H; unfold act; cbn [fst snd] in *.
  pose proof (act_str_length g k H). destruct (act_str g k); exact H0.
Qed.

Lemma act_list_length : forall n l k, Forall (fun a => length (fst a) = n) l -> length k = n ->
  length (snd (act_list l k)) = n.
Proof.
  induction l as [|a l IH]; intros k HF Hk; cbn [act_list]; [exact Hk|].
  inversion_clear HF as [|? ? Ha HF']. unfold act_comp.
  specialize (IH k HF' Hk). destruct (act_list l k) as [e1 k1]; cbn [snd] in IH.
  pose proof (act_length a k1 ltac:(lia)). destruct (act a k1) as [e2 k2]. cbn [snd] in *. lia.
Qed.

Lemma act_phase_range : forall a k, 0 <= fst (act a k) < 4.
Proof. intros [g p] k; unfold act; cbn [fst snd]. destruct (act_str g k); cbn [fst]. lia. Qed.

Lemma act_comp_pmul : forall a x F k, length (fst a) = length (fst x) ->
  length (snd (F k)) = length (fst a) ->
  act_comp (act (pmul a x)) F k = act_comp (act a) (act_comp (act x) F) k.
Proof.
  intros a x F k H1 H2. unfold act_comp at 1 2. unfold act_comp at 1.
  destruct (F k) as [e0 k0]; cbn [snd] in H2.
  rewrite (act_pmul a x k0 H1 H2). unfold act_comp.
  destruct (act x k0) as [e1 k1]. destruct (act a k1) as [e2 k2]. f_equal. lia.
Qed.

Theorem chain_sem : forall n l a k, length (fst a) = n -> Forall (fun x => length (fst x) = n) l ->
  length k = n ->
  act (fold_left pmul l a) k = act_comp (act a) (act_list l) k.
Proof.
  induction l as [|x l IH]; intros a k Ha HF Hk; cbn [fold_left act_list].
  - unfold act_comp. pose proof (act_phase_range a k). destruct (act a k) as [e k']; cbn [fst] in *. f_equal.
    rewrite Z.add_0_l. symmetry. apply Z.mod_small. lia.
  - inversion_clear HF as [|? ? Hx HF'].
    assert (Hax : length (fst a) = length (fst x)) by (rewrite Ha, Hx; reflexivity).
    rewrite IH.
    2:{ rewrite pmul_fst, gxor_length; assumption. }
    2:{ exact HF'. }
    2:{ exact Hk. }
    pose proof (act_list_length n l k HF' Hk) as HL.
    rewrite (act_comp_pmul a x (act_list l) k).
    2:{ exact Hax. }
    2:{ rewrite Ha. exact HL. }
    reflexivity.
Qed.

Lemma chain_phase_range : forall l a, l <> [] -> 0 <= snd (fold_left pmul l a) < 4.
Proof.
  intros l a Hl. destruct (exists_last Hl) as [l' [x E]]; subst.
  rewrite fold_left_app; cbn [fold_left]. apply pmul_range.
Qed.

(* ------------------------------------------------------------------ faithfulness *)
Lemma act_str_faithful : forall ga gb pa pb, length ga = length gb ->
  (forall k, length k = length ga ->
     ((pa + fst (act_str ga k)) mod 4, snd (act_str ga k)) = ((pb + fst (act_str gb k)) mod 4, snd (act_str gb k))) ->
  ga = gb /\ pa mod 4 = pb mod 4.
Proof.
  induction ga as [|s ga IH]; intros [|t gb] pa pb HL H; try discriminate HL.
  - split; [reflexivity|]. specialize (H [] eq_refl). cbn in H. injection H as H. rewrite !Z.add_0_r in H. exact H.
  - cbn [length] in HL.
    assert (IHa : ga = gb /\ (pa + fst (act_site s false)) mod 4 = (pb + fst (act_site t false)) mod 4).
    { apply IH; [lia|]. intros k Hk. specialize (H (false :: k) ltac:(cbn [length]; lia)).
      rewrite !act_str_cons in H. cbn [fst snd] in H. injection H as H1 H2 H3. unfold act_site; cbn [fst snd zb]. f_equal; [lia | exact H3]. }
    destruct IHa as [EG EP]. subst gb.
    pose proof (H (false :: repeat false (length ga)) ltac:(cbn [length]; rewrite repeat_length; lia)) as Hf.
    pose proof (H (true :: repeat false (length ga)) ltac:(cbn [length]; rewrite repeat_length; lia)) as Ht.
    rewrite !act_str_cons in Hf, Ht. cbn [fst snd] in Hf, Ht.
    injection Hf as Hf1 Hf2. injection Ht as Ht1 Ht2.
    destruct s as [[|] [|]], t as [[|] [|]]; vm_compute in Hf2, Ht2; try discriminate Hf2; try discriminate Ht2;
      unfold act_site in *; cbn [fst snd zb] in *; split; try reflexivity; try lia.
Qed.

Theorem act_faithful : forall a b, length (fst a) = length (fst b) ->
  (forall k, length k = length (fst a) -> act a k = act b k) -> peq a b.
Proof.
  intros [ga pa] [gb pb] HL H; unfold peq; cbn [fst snd] in *.
  apply act_str_faithful; [exact HL|]. intros k Hk. specialize (H k Hk). unfold act in H; cbn [fst snd] in H.
  destruct (act_str ga k), (act_str gb k); exact H.
Qed.

(* ------------------------------------------------------------------ acq characterises (anti)commutation *)
Theorem acq_spec_anti : forall a b, acq (fst a) (fst b) = 1 -> pmul a b = pneg (pmul b a).
Proof.
  intros a b H. rewrite pmul_swap, H. unfold pshift, pneg, np_Pauli_neg. reflexivity.
Qed.
Theorem acq_spec_comm : forall a b, acq (fst a) (fst b) = 0 -> pmul a b = pmul b a.
Proof.
  intros a b H. rewrite pmul_swap, H. unfold pshift. destruct (pmul b a) as [g p] eqn:E; cbn [fst snd].
  pose proof (pmul_range b a) as R. rewrite E in R; cbn [snd] in R. f_equal. rewrite Z.add_0_r. apply Z.mod_small; lia.
Qed.
(* ... and the two cases are exclusive: a.b and -(a.b) are different operators *)
Lemma pneg_neq : forall a, 0 <= snd a < 4 -> pneg a <> a.
Proof. intros [g p] R E. unfold pneg, np_Pauli_neg in E; cbn [fst snd] in *. injection E as E. lia. Qed.

(* batch_dot phase/bit formulas are the matmul ones *)
Lemma batch_is_pmul : forall l1 l2, batch_mul l1 l2 = flat_map (fun a => map (fun b => pmul a b) l2) l1.
Proof. reflexivity. Qed.

