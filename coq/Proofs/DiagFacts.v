(* Proofs/DiagFacts.v -- pauli_diagonalize1 / pauli_diagonalize2 really diagonalize. *)
From Coq Require Import ZArith List Bool Lia ZifyBool Arith.
From PC Require Import Gen.Kernels Model.Base Model.Pauli Model.Ket Model.Spec Proofs.PauliFacts.
From PC Require Import Model.Diag.
Import ListNotations.
Open Scope Z_scope.
Ltac Zify.zify_post_hook ::= Z.to_euclidean_division_equations.

Definition z_at (n i : nat) : pstr := upd (id_str n) i (false, true).
Definition apply_gens (gens : list pstr) (a : pstr) : pstr := fold_left (fun acc g => rotate1_signless g acc) gens a.

(* ------------------------------------------------------------------ upd / sget basics *)
Lemma upd_length : forall (A : Type) (l : list A) i v, length (upd l i v) = length l.
Proof. induction l as [|a l IH]; intros [|i] v; cbn [upd length]; auto. Qed.

Lemma sget_nil : forall j, sget [] j = I_site.
Proof. intros [|j]; reflexivity. Qed.
Lemma sget_cons_0 : forall s g, sget (s :: g) 0 = s.
Proof. reflexivity. Qed.
Lemma sget_cons_S : forall s g j, sget (s :: g) (S j) = sget g j.
Proof. reflexivity. Qed.

Lemma sget_upd_same : forall g i s, (i < length g)%nat -> sget (upd g i s) i = s.
Proof.
  induction g as [|a g IH]; intros [|i] s H; cbn [length] in H; try lia; cbn [upd].
  - reflexivity.
  - rewrite sget_cons_S. apply IH. lia.
Qed.

Lemma sget_upd_other : forall g i j s, i <> j -> sget (upd g i s) j = sget g j.
Proof.
  induction g as [|a g IH]; intros [|i] [|j] s H; cbn [upd]; try reflexivity; try congruence.
  rewrite !sget_cons_S. apply IH. congruence.
Qed.

Lemma sget_overflow : forall g j, (length g <= j)%nat -> sget g j = I_site.
Proof. intros; unfold sget; apply nth_overflow; assumption. Qed.

Lemma sget_id_str : forall n j, sget (id_str n) j = I_site.
Proof.
  induction n as [|n IH]; intros j; rewrite ?id_str_0, ?id_str_S.
  - apply sget_nil.
  - destruct j; [reflexivity|]. rewrite sget_cons_S. apply IH.
Qed.

Lemma id_str_length : forall n, length (id_str n) = n.
Proof. intros; unfold id_str; apply repeat_length. Qed.

Lemma sget_ext : forall g h, length g = length h -> (forall j, (j < length g)%nat -> sget g j = sget h j) -> g = h.
Proof.
  intros g h HL H. apply (nth_ext g h I_site I_site HL). exact H.
Qed.

Lemma sget_gxor : forall a b j, length a = length b -> sget (gxor a b) j = xor_site (sget a j) (sget b j).
Proof.
  induction a as [|x a IH]; intros [|y b] j H; try discriminate H.
  - cbn [gxor]. rewrite sget_nil. reflexivity.
  - cbn [gxor]. destruct j; [reflexivity|]. rewrite !sget_cons_S. apply IH. cbn [length] in H. lia.
Qed.

Lemma gxor_upd_self : forall g i s, (i < length g)%nat ->
  gxor g (upd g i s) = upd (id_str (length g)) i (xor_site (sget g i) s).
Proof.
  induction g as [|a g IH]; intros [|i] s H; cbn [length] in H; try lia; cbn [upd length]; rewrite id_str_S; cbn [gxor upd].
  - rewrite gxor_self. reflexivity.
  - rewrite xor_site_self, sget_cons_S, IH by lia. reflexivity.
Qed.

Lemma acqb_upd_r : forall g h i s, (i < length g)%nat -> length h = length g ->
  acqb g (upd h i s) = xorb (acqb g h) (xorb (acqb_site (sget g i) (sget h i)) (acqb_site (sget g i) s)).
Proof.
  induction g as [|a g IH]; intros [|b h] [|i] s H HL; cbn [length] in *; try lia; cbn [upd acqb].
  - rewrite !sget_cons_0. destruct (acqb_site a b), (acqb_site a s), (acqb g h); reflexivity.
  - rewrite !sget_cons_S, IH by lia.
    destruct (acqb_site a b), (acqb g h), (acqb_site (sget g i) (sget h i)), (acqb_site (sget g i) s); reflexivity.
Qed.

Lemma acqb_upd_self : forall g i s, (i < length g)%nat -> acqb g (upd g i s) = acqb_site (sget g i) s.
Proof.
  intros. rewrite acqb_upd_r, acqb_self, acqb_site_self by auto. rewrite !xorb_false_l. reflexivity.
Qed.

(* ------------------------------------------------------------------ is_id_str / front / is_onsite *)
Lemma nontrivial_I : nontrivial I_site = false.
Proof. reflexivity. Qed.

Lemma is_id_str_cons : forall s g, is_id_str (s :: g) = negb (nontrivial s) && is_id_str g.
Proof. reflexivity. Qed.

Lemma is_id_str_true : forall g, is_id_str g = true -> forall j, nontrivial (sget g j) = false.
Proof.
  induction g as [|s g IH]; intros H j.
  - rewrite sget_nil. reflexivity.
  - rewrite is_id_str_cons in H. apply andb_prop in H. destruct H as [H1 H2].
    destruct j; [rewrite sget_cons_0; destruct (nontrivial s); [discriminate H1|reflexivity]|].
    rewrite sget_cons_S. apply IH. exact H2.
Qed.

Lemma is_id_str_false : forall g, is_id_str g = false ->
  exists j, (j < length g)%nat /\ nontrivial (sget g j) = true.
Proof.
  induction g as [|s g IH]; intros H; [discriminate H|].
  rewrite is_id_str_cons in H. destruct (nontrivial s) eqn:E.
  - exists 0%nat. cbn [length]. split; [lia|]. exact E.
  - cbn [negb andb] in H. destruct (IH H) as [j [Hj Hn]]. exists (S j). cbn [length]. split; [lia|].
    rewrite sget_cons_S. exact Hn.
Qed.

Lemma is_id_str_id : forall n, is_id_str (id_str n) = true.
Proof. induction n as [|n IH]; [reflexivity|]. rewrite id_str_S, is_id_str_cons, IH. reflexivity. Qed.

Lemma front_from_spec : forall g i, is_id_str g = false ->
  exists k, front_from i g = (i + k)%nat /\ (k < length g)%nat /\ nontrivial (sget g k) = true.
Proof.
  induction g as [|s g IH]; intros i H; [discriminate H|].
  rewrite is_id_str_cons in H. cbn [front_from]. destruct (nontrivial s) eqn:E.
  - exists 0%nat. cbn [length]. split; [lia|]. split; [lia|]. exact E.
  - cbn [negb andb] in H. destruct (IH (S i) H) as [k [Hk [Hl Hn]]]. exists (S k). cbn [length].
    split; [lia|]. split; [lia|]. rewrite sget_cons_S. exact Hn.
Qed.

Lemma front_spec : forall g, is_id_str g = false ->
  (front g < length g)%nat /\ nontrivial (sget g (front g)) = true.
Proof.
  intros g H. unfold front. destruct (front_from_spec g 0 H) as [k [Hk [Hl Hn]]].
  rewrite Hk. cbn [Nat.add]. split; assumption.
Qed.

Lemma is_onsite_from_spec : forall g i i0,
  is_onsite_from i i0 g = true <-> (forall j, (i + j)%nat <> i0 -> nontrivial (sget g j) = false).
Proof.
  induction g as [|s g IH]; intros i i0.
  - split; [intros _ j _; rewrite sget_nil; reflexivity | reflexivity].
  - cbn [is_onsite_from]. destruct (Nat.eqb_spec i i0) as [E|E].
    + rewrite IH. split; intros H j Hj.
      * destruct j; [lia|]. rewrite sget_cons_S. apply H. lia.
      * specialize (H (S j)). rewrite sget_cons_S in H. apply H. lia.
    + destruct (nontrivial s) eqn:En.
      * split; [discriminate|]. intros H. specialize (H 0%nat). rewrite sget_cons_0 in H.
        rewrite En in H. symmetry. apply H. lia.
      * rewrite IH. split; intros H j Hj.
        -- destruct j; [rewrite sget_cons_0; exact En|]. rewrite sget_cons_S. apply H. lia.
        -- specialize (H (S j)). rewrite sget_cons_S in H. apply H. lia.
Qed.

Lemma is_onsite_spec : forall g i0,
  is_onsite g i0 = true <-> (forall j, j <> i0 -> nontrivial (sget g j) = false).
Proof. intros. unfold is_onsite. rewrite is_onsite_from_spec. cbn [Nat.add]. reflexivity. Qed.

Lemma nontrivial_false : forall s, nontrivial s = false -> s = I_site.
Proof. intros [[|] [|]] H; try discriminate H. reflexivity. Qed.

Lemma z_at_length : forall n i, length (z_at n i) = n.
Proof. intros; unfold z_at. rewrite upd_length. apply id_str_length. Qed.

(* an on-site string with zero x bit at i0 which is not the identity is Z at i0 *)
Lemma onsite_x0_is_z : forall g i0, is_onsite g i0 = true -> fst (sget g i0) = false -> is_id_str g = false ->
  g = z_at (length g) i0.
Proof.
  intros g i0 Hon Hx Hid. rewrite is_onsite_spec in Hon.
  destruct (is_id_str_false g Hid) as [k [Hk Hn]].
  assert (k = i0).
  { destruct (Nat.eq_dec k i0) as [E|E]; [exact E|]. rewrite (Hon k E) in Hn. discriminate Hn. }
  subst k.
  apply sget_ext; [rewrite z_at_length; reflexivity|]. intros j Hj. unfold z_at.
  destruct (Nat.eq_dec i0 j) as [E|E].
  - subst j. rewrite sget_upd_same by (rewrite id_str_length; exact Hk).
    destruct (sget g i0) as [[|] [|]]; cbn [fst] in Hx; try discriminate Hx; [reflexivity|discriminate Hn].
  - rewrite sget_upd_other by exact E. rewrite sget_id_str. apply nontrivial_false. apply Hon. congruence.
Qed.

(* ------------------------------------------------------------------ rotations *)
Lemma bz_zb : forall b, bz (zb b) = b.
Proof. intros [|]; reflexivity. Qed.

Lemma rot_eq : forall g a, rotate1_signless g a = if acqb g a then gxor a g else a.
Proof. intros. unfold rotate1_signless. rewrite acq_acqb, bz_zb. reflexivity. Qed.

Lemma follow_rot : forall g a, follow g a = rotate1_signless g a.
Proof. reflexivity. Qed.

Lemma rot_length : forall g a, length g = length a -> length (rotate1_signless g a) = length a.
Proof. intros. rewrite rot_eq. destruct (acqb g a); [apply gxor_length; auto|reflexivity]. Qed.

Lemma apply_gens_length : forall gens a, Forall (fun x => length x = length a) gens ->
  length (apply_gens gens a) = length a.
Proof.
  induction gens as [|g gens IH]; intros a H; [reflexivity|].
  inversion_clear H as [|? ? Hg HF]. unfold apply_gens in *. cbn [fold_left].
  rewrite IH.
  - apply rot_length. exact Hg.
  - rewrite rot_length by exact Hg. exact HF.
Qed.

Lemma apply_gens_app : forall l1 l2 a, apply_gens (l1 ++ l2) a = apply_gens l2 (apply_gens l1 a).
Proof. intros. unfold apply_gens. apply fold_left_app. Qed.

(* rotation by a common generator preserves the symplectic form *)
Lemma rot_acqb : forall g a b, length g = length a -> length g = length b ->
  acqb (rotate1_signless g a) (rotate1_signless g b) = acqb a b.
Proof.
  intros g a b Ha Hb. rewrite !rot_eq.
  destruct (acqb g a) eqn:Ea, (acqb g b) eqn:Eb; try reflexivity.
  - rewrite acqb_xor_l by auto. rewrite !acqb_xor_r by auto.
    rewrite acqb_self, (acqb_sym a g), Ea, Eb. destruct (acqb a b); reflexivity.
  - rewrite acqb_xor_l by auto. rewrite Eb. destruct (acqb a b); reflexivity.
  - rewrite acqb_xor_r by auto. rewrite (acqb_sym a g), Ea. destruct (acqb a b); reflexivity.
Qed.

Lemma apply_gens_acqb : forall gens a b, length a = length b -> Forall (fun x => length x = length a) gens ->
  acqb (apply_gens gens a) (apply_gens gens b) = acqb a b.
Proof.
  induction gens as [|g gens IH]; intros a b Hab HF; [reflexivity|].
  inversion_clear HF as [|? ? Hg HF']. unfold apply_gens in *. cbn [fold_left].
  rewrite IH.
  - apply rot_acqb; congruence.
  - rewrite !rot_length by congruence. exact Hab.
  - rewrite rot_length by exact Hg. exact HF'.
Qed.

(* ------------------------------------------------------------------ per-site facts *)
Lemma site_flipz_anti : forall s, fst s = true -> acqb_site s (fst s, negb (snd s)) = true.
Proof. intros [[|] [|]] H; try discriminate H; reflexivity. Qed.
Lemma site_flipz_xor : forall s, xor_site s (fst s, negb (snd s)) = (false, true).
Proof. intros [[|] [|]]; vm_compute; reflexivity. Qed.
Definition cyc_site (s : site) : site := (xorb (fst s) (snd s), xorb (snd s) (xorb (fst s) (snd s))).
Lemma cyc_anti : forall s, nontrivial s = true -> acqb_site s (cyc_site s) = true.
Proof. intros [[|] [|]] H; try discriminate H; reflexivity. Qed.
Lemma cyc_trivial : forall s, nontrivial s = false -> nontrivial (cyc_site s) = false.
Proof. intros [[|] [|]] H; try discriminate H; reflexivity. Qed.

Lemma xyz_cycle_eq : forall g i, xyz_cycle g i = upd g i (cyc_site (sget g i)).
Proof. reflexivity. Qed.

(* the last generator of stage 1: flips z at i0 of a string with x bit set there *)
Lemma final_step : forall a i0, (i0 < length a)%nat -> fst (sget a i0) = true ->
  rotate1_signless (set_z a i0 (negb (snd (sget a i0)))) a = z_at (length a) i0.
Proof.
  intros a i0 Hi Hx. rewrite rot_eq. unfold set_z.
  rewrite acqb_sym, acqb_upd_self by exact Hi. rewrite site_flipz_anti by exact Hx.
  rewrite gxor_upd_self by exact Hi. rewrite site_flipz_xor. reflexivity.
Qed.

(* ------------------------------------------------------------------ diag_stage1 unfolded *)
Definition genA (g1 : pstr) (i0 : nat) : pstr :=
  set_x (if negb (snd (sget g1 i0)) then xyz_cycle g1 (front g1) else g1) i0 true.
Definition genB (a : pstr) (i0 : nat) : pstr := set_z a i0 (negb (snd (sget a i0))).

Lemma diag_stage1_eq : forall g1 i0, diag_stage1 g1 i0 =
  if is_onsite g1 i0 && negb (fst (sget g1 i0)) then ([], g1)
  else if negb (fst (sget g1 i0)) then
    ([genA g1 i0; genB (gxor g1 (genA g1 i0)) i0], gxor (gxor g1 (genA g1 i0)) (genB (gxor g1 (genA g1 i0)) i0))
  else ([genB g1 i0], gxor g1 (genB g1 i0)).
Proof.
  intros. unfold diag_stage1, genA, genB.
  destruct (is_onsite g1 i0 && negb (fst (sget g1 i0))); [reflexivity|].
  destruct (negb (fst (sget g1 i0))); reflexivity.
Qed.

Lemma genA_length : forall g i0, length (genA g i0) = length g.
Proof.
  intros. unfold genA, set_x. rewrite upd_length. destruct (negb (snd (sget g i0))); [|reflexivity].
  rewrite xyz_cycle_eq, upd_length. reflexivity.
Qed.
Lemma genB_length : forall g i0, length (genB g i0) = length g.
Proof. intros. unfold genB, set_z. apply upd_length. Qed.

Lemma genA_x : forall g i0, (i0 < length g)%nat -> fst (sget (genA g i0) i0) = true.
Proof.
  intros. unfold genA, set_x. rewrite sget_upd_same; [reflexivity|].
  destruct (negb (snd (sget g i0))); [|assumption]. rewrite xyz_cycle_eq, upd_length. assumption.
Qed.

(* the first generator anticommutes with g1 *)
Lemma genA_anti : forall g i0, (i0 < length g)%nat -> is_id_str g = false ->
  fst (sget g i0) = false -> is_onsite g i0 = false -> acqb (genA g i0) g = true.
Proof.
  intros g i0 Hi Hid Hx Hon. rewrite acqb_sym. unfold genA, set_x.
  destruct (snd (sget g i0)) eqn:Ez; cbn [negb].
  - rewrite acqb_upd_self by exact Hi. destruct (sget g i0) as [x z]; cbn [fst snd] in *. subst. reflexivity.
  - destruct (front_spec g Hid) as [Hf Hn].
    assert (Hne : front g <> i0).
    { intros E. rewrite E in Hn. destruct (sget g i0) as [x z]; cbn [fst snd] in *. subst. discriminate Hn. }
    rewrite xyz_cycle_eq.
    rewrite acqb_upd_r; [|exact Hi|apply upd_length].
    rewrite acqb_upd_self by exact Hf. rewrite cyc_anti by exact Hn.
    assert (HI : sget g i0 = I_site).
    { destruct (sget g i0) as [x z]; cbn [fst snd] in *. subst. reflexivity. }
    rewrite HI, !acqb_site_I_l. reflexivity.
Qed.

(* ------------------------------------------------------------------ stage 1 *)
Lemma genB_rot : forall a i0, (i0 < length a)%nat -> fst (sget a i0) = true ->
  rotate1_signless (genB a i0) a = gxor a (genB a i0).
Proof.
  intros a i0 Hi Hx. rewrite rot_eq. unfold genB, set_z.
  rewrite acqb_sym, acqb_upd_self by exact Hi. rewrite site_flipz_anti by exact Hx. reflexivity.
Qed.
Lemma genB_xor : forall a i0, (i0 < length a)%nat -> gxor a (genB a i0) = z_at (length a) i0.
Proof.
  intros a i0 Hi. unfold genB, set_z. rewrite gxor_upd_self by exact Hi. rewrite site_flipz_xor. reflexivity.
Qed.

Lemma stage1_spec : forall g i0, (i0 < length g)%nat -> is_id_str g = false ->
  apply_gens (fst (diag_stage1 g i0)) g = snd (diag_stage1 g i0) /\
  snd (diag_stage1 g i0) = z_at (length g) i0.
Proof.
  intros g i0 Hi Hid. rewrite diag_stage1_eq.
  destruct (is_onsite g i0) eqn:Hon, (fst (sget g i0)) eqn:Hx; cbn [negb andb fst snd].
  - unfold apply_gens; cbn [fold_left]. rewrite genB_rot by assumption.
    split; [reflexivity|]. apply genB_xor; assumption.
  - split; [reflexivity|]. apply onsite_x0_is_z; assumption.
  - unfold apply_gens; cbn [fold_left]. rewrite genB_rot by assumption.
    split; [reflexivity|]. apply genB_xor; assumption.
  - (* two generators *)
    pose proof (genA_anti g i0 Hi Hid Hx Hon) as HA.
    pose proof (genA_length g i0) as HL.
    assert (HLa : length (gxor g (genA g i0)) = length g) by (apply gxor_length; auto).
    assert (Hxa : fst (sget (gxor g (genA g i0)) i0) = true).
    { rewrite sget_gxor by auto. rewrite xor_site_spec. cbn [fst]. rewrite Hx, genA_x by exact Hi. reflexivity. }
    assert (Hia : (i0 < length (gxor g (genA g i0)))%nat) by (rewrite HLa; exact Hi).
    assert (HR : rotate1_signless (genA g i0) g = gxor g (genA g i0)).
    { rewrite rot_eq, HA. reflexivity. }
    unfold apply_gens; cbn [fold_left]. rewrite HR, genB_rot by assumption.
    split; [reflexivity|]. rewrite genB_xor by assumption. rewrite HLa. reflexivity.
Qed.

(* ------------------------------------------------------------------ diagonalize1 *)
Theorem diag1_length : forall g i0, (i0 < length g)%nat -> Forall (fun x => length x = length g) (diagonalize1 g i0).
Proof.
  intros g i0 _. unfold diagonalize1. rewrite diag_stage1_eq.
  destruct (is_onsite g i0 && negb (fst (sget g i0))); [constructor|].
  destruct (negb (fst (sget g i0))); cbn [fst].
  - constructor; [apply genA_length|]. constructor; [|constructor].
    rewrite genB_length. apply gxor_length. rewrite genA_length. reflexivity.
  - constructor; [apply genB_length|constructor].
Qed.

Theorem diag1_spec : forall g i0, (i0 < length g)%nat -> is_id_str g = false ->
  apply_gens (diagonalize1 g i0) g = z_at (length g) i0.
Proof.
  intros g i0 Hi Hid. unfold diagonalize1. destruct (stage1_spec g i0 Hi Hid) as [H1 H2].
  rewrite H1. exact H2.
Qed.

Theorem diag1_count : forall g i0, (length (diagonalize1 g i0) <= 2)%nat.
Proof.
  intros g i0. unfold diagonalize1. rewrite diag_stage1_eq.
  destruct (is_onsite g i0 && negb (fst (sget g i0))); [cbn; lia|].
  destruct (negb (fst (sget g i0))); cbn [fst length]; lia.
Qed.

Lemma xor_trivial : forall a b, nontrivial a = false -> nontrivial b = false -> nontrivial (xor_site a b) = false.
Proof. intros [[|] [|]] [[|] [|]] H1 H2; try discriminate H1; try discriminate H2; reflexivity. Qed.

Lemma genA_support : forall g i0 j, j <> i0 -> nontrivial (sget g j) = false ->
  nontrivial (sget (genA g i0) j) = false.
Proof.
  intros g i0 j Hj Hn. unfold genA, set_x. rewrite sget_upd_other by congruence.
  destruct (negb (snd (sget g i0))); [|exact Hn].
  rewrite xyz_cycle_eq. destruct (Nat.eq_dec (front g) j) as [E|E].
  - destruct (Nat.lt_ge_cases j (length g)) as [Hl|Hl].
    + rewrite E. rewrite sget_upd_same by exact Hl. apply cyc_trivial. exact Hn.
    + rewrite sget_overflow; [reflexivity|]. rewrite upd_length. exact Hl.
  - rewrite sget_upd_other by exact E. exact Hn.
Qed.

Lemma genB_support : forall a i0 j, j <> i0 -> nontrivial (sget a j) = false ->
  nontrivial (sget (genB a i0) j) = false.
Proof. intros a i0 j Hj Hn. unfold genB, set_z. rewrite sget_upd_other by congruence. exact Hn. Qed.

Theorem diag1_support : forall g i0 j, (i0 < length g)%nat -> (j < length g)%nat -> j <> i0 ->
  nontrivial (sget g j) = false ->
  Forall (fun x => nontrivial (sget x j) = false) (diagonalize1 g i0).
Proof.
  intros g i0 j _ _ Hj Hn. unfold diagonalize1. rewrite diag_stage1_eq.
  destruct (is_onsite g i0 && negb (fst (sget g i0))); [constructor|].
  destruct (negb (fst (sget g i0))); cbn [fst].
  - constructor; [apply genA_support; assumption|]. constructor; [|constructor].
    apply genB_support; [assumption|]. rewrite sget_gxor by (rewrite genA_length; reflexivity).
    apply xor_trivial; [assumption|]. apply genA_support; assumption.
  - constructor; [apply genB_support; assumption|constructor].
Qed.

(* ------------------------------------------------------------------ diagonalize2 *)
Lemma acqb_is_id_l : forall g h, is_id_str g = true -> acqb g h = false.
Proof.
  induction g as [|s g IH]; intros [|t h] H; try reflexivity.
  rewrite is_id_str_cons in H. apply andb_prop in H. destruct H as [H1 H2].
  cbn [acqb]. rewrite (IH h H2).
  assert (s = I_site) by (apply nontrivial_false; destruct (nontrivial s); [discriminate H1|reflexivity]).
  subst s. rewrite acqb_site_I_l. reflexivity.
Qed.

Lemma acqb_site_Z_r : forall s, acqb_site s (false, true) = fst s.
Proof. intros [[|] [|]]; reflexivity. Qed.
Lemma acqb_site_I_r : forall s, acqb_site s I_site = false.
Proof. intros; rewrite acqb_site_sym; apply acqb_site_I_l. Qed.

Lemma acqb_z_at : forall n i0 h, (i0 < n)%nat -> length h = n -> acqb (z_at n i0) h = fst (sget h i0).
Proof.
  intros n i0 h Hi Hl. unfold z_at. rewrite acqb_sym.
  rewrite acqb_upd_r; [|rewrite Hl; exact Hi|rewrite id_str_length; auto].
  rewrite acqb_id_r, sget_id_str, acqb_site_I_r, acqb_site_Z_r, !xorb_false_l. reflexivity.
Qed.

Lemma onsite_upd_id : forall n i0 s, is_onsite (upd (id_str n) i0 s) i0 = true.
Proof.
  intros. rewrite is_onsite_spec. intros j Hj. rewrite sget_upd_other by congruence.
  rewrite sget_id_str. reflexivity.
Qed.

Theorem diag2_spec : forall g1 g2 i0, (i0 < length g1)%nat -> length g2 = length g1 -> acq g1 g2 = 1 ->
  let '(gens, g1', g2') := diagonalize2 g1 g2 i0 in
  apply_gens gens g1 = g1' /\ apply_gens gens g2 = g2' /\
  g1' = z_at (length g1) i0 /\ is_onsite g2' i0 = true /\ fst (sget g2' i0) = true.
Proof.
  intros g1 g2 i0 Hi HL Hacq.
  assert (Hab : acqb g1 g2 = true).
  { rewrite acq_acqb in Hacq. destruct (acqb g1 g2); [reflexivity|discriminate Hacq]. }
  assert (Hid : is_id_str g1 = false).
  { destruct (is_id_str g1) eqn:E; [|reflexivity]. rewrite (acqb_is_id_l g1 g2 E) in Hab. discriminate Hab. }
  destruct (stage1_spec g1 i0 Hi Hid) as [S1 S2].
  pose proof (diag1_length g1 i0 Hi) as HF. unfold diagonalize1 in HF.
  unfold diagonalize2.
  destruct (diag_stage1 g1 i0) as [gs1 g1'] eqn:E. cbn [fst snd] in S1, S2, HF.
  change (fold_left (fun acc g => follow g acc) gs1 g2) with (apply_gens gs1 g2).
  assert (HF2 : Forall (fun x => length x = length g2) gs1) by (rewrite HL; exact HF).
  pose proof (apply_gens_length gs1 g2 HF2) as HL2. rewrite HL in HL2.
  assert (Hx : fst (sget (apply_gens gs1 g2) i0) = true).
  { rewrite <- (acqb_z_at (length g1) i0) by assumption. rewrite <- S2, <- S1.
    rewrite apply_gens_acqb; [exact Hab|symmetry; exact HL|exact HF]. }
  assert (Hi2 : (i0 < length (apply_gens gs1 g2))%nat) by (rewrite HL2; exact Hi).
  destruct (is_onsite (apply_gens gs1 g2) i0) eqn:Hon; cbn [negb].
  - repeat split; assumption.
  - rewrite !apply_gens_app, S1. unfold apply_gens at 1 3. cbn [fold_left].
    rewrite !rot_eq.
    rewrite (acqb_sym _ g1'), S2, acqb_z_at; [|exact Hi|rewrite upd_length; exact HL2].
    rewrite sget_upd_same by exact Hi2. cbn [fst].
    rewrite (acqb_sym _ (apply_gens gs1 g2)), acqb_upd_self by exact Hi2.
    rewrite acqb_site_Z_r, Hx.
    rewrite gxor_upd_self by exact Hi2.
    repeat split.
    + apply onsite_upd_id.
    + rewrite sget_upd_same by (rewrite id_str_length, HL2; exact Hi).
      rewrite xor_site_spec. cbn [fst]. rewrite Hx. reflexivity.
Qed.
