(* Proofs/DiagCircuitFacts.v -- the CIRCUIT returned by diagonalize(Pauli) maps the operator to +-Z on the requested qubit. *)
From Coq Require Import ZArith List Bool Lia ZifyBool Arith FinFun.
From PC Require Import Gen.Kernels Model.Base Model.Pauli Model.Ket Model.Spec Proofs.PauliFacts.
From PC Require Import Model.Circuit Model.Diag Proofs.Rotate Proofs.CircuitFacts Proofs.DiagFacts Proofs.IndexFacts.
Import ListNotations.
Open Scope Z_scope.
Ltac Zify.zify_post_hook ::= Z.to_euclidean_division_equations.   (* lets lia decide goals with mod and / by constants *)

(* ------------------------------------------------------------------ gather against seq: the support of a mask *)
Lemma gather_map : forall (A B : Type) (f : A -> B) (m : list bool) (l : list A),
  gather m (map f l) = map f (gather m l).
Proof.
  induction m as [|[|] m IH]; intros [|a l]; cbn [map gather]; try reflexivity.
  - rewrite IH. reflexivity.
  - apply IH.
Qed.

Lemma gather_nil_r : forall (A : Type) (m : list bool), gather m (@nil A) = [].
Proof. intros A [|[|] m]; reflexivity. Qed.

Definition qs_of (m : list bool) : list nat := gather m (seq 0 (length m)).

Lemma qs_of_nil : qs_of [] = [].
Proof. reflexivity. Qed.
Lemma qs_of_cons : forall b m, qs_of (b :: m) = if b then 0%nat :: map S (qs_of m) else map S (qs_of m).
Proof.
  intros b m. unfold qs_of. cbn [length seq]. rewrite <- seq_shift. destruct b; cbn [gather]; rewrite gather_map; reflexivity.
Qed.
Arguments qs_of : simpl never.

Lemma mask_of_map_S : forall qs n, mask_of (map S qs) (S n) = false :: mask_of qs n.
Proof.
  induction qs as [|q qs IH]; intros n; cbn [map mask_of].
  - reflexivity.
  - rewrite IH. reflexivity.
Qed.

Lemma mask_of_qs_of : forall m, mask_of (qs_of m) (length m) = m.
Proof.
  induction m as [|b m IH]; [reflexivity|].
  rewrite qs_of_cons. cbn [length]. destruct b.
  - cbn [mask_of]. rewrite mask_of_map_S, IH. reflexivity.
  - rewrite mask_of_map_S, IH. reflexivity.
Qed.

Lemma qs_of_length : forall m, length (qs_of m) = count_true m.
Proof.
  induction m as [|b m IH]; [reflexivity|].
  rewrite qs_of_cons. destruct b.
  - rewrite count_true_cons_t. cbn [length]. rewrite map_length, IH. reflexivity.
  - rewrite count_true_cons_f, map_length, IH. reflexivity.
Qed.

Lemma gather_length : forall (A : Type) (m : list bool) (l : list A), length l = length m ->
  length (gather m l) = count_true m.
Proof.
  induction m as [|b m IH]; intros [|a l] H; try discriminate H; [reflexivity|].
  cbn [length] in H. destruct b; cbn [gather].
  - rewrite count_true_cons_t. cbn [length]. rewrite IH by lia. reflexivity.
  - rewrite count_true_cons_f. apply IH. lia.
Qed.

Lemma qs_of_bound : forall m, Forall (fun q => (q < length m)%nat) (qs_of m).
Proof.
  induction m as [|b m IH]; [constructor|].
  assert (H : Forall (fun q => (q < length (b :: m))%nat) (map S (qs_of m))).
  { apply Forall_forall. intros q Hq. apply in_map_iff in Hq. destruct Hq as [q' [<- Hq']].
    rewrite Forall_forall in IH. specialize (IH q' Hq'). cbn [length]. lia. }
  rewrite qs_of_cons. destruct b; [constructor; [cbn [length]; lia | exact H] | exact H].
Qed.

Lemma S_injective : Injective S.
Proof. intros x y H. injection H as H. exact H. Qed.

Lemma qs_of_nodup : forall m, NoDup (qs_of m).
Proof.
  induction m as [|b m IH]; [constructor|].
  assert (H : NoDup (map S (qs_of m))) by (apply Injective_map_NoDup; [exact S_injective | exact IH]).
  rewrite qs_of_cons. destruct b; [|exact H]. constructor; [|exact H].
  intros Hin. apply in_map_iff in Hin. destruct Hin as [q [E _]]. discriminate E.
Qed.

(* the generator is the identity outside its support *)
Lemma lift_str_gather : forall g : pstr, lift_str (map nontrivial g) (gather (map nontrivial g) g) = g.
Proof.
  induction g as [|s g IH]; [reflexivity|].
  cbn [map]. destruct (nontrivial s) eqn:E; cbn [gather].
  - rewrite lift_str_t, IH. reflexivity.
  - rewrite lift_str_f, IH. rewrite (nontrivial_false s E). reflexivity.
Qed.

(* ------------------------------------------------------------------ rotation_gate, non-causal *)
Lemma rotation_gate_eq : forall gen : pauli,
  rotation_gate gen None =
  {| gq := qs_of (map nontrivial (fst gen)); gk := GGen (gather (map nontrivial (fst gen)) (fst gen), snd gen) |}.
Proof. intros gen. unfold rotation_gate, condense, qs_of. rewrite map_length. reflexivity. Qed.

Lemma rotation_gate_ok_gen : forall n (gen : pauli), length (fst gen) = n -> gate_ok n (rotation_gate gen None).
Proof.
  intros n gen HL. rewrite rotation_gate_eq. unfold gate_ok. cbn [gq gk fst].
  split; [apply qs_of_nodup|]. split.
  - pose proof (qs_of_bound (map nontrivial (fst gen))) as H. rewrite map_length in H.
    eapply Forall_impl; [|exact H]. intros q Hq. cbv beta in Hq. lia.
  - rewrite qs_of_length. apply gather_length. rewrite map_length. reflexivity.
Qed.

Lemma rotation_gate_acts_gen : forall n (gen a : pauli), length (fst gen) = n -> wf n a ->
  gate_forward n (rotation_gate gen None) [a] = Some [rotate1 gen a].
Proof.
  intros n gen a HL Ha.
  rewrite (gate_forward_masked n); [|apply rotation_gate_ok_gen; exact HL|constructor; [exact Ha|constructor]].
  rewrite rotation_gate_eq. unfold gate_kernel, gmask. cbn [gq gk map].
  rewrite <- rotate1_masked_eq.
  assert (Hm : mask_of (qs_of (map nontrivial (fst gen))) n = map nontrivial (fst gen)).
  { rewrite <- (mask_of_qs_of (map nontrivial (fst gen))) at 2. rewrite map_length, HL. reflexivity. }
  rewrite Hm.
  rewrite (rotate_masked_lift n).
  - unfold lift. cbn [fst snd]. rewrite map_length.
    pose proof (lift_str_gather (fst gen)) as E. unfold lift_str in E. rewrite map_length in E. rewrite E.
    destruct gen; reflexivity.
  - rewrite map_length. exact HL.
  - cbn [fst]. symmetry. apply gather_length. rewrite map_length. reflexivity.
  - apply Ha.
Qed.

Theorem rotation_gate_acts : forall n gen a, length (fst gen) = n -> (exists s, In s (fst gen) /\ nontrivial s = true) -> wf n a -> hermP gen -> 0 <= snd gen < 4 ->
   gate_forward n (rotation_gate gen None) [a] = Some [rotate1 gen a].
Proof. intros n gen a HL _ Ha _ _. apply rotation_gate_acts_gen; assumption. Qed.

Theorem rotation_gate_ok : forall n gen, length (fst gen) = n -> (exists s, In s (fst gen) /\ nontrivial s = true) -> gate_ok n (rotation_gate gen None).
Proof. intros n gen HL _. apply rotation_gate_ok_gen; assumption. Qed.

(* ------------------------------------------------------------------ a program of rotation gates *)
Definition rot_fold (gens : list pstr) (a : pauli) : pauli := fold_left (fun acc gen => rotate1 (gen, 0) acc) gens a.

Lemma rot_fold_nil : forall a, rot_fold [] a = a.
Proof. reflexivity. Qed.
Lemma rot_fold_cons : forall gen gens a, rot_fold (gen :: gens) a = rot_fold gens (rotate1 (gen, 0) a).
Proof. reflexivity. Qed.
Arguments rot_fold : simpl never.

Lemma gen0_wf : forall n (gen : pstr), length gen = n -> wf n (gen, 0).
Proof. intros n gen H. split; cbn [fst snd]; [exact H | lia]. Qed.
Lemma gen0_herm : forall gen : pstr, hermP (gen, 0).
Proof. intros gen. left. reflexivity. Qed.

Lemma rot_fold_wf : forall n gens a, Forall (fun x : pstr => length x = n) gens -> wf n a -> wf n (rot_fold gens a).
Proof.
  induction gens as [|gen gens IH]; intros a HF Ha; [exact Ha|].
  inversion_clear HF as [|? ? Hg HF']. rewrite rot_fold_cons. apply IH; [exact HF'|].
  apply rotate_wf; [apply gen0_wf; exact Hg | exact Ha].
Qed.

Lemma rot_fold_herm : forall n gens a, Forall (fun x : pstr => length x = n) gens -> wf n a -> hermP a -> hermP (rot_fold gens a).
Proof.
  induction gens as [|gen gens IH]; intros a HF Ha HH; [exact HH|].
  inversion_clear HF as [|? ? Hg HF']. rewrite rot_fold_cons. apply IH; [exact HF'| |].
  - apply rotate_wf; [apply gen0_wf; exact Hg | exact Ha].
  - apply (rotate_herm n); [apply gen0_wf; exact Hg | apply gen0_herm | exact Ha | exact HH].
Qed.

Lemma rot_fold_fst : forall gens a, fst (rot_fold gens a) = apply_gens gens (fst a).
Proof.
  induction gens as [|gen gens IH]; intros a; [reflexivity|].
  rewrite rot_fold_cons, IH. destruct a as [x p]. rewrite rotate1_signless_fst. reflexivity.
Qed.

Lemma run_rotation_gates : forall n gens a, Forall (fun x : pstr => length x = n) gens -> wf n a ->
  run_gates n (map (fun gen => rotation_gate (gen, 0) None) gens) [a] = Some [rot_fold gens a].
Proof.
  induction gens as [|gen gens IH]; intros a HF Ha; [reflexivity|].
  inversion_clear HF as [|? ? Hg HF']. cbn [map]. rewrite run_gates_cons.
  rewrite (rotation_gate_acts_gen n) by (try exact Ha; exact Hg).
  unfold obind. rewrite IH; [reflexivity | exact HF' |].
  apply rotate_wf; [apply gen0_wf; exact Hg | exact Ha].
Qed.

Lemma gates_of_map_IGate : forall gs, gates_of (map IGate gs) = gs.
Proof. induction gs as [|g gs IH]; [reflexivity|]. cbn [map gates_of flat_map app]. fold (gates_of (map IGate gs)). rewrite IH. reflexivity. Qed.

Lemma no_measure_map_IGate : forall gs, no_measure (map IGate gs).
Proof. induction gs as [|g gs IH]; [constructor|]. constructor; [exact I | exact IH]. Qed.

(* non-causal diagonalize: the circuit maps (g,p) to (+-)Z on qubit i0 *)
Theorem diagonalize_pauli_circuit : forall n g p i0, length g = n -> (i0 < n)%nat -> is_id_str g = false -> (p = 0 \/ p = 2) ->
   exists p', (p' = 0 \/ p' = 2) /\
   circuit_forward n (only_layers (circ_build (map IGate (diagonalize_pauli g i0 false)))) [(g, p)] = Some [(z_at n i0, p')].
Proof.
  intros n g p i0 HL Hi Hid Hp.
  assert (Hi' : (i0 < length g)%nat) by (rewrite HL; exact Hi).
  assert (HF : Forall (fun x : pstr => length x = n) (diagonalize1 g i0)).
  { pose proof (diag1_length g i0 Hi') as H. rewrite HL in H. exact H. }
  assert (Ha : wf n (g, p)) by (split; cbn [fst snd]; [exact HL | destruct Hp; lia]).
  assert (HH : hermP (g, p)) by exact Hp.
  exists (snd (rot_fold (diagonalize1 g i0) (g, p))). split.
  - exact (rot_fold_herm n _ _ HF Ha HH).
  - rewrite program_sem.
    + rewrite gates_of_map_IGate. unfold diagonalize_pauli. rewrite (run_rotation_gates n) by assumption.
      f_equal. f_equal. apply pauli_eq; cbn [fst snd]; [|reflexivity].
      rewrite rot_fold_fst. cbn [fst]. rewrite diag1_spec by assumption. rewrite HL. reflexivity.
    + apply no_measure_map_IGate.
    + rewrite gates_of_map_IGate. unfold diagonalize_pauli. apply Forall_forall. intros gt Hin.
      apply in_map_iff in Hin. destruct Hin as [gen [<- Hin]]. apply rotation_gate_ok_gen. cbn [fst].
      rewrite Forall_forall in HF. exact (HF gen Hin).
    + constructor; [exact Ha | constructor].
Qed.

(* ------------------------------------------------------------------ rotation_gate, causal (relabelled through seq i0 k) *)
Lemma rotation_gate_causal_eq : forall (gen : pauli) i0 k, length (fst gen) = k ->
  rotation_gate gen (Some (seq i0 k)) =
  {| gq := map (Nat.add i0) (qs_of (map nontrivial (fst gen)));
     gk := GGen (gather (map nontrivial (fst gen)) (fst gen), snd gen) |}.
Proof.
  intros gen i0 k HL. unfold rotation_gate, condense. fold (qs_of (map nontrivial (fst gen))).
  replace (gather (map nontrivial (fst gen)) (seq 0 (length (fst gen)))) with (qs_of (map nontrivial (fst gen)))
    by (unfold qs_of; rewrite map_length; reflexivity).
  f_equal. apply map_ext_in. intros q Hq.
  pose proof (qs_of_bound (map nontrivial (fst gen))) as HB. rewrite Forall_forall in HB. specialize (HB q Hq).
  rewrite map_length, HL in HB. apply seq_nth. exact HB.
Qed.

Lemma mask_of_map_add : forall i0 qs k, mask_of (map (Nat.add i0) qs) (i0 + k) = repeat false i0 ++ mask_of qs k.
Proof.
  induction i0 as [|i0 IH]; intros qs k.
  - cbn [Nat.add repeat app]. f_equal. rewrite <- (map_id qs) at 2. apply map_ext. intros q. reflexivity.
  - replace (map (Nat.add (S i0)) qs) with (map S (map (Nat.add i0) qs)) by (rewrite map_map; apply map_ext; intros q; reflexivity).
    cbn [Nat.add repeat app]. rewrite mask_of_map_S, IH. reflexivity.
Qed.

Lemma gather_false_app : forall (A : Type) (x1 x2 : list A) m, gather (repeat false (length x1) ++ m) (x1 ++ x2) = gather m x2.
Proof. induction x1 as [|a x1 IH]; intros x2 m; [reflexivity|]. cbn [length repeat app gather]. apply IH. Qed.

Lemma scatter_false_app : forall (A : Type) (x1 x2 : list A) m sub,
  scatter (repeat false (length x1) ++ m) (x1 ++ x2) sub = x1 ++ scatter m x2 sub.
Proof. induction x1 as [|a x1 IH]; intros x2 m sub; [reflexivity|]. cbn [length repeat app scatter]. rewrite IH. reflexivity. Qed.

Lemma add_injective : forall i0, Injective (Nat.add i0).
Proof. intros i0 x y H. lia. Qed.

Lemma rotation_gate_causal_ok : forall (gen : pauli) i0 k, length (fst gen) = k ->
  gate_ok (i0 + k) (rotation_gate gen (Some (seq i0 k))).
Proof.
  intros gen i0 k HL. rewrite (rotation_gate_causal_eq gen i0 k HL). unfold gate_ok. cbn [gq gk fst].
  split; [apply Injective_map_NoDup; [apply add_injective | apply qs_of_nodup]|]. split.
  - apply Forall_forall. intros q Hq. apply in_map_iff in Hq. destruct Hq as [q' [<- Hq']].
    pose proof (qs_of_bound (map nontrivial (fst gen))) as HB. rewrite Forall_forall in HB. specialize (HB q' Hq').
    rewrite map_length, HL in HB. lia.
  - rewrite map_length, qs_of_length. apply gather_length. rewrite map_length. reflexivity.
Qed.

(* the condensed generator, applied through the mask of its support, is the generator *)
Lemma rotate1_masked_support : forall (gen a : pauli), length (fst gen) = length (fst a) ->
  rotate1_masked (gather (map nontrivial (fst gen)) (fst gen), snd gen) (map nontrivial (fst gen)) a = rotate1 gen a.
Proof.
  intros gen a HL. rewrite (rotate_masked_lift (length (fst gen))).
  - unfold lift. cbn [fst snd]. rewrite map_length.
    pose proof (lift_str_gather (fst gen)) as E. unfold lift_str in E. rewrite map_length in E. rewrite E.
    destruct gen; reflexivity.
  - apply map_length.
  - cbn [fst]. symmetry. apply gather_length. rewrite map_length. reflexivity.
  - symmetry. exact HL.
Qed.

Lemma rotation_gate_causal_acts : forall (gen : pauli) i0 k (x1 x2 : pstr) p,
  length (fst gen) = k -> length x1 = i0 -> length x2 = k -> 0 <= p < 4 ->
  gate_forward (i0 + k) (rotation_gate gen (Some (seq i0 k))) [(x1 ++ x2, p)]
  = Some [(x1 ++ fst (rotate1 gen (x2, p)), snd (rotate1 gen (x2, p)))].
Proof.
  intros gen i0 k x1 x2 p HL H1 H2 Hp.
  rewrite (gate_forward_masked (i0 + k)).
  2:{ apply rotation_gate_causal_ok. exact HL. }
  2:{ constructor; [|constructor]. split; cbn [fst snd]; [|exact Hp]. rewrite app_length. rewrite H1, H2. reflexivity. }
  rewrite (rotation_gate_causal_eq gen i0 k HL). unfold gate_kernel, gmask. cbn [gq gk map].
  rewrite mask_of_map_add.
  assert (Hm : mask_of (qs_of (map nontrivial (fst gen))) k = map nontrivial (fst gen)).
  { rewrite <- (mask_of_qs_of (map nontrivial (fst gen))) at 2. rewrite map_length, HL. reflexivity. }
  rewrite Hm. rewrite <- H1.
  unfold masked. cbn [fst snd]. rewrite gather_false_app, scatter_false_app.
  pose proof (rotate1_masked_support gen (x2, p)) as E. unfold rotate1_masked in E. cbn [fst snd] in E.
  assert (HL2 : length (fst gen) = length x2) by (rewrite HL, H2; reflexivity).
  specialize (E HL2). rewrite <- E. cbn [fst snd]. reflexivity.
Qed.

Lemma run_causal_gates : forall i0 k gens (x1 x2 : pstr) p,
  Forall (fun x : pstr => length x = k) gens -> length x1 = i0 -> length x2 = k -> 0 <= p < 4 ->
  run_gates (i0 + k) (map (fun gen => rotation_gate (gen, 0) (Some (seq i0 k))) gens) [(x1 ++ x2, p)]
  = Some [(x1 ++ fst (rot_fold gens (x2, p)), snd (rot_fold gens (x2, p)))].
Proof.
  induction gens as [|gen gens IH]; intros x1 x2 p HF H1 H2 Hp; [reflexivity|].
  inversion_clear HF as [|? ? Hg HF']. cbn [map]. rewrite run_gates_cons.
  rewrite (rotation_gate_causal_acts (gen, 0) i0 k x1 x2 p) by assumption.
  unfold obind. rewrite rot_fold_cons.
  assert (W : wf k (rotate1 (gen, 0) (x2, p))).
  { apply rotate_wf; [apply gen0_wf; exact Hg|]. split; cbn [fst snd]; assumption. }
  destruct W as [W1 W2].
  rewrite (IH x1 (fst (rotate1 (gen, 0) (x2, p))) (snd (rotate1 (gen, 0) (x2, p)))) by assumption.
  destruct (rotate1 (gen, 0) (x2, p)) as [y q]. reflexivity.
Qed.

Lemma skipn_length_app : forall (A : Type) (x1 x2 : list A), skipn (length x1) (x1 ++ x2) = x2.
Proof. induction x1 as [|a x1 IH]; intros x2; [reflexivity|]. cbn [length app skipn]. apply IH. Qed.

(* causal diagonalize: gates act on qubits >= i0 only *)
Theorem diagonalize_pauli_causal_qubits : forall g i0, (i0 < length g)%nat ->
   Forall (fun gt => Forall (fun q => (i0 <= q)%nat) (gq gt)) (diagonalize_pauli g i0 true).
Proof.
  intros g i0 Hi. unfold diagonalize_pauli. apply Forall_forall. intros gt Hin.
  apply in_map_iff in Hin. destruct Hin as [gen [<- Hin]].
  assert (HL : length (skipn i0 g) = (length g - i0)%nat) by apply skipn_length.
  assert (H0 : (0 < length (skipn i0 g))%nat) by (rewrite HL; lia).
  pose proof (diag1_length (skipn i0 g) 0 H0) as HF. rewrite Forall_forall in HF. specialize (HF gen Hin).
  rewrite (rotation_gate_causal_eq (gen, 0) i0 (length g - i0)) by (cbn [fst]; rewrite HF; exact HL).
  cbn [gq]. apply Forall_forall. intros q Hq. apply in_map_iff in Hq. destruct Hq as [q' [<- _]]. lia.
Qed.

Lemma causal_circuit_split : forall i0 k (x1 x2 : pstr) p, length x1 = i0 -> length x2 = k -> (0 < k)%nat ->
  is_id_str x2 = false -> (p = 0 \/ p = 2) ->
  exists p', (p' = 0 \/ p' = 2) /\
  circuit_forward (i0 + k) (only_layers (circ_build (map IGate (diagonalize_pauli (x1 ++ x2) i0 true)))) [(x1 ++ x2, p)]
  = Some [(x1 ++ z_at k 0, p')].
Proof.
  intros i0 k x1 x2 p H1 H2 Hk Hid Hp.
  assert (Hk' : (0 < length x2)%nat) by (rewrite H2; exact Hk).
  assert (HF : Forall (fun x : pstr => length x = k) (diagonalize1 x2 0)).
  { pose proof (diag1_length x2 0 Hk') as H. rewrite H2 in H. exact H. }
  assert (Ha : wf k (x2, p)) by (split; cbn [fst snd]; [exact H2 | destruct Hp; lia]).
  assert (HH : hermP (x2, p)) by exact Hp.
  assert (Hr : 0 <= p < 4) by (destruct Hp; lia).
  assert (ED : diagonalize_pauli (x1 ++ x2) i0 true
               = map (fun gen => rotation_gate (gen, 0) (Some (seq i0 k))) (diagonalize1 x2 0)).
  { assert (ES : skipn i0 (x1 ++ x2) = x2) by (rewrite <- H1; apply skipn_length_app).
    unfold diagonalize_pauli. rewrite ES, app_length, H1, H2.
    replace (i0 + k - i0)%nat with k by lia. reflexivity. }
  rewrite ED.
  exists (snd (rot_fold (diagonalize1 x2 0) (x2, p))). split.
  - exact (rot_fold_herm k _ _ HF Ha HH).
  - rewrite program_sem.
    + rewrite gates_of_map_IGate. rewrite (run_causal_gates i0 k) by assumption.
      f_equal. f_equal. f_equal. f_equal.
      rewrite rot_fold_fst. cbn [fst]. rewrite diag1_spec by assumption. rewrite H2. reflexivity.
    + apply no_measure_map_IGate.
    + rewrite gates_of_map_IGate. apply Forall_forall. intros gt Hin.
      apply in_map_iff in Hin. destruct Hin as [gen [<- Hin]]. apply rotation_gate_causal_ok. cbn [fst].
      rewrite Forall_forall in HF. exact (HF gen Hin).
    + constructor; [|constructor]. split; cbn [fst snd]; [|exact Hr]. rewrite app_length, H1, H2. reflexivity.
Qed.

(* causal diagonalize: the part of the operator supported on qubits >= i0 goes to Z on qubit i0, earlier qubits untouched *)
Theorem diagonalize_pauli_causal_circuit : forall n g p i0, length g = n -> (i0 < n)%nat -> is_id_str (skipn i0 g) = false -> (p = 0 \/ p = 2) ->
   exists p', (p' = 0 \/ p' = 2) /\
   circuit_forward n (only_layers (circ_build (map IGate (diagonalize_pauli g i0 true)))) [(g, p)] = Some [(firstn i0 g ++ z_at (n - i0) 0, p')].
Proof.
  intros n g p i0 HL Hi Hid Hp.
  assert (H1 : length (firstn i0 g) = i0) by (apply firstn_length_le; lia).
  assert (H2 : length (skipn i0 g) = (n - i0)%nat) by (rewrite skipn_length, HL; reflexivity).
  destruct (causal_circuit_split i0 (n - i0) (firstn i0 g) (skipn i0 g) p H1 H2 ltac:(lia) Hid Hp) as [p' [Hp' E]].
  exists p'. split; [exact Hp'|].
  rewrite (firstn_skipn i0 g) in E. replace (i0 + (n - i0))%nat with n in E by lia. exact E.
Qed.

(* ------------------------------------------------------------------ extra: every generator of diagonalize1 is non-identity
   (so the side condition of [rotation_gate_acts] / [rotation_gate_ok] can always be discharged for these gates) *)
Lemma x_set_nontrivial : forall (x : pstr) i0, (i0 < length x)%nat -> fst (sget x i0) = true ->
  exists s, In s x /\ nontrivial s = true.
Proof.
  intros x i0 Hi Hx. exists (sget x i0). split; [unfold sget; apply nth_In; exact Hi|].
  unfold nontrivial. rewrite Hx. reflexivity.
Qed.

Lemma genB_x : forall a i0, (i0 < length a)%nat -> fst (sget (genB a i0) i0) = fst (sget a i0).
Proof. intros a i0 Hi. unfold genB, set_z. rewrite sget_upd_same by exact Hi. reflexivity. Qed.

Theorem diag1_nontrivial : forall g i0, (i0 < length g)%nat ->
  Forall (fun x : pstr => exists s, In s x /\ nontrivial s = true) (diagonalize1 g i0).
Proof.
  intros g i0 Hi. unfold diagonalize1. rewrite diag_stage1_eq.
  destruct (is_onsite g i0 && negb (fst (sget g i0))); [constructor|].
  destruct (fst (sget g i0)) eqn:Hx; cbn [negb fst].
  - constructor; [|constructor]. apply (x_set_nontrivial _ i0); [rewrite genB_length; exact Hi|].
    rewrite genB_x by exact Hi. exact Hx.
  - assert (HLa : length (gxor g (genA g i0)) = length g) by (apply gxor_length; rewrite genA_length; reflexivity).
    constructor; [|constructor; [|constructor]].
    + apply (x_set_nontrivial _ i0); [rewrite genA_length; exact Hi | apply genA_x; exact Hi].
    + apply (x_set_nontrivial _ i0); [rewrite genB_length, HLa; exact Hi|].
      rewrite genB_x by (rewrite HLa; exact Hi).
      rewrite sget_gxor by (rewrite genA_length; reflexivity). rewrite xor_site_spec. cbn [fst].
      rewrite Hx, genA_x by exact Hi. reflexivity.
Qed.

