(* Proofs/RandomFacts.v -- the random-pair construction (utils.random_pair after the draw) is valid
   and exactly two-to-one; random_pauli_from has 2N rows. *)
From Coq Require Import ZArith List Bool Lia ZifyBool Arith.
From PC Require Import Gen.Kernels Model.Base Model.Pauli Model.Ket Model.Spec Proofs.PauliFacts.
From PC Require Import Model.Diag Model.Random.
Import ListNotations.
Open Scope Z_scope.
Ltac Zify.zify_post_hook ::= Z.to_euclidean_division_equations.

(* ------------------------------------------------------------------ site level *)
Definition shift_site (s1 s2 : site) : site :=
  (xorb (fst s2) (snd s1), xorb (snd s2) (xorb (fst s1) (snd s1))).

Lemma shift_site_involutive : forall s1 s2, shift_site s1 (shift_site s1 s2) = s2.
Proof. intros [[|] [|]] [[|] [|]]; reflexivity. Qed.

Lemma shift_site_flips : forall s1 s2, nontrivial s1 = true ->
  acqb_site s1 (shift_site s1 s2) = negb (acqb_site s1 s2).
Proof. intros [[|] [|]] [[|] [|]] H; try discriminate H; reflexivity. Qed.

Lemma shift_site_distinct : forall s1 s2, nontrivial s1 = true -> shift_site s1 s2 <> s2.
Proof. intros [[|] [|]] [[|] [|]] H; try discriminate H; intro E; discriminate E. Qed.

Lemma acqb_site_trivial_l : forall s t, nontrivial s = false -> acqb_site s t = false.
Proof. intros [[|] [|]] [[|] [|]] H; try discriminate H; reflexivity. Qed.

Arguments shift_site : simpl never.

(* ------------------------------------------------------------------ front *)
Lemma is_id_str_cons : forall s g, is_id_str (s :: g) = negb (nontrivial s) && is_id_str g.
Proof. reflexivity. Qed.

Lemma front_from_S : forall g i, is_id_str g = false -> front_from (S i) g = S (front_from i g).
Proof.
  induction g as [|s g IH]; intros i H; [discriminate H|].
  rewrite is_id_str_cons in H. cbn [front_from].
  destruct (nontrivial s); [reflexivity|]. cbn [negb andb] in H. apply IH; exact H.
Qed.

Lemma front_cons : forall s g, is_id_str (s :: g) = false ->
  front (s :: g) = if nontrivial s then 0%nat else S (front g).
Proof.
  intros s g H. unfold front. cbn [front_from]. rewrite is_id_str_cons in H.
  destruct (nontrivial s); [reflexivity|]. cbn [negb andb] in H. apply front_from_S; exact H.
Qed.

Lemma front_nontrivial : forall g, is_id_str g = false ->
  (front g < length g)%nat /\ nontrivial (sget g (front g)) = true.
Proof.
  induction g as [|s g IH]; intros H; [discriminate H|].
  rewrite (front_cons s g H). rewrite is_id_str_cons in H.
  destruct (nontrivial s) eqn:E.
  - split; [cbn [length]; lia | exact E].
  - cbn [negb andb] in H. destruct (IH H) as [H1 H2]. split; [cbn [length]; lia|].
    unfold sget in *. cbn [nth]. exact H2.
Qed.

(* ------------------------------------------------------------------ shift *)
(* the correction applied to a commuting g2 *)
Definition shift (g1 g2 : pstr) : pstr :=
  let i := front g1 in let s1 := sget g1 i in let s2 := sget g2 i in
  upd g2 i (xorb (fst s2) (snd s1), xorb (snd s2) (xorb (fst s1) (snd s1))).

Lemma shift_cons : forall a g1 b g2, is_id_str (a :: g1) = false ->
  shift (a :: g1) (b :: g2) = if nontrivial a then shift_site a b :: g2 else b :: shift g1 g2.
Proof.
  intros a g1 b g2 H. unfold shift. rewrite (front_cons a g1 H).
  destruct (nontrivial a); unfold sget; cbn [nth upd]; reflexivity.
Qed.

Lemma fix_pair_eq : forall g1 g2,
  fix_pair g1 g2 = if acq g1 g2 =? 0 then (g1, shift g1 g2) else (g1, g2).
Proof. reflexivity. Qed.

Lemma upd_length : forall (A : Type) (l : list A) i v, length (upd l i v) = length l.
Proof.
  induction l as [|a l IH]; intros [|i] v; cbn [upd length]; try reflexivity.
  rewrite IH; reflexivity.
Qed.

Lemma shift_length : forall g1 g2, length (shift g1 g2) = length g2.
Proof. intros; unfold shift; apply upd_length. Qed.

Arguments shift : simpl never.

Lemma shift_involutive_aux : forall g1 g2, length g2 = length g1 -> is_id_str g1 = false ->
  shift g1 (shift g1 g2) = g2.
Proof.
  induction g1 as [|a g1 IH]; intros [|b g2] HL H; try discriminate HL; try discriminate H.
  rewrite (shift_cons a g1 b g2 H). pose proof H as H'. rewrite is_id_str_cons in H'.
  destruct (nontrivial a) eqn:E.
  - rewrite (shift_cons _ _ _ _ H), E, shift_site_involutive. reflexivity.
  - rewrite (shift_cons _ _ _ _ H), E. cbn [negb andb] in H'. cbn [length] in HL.
    rewrite IH; [reflexivity | lia | exact H'].
Qed.

Lemma shift_flips_b : forall g1 g2, length g2 = length g1 -> is_id_str g1 = false ->
  acqb g1 (shift g1 g2) = negb (acqb g1 g2).
Proof.
  induction g1 as [|a g1 IH]; intros [|b g2] HL H; try discriminate HL; try discriminate H.
  rewrite (shift_cons a g1 b g2 H). pose proof H as H'. rewrite is_id_str_cons in H'.
  destruct (nontrivial a) eqn:E.
  - cbn [acqb]. rewrite (shift_site_flips a b E).
    destruct (acqb_site a b), (acqb g1 g2); reflexivity.
  - cbn [negb andb] in H'. cbn [length] in HL. cbn [acqb].
    rewrite IH; [| lia | exact H'].
    rewrite (acqb_site_trivial_l a b E). destruct (acqb g1 g2); reflexivity.
Qed.

Lemma shift_distinct_aux : forall g1 t, length t = length g1 -> is_id_str g1 = false -> shift g1 t <> t.
Proof.
  induction g1 as [|a g1 IH]; intros [|b g2] HL H; try discriminate HL; try discriminate H.
  rewrite (shift_cons a g1 b g2 H). pose proof H as H'. rewrite is_id_str_cons in H'.
  destruct (nontrivial a) eqn:E; intro EQ.
  - injection EQ as EQ. exact (shift_site_distinct a b E EQ).
  - injection EQ as EQ. cbn [negb andb] in H'. cbn [length] in HL.
    apply (IH g2); [lia | exact H' | exact EQ].
Qed.

(* ------------------------------------------------------------------ the requested theorems *)
Theorem fix_pair_fst : forall g1 g2, fst (fix_pair g1 g2) = g1.
Proof. intros. rewrite fix_pair_eq. destruct (acq g1 g2 =? 0); reflexivity. Qed.

Theorem fix_pair_len : forall g1 g2, length g2 = length g1 -> length (snd (fix_pair g1 g2)) = length g1.
Proof.
  intros g1 g2 H. rewrite fix_pair_eq. destruct (acq g1 g2 =? 0); cbn [snd]; [rewrite shift_length|]; exact H.
Qed.

Theorem shift_involutive : forall g1 g2, length g2 = length g1 -> is_id_str g1 = false -> shift g1 (shift g1 g2) = g2.
Proof. exact shift_involutive_aux. Qed.

Theorem shift_flips : forall g1 g2, length g2 = length g1 -> is_id_str g1 = false ->
  acq g1 (shift g1 g2) = 1 - acq g1 g2.
Proof.
  intros g1 g2 HL H. rewrite !acq_acqb, (shift_flips_b g1 g2 HL H).
  destruct (acqb g1 g2); reflexivity.
Qed.

Theorem fix_pair_anticommute : forall g1 g2, length g2 = length g1 -> is_id_str g1 = false ->
  acq g1 (snd (fix_pair g1 g2)) = 1.
Proof.
  intros g1 g2 HL H. rewrite fix_pair_eq. destruct (acq g1 g2 =? 0) eqn:E; cbn [snd].
  - rewrite (shift_flips g1 g2 HL H). apply Z.eqb_eq in E. lia.
  - apply Z.eqb_neq in E. destruct (acq_01 g1 g2); lia.
Qed.

(* exactly two raw draws g2 give each anticommuting partner t: t itself (already anticommuting)
   and shift g1 t (commuting) *)
Theorem fix_pair_two_to_one : forall g1 g2 t, length g2 = length g1 -> length t = length g1 ->
  is_id_str g1 = false -> acq g1 t = 1 ->
  (snd (fix_pair g1 g2) = t <-> (g2 = t \/ g2 = shift g1 t)).
Proof.
  intros g1 g2 t HL Ht H HA. rewrite fix_pair_eq.
  destruct (acq g1 g2 =? 0) eqn:E; cbn [snd].
  - apply Z.eqb_eq in E. split.
    + intro EQ. right. rewrite <- EQ. symmetry. apply shift_involutive; assumption.
    + intros [EQ|EQ].
      * rewrite EQ in E. lia.
      * rewrite EQ. apply shift_involutive; assumption.
  - apply Z.eqb_neq in E. split.
    + intro EQ; left; exact EQ.
    + intros [EQ|EQ]; [exact EQ|]. exfalso. apply E. rewrite EQ.
      rewrite (shift_flips g1 t Ht H). lia.
Qed.

Theorem shift_distinct : forall g1 t, length t = length g1 -> is_id_str g1 = false -> shift g1 t <> t.
Proof. exact shift_distinct_aux. Qed.

(* ------------------------------------------------------------------ random_pauli_from *)
Lemma flat_map_length2 : forall (A B : Type) (f : A -> list B) (l : list A),
  (forall x, length (f x) = 2%nat) -> length (flat_map f l) = (2 * length l)%nat.
Proof.
  intros A B f l Hf. induction l as [|a l IH]; [reflexivity|].
  cbn [flat_map]. rewrite app_length, Hf, IH. cbn [length]. lia.
Qed.

Theorem random_pauli_rows : forall pairs, length (random_pauli_from pairs) = (2 * length pairs)%nat.
Proof.
  intros pairs. unfold random_pauli_from. rewrite flat_map_length2.
  - rewrite combine_length, seq_length, Nat.min_id. reflexivity.
  - intros [i [a b]]. reflexivity.
Qed.
